#!/bin/sh
# Builds /verif/bin/irislint from /verif/tool using only the module cache.
set -eu
cd "$(dirname "$0")/tool"
export GOFLAGS=-mod=mod GOPROXY=off GOSUMDB=off GOTOOLCHAIN=local GOWORK=off
mkdir -p ../bin ../evidence
go build -o ../bin/irislint .
echo "irislint built"
