#!/usr/bin/env python3
"""Regenerates MANIFEST.json from manifest_src.json (the per-property table kept by hand)."""
import json, sys
src = json.load(open('manifest_src.json'))
props = [json.loads(l) for l in open('properties.jsonl')]
checks = []
na = []
for p in props:
    pid = p['id']
    e = src['checks'].get(pid)
    if e is None or e.get('not_applicable'):
        na.append({"property_id": pid, "reason": (e or {}).get('reason', 'static rule designed (DESIGN.md) but not built yet')})
        continue
    checks.append({
        "property_id": pid,
        "quick_cmd": "./check.sh %s quick" % pid,
        "thorough_cmd": "./check.sh %s thorough" % pid,
        "evidence_file": "/verif/evidence/%s.json" % pid,
        "replay_cmd_template": "./check.sh %s quick # violations listed in {path}" % pid,
        "engine": "irislint",
        "level_claimed": {"category": e['category'], "text": e['text'], "design_ref": e.get('design_ref', 'DESIGN.md §4.' + pid)},
        "level_note": e['note'],
        "technique": e['technique'],
    })
m = {
    "version": 1,
    "setup_cmd": "./setup.sh",
    "hooks": {
        "guard": "verif",
        "enable": "none: static analysis needs no instrumentation of /repo; no hook commits exist",
        "baseline_off_cmd": "for m in $(cat /w/out/gomods.txt); do MF=$(cd /repo/$m && . /w/out/goenv.sh && gomodflag); (cd /repo/$m && go test $MF -json -vet=off -count=1 -timeout 25m ./...); done",
        "source_commits": [],
        "add_only": True,
    },
    "engines": [{"name": "irislint", "path": "tool", "serves_properties": [c['property_id'] for c in checks],
                 "kind_free_text": "repository-specific static analyser: go/packages type-checked program, go/ssa CFG + dominators, own call graph with entry-point roles, store/bank effect abstraction, descriptor decoding"}],
    "checks": checks,
    "notes": src.get('notes', ''),
    "not_applicable": na,
}
json.dump(m, open('MANIFEST.json', 'w'), indent=1)
print("checks:", len(checks), "not_applicable:", len(na))
