package keeper_test

// Demonstration for C07 (copy into modules/service/keeper/ to run): an owner with two
// providers that earned fees in different denominations withdraws for one provider;
// the owner-side tally of that denomination must drop to zero. Before the fix the stale
// per-denom entry survives and a later owner-wide withdrawal pays it a second time out
// of the request-fee escrow.

import (
	"cosmossdk.io/math"
	sdk "github.com/cosmos/cosmos-sdk/types"

	"mods.irisnet.org/modules/service/types"
)

func (suite *KeeperTestSuite) TestZZOwnerTallyAfterProviderWithdraw() {
	k, ctx := suite.keeper, suite.ctx
	k.SetOwner(ctx, testProvider, testOwner)
	k.SetOwnerProvider(ctx, testOwner, testProvider)
	k.SetOwner(ctx, testProvider1, testOwner)
	k.SetOwnerProvider(ctx, testOwner, testProvider1)

	feeA := sdk.NewCoins(sdk.NewCoin("stake", math.NewInt(100)))
	feeB := sdk.NewCoins(sdk.NewCoin(testDenom1, math.NewInt(40)))
	// fees of two answered requests sit in the request escrow, plus 1000stake that belongs to other users
	suite.addCoinsToModule(types.RequestAccName, feeA.Add(feeB...).Add(sdk.NewCoin("stake", math.NewInt(1000))))
	suite.NoError(k.AddEarnedFee(ctx, testProvider, feeA))
	suite.NoError(k.AddEarnedFee(ctx, testProvider1, feeB))

	earnedA, _ := k.GetEarnedFees(ctx, testProvider)
	suite.NoError(k.WithdrawEarnedFees(ctx, testOwner, testProvider))

	ownerTally, _ := k.GetOwnerEarnedFees(ctx, testOwner)
	earnedB, _ := k.GetEarnedFees(ctx, testProvider1)
	suite.T().Logf("provider A earned %s (withdrawn); provider B earned %s; owner tally now %s", earnedA, earnedB, ownerTally)
	suite.Equal(earnedB.String(), ownerTally.String(), "owner-side tally must equal the sum of the providers' tallies")

	// the owner-wide withdrawal must pay only what is still owed
	before := suite.app.BankKeeper.GetAllBalances(ctx, testOwner)
	suite.NoError(k.WithdrawEarnedFees(ctx, testOwner, nil))
	after := suite.app.BankKeeper.GetAllBalances(ctx, testOwner)
	suite.Equal(earnedB.String(), after.Sub(before...).String(), "second withdrawal must pay exactly provider B's fees")
}
