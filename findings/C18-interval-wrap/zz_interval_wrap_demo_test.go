package keeper_test

// Demonstration for C18 (copy into modules/random/keeper/ to run): MsgRequestRandom with
// BlockInterval 2^64-1 (or 2^63) passes ValidateBasic. Before the fix RequestRandom
// converted it to int64 and added it to the current height: the request was queued under
// height h-1 (resp. a negative height). The begin blocker of block h+1 serves the bucket
// of height h, every later one a later bucket: the entry is never served and never
// removed. After the fix the request is rejected.

import (
	"math"

	"mods.irisnet.org/modules/random/types"
)

func (suite *KeeperTestSuite) TestZZIntervalWrap() {
	suite.ctx = suite.ctx.WithBlockHeight(testHeight).WithTxBytes(testTxBytes)
	for _, n := range []uint64{math.MaxUint64, 1 << 63} {
		msg := types.MsgRequestRandom{BlockInterval: n, Consumer: testConsumer.String()}
		suite.NoError(msg.ValidateBasic())
		_, err := suite.keeper.RequestRandom(suite.ctx, testConsumer, n, false, nil)
		queued := 0
		suite.keeper.IterateRandomRequestQueue(suite.ctx, func(h int64, reqID []byte, r types.Request) bool {
			suite.T().Logf("interval %d at height %d: queued under height %d", n, testHeight, h)
			queued++
			suite.keeper.DequeueRandomRequest(suite.ctx, h, reqID)
			return false
		})
		suite.Error(err, "an interval that wraps the destination height must be rejected")
		suite.Equal(0, queued, "nothing may be queued under a past or negative height")
	}
}
