package keeper_test

// Demonstration for C12 (copy into modules/service/keeper/ to run; FAILS on the current
// tree — recorded as a known finding): a request context created by a valid CallService
// is RUNNING. ExportGenesis exports contexts as they are; ValidateGenesis refuses every
// context whose State is not PAUSED (and every one whose BatchState is not COMPLETED),
// so an as-is export of a chain with a live context cannot be imported. Only the
// zero-height preparation step (PrepForZeroHeightGenesis) rewrites the contexts first.

import (
	sdk "github.com/cosmos/cosmos-sdk/types"

	"mods.irisnet.org/modules/service"
	"mods.irisnet.org/modules/service/types"
)

func (suite *KeeperTestSuite) TestZZExportOfRunningContextValidates() {
	suite.setServiceDefinition()
	ctx := suite.ctx.WithBlockHeight(1000)
	_, err := suite.keeper.CreateRequestContext(
		ctx, testServiceName, []sdk.AccAddress{testProvider}, testConsumer, testInput,
		testServiceFeeCap, testTimeout, true, testRepeatedFreq, testRepeatedTotal, types.RUNNING, 0, "",
	)
	suite.NoError(err)
	exported := service.ExportGenesis(ctx, suite.keeper)
	suite.Len(exported.RequestContexts, 1)
	suite.NoError(types.ValidateGenesis(*exported), "the module's as-is export must be accepted by its own import validation")
}
