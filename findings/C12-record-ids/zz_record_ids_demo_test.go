package keeper_test

// Demonstration for C12 (copy into modules/record/keeper/ to run; FAILS on the current
// tree — recorded as a known finding, the repair needs the id or the counter in the
// genesis format): record ids are tmhash(record bytes || running counter). The counter is
// not exported and the export lists records in id (hash) order, so InitGenesis hands out
// counters 0..n-1 in a different order than the live chain did and most records come back
// under a different id: an id returned by MsgCreateRecord no longer resolves after a
// restart from the export.

import (
	"fmt"

	"mods.irisnet.org/modules/record"
	"mods.irisnet.org/modules/record/types"
)

func (suite *KeeperTestSuite) TestZZRecordIdsSurviveExportImport() {
	var ids [][]byte
	for i := 0; i < 6; i++ {
		rec := types.NewRecord([]byte(fmt.Sprintf("tx-%d", i)), []types.Content{{Digest: fmt.Sprintf("digest-%d", i), DigestAlgo: "SHA256"}}, testCreator)
		ids = append(ids, suite.keeper.AddRecord(suite.ctx, rec))
	}
	exported := record.ExportGenesis(suite.ctx, suite.keeper)
	suite.Len(exported.Records, 6)

	// a fresh application (empty record store), then import
	suite.SetupTest()
	record.InitGenesis(suite.ctx, suite.keeper, *exported)

	missing := 0
	for _, id := range ids {
		if _, found := suite.keeper.GetRecord(suite.ctx, id); !found {
			missing++
		}
	}
	suite.Zero(missing, "%d of 6 record ids no longer resolve after export/import", missing)
}
