package keeper_test

// Demonstration for C12 (copy into modules/oracle/keeper/ to run): before the fix this failed.
// A feed that holds three values is exported; the
// export is imported into an emptied oracle store. InitGenesis writes every exported value
// of the feed under the single key (feed name, the context's current batch counter), so
// only the last list element — the OLDEST value, the export lists newest first — survives.

import (
	"time"

	"cosmossdk.io/math"
	storetypes "cosmossdk.io/store/types"
	sdk "github.com/cosmos/cosmos-sdk/types"

	"mods.irisnet.org/modules/oracle"
	"mods.irisnet.org/modules/oracle/types"
)

func (suite *KeeperTestSuite) TestZZImportKeepsAllFeedValues() {
	msg := &types.MsgCreateFeed{
		FeedName: "ethPrice", ServiceName: "GetEthPrice", AggregateFunc: "avg", ValueJsonPath: "high",
		LatestHistory: 5, Providers: []string{addrs[1]}, Input: `{"header":{},"body":{}}`, Timeout: 10,
		ServiceFeeCap:     sdk.NewCoins(sdk.NewCoin(sdk.DefaultBondDenom, math.NewInt(100))),
		RepeatedFrequency: 11, ResponseThreshold: 1, Creator: addrs[0],
	}
	suite.NoError(suite.keeper.CreateFeed(suite.ctx, msg))
	now := time.Unix(1700000000, 0).UTC()
	for i, d := range []string{"1.0", "2.0", "3.0"} {
		suite.keeper.SetFeedValue(suite.ctx, msg.FeedName, uint64(i+1), msg.LatestHistory, types.FeedValue{Data: d, Timestamp: now.Add(time.Duration(i) * time.Minute)})
	}
	before := suite.keeper.GetFeedValues(suite.ctx, msg.FeedName)
	suite.Len(before, 3)

	exported := oracle.ExportGenesis(suite.ctx, suite.keeper)
	suite.Len(exported.Entries[0].Values, 3)

	// empty the oracle store, then import
	store := suite.ctx.KVStore(suite.app.GetKey(types.StoreKey))
	var keys [][]byte
	it := storetypes.KVStorePrefixIterator(store, nil)
	for ; it.Valid(); it.Next() {
		keys = append(keys, it.Key())
	}
	it.Close()
	for _, k := range keys {
		store.Delete(k)
	}
	oracle.InitGenesis(suite.ctx, suite.keeper, *exported)

	after := suite.keeper.GetFeedValues(suite.ctx, msg.FeedName)
	suite.T().Logf("values before export: %v; after import: %v", before, after)
	suite.Equal(before, after, "the feed's values must survive export/import")
}
