package keeper_test

// Demonstration for C08 (copy into modules/service/keeper/ to run): a consumer calls the
// built-in module service "oracle-price" with a valid MsgCallService. RequestModuleService
// loads the new context, then InitiateRequests and AddResponse update and store it (batch
// counter 1, one request, one response, batch completed) - and then the copy loaded at
// the start is written back with only State changed, discarding all of that: the stored
// context says no batch was ever issued (counter 0, 0 requests, 0 responses) although its
// request and response exist under batch 1.

import (
	"encoding/hex"
	"fmt"

	sdk "github.com/cosmos/cosmos-sdk/types"

	"mods.irisnet.org/modules/service/keeper"
	"mods.irisnet.org/modules/service/types"
)

func (suite *KeeperTestSuite) TestZZModuleServiceContextKeepsItsBatchRecord() {
	ctx := suite.ctx.WithBlockHeight(1000)
	oracle := MockOracleService{feeds: map[string]string{fmt.Sprintf("%s-%s", testDenom1, sdk.DefaultBondDenom): "0.5"}}
	suite.keeper.SetModuleService(types.RegisterModuleName, &types.ModuleService{
		ServiceName: types.OraclePriceServiceName, Provider: types.OraclePriceServiceProvider, ReuquestService: oracle.GetExchangeRate,
	})
	// the definition and binding of the built-in service as the default genesis creates them
	suite.keeper.SetServiceDefinition(ctx, types.GenOraclePriceSvcDefinition())
	binding := types.GenOraclePriceSvcBinding(sdk.DefaultBondDenom)
	suite.keeper.SetServiceBinding(ctx, binding)
	pricing, err := types.ParsePricing(binding.Pricing)
	suite.NoError(err)
	suite.keeper.SetPricing(ctx, types.OraclePriceServiceName, types.OraclePriceServiceProvider, pricing)

	msg := &types.MsgCallService{
		ServiceName: types.OraclePriceServiceName, Providers: []string{types.OraclePriceServiceProvider.String()}, Consumer: testConsumer.String(),
		Input: fmt.Sprintf(`{"header":{},"body":{"pair":"%s-%s"}}`, testDenom1, sdk.DefaultBondDenom), ServiceFeeCap: testServiceFeeCap, Timeout: 1,
	}
	suite.NoError(msg.ValidateBasic())
	res, err := keeper.NewMsgServerImpl(suite.keeper).CallService(ctx, msg)
	suite.NoError(err)
	id, _ := hex.DecodeString(res.RequestContextId)

	rc, found := suite.keeper.GetRequestContext(ctx, id)
	suite.True(found)
	n := 0
	it := suite.keeper.RequestsIteratorByReqCtx(ctx, id, 1)
	for ; it.Valid(); it.Next() {
		n++
	}
	it.Close()
	suite.T().Logf("context: state %s batch counter %d requests %d responses %d; requests stored under batch 1: %d", rc.State, rc.BatchCounter, rc.BatchRequestCount, rc.BatchResponseCount, n)
	suite.Equal(1, n, "one request was issued under batch 1")
	suite.Equal(uint64(1), rc.BatchCounter, "the context must record the batch it issued")
	suite.Equal(uint32(1), rc.BatchRequestCount)
	suite.Equal(uint32(1), rc.BatchResponseCount)
	suite.Equal(types.COMPLETED, rc.State)
}
