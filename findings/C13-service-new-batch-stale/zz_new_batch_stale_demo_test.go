package keeper_test

// Demonstration for C13 (copy into modules/service/keeper/ to run; failed before the fix): a provider binds a
// service priced in a non-base denomination (allowed while RestrictedServiceFeeDenom is
// false, the default) while an exchange-rate feed for it exists; later the feed stops
// answering (paused, no fresh value). A consumer's valid MsgCallService
// creates a RUNNING repeated context and schedules its first batch for this block. In the
// end blocker the price cannot be converted; before the fix the new-batch body returned
// without removing the queue entry and its height record: the entry stayed behind at a
// past height for ever, and since StartRequestContext re-schedules a context only when it
// has no entry, pausing and restarting the context could never schedule it again.

import (
	"encoding/hex"
	"fmt"

	tmbytes "github.com/cometbft/cometbft/libs/bytes"
	"cosmossdk.io/math"
	sdk "github.com/cosmos/cosmos-sdk/types"

	"mods.irisnet.org/modules/service"
	"mods.irisnet.org/modules/service/keeper"
	"mods.irisnet.org/modules/service/types"
)

func (suite *KeeperTestSuite) TestZZNewBatchEntryRemovedWhenPriceUnavailable() {
	suite.setServiceDefinition()
	suite.addCoinsToAddr(testProvider, sdk.NewCoins(sdk.NewCoin(testDenom1, math.NewInt(1000))))
	ctx := suite.ctx.WithBlockHeight(1000)
	oracle := MockOracleService{feeds: map[string]string{fmt.Sprintf("%s-%s", testDenom1, sdk.DefaultBondDenom): "0.5"}}
	suite.keeper.SetModuleService(types.RegisterModuleName, &types.ModuleService{ReuquestService: oracle.GetExchangeRate})
	suite.NoError(suite.keeper.AddServiceBinding(ctx, testServiceName, testProvider, testDeposit,
		`{"price":"2`+testDenom1+`"}`, testQoS, testOptions, testOwner))
	// the feed stops answering
	stale := MockOracleService{feeds: map[string]string{}}
	suite.keeper.SetModuleService(types.RegisterModuleName, &types.ModuleService{ReuquestService: stale.GetExchangeRate})

	msg := &types.MsgCallService{
		ServiceName: testServiceName, Providers: []string{testProvider.String()}, Consumer: testConsumer.String(),
		Input: testInput, ServiceFeeCap: testServiceFeeCap, Timeout: testTimeout,
		Repeated: true, RepeatedFrequency: testRepeatedFreq, RepeatedTotal: testRepeatedTotal,
	}
	suite.NoError(msg.ValidateBasic())
	res, err := keeper.NewMsgServerImpl(suite.keeper).CallService(ctx, msg)
	suite.NoError(err)
	id, _ := hex.DecodeString(res.RequestContextId)
	suite.True(suite.keeper.HasNewRequestBatch(ctx, id))

	service.EndBlocker(ctx, suite.keeper)

	// the entry due at height 1000 has been processed: it must be gone
	later := ctx.WithBlockHeight(1001)
	n := 0
	suite.keeper.IterateNewRequestBatch(later, 1000, func(_ tmbytes.HexBytes, _ *types.RequestContext) { n++ })
	suite.Zero(n, "the processed new-batch entry of height 1000 is still queued")
	rc, _ := suite.keeper.GetRequestContext(later, id)
	suite.T().Logf("context state %s, batch state %s, on new-batch list: %v, on expired list: %v", rc.State, rc.BatchState,
		suite.keeper.HasNewRequestBatch(later, id), suite.keeper.HasRequestBatchExpiration(later, id))
	// the context is RUNNING: it must be scheduled somewhere in the future, exactly once
	suite.True(suite.keeper.HasNewRequestBatch(later, id) != suite.keeper.HasRequestBatchExpiration(later, id),
		"a RUNNING context must have exactly one pending queue entry")
}
