package keeper_test

// Demonstration for C16 (copy into modules/token/keeper/ to run): the token parameter
// validation only refused a negative IssueTokenBaseFee. A base fee whose denom no coin
// can carry ("!") passed Params.Validate and SetParams; from then on every MsgIssueToken
// and MsgMintToken panicked while computing the fee (sdk.NewCoin on the stored denom).
// After the fix the parameter set is rejected.

import (
	sdkmath "cosmossdk.io/math"
	sdk "github.com/cosmos/cosmos-sdk/types"
)

func (suite *KeeperTestSuite) TestZZFeeDenomDemo() {
	params := suite.keeper.GetParams(suite.ctx)
	params.IssueTokenBaseFee = sdk.Coin{Denom: "!", Amount: sdkmath.NewInt(60000)}
	suite.Error(params.Validate(), "a base fee with a malformed denom must not validate")
	if err := suite.keeper.SetParams(suite.ctx, params); err == nil {
		suite.NotPanics(func() { _ = suite.keeper.DeductIssueTokenFee(suite.ctx, owner, "btc") },
			"charging the issue fee under an accepted parameter set must not abort")
	}
}
