package keeper_test

// Demonstration for C16 (copy into modules/coinswap/keeper/ to run): the coinswap
// parameter validation looked only at the amount of PoolCreationFee. A fee whose denom
// no coin can carry ("!") passed Params.Validate, MsgUpdateParams.ValidateBasic and
// SetParams; from then on every MsgAddLiquidity that creates a pool panicked in
// DeductPoolCreationFee (sdk.NewCoin on the stored denom) - an operation that succeeds
// under the default parameters. After the fix the parameter set is rejected.

import (
	"time"

	sdkmath "cosmossdk.io/math"
	sdk "github.com/cosmos/cosmos-sdk/types"

	"mods.irisnet.org/modules/coinswap/types"
)

func (suite *TestSuite) TestZZFeeDenomDemo() {
	params := suite.keeper.GetParams(suite.ctx)
	params.PoolCreationFee = sdk.Coin{Denom: "!", Amount: sdkmath.NewInt(1)}
	suite.Error(params.Validate(), "a creation fee with a malformed denom must not validate")
	if err := suite.keeper.SetParams(suite.ctx, params); err == nil {
		msg := types.NewMsgAddLiquidity(
			sdk.NewCoin(denomBTC, sdkmath.NewInt(1000)), sdkmath.NewInt(1000), sdkmath.NewInt(1),
			time.Now().Add(time.Minute).Unix(), addrSender1.String(),
		)
		suite.NotPanics(func() { _, _ = suite.keeper.AddLiquidity(suite.ctx, msg) },
			"creating a pool under an accepted parameter set must not abort")
	}
}
