package keeper_test

// Demonstration for C12 (copy into modules/htlc/keeper/ to run): a plain HTLC created
// through the message server with timestamp 0 (the documented "no timestamp" form, see
// GetHashLock) is open at export time; the exported genesis must pass the module's own
// ValidateGenesis. Before the fix HTLC.Validate refused every record with Timestamp == 0,
// so a chain holding such an HTLC could not be restarted from its export.

import (
	tmbytes "github.com/cometbft/cometbft/libs/bytes"
	sdk "github.com/cosmos/cosmos-sdk/types"

	"mods.irisnet.org/modules/htlc"
	"mods.irisnet.org/modules/htlc/keeper"
	"mods.irisnet.org/modules/htlc/types"
)

func (suite *HTLCTestSuite) TestZZExportWithZeroTimestampValidates() {
	secret := []byte("01234567890123456789012345678901")
	hashLock := tmbytes.HexBytes(types.GetHashLock(secret, 0))
	msg := types.NewMsgCreateHTLC(
		suite.addrs[0].String(), suite.addrs[1].String(), "", "",
		sdk.NewCoins(sdk.NewInt64Coin(OTHER_DENOM, 10)), hashLock.String(), 0, 60, false,
	)
	suite.NoError(msg.ValidateBasic())
	_, err := keeper.NewMsgServerImpl(suite.keeper).CreateHTLC(suite.ctx, &msg)
	suite.NoError(err)

	exported := htlc.ExportGenesis(suite.ctx, suite.keeper)
	suite.Len(exported.Htlcs, 1)
	suite.NoError(types.ValidateGenesis(*exported), "the module's export must be accepted by its own import validation")
}
