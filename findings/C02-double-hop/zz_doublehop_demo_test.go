package keeper_test

// Demonstration for C02 (copy into modules/coinswap/keeper/ to run):
// a routed token-to-token swap with recipient != sender must leave the
// intermediate standard coin untouched for both parties.

import (
	"time"

	sdkmath "cosmossdk.io/math"
	sdk "github.com/cosmos/cosmos-sdk/types"

	"mods.irisnet.org/modules/coinswap/types"
)

func (suite *TestSuite) TestZZDoubleHopRecipient() {
	sender, _ := createReservePool(suite, denomBTC)
	_, _ = createReservePool(suite, denomETH)
	recipient := sdk.AccAddress(getRandomString(20))
	_ = suite.app.AccountKeeper.NewAccountWithAddress(suite.ctx, recipient)

	senderStdBefore := suite.app.BankKeeper.GetBalance(suite.ctx, sender, denomStandard)
	recipStdBefore := suite.app.BankKeeper.GetBalance(suite.ctx, recipient, denomStandard)

	msg := types.NewMsgSwapOrder(
		types.Input{Coin: sdk.NewCoin(denomBTC, sdkmath.NewInt(1000)), Address: sender.String()},
		types.Output{Coin: sdk.NewCoin(denomETH, sdkmath.NewInt(100)), Address: recipient.String()},
		time.Now().Add(1*time.Minute).Unix(),
		true,
	)
	suite.Require().NoError(suite.keeper.Swap(suite.ctx, msg))

	senderStdAfter := suite.app.BankKeeper.GetBalance(suite.ctx, sender, denomStandard)
	recipStdAfter := suite.app.BankKeeper.GetBalance(suite.ctx, recipient, denomStandard)
	suite.T().Logf("sender standard %s -> %s, recipient standard %s -> %s", senderStdBefore, senderStdAfter, recipStdBefore, recipStdAfter)
	suite.Equal(senderStdBefore.String(), senderStdAfter.String(), "sender's standard coin balance must not change")
	suite.Equal(recipStdBefore.String(), recipStdAfter.String(), "recipient's standard coin balance must not change")
	suite.Equal("100"+denomETH, suite.app.BankKeeper.GetBalance(suite.ctx, recipient, denomETH).String())
}
