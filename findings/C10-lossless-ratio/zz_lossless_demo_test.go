package types

import (
	"testing"

	"cosmossdk.io/math"
)

// never mints more than the burned amount is worth at the configured ratio
func TestZZLossLessRatio2(t *testing.T) {
	in := Int("1250000000000") // 1.25e12 min units of an 18-decimals token
	ratio := math.LegacyNewDec(2)
	burned, minted := LossLessSwap(in, ratio, 18, 6)
	// worth of the burned amount in output min units: burned * 10^-12 * 2
	worth := math.LegacyNewDecFromInt(burned).Mul(math.LegacyNewDecWithPrec(1, 12)).Mul(ratio)
	t.Logf("offered %s burned %s minted %s worth-of-burned %s", in, burned, minted, worth)
	if math.LegacyNewDecFromInt(minted).GT(worth) {
		t.Fatalf("minted %s > worth of burned %s", minted, worth)
	}
	if burned.GT(in) {
		t.Fatalf("burned more than offered")
	}
}
