package keeper_test

// Demonstration for C07 (copy into modules/service/keeper/ to run): with a volume discount
// in force the consumer is charged the undiscounted price while the issued requests record
// the discounted fee, so the request escrow receives more than it will ever pay out.

import (
	"time"

	gogotypes "github.com/cosmos/gogoproto/types"

	sdk "github.com/cosmos/cosmos-sdk/types"

	"mods.irisnet.org/modules/service/types"
)

func (suite *KeeperTestSuite) TestZZChargedVsRecordedFee() {
	providers := []sdk.AccAddress{testProvider, testProvider1}
	consumer := testConsumer
	suite.setServiceDefinition()
	for _, provider := range providers {
		suite.setServiceBinding(true, time.Time{}, provider, testOwner)
	}
	ctx := suite.ctx.WithBlockHeight(1000)
	suite.app.BeginBlocker(ctx)
	requestContextID, requestContext := suite.setRequestContext(ctx, consumer, providers, types.RUNNING, 0, "")

	// the pricing has promotions_by_volume [{volume:1, discount:0.5}]
	suite.keeper.SetRequestVolume(ctx, consumer, testServiceName, testProvider, 1)
	suite.keeper.SetRequestVolume(ctx, consumer, testServiceName, testProvider1, 1)

	newProviders, charged, _, err := suite.keeper.FilterServiceProviders(ctx, testServiceName, providers, testTimeout, testServiceFeeCap, consumer)
	suite.NoError(err)
	suite.NoError(suite.keeper.DeductServiceFees(ctx, consumer, charged))

	requestContext.BatchCounter++
	suite.keeper.SetRequestContext(ctx, requestContextID, requestContext)
	suite.keeper.InitiateRequests(ctx, requestContextID, newProviders, make(map[string][]string))

	requestContext, _ = suite.keeper.GetRequestContext(ctx, requestContextID)
	recorded := sdk.NewCoins()
	n := 0
	it := suite.keeper.ActiveRequestsIteratorByReqCtx(ctx, requestContextID, requestContext.BatchCounter)
	defer it.Close()
	for ; it.Valid(); it.Next() {
		var id gogotypes.BytesValue
		suite.cdc.MustUnmarshal(it.Value(), &id)
		req, found := suite.keeper.GetRequest(ctx, id.Value)
		suite.True(found)
		recorded = recorded.Add(req.ServiceFee...)
		n++
	}
	suite.Equal(2, n, "two requests issued")
	suite.T().Logf("charged %s, recorded on the issued requests %s", charged, recorded)
	suite.Equal(recorded.String(), charged.String(), "a consumer is charged exactly the sum of the fees recorded on the requests issued for them")
}
