#!/bin/sh
# ./check.sh <property id> <quick|thorough>
# Rebuilds nothing under /repo; analyses /repo's current working tree.
set -u
cd "$(dirname "$0")"
ID="$1"; TIER="${2:-quick}"
export GOFLAGS=-mod=mod GOPROXY=off GOSUMDB=off GOTOOLCHAIN=local GOWORK=off
if [ ! -x bin/irislint ] || [ -n "$(find tool -name '*.go' -newer bin/irislint 2>/dev/null | head -1)" ]; then
  ./setup.sh >/dev/null 2>&1 || { echo "TOOL-ERROR setup failed"; exit 2; }
fi
exec bin/irislint -repo "${VERIF_REPO:-/repo}" -verif "$(pwd)" -prop "$ID" -tier "$TIER"
