#!/usr/bin/env python3
"""Self-validation of the checkers (DESIGN §2.8), not a registered check.

Each variant is a single-site source edit of /repo (old -> new in one file; `old` must
occur exactly once). kind=break: the property's check must exit 1 and name `expect`
in its report. kind=keep (behaviour-preserving refactor): the check must exit 0.
/repo is restored after every variant (git checkout of the touched file).

usage: run.py [--repo /repo] [-p C14] [-k substring-of-id]
"""
import json, subprocess, sys, os, argparse, time
ap = argparse.ArgumentParser()
ap.add_argument('--repo', default='/repo')
ap.add_argument('-p', '--prop', default='')
ap.add_argument('-k', default='')
ap.add_argument('--tier', default='quick')
ap.add_argument('--shard', default='', help='i/n: run only every n-th variant starting at i (parallel runs on separate worktrees)')
a = ap.parse_args()
here = os.path.dirname(os.path.abspath(__file__))
variants = json.load(open(os.path.join(here, 'variants.json')))
import tempfile
evdir = tempfile.mkdtemp(prefix='irislint-selftest-')
env = dict(os.environ, VERIF_REPO=a.repo, VERIF_EVIDENCE_DIR=evdir)
bad = 0
ran = 0
st = subprocess.run(['git', '-C', a.repo, 'status', '--porcelain'], capture_output=True, text=True).stdout.strip()
if st:
    print('refusing to run: %s has uncommitted changes' % a.repo); sys.exit(2)
if a.shard:
    si, sn = map(int, a.shard.split('/'))
    variants = [v for i, v in enumerate(variants) if i % sn == si]
for v in variants:
    if a.prop and v['prop'] != a.prop: continue
    if a.k and a.k not in v['id']: continue
    edits = v.get('edits') or ([] if v.get('patch') else [{'file': v['file'], 'old': v['old'], 'new': v['new']}])
    ok_apply = True
    try:
        if v.get('patch'):
            pf = os.path.join(here, '..', v['patch'])
            if subprocess.run(['git', '-C', a.repo, 'apply', '--check', pf], capture_output=True).returncode != 0:
                print('SKIP  %-40s patch does not apply' % v['id']); continue
            subprocess.run(['git', '-C', a.repo, 'apply', pf], check=True)
        for e in edits:
            path = os.path.join(a.repo, e['file'])
            src = open(path).read()
            if src.count(e['old']) != 1:
                print('SKIP  %-40s old text occurs %d times in %s' % (v['id'], src.count(e['old']), e['file']))
                ok_apply = False
                break
            open(path, 'w').write(src.replace(e['old'], e['new']))
        if not ok_apply:
            continue
        ran += 1
        t0 = time.time()
        if v.get('all_props'):
            # a behaviour-preserving refactoring must leave EVERY check silent
            subprocess.run([os.path.join(here, '..', 'check.sh'), v['prop'], a.tier], capture_output=True, text=True, env=env)  # (re)builds the tool if needed
            p = subprocess.run([os.path.join(here, '..', 'bin', 'irislint'), '-repo', a.repo, '-verif', os.path.join(here, '..'), '-prop', 'all', '-tier', a.tier], capture_output=True, text=True, env=dict(env, GOFLAGS='-mod=mod', GOPROXY='off', GOSUMDB='off', GOTOOLCHAIN='local', GOWORK='off'))
        else:
            p = subprocess.run([os.path.join(here, '..', 'check.sh'), v['prop'], a.tier], capture_output=True, text=True, env=env)
        out = p.stdout + p.stderr
        if v.get('kind', 'break') == 'break':
            good = p.returncode == 1 and (v.get('expect', '') in out)
        else:
            good = p.returncode == 0
        print('%s  %-40s %s exit=%d %.1fs' % ('ok  ' if good else 'FAIL', v['id'], v.get('kind', 'break'), p.returncode, time.time() - t0))
        if not good:
            bad += 1
            print('      expected %r; output:\n      %s' % (v.get('expect', ''), '\n      '.join(l[:300] for l in out.splitlines()[:12])))
    finally:
        subprocess.run(['git', '-C', a.repo, 'checkout', '--', '.'], check=True)
        if v.get('patch'):
            # files a patch created are untracked and survive the checkout
            subprocess.run(['git', '-C', a.repo, 'clean', '-fdq', '--', 'modules', 'api', 'simapp', 'e2e', 'proto'], check=True)
print('%d variants run, %d failed' % (ran, bad))
sys.exit(1 if bad else 0)
