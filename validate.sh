#!/bin/sh
# validates MANIFEST.json and every evidence file against the schemas
cd "$(dirname "$0")"
python3-vt - <<'PY'
import json,jsonschema,glob
jsonschema.validate(json.load(open('MANIFEST.json')), json.load(open('/root/.vp/MANIFEST.schema.json')))
es=json.load(open('/root/.vp/EVIDENCE.schema.json'))
for f in sorted(glob.glob('evidence/C??.json')):
    jsonschema.validate(json.load(open(f)), es)
print('manifest and', len(glob.glob('evidence/C??.json')), 'evidence files valid')
PY
