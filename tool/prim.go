package main

// Primitive operations: KV-store accesses (with resolved key prefix), bank
// keeper calls, external keeper invokes, event emission.

import (
	"fmt"
	"go/ast"
	"go/constant"
	"go/token"
	"go/types"
	"sort"
	"strconv"
	"strings"

	"golang.org/x/tools/go/ssa"
)

type Prim struct {
	Kind   string // store.get|store.has|store.set|store.delete|store.iter|store.riter|bank.<M>|ext.<Iface>.<M>|event|nft.<M>
	Site   ssa.CallInstruction
	Fn     *ssa.Function
	Module string
	Prefix []string // for store ops: resolved prefixes (sorted)
}

const (
	storeTypesPath = "cosmossdk.io/store/types"
)

func namedOf(t types.Type) *types.Named {
	if p, ok := t.(*types.Pointer); ok {
		t = p.Elem()
	}
	n, _ := t.(*types.Named)
	return n
}

func typeIs(t types.Type, pkgPath, name string) bool {
	n := namedOf(t)
	if n == nil {
		if a, ok := t.(*types.Alias); ok {
			return typeIs(types.Unalias(a), pkgPath, name)
		}
		return false
	}
	return n.Obj().Name() == name && n.Obj().Pkg() != nil && n.Obj().Pkg().Path() == pkgPath
}

// calleeName returns ("pkgpath", "Recv.Name" or "Name") for a call, for both
// static calls and interface invokes.
func calleeName(c *ssa.CallCommon) (pkg, name string) {
	if c.IsInvoke() {
		n := namedOf(c.Value.Type())
		if theCtx != nil && n != nil {
			// a narrow interface of the module that only ever holds one dependency is named as it
			if src := theCtx.narrowSource(n); src != nil {
				n = src
			}
		}
		if n != nil && n.Obj().Pkg() != nil {
			return n.Obj().Pkg().Path(), n.Obj().Name() + "." + c.Method.Name()
		}
		if c.Method.Pkg() != nil {
			return c.Method.Pkg().Path(), "?." + c.Method.Name()
		}
		return "", "?." + c.Method.Name()
	}
	if f := c.StaticCallee(); f != nil {
		o := f
		if f.Origin() != nil {
			o = f.Origin()
		}
		p := funcPkgPath(o)
		if o.Signature.Recv() != nil {
			return p, recvName(o) + "." + o.Name()
		}
		return p, o.Name()
	}
	if b, ok := c.Value.(*ssa.Builtin); ok {
		return "builtin", b.Name()
	}
	return "", ""
}

func isKeeperIface(n *types.Named) bool {
	if n == nil || n.Obj().Pkg() == nil {
		return false
	}
	if _, ok := n.Underlying().(*types.Interface); !ok {
		return false
	}
	return strings.HasPrefix(n.Obj().Pkg().Path(), modPrefix) && strings.HasSuffix(n.Obj().Name(), "Keeper")
}

var bankMethods = map[string]bool{
	"SendCoins": true, "SendCoinsFromModuleToAccount": true, "SendCoinsFromAccountToModule": true,
	"SendCoinsFromModuleToModule": true, "MintCoins": true, "BurnCoins": true,
}

// classifyCall maps one call instruction to a primitive kind ("" if none). A call of a
// thin store wrapper of the module (storeWrap below) is the store operation it wraps.
func (cx *Ctx) classifyCall(ci ssa.CallInstruction) string {
	if k := cx.classifyCallRaw(ci); k != "" {
		return k
	}
	if w := cx.wrapperAt(ci); w != nil {
		return w.kind
	}
	return ""
}

// storeWrap: an irismod function whose only primitive operation is ONE store access
// whose key is one of its own parameters and whose prefix cannot be told without the
// caller (kvAccess.set(key, bz), loadBalance(store, key), readProto[T](store, key)).
// For the prefix tables and the other instruction-level scans such a call IS the store
// operation, performed at the call site with the caller's key.
type storeWrap struct {
	fn     *ssa.Function
	kind   string
	inner  ssa.CallInstruction
	keyIdx int // parameter index of the key
	valIdx int // parameter index of the value written as is (-1: none / computed inside)
}

func (cx *Ctx) wrapperOf(fn *ssa.Function) *storeWrap {
	if fn == nil {
		return nil
	}
	if cx.wrappers == nil {
		cx.wrappers = map[*ssa.Function]*storeWrap{}
	}
	if w, ok := cx.wrappers[fn]; ok {
		return w
	}
	cx.wrappers[fn] = nil
	if fn.Blocks == nil || !isIrismodFunc(fn) || len(fn.Blocks) > 6 || cx.isDoubleFunc(fn) {
		return nil
	}
	var inner ssa.CallInstruction
	kind := ""
	for _, b := range fn.Blocks {
		for _, ins := range b.Instrs {
			ci, ok := ins.(ssa.CallInstruction)
			if !ok {
				continue
			}
			k := cx.classifyCallRaw(ci)
			if k == "" {
				// a call into another irismod function that itself touches state: not thin
				if g := ci.Common().StaticCallee(); g != nil && g != fn && isIrismodFunc(g) && g.Blocks != nil && !ci.Common().IsInvoke() {
					for kk := range cx.transPrimKinds(g) {
						if strings.HasPrefix(kk, "store.") || strings.HasPrefix(kk, "bank.") {
							return nil
						}
					}
				}
				continue
			}
			if !strings.HasPrefix(k, "store.") || k == "store.iter" || k == "store.riter" || inner != nil {
				return nil
			}
			inner, kind = ci, k
		}
	}
	if inner == nil {
		return nil
	}
	// the prefix is not decidable inside the function
	pf := cx.storeKeyPrefixIn(inner, kind, nil)
	undecided := len(pf) != 1
	for _, p := range pf {
		if strings.Contains(p, "?") || strings.HasPrefix(p, "param:") || p == "" {
			undecided = true
		}
	}
	if !undecided {
		return nil
	}
	paramIdx := func(v ssa.Value) int {
		for d := 0; d < 4; d++ {
			switch x := v.(type) {
			case *ssa.Convert:
				v = x.X
				continue
			case *ssa.ChangeType:
				v = x.X
				continue
			case *ssa.MakeInterface:
				v = x.X
				continue
			case *ssa.Parameter:
				for i, p := range fn.Params {
					if p == x {
						return i
					}
				}
			}
			break
		}
		return -1
	}
	args := storeArgs(inner)
	if len(args) == 0 {
		return nil
	}
	ki := paramIdx(args[0])
	if ki < 0 {
		return nil
	}
	vi := -1
	if kind == "store.set" && len(args) > 1 {
		vi = paramIdx(args[1])
	}
	w := &storeWrap{fn: fn, kind: kind, inner: inner, keyIdx: ki, valIdx: vi}
	cx.wrappers[fn] = w
	return w
}

// wrapperAt: the call is a static call of a store wrapper.
func (cx *Ctx) wrapperAt(ci ssa.CallInstruction) *storeWrap {
	c := ci.Common()
	if c.IsInvoke() {
		return nil
	}
	return cx.wrapperOf(c.StaticCallee())
}

func (cx *Ctx) classifyCallRaw(ci ssa.CallInstruction) string {
	k := cx.classifyCallRaw0(ci)
	switch {
	case k == "store.set" || k == "store.delete":
		// the replaying loop of a write batch is not an access of its own (batch.go)
		if ci.Common().IsInvoke() && cx.isReplayCall(ci.Common()) {
			return ""
		}
	case k == "":
		// … the queueing call is
		if q := cx.queuerAt(ci); q != nil {
			return q.kind
		}
	}
	return k
}

func (cx *Ctx) classifyCallRaw0(ci ssa.CallInstruction) string {
	c := ci.Common()
	pkg, name := calleeName(c)
	if c.IsInvoke() {
		n := namedOf(c.Value.Type())
		switch {
		case pkg == storeTypesPath && (strings.HasPrefix(name, "KVStore.") || strings.HasPrefix(name, "BasicKVStore.")):
			switch c.Method.Name() {
			case "Get":
				return "store.get"
			case "Has":
				return "store.has"
			case "Set":
				return "store.set"
			case "Delete":
				return "store.delete"
			case "Iterator":
				return "store.iter"
			case "ReverseIterator":
				return "store.riter"
			}
		case isKeeperIface(n):
			if bankMethods[c.Method.Name()] {
				return "bank." + c.Method.Name()
			}
			return "ext." + n.Obj().Name() + "." + c.Method.Name()
		case cx.narrowIfaceOf(n) != "":
			// a narrow interface of the module (type coinMover interface{ SendCoins(...) error })
			// that only ever holds one of the dependencies above: the call is that dependency's
			switch src := cx.narrowIfaceOf(n); {
			case src == "store":
				switch c.Method.Name() {
				case "Get":
					return "store.get"
				case "Has":
					return "store.has"
				case "Set":
					return "store.set"
				case "Delete":
					return "store.delete"
				case "Iterator":
					return "store.iter"
				case "ReverseIterator":
					return "store.riter"
				}
			case src == "nft":
				return "nft." + c.Method.Name()
			case bankMethods[c.Method.Name()]:
				return "bank." + c.Method.Name()
			default:
				return "ext." + src + "." + c.Method.Name()
			}
		case pkg == "github.com/cosmos/cosmos-sdk/types" && strings.HasPrefix(name, "EventManagerI."):
			return "event"
		}
		return ""
	}
	switch {
	case pkg == "cosmossdk.io/store/prefix" && strings.HasPrefix(name, "Store."):
		// a prefix store used as its concrete type (st := prefix.NewStore(...); st.Set(k, v))
		switch strings.TrimPrefix(name, "Store.") {
		case "Get":
			return "store.get"
		case "Has":
			return "store.has"
		case "Set":
			return "store.set"
		case "Delete":
			return "store.delete"
		case "Iterator":
			return "store.iter"
		case "ReverseIterator":
			return "store.riter"
		}
		return ""
	case pkg == storeTypesPath && name == "KVStorePrefixIterator":
		return "store.iter"
	case pkg == storeTypesPath && name == "KVStoreReversePrefixIterator":
		return "store.riter"
	case pkg == "github.com/cosmos/cosmos-sdk/types" && (name == "EventManager.EmitEvent" || name == "EventManager.EmitEvents" || name == "EventManager.EmitTypedEvent" || name == "EventManager.EmitTypedEvents"):
		return "event"
	case pkg == "cosmossdk.io/x/nft/keeper" && strings.HasPrefix(name, "Keeper."):
		return "nft." + strings.TrimPrefix(name, "Keeper.")
	case pkg == "github.com/cosmos/cosmos-sdk/types/query" && (name == "Paginate" || name == "FilteredPaginate"):
		return "store.iter"
	}
	return ""
}

// storeArgs: the arguments of a store operation in the layout of the interface form -
// (key), (key, value), (start, end) - whichever way the store is held: a method call on
// the concrete prefix.Store carries its receiver as the first SSA argument.
func storeArgs(ci ssa.CallInstruction) []ssa.Value {
	c := ci.Common()
	if theCtx != nil {
		if w := theCtx.wrapperAt(ci); w != nil && w.keyIdx < len(c.Args) {
			out := []ssa.Value{c.Args[w.keyIdx]}
			if w.kind == "store.set" {
				if w.valIdx >= 0 && w.valIdx < len(c.Args) {
					out = append(out, c.Args[w.valIdx])
				} else if in := storeArgs(w.inner); len(in) > 1 {
					out = append(out, in[1]) // computed inside the wrapper (marshal of a parameter)
				}
			}
			return out
		}
	}
	if !c.IsInvoke() {
		if pkg, name := calleeName(c); pkg == "cosmossdk.io/store/prefix" && strings.HasPrefix(name, "Store.") && len(c.Args) > 0 {
			return c.Args[1:]
		}
		if theCtx != nil {
			if q := theCtx.queuerAt(ci); q != nil && q.keyIdx < len(c.Args) {
				out := []ssa.Value{c.Args[q.keyIdx]}
				if q.valIdx >= 0 && q.valIdx < len(c.Args) {
					out = append(out, c.Args[q.valIdx])
				}
				return out
			}
		}
	}
	return c.Args
}

// Prims directly in f.
func (cx *Ctx) primsOf(f *ssa.Function) []Prim {
	var out []Prim
	for _, b := range f.Blocks {
		for _, ins := range b.Instrs {
			ci, ok := ins.(ssa.CallInstruction)
			if !ok {
				continue
			}
			k := cx.classifyCall(ci)
			if k == "" {
				continue
			}
			if wf := cx.wrapperOf(f); wf != nil && ssa.Instruction(wf.inner) == ins {
				continue // the wrapped access belongs to the wrapper's call sites
			}
			p := Prim{Kind: k, Site: ci, Fn: f, Module: moduleOf(funcPkgPath(f))}
			if strings.HasPrefix(k, "store.") {
				p.Prefix = cx.storeKeyPrefix(ci, k)
			}
			out = append(out, p)
		}
	}
	return out
}

// transitive primitive kinds of f (through irismod-resolvable edges).
func (cx *Ctx) transPrimKinds(f *ssa.Function) map[string]bool {
	if cx.tpk == nil {
		cx.tpk = map[*ssa.Function]map[string]bool{}
	}
	if r, ok := cx.tpk[f]; ok {
		return r
	}
	res := map[string]bool{}
	cx.tpk[f] = res // cycle guard (partial result during recursion)
	r := cx.Reachable([]*ssa.Function{f}, nil)
	for _, g := range r.Order {
		if g.Blocks == nil {
			continue
		}
		for _, p := range cx.primsOf(g) {
			res[p.Kind] = true
		}
	}
	return res
}

// ------------------------------------------------------------- key prefixes

// storeKeyPrefix resolves the prefix of the key argument of a store op.
func (cx *Ctx) storeKeyPrefix(ci ssa.CallInstruction, kind string) []string {
	return cx.storeKeyPrefixIn(ci, kind, nil)
}

// storeKeyPrefixOnChain: the prefix of a store access on one call chain. Where the
// context-free answer is a union (the prefix is a parameter of a shared helper,
// iterateQueue(ctx, prefix, op)), the chain's own argument decides.
func (cx *Ctx) storeKeyPrefixOnChain(ci ssa.CallInstruction, kind string, fr *Frame) []string {
	base := cx.storeKeyPrefix(ci, kind)
	if len(base) < 2 || fr == nil {
		return base
	}
	var conv func(f *Frame) *frame
	conv = func(f *Frame) *frame {
		if f == nil || f.Call == nil {
			return nil
		}
		c, ok := f.Call.(*ssa.Call)
		if !ok {
			return nil
		}
		return &frame{call: c, parent: conv(f.Parent)}
	}
	lf := conv(fr)
	if lf == nil {
		return base
	}
	got := cx.storeKeyPrefixIn(ci, kind, lf)
	if len(got) == 0 || len(got) >= len(base) {
		return base
	}
	inBase := map[string]bool{}
	for _, b := range base {
		inBase[b] = true
	}
	for _, g := range got {
		if !inBase[g] {
			return base
		}
	}
	return got
}

func (cx *Ctx) storeKeyPrefixIn(ci ssa.CallInstruction, kind string, kfr *frame) []string {
	if cx.classifyCallRaw(ci) == "" {
		if w := cx.wrapperAt(ci); w != nil {
			if call, ok := ci.(*ssa.Call); ok {
				return cx.storeKeyPrefixIn(w.inner, w.kind, &frame{call: call, parent: kfr})
			}
		}
	}
	c := ci.Common()
	var key ssa.Value
	if c.IsInvoke() {
		if len(c.Args) == 0 {
			return []string{"?noargs"}
		}
		key = c.Args[0]
	} else {
		// KVStorePrefixIterator(store, prefix); query.Paginate(store, ...)
		_, name := calleeName(c)
		if name == "Paginate" || name == "FilteredPaginate" {
			return cx.storeValuePrefixIn(c.Args[0], kfr, 0)
		}
		if len(c.Args) < 2 {
			return []string{"?noargs"}
		}
		key = c.Args[1]
	}
	set := map[string]bool{}
	cx.keyPrefix(key, kfr, 0, set)
	// the store itself may be a prefix store
	var st ssa.Value
	if c.IsInvoke() {
		st = c.Value
	} else {
		st = c.Args[0]
	}
	sp := cx.storeValuePrefixIn(st, kfr, 0)
	out := []string{}
	for k := range set {
		out = append(out, k)
	}
	sort.Strings(out)
	if len(sp) > 0 && !(len(sp) == 1 && sp[0] == "") {
		var comb []string
		for _, s := range sp {
			comb = append(comb, s)
		}
		return comb
	}
	return out
}

// storeValuePrefix: if the store value is prefix.NewStore(parent, p) returns p's prefixes, else [""].
func (cx *Ctx) storeValuePrefix(v ssa.Value) []string {
	return cx.storeValuePrefixIn(v, nil, 0)
}

// storeValuePrefixIn resolves the store value along the call chain: the store may be
// built by a helper, passed down as a parameter, kept in a local or in a field of a small
// wrapper struct. A prefix store over a prefix store keeps the OUTER prefix (the keys
// of both live under it).
func (cx *Ctx) storeValuePrefixIn(v ssa.Value, fr *frame, depth int) []string {
	if depth > 10 || v == nil {
		return []string{""}
	}
	switch x := v.(type) {
	case *ssa.MakeInterface:
		return cx.storeValuePrefixIn(x.X, fr, depth+1)
	case *ssa.ChangeInterface:
		return cx.storeValuePrefixIn(x.X, fr, depth+1)
	case *ssa.ChangeType:
		return cx.storeValuePrefixIn(x.X, fr, depth+1)
	case *ssa.TypeAssert:
		return cx.storeValuePrefixIn(x.X, fr, depth+1)
	case *ssa.Phi:
		set := map[string]bool{}
		for _, e := range x.Edges {
			for _, p := range cx.storeValuePrefixIn(e, fr, depth+1) {
				set[p] = true
			}
		}
		var out []string
		for k := range set {
			out = append(out, k)
		}
		sort.Strings(out)
		return out
	case *ssa.UnOp:
		if x.Op != token.MUL {
			return []string{""}
		}
		switch a := x.X.(type) {
		case *ssa.Alloc:
			set := map[string]bool{}
			if a.Referrers() != nil {
				for _, r := range *a.Referrers() {
					if st, ok := r.(*ssa.Store); ok && st.Addr == a {
						for _, p := range cx.storeValuePrefixIn(st.Val, fr, depth+1) {
							set[p] = true
						}
					}
				}
			}
			var out []string
			for k := range set {
				out = append(out, k)
			}
			sort.Strings(out)
			if len(out) == 0 {
				return []string{""}
			}
			return out
		case *ssa.FieldAddr:
			if vals := cx.fieldValues(a.X, a.Field, fr, 0); len(vals) > 0 {
				set := map[string]bool{}
				for _, fv := range vals {
					for _, p := range cx.storeValuePrefixIn(fv.v, fv.fr, depth+1) {
						set[p] = true
					}
				}
				var out []string
				for k := range set {
					out = append(out, k)
				}
				sort.Strings(out)
				return out
			}
		}
		return []string{""}
	case *ssa.Field:
		if vals := cx.fieldValues(x.X, x.Field, fr, 0); len(vals) > 0 {
			set := map[string]bool{}
			for _, fv := range vals {
				for _, p := range cx.storeValuePrefixIn(fv.v, fv.fr, depth+1) {
					set[p] = true
				}
			}
			var out []string
			for k := range set {
				out = append(out, k)
			}
			sort.Strings(out)
			return out
		}
		return []string{""}
	case *ssa.Parameter:
		fn := x.Parent()
		idx := -1
		for i, p := range fn.Params {
			if p == x {
				idx = i
			}
		}
		if idx < 0 {
			return []string{""}
		}
		if fr != nil && fr.call != nil && (fr.call.Common().StaticCallee() == nil || fr.call.Common().StaticCallee() == fn) && idx < len(fr.call.Call.Args) {
			return cx.storeValuePrefixIn(fr.call.Call.Args[idx], fr.parent, depth+1)
		}
		set := map[string]bool{}
		n := 0
		for _, cs := range cx.CallersOf(fn) {
			cc := cs.Site.Common()
			if cc.IsInvoke() || cc.StaticCallee() != fn || idx >= len(cc.Args) {
				continue
			}
			n++
			for _, p := range cx.storeValuePrefixIn(cc.Args[idx], nil, depth+2) {
				set[p] = true
			}
		}
		if n == 0 {
			return []string{""}
		}
		var out []string
		for k := range set {
			out = append(out, k)
		}
		sort.Strings(out)
		return out
	case *ssa.Call:
		pkg, name := calleeName(x.Common())
		if pkg == "cosmossdk.io/store/prefix" && name == "NewStore" {
			// the outer store's own prefix, if it is a prefix store itself
			if outer := cx.storeValuePrefixIn(x.Call.Args[0], fr, depth+1); !(len(outer) == 1 && outer[0] == "") && len(outer) > 0 {
				return outer
			}
			set := map[string]bool{}
			cx.keyPrefix(x.Call.Args[1], fr, 0, set)
			var out []string
			for k := range set {
				out = append(out, k)
			}
			sort.Strings(out)
			return out
		}
		if f := x.Common().StaticCallee(); f != nil && !x.Common().IsInvoke() && isIrismodFunc(f) && f.Blocks != nil {
			// helper returning a (prefix) store
			nfr := &frame{call: x, parent: fr}
			set := map[string]bool{}
			for _, b := range f.Blocks {
				if ret, ok := b.Instrs[len(b.Instrs)-1].(*ssa.Return); ok && len(ret.Results) > 0 {
					for _, p := range cx.storeValuePrefixIn(ret.Results[0], nfr, depth+1) {
						set[p] = true
					}
				}
			}
			var out []string
			for k := range set {
				out = append(out, k)
			}
			sort.Strings(out)
			if len(out) == 0 {
				return []string{""}
			}
			return out
		}
	}
	return []string{""}
}

type frame struct {
	call   *ssa.Call
	parent *frame
}

func (cx *Ctx) keyPrefix(v ssa.Value, fr *frame, depth int, out map[string]bool) {
	if depth > 12 {
		out["?depth"] = true
		return
	}
	switch x := v.(type) {
	case *ssa.Const:
		if x.Value != nil && x.Value.Kind() == constant.String {
			out["str:"+constant.StringVal(x.Value)] = true
		} else if x.IsNil() {
			out["nil"] = true
		} else {
			out["const:"+x.String()] = true
		}
	case *ssa.Global:
		out[cx.globalPrefixName(x)] = true
	case *ssa.UnOp:
		if x.Op == token.MUL {
			if g, ok := x.X.(*ssa.Global); ok {
				out[cx.globalPrefixName(g)] = true
				return
			}
			if a, ok := x.X.(*ssa.Alloc); ok {
				// single store
				for _, ref := range *a.Referrers() {
					if st, ok := ref.(*ssa.Store); ok && st.Addr == a {
						cx.keyPrefix(st.Val, fr, depth+1, out)
					}
				}
				return
			}
			if fa, ok := x.X.(*ssa.FieldAddr); ok {
				// a key carried in a field of a small struct (idx.key): the values stored into
				// that field where the struct is assembled, through parameters if need be
				if vals := cx.fieldValues(fa.X, fa.Field, fr, 0); len(vals) > 0 {
					for _, v := range vals {
						cx.keyPrefix(v.v, v.fr, depth+2, out)
					}
					return
				}
				out["field:"+fieldName(fa)] = true
				return
			}
			if ia, ok := x.X.(*ssa.IndexAddr); ok {
				// an element of a list of keys (for _, key := range keys { store.Delete(key) }):
				// the prefixes of the keys that were appended to the list
				if _, isSlice := ia.X.Type().Underlying().(*types.Slice); isSlice {
					n := len(out)
					cx.keyListElems(ia.X, fr, depth+1, out, map[ssa.Value]bool{})
					if len(out) > n {
						return
					}
				}
			}
		}
		out["?unop"] = true
	case *ssa.Convert:
		cx.keyPrefix(x.X, fr, depth+1, out)
	case *ssa.ChangeType:
		cx.keyPrefix(x.X, fr, depth+1, out)
	case *ssa.MakeInterface:
		cx.keyPrefix(x.X, fr, depth+1, out)
	case *ssa.Slice:
		if x.Low != nil {
			if c, ok := x.Low.(*ssa.Const); !ok || c.Int64() != 0 {
				out["?reslice"] = true
				return
			}
		}
		// slicing an array alloc: new [n]byte literal
		cx.keyPrefix(x.X, fr, depth+1, out)
	case *ssa.Alloc:
		// array literal: find store to index 0
		found := false
		for _, ref := range *x.Referrers() {
			if ia, ok := ref.(*ssa.IndexAddr); ok {
				if c, ok := ia.Index.(*ssa.Const); ok && c.Int64() == 0 {
					for _, r2 := range *ia.Referrers() {
						if st, ok := r2.(*ssa.Store); ok && st.Addr == ia {
							if cv, ok := st.Val.(*ssa.Const); ok {
								out[fmt.Sprintf("bytes:0x%02x", cv.Int64())] = true
								found = true
							}
						}
					}
				}
			}
		}
		if !found {
			out["?alloc"] = true
		}
	case *ssa.Phi:
		for _, e := range x.Edges {
			if e == v {
				continue
			}
			cx.keyPrefix(e, fr, depth+1, out)
		}
	case *ssa.Parameter:
		if fr != nil && (fr.call.Common().StaticCallee() == nil || fr.call.Common().StaticCallee() == x.Parent()) {
			fn := x.Parent()
			for i, p := range fn.Params {
				if p == x && i < len(fr.call.Call.Args) {
					cx.keyPrefix(fr.call.Call.Args[i], fr.parent, depth+1, out)
					return
				}
			}
		}
		// no frame: the key prefix is a parameter of a helper (iterateQueue(ctx, prefix, …));
		// take the union over the arguments at all static call sites
		if depth < 8 {
			fn := x.Parent()
			idx := -1
			for i, p := range fn.Params {
				if p == x {
					idx = i
				}
			}
			n := 0
			for _, cs := range cx.CallersOf(fn) {
				cc := cs.Site.Common()
				if cc.IsInvoke() || cc.StaticCallee() != fn || idx < 0 || idx >= len(cc.Args) {
					continue
				}
				n++
				cx.keyPrefix(cc.Args[idx], nil, depth+2, out)
			}
			if n > 0 {
				return
			}
		}
		out["param:"+x.Name()] = true
	case *ssa.Extract:
		out["?extract"] = true
	case *ssa.Call:
		c := x.Common()
		pkg, name := calleeName(c)
		if pkg == "builtin" && name == "append" {
			// append(head, tail...)
			head := c.Args[0]
			if isNilOrEmpty(head) && len(c.Args) > 1 {
				cx.keyPrefix(c.Args[1], fr, depth+1, out)
			} else {
				cx.keyPrefix(head, fr, depth+1, out)
			}
			return
		}
		if c.IsInvoke() {
			if c.Method.Name() == "Key" {
				// iterator.Key(): inherits the iterator's prefix
				cx.iterPrefix(c.Value, fr, depth+1, out)
				return
			}
			out["?invoke:"+name] = true
			return
		}
		switch {
		case (pkg == "bytes" && name == "Join" || pkg == "slices" && name == "Concat") && len(c.Args) >= 1:
			// bytes.Join([][]byte{prefix, rest…}, sep) / slices.Concat(prefix, rest…): the first element leads
			if els := variadicElems(c.Args[0]); len(els) > 0 && els[0] != nil {
				cx.keyPrefix(els[0], fr, depth+1, out)
				return
			}
			out["?"+pkg+"."+name] = true
			return
		case pkg == "fmt" && name == "Sprintf":
			if cs, ok := c.Args[0].(*ssa.Const); ok && cs.Value.Kind() == constant.String {
				f := constant.StringVal(cs.Value)
				var elems []ssa.Value
				if len(c.Args) > 1 {
					elems = variadicElems(c.Args[1])
				}
				// substitute leading constant arguments, stop at the first dynamic verb
				var sb strings.Builder
				ai := 0
				for i := 0; i < len(f); i++ {
					if f[i] != '%' {
						sb.WriteByte(f[i])
						continue
					}
					if i+1 < len(f) && f[i+1] == '%' {
						sb.WriteByte('%')
						i++
						continue
					}
					if i+1 < len(f) && (f[i+1] == 's' || f[i+1] == 'v') && ai < len(elems) {
						e := elems[ai]
						if mi, ok := e.(*ssa.MakeInterface); ok {
							e = mi.X
						}
						if ec, ok := e.(*ssa.Const); ok && ec.Value != nil && ec.Value.Kind() == constant.String {
							sb.WriteString(constant.StringVal(ec.Value))
							ai++
							i++
							continue
						}
					}
					break
				}
				out["str:"+sb.String()] = true
				return
			}
		case pkg == "bytes" && name == "Join":
			out["?bytes.Join"] = true
			return
		}
		f := c.StaticCallee()
		if f != nil && isIrismodFunc(f) && f.Blocks != nil {
			nfr := &frame{call: x, parent: fr}
			n := 0
			for _, b := range f.Blocks {
				if ret, ok := b.Instrs[len(b.Instrs)-1].(*ssa.Return); ok && len(ret.Results) > 0 {
					cx.keyPrefix(ret.Results[0], nfr, depth+1, out)
					n++
				}
			}
			if n == 0 {
				out["?noreturn:"+name] = true
			}
			return
		}
		out["?call:"+pkg+"."+name] = true
	case *ssa.MakeSlice:
		// key := make([]byte, n); copy(key, src): the prefix of what is copied in
		n := 0
		if x.Referrers() != nil {
			for _, r := range *x.Referrers() {
				c, ok := r.(*ssa.Call)
				if !ok {
					continue
				}
				if b, isB := c.Common().Value.(*ssa.Builtin); isB && b.Name() == "copy" && len(c.Common().Args) == 2 && c.Common().Args[0] == v {
					cx.keyPrefix(c.Common().Args[1], fr, depth+1, out)
					n++
				}
			}
		}
		if n == 0 {
			out["?*ssa.MakeSlice"] = true
		}
	default:
		out[fmt.Sprintf("?%T", v)] = true
	}
}

// variadicElems decodes the slice built for a variadic call:
// new [n]T; stores to &a[i]; slice a[:].
func variadicElems(v ssa.Value) []ssa.Value {
	sl, ok := v.(*ssa.Slice)
	if !ok {
		return nil
	}
	al, ok := sl.X.(*ssa.Alloc)
	if !ok {
		return nil
	}
	arr, ok := al.Type().(*types.Pointer).Elem().Underlying().(*types.Array)
	if !ok {
		return nil
	}
	out := make([]ssa.Value, arr.Len())
	for _, ref := range *al.Referrers() {
		ia, ok := ref.(*ssa.IndexAddr)
		if !ok {
			continue
		}
		ic, ok := ia.Index.(*ssa.Const)
		if !ok {
			continue
		}
		for _, r2 := range *ia.Referrers() {
			if st, ok := r2.(*ssa.Store); ok && st.Addr == ia {
				if i := int(ic.Int64()); i >= 0 && i < len(out) {
					out[i] = st.Val
				}
			}
		}
	}
	return out
}

func isNilOrEmpty(v ssa.Value) bool {
	switch x := v.(type) {
	case *ssa.Const:
		return x.IsNil()
	case *ssa.MakeSlice:
		// make([]byte, 0, n)
		if c, ok := x.Len.(*ssa.Const); ok && c.Value != nil && c.Int64() == 0 {
			return true
		}
	case *ssa.Slice:
		// []byte{}[:] of zero-length alloc
		if a, ok := x.X.(*ssa.Alloc); ok {
			if arr, ok := a.Type().(*types.Pointer).Elem().Underlying().(*types.Array); ok && arr.Len() == 0 {
				return true
			}
		}
	}
	return false
}

// keyListElems: the key prefixes of the elements of a [][]byte that is filled by
// append(list, key) (possibly in a loop, possibly inside a helper that returns it).
func (cx *Ctx) keyListElems(v ssa.Value, fr *frame, depth int, out map[string]bool, seen map[ssa.Value]bool) {
	if depth > 12 || seen[v] {
		return
	}
	seen[v] = true
	switch x := v.(type) {
	case *ssa.Phi:
		for _, e := range x.Edges {
			cx.keyListElems(e, fr, depth+1, out, seen)
		}
	case *ssa.Slice:
		cx.keyListElems(x.X, fr, depth+1, out, seen)
	case *ssa.UnOp:
		if x.Op == token.MUL {
			if a, ok := x.X.(*ssa.Alloc); ok {
				for _, ref := range *a.Referrers() {
					if st, ok := ref.(*ssa.Store); ok && st.Addr == a {
						cx.keyListElems(st.Val, fr, depth+1, out, seen)
					}
				}
			}
		}
	case *ssa.Parameter:
		if fr != nil && fr.call.Common().StaticCallee() == x.Parent() {
			for i, p := range x.Parent().Params {
				if p == x && i < len(fr.call.Call.Args) {
					cx.keyListElems(fr.call.Call.Args[i], fr.parent, depth+1, out, seen)
				}
			}
		}
	case *ssa.Call:
		c := x.Common()
		pkg, name := calleeName(c)
		if pkg == "builtin" && name == "append" {
			cx.keyListElems(c.Args[0], fr, depth+1, out, seen)
			if len(c.Args) > 1 {
				if elems := variadicElems(c.Args[1]); elems != nil {
					for _, e := range elems {
						if e != nil {
							cx.keyPrefix(e, fr, depth+1, out)
						}
					}
				} else {
					cx.keyListElems(c.Args[1], fr, depth+1, out, seen)
				}
			}
			return
		}
		if f := c.StaticCallee(); f != nil && !c.IsInvoke() && isIrismodFunc(f) && f.Blocks != nil {
			nfr := &frame{call: x, parent: fr}
			for _, b := range f.Blocks {
				if ret, ok := b.Instrs[len(b.Instrs)-1].(*ssa.Return); ok && len(ret.Results) > 0 {
					cx.keyListElems(ret.Results[0], nfr, depth+1, out, seen)
				}
			}
		}
	}
}

func (cx *Ctx) iterPrefix(it ssa.Value, fr *frame, depth int, out map[string]bool) {
	switch x := it.(type) {
	case *ssa.Call:
		c := x.Common()
		k := cx.classifyCall(x)
		if k == "store.iter" || k == "store.riter" {
			for _, p := range cx.storeKeyPrefix(x, k) {
				out[p] = true
			}
			return
		}
		if f := c.StaticCallee(); f != nil && isIrismodFunc(f) && f.Blocks != nil {
			nfr := &frame{call: x, parent: fr}
			for _, b := range f.Blocks {
				if ret, ok := b.Instrs[len(b.Instrs)-1].(*ssa.Return); ok && len(ret.Results) > 0 {
					cx.iterPrefixIn(ret.Results[0], nfr, depth+1, out)
				}
			}
			return
		}
	case *ssa.Phi:
		for _, e := range x.Edges {
			cx.iterPrefix(e, fr, depth+1, out)
		}
		return
	case *ssa.MakeInterface:
		cx.iterPrefix(x.X, fr, depth+1, out)
		return
	case *ssa.Parameter:
		if fr != nil && (fr.call.Common().StaticCallee() == nil || fr.call.Common().StaticCallee() == x.Parent()) {
			fn := x.Parent()
			for i, p := range fn.Params {
				if p == x && i < len(fr.call.Call.Args) {
					cx.iterPrefix(fr.call.Call.Args[i], fr.parent, depth+1, out)
					return
				}
			}
		}
	case *ssa.FreeVar:
		// closure capturing the iterator
		out["?freevar-iter"] = true
		return
	}
	out["iterkey"] = true
}

func (cx *Ctx) iterPrefixIn(v ssa.Value, fr *frame, depth int, out map[string]bool) {
	if call, ok := v.(*ssa.Call); ok {
		k := cx.classifyCall(call)
		if k == "store.iter" || k == "store.riter" {
			// resolve the prefix arg within callee frame
			c := call.Common()
			var key ssa.Value
			if c.IsInvoke() {
				key = c.Args[0]
			} else {
				key = c.Args[1]
			}
			cx.keyPrefix(key, fr, depth+1, out)
			return
		}
	}
	cx.iterPrefix(v, fr, depth, out)
}

func fieldName(fa *ssa.FieldAddr) string {
	t := fa.X.Type()
	if p, ok := t.(*types.Pointer); ok {
		t = p.Elem()
	}
	st, ok := t.Underlying().(*types.Struct)
	if !ok {
		return "?"
	}
	tn := ""
	if n := namedOf(t); n != nil {
		tn = n.Obj().Name() + "."
	}
	return tn + st.Field(fa.Field).Name()
}

// globalPrefixName renders a package-level key variable as
// "<module>:<Name>=<bytes>", evaluating its initialiser from the syntax.
func (cx *Ctx) globalPrefixName(g *ssa.Global) string {
	if cx.gpn == nil {
		cx.gpn = map[*ssa.Global]string{}
	}
	if s, ok := cx.gpn[g]; ok {
		return s
	}
	val := "?"
	pk := cx.P.ByPath[g.Pkg.Pkg.Path()]
	if pk != nil {
		for _, f := range pk.Syntax {
			for _, d := range f.Decls {
				gd, ok := d.(*ast.GenDecl)
				if !ok || gd.Tok != token.VAR {
					continue
				}
				for _, sp := range gd.Specs {
					vs := sp.(*ast.ValueSpec)
					for i, n := range vs.Names {
						if n.Name == g.Name() && i < len(vs.Values) {
							val = cx.evalBytes(pk.TypesInfo, vs.Values[i])
						}
					}
				}
			}
		}
	}
	s := moduleOf(g.Pkg.Pkg.Path()) + ":" + g.Name() + "=" + val
	cx.gpn[g] = s
	return s
}

func (cx *Ctx) evalBytes(info *types.Info, e ast.Expr) string {
	switch x := e.(type) {
	case *ast.CompositeLit:
		var parts []string
		for _, el := range x.Elts {
			if tv, ok := info.Types[el]; ok && tv.Value != nil {
				if n, ok := constant.Int64Val(tv.Value); ok {
					parts = append(parts, fmt.Sprintf("0x%02x", n))
					continue
				}
			}
			parts = append(parts, "?")
		}
		return strings.Join(parts, " ")
	case *ast.CallExpr:
		if len(x.Args) == 1 {
			if tv, ok := info.Types[x.Args[0]]; ok && tv.Value != nil && tv.Value.Kind() == constant.String {
				return strconv.Quote(constant.StringVal(tv.Value))
			}
		}
	}
	if tv, ok := info.Types[e]; ok && tv.Value != nil {
		return tv.Value.ExactString()
	}
	return "?"
}

func init() {
	dumps["prims"] = func(cx *Ctx) {
		n := 0
		bad := 0
		for _, f := range cx.P.AllFuncs {
			if isGeneratedFile(cx.P.File(f.Pos())) {
				continue
			}
			for _, p := range cx.primsOf(f) {
				n++
				pf := strings.Join(p.Prefix, " | ")
				if strings.Contains(pf, "?") || strings.Contains(pf, "param:") {
					bad++
				}
				fmt.Printf("%-40s %-14s %-60s %s\n", cx.P.Pos(p.Site.Pos()), p.Kind, shortFn(f), pf)
			}
		}
		fmt.Printf("%d prims, %d unresolved prefixes\n", n, bad)
	}
}

// fieldValues: the values that field #idx of the struct denoted by base can hold,
// found at the places the struct is assembled: field stores into a local, a whole
// value stored into it, the argument bound to a parameter (of this call chain when
// a frame is given, else at every static call site). nil when some source is not
// understood. Each value comes with the frame it is to be read in.
type framedValue struct {
	v  ssa.Value
	fr *frame
}

func (cx *Ctx) fieldValues(base ssa.Value, idx int, fr *frame, depth int) []framedValue {
	if depth > 6 || base == nil {
		return nil
	}
	switch b := base.(type) {
	case *ssa.Alloc:
		var out []framedValue
		if b.Referrers() == nil {
			return nil
		}
		for _, r := range *b.Referrers() {
			switch y := r.(type) {
			case *ssa.FieldAddr:
				if y.Field != idx || y.Referrers() == nil {
					continue
				}
				for _, r2 := range *y.Referrers() {
					if st, ok := r2.(*ssa.Store); ok && st.Addr == y {
						out = append(out, framedValue{st.Val, fr})
					}
				}
			case *ssa.Store:
				if y.Addr == b {
					vs := cx.fieldValues(y.Val, idx, fr, depth+1)
					if vs == nil {
						return nil
					}
					out = append(out, vs...)
				}
			}
		}
		return out
	case *ssa.UnOp:
		if b.Op == token.MUL {
			return cx.fieldValues(b.X, idx, fr, depth+1)
		}
	case *ssa.Parameter:
		fn := b.Parent()
		pi := -1
		for i, p := range fn.Params {
			if p == b {
				pi = i
			}
		}
		if fr != nil && fr.call != nil && fr.call.Common().StaticCallee() == fn && pi >= 0 && pi < len(fr.call.Common().Args) {
			return cx.fieldValues(fr.call.Common().Args[pi], idx, fr.parent, depth+1)
		}
		var out []framedValue
		n := 0
		for _, cs := range cx.CallersOf(fn) {
			cc := cs.Site.Common()
			if cc.IsInvoke() || cc.StaticCallee() != fn || pi < 0 || pi >= len(cc.Args) {
				return nil
			}
			n++
			vs := cx.fieldValues(cc.Args[pi], idx, nil, depth+1)
			if vs == nil {
				return nil
			}
			out = append(out, vs...)
		}
		if n == 0 {
			return nil
		}
		return out
	}
	return nil
}

// narrowIfaceOf: for a named interface of irismod that is not itself a recognised dependency
// interface - the ONE dependency every value converted into it comes from: the name of a
// keeper interface ("BankKeeper"), "nft" (the SDK nft keeper), "store" (a KVStore); "" when
// values of several kinds (or of the module's own types) are put into it.
func (cx *Ctx) narrowIfaceOf(n *types.Named) string {
	if n == nil || n.Obj().Pkg() == nil || !strings.HasPrefix(n.Obj().Pkg().Path(), modPrefix) {
		return ""
	}
	if _, ok := n.Underlying().(*types.Interface); !ok {
		return ""
	}
	if cx.narrow == nil {
		cx.narrow = map[*types.TypeName]string{}
		cx.narrowSrc = map[*types.TypeName]*types.Named{}
		srcT := map[*types.TypeName]*types.Named{}
		srcs := map[*types.TypeName]map[string]bool{}
		kindOf := func(t types.Type) string {
			sn := namedOf(t)
			if sn == nil || sn.Obj().Pkg() == nil {
				return "?"
			}
			switch {
			case isKeeperIface(sn):
				return sn.Obj().Name()
			case sn.Obj().Pkg().Path() == "cosmossdk.io/x/nft/keeper" && sn.Obj().Name() == "Keeper":
				return "nft"
			case sn.Obj().Pkg().Path() == storeTypesPath && (sn.Obj().Name() == "KVStore" || sn.Obj().Name() == "BasicKVStore"):
				return "store"
			case sn.Obj().Pkg().Path() == "cosmossdk.io/store/prefix" && sn.Obj().Name() == "Store":
				return "store"
			}
			return "?"
		}
		note := func(dst types.Type, src types.Type) {
			dn := namedOf(dst)
			if dn == nil || dn.Obj().Pkg() == nil || !strings.HasPrefix(dn.Obj().Pkg().Path(), modPrefix) || isKeeperIface(dn) {
				return
			}
			if _, ok := dn.Underlying().(*types.Interface); !ok {
				return
			}
			if sn := namedOf(src); sn != nil && sn.Obj() == dn.Obj() {
				return
			}
			if srcs[dn.Obj()] == nil {
				srcs[dn.Obj()] = map[string]bool{}
			}
			srcs[dn.Obj()][kindOf(src)] = true
			if sn := namedOf(src); sn != nil {
				srcT[dn.Obj()] = sn
			}
		}
		var scan func(f *ssa.Function)
		scan = func(f *ssa.Function) {
			for _, b := range f.Blocks {
				for _, ins := range b.Instrs {
					switch x := ins.(type) {
					case *ssa.ChangeInterface:
						note(x.Type(), x.X.Type())
					case *ssa.MakeInterface:
						if c, isC := x.X.(*ssa.Const); isC && c.IsNil() {
							continue
						}
						note(x.Type(), x.X.Type())
					}
				}
			}
		}
		for _, f := range cx.P.AllFuncs {
			if !cx.isDoubleFunc(f) {
				scan(f)
			}
		}
		for tn, ks := range srcs {
			if len(ks) == 1 {
				for k := range ks {
					if k != "?" {
						cx.narrow[tn] = k
						cx.narrowSrc[tn] = srcT[tn]
						if k == "store" {
							cx.narrowSrc[tn] = cx.kvStoreNamed(srcT[tn])
						}
					}
				}
			}
		}
	}
	return cx.narrow[n.Obj()]
}

// narrowSource: the dependency type a narrow interface stands for (nil if none).
func (cx *Ctx) narrowSource(n *types.Named) *types.Named {
	if cx.narrowIfaceOf(n) == "" {
		return nil
	}
	return cx.narrowSrc[n.Obj()]
}

// kvStoreNamed: calls on a store behind a narrow interface are named KVStore.<Method>.
func (cx *Ctx) kvStoreNamed(fallback *types.Named) *types.Named {
	if pk := cx.P.ByPath[storeTypesPath]; pk != nil && pk.Types != nil {
		if tn, ok := pk.Types.Scope().Lookup("KVStore").(*types.TypeName); ok {
			if nn, ok := tn.Type().(*types.Named); ok {
				return nn
			}
		}
	}
	return fallback
}
