package main

// Package-level tables: a struct variable initialised once, field by field, by its
// declaration (var startSwitch = feedSwitch{from: PAUSED, to: RUNNING, apply: …}) and never
// written again - its fields are constants of the program, whichever function reads them.

import (
	"go/token"
	"strings"

	"golang.org/x/tools/go/ssa"
)

var (
	progFuncsForGlobals []*ssa.Function
	globalStructMemo    map[*ssa.Global]map[int]ssa.Value
)

// globalStructInit: field index → the value the package initialiser stores into it, for a
// struct-typed irismod global whose only writes are those stores; nil otherwise.
func globalStructInit(g *ssa.Global) map[int]ssa.Value {
	if g == nil || g.Pkg == nil || g.Pkg.Pkg == nil || !strings.HasPrefix(g.Pkg.Pkg.Path(), modPrefix) {
		return nil
	}
	if globalStructMemo == nil {
		globalStructMemo = map[*ssa.Global]map[int]ssa.Value{}
		bad := map[*ssa.Global]bool{}
		scan := func(f *ssa.Function, isInit bool) {
			for _, b := range f.Blocks {
				for _, ins := range b.Instrs {
					switch x := ins.(type) {
					case *ssa.FieldAddr:
						gg, ok := x.X.(*ssa.Global)
						if !ok {
							break
						}
						if x.Referrers() == nil {
							continue
						}
						for _, r := range *x.Referrers() {
							switch y := r.(type) {
							case *ssa.Store:
								if y.Addr != ssa.Value(x) || !isInit {
									bad[gg] = true
									break
								}
								if globalStructMemo[gg] == nil {
									globalStructMemo[gg] = map[int]ssa.Value{}
								}
								if _, dup := globalStructMemo[gg][x.Field]; dup {
									bad[gg] = true
								}
								globalStructMemo[gg][x.Field] = y.Val
							case *ssa.UnOp:
								if y.Op != token.MUL {
									bad[gg] = true
								}
							case *ssa.DebugRef:
							default:
								bad[gg] = true // the field's address is handed on
							}
						}
						continue
					case *ssa.Store:
						if gg, ok := x.Addr.(*ssa.Global); ok {
							bad[gg] = true // assigned as a whole
						}
					case *ssa.UnOp:
						if _, ok := x.X.(*ssa.Global); ok && x.Op == token.MUL {
							continue
						}
					}
					for _, op := range ins.Operands(nil) {
						if op == nil || *op == nil {
							continue
						}
						if gg, ok := (*op).(*ssa.Global); ok {
							if _, isFA := ins.(*ssa.FieldAddr); !isFA {
								bad[gg] = true // address handed on
							}
						}
					}
				}
			}
		}
		seen := map[*ssa.Function]bool{}
		for _, f := range progFuncsForGlobals {
			if f.Pkg != nil {
				if in := f.Pkg.Func("init"); in != nil && !seen[in] {
					seen[in] = true
					scan(in, true)
				}
			}
		}
		for _, f := range progFuncsForGlobals {
			if !seen[f] {
				scan(f, false)
			}
		}
		for gg := range bad {
			delete(globalStructMemo, gg)
		}
	}
	return globalStructMemo[g]
}

// globalFieldValue: v is a load of field f of such a table (or f of a loaded table).
func globalFieldOfLoad(v ssa.Value, f int) ssa.Value {
	u, ok := v.(*ssa.UnOp)
	if !ok || u.Op != token.MUL {
		return nil
	}
	switch x := u.X.(type) {
	case *ssa.Global:
		if f < 0 {
			return nil
		}
		if m := globalStructInit(x); m != nil {
			return m[f]
		}
	case *ssa.FieldAddr:
		if g, ok := x.X.(*ssa.Global); ok && f < 0 {
			if m := globalStructInit(g); m != nil {
				return m[x.Field]
			}
		}
	}
	return nil
}
