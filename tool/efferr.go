package main

// effect-error-propagated: on the paths of the module's message handlers, the error result
// of a call that changes state - a bank / nft mutation, or an irismod function that
// (transitively) writes the store or moves coins - decides how the caller ends: it is
// returned, or tested with the failing side leading only to failure exits. An error that is
// assigned to a shadowed variable, overwritten, or tested without consequence lets the
// handler report success after half of its effects: the SDK then commits the other half
// (the counter without the escrow, the burn without the mint).
//
// Closed on today's tree: the call sites whose error is deliberately dropped are listed by
// (function, callee) with the reason; anything else is a violation.

import (
	"fmt"
	"sort"
	"strings"

	"golang.org/x/tools/go/ssa"
)

var effErrReviewed = map[string]string{}

func (cx *Ctx) effectErrorsPropagated(r *Report, mods []string, rule string) int {
	n := 0
	var roots []*ssa.Function
	for _, e := range cx.Entries {
		if e.Role != "msg" {
			continue
		}
		if len(mods) > 0 && !contains(mods, strings.SplitN(e.Module, "/", 2)[0]) {
			continue
		}
		roots = append(roots, e.Fn)
	}
	reach := cx.Reachable(roots, nil)
	type site struct {
		key, pos, msg string
	}
	var bad []site
	for _, f := range reach.Order {
		if f.Blocks == nil || !isIrismodFunc(f) || !isConsensusCode(cx, f) || cx.isDoubleFunc(f) {
			continue
		}
		if len(mods) > 0 && !contains(mods, moduleOf(funcPkgPath(f))) {
			continue
		}
		for _, b := range f.Blocks {
			for _, ins := range b.Instrs {
				c, ok := ins.(*ssa.Call)
				if !ok {
					continue
				}
				sig := c.Common().Signature()
				nr := sig.Results().Len()
				if nr == 0 || !isErrorType(sig.Results().At(nr-1).Type()) {
					continue
				}
				mut := false
				name := callName(c)
				if k := cx.classifyCall(c); k != "" {
					mut = isMutatingKind(k)
				} else if g := c.Common().StaticCallee(); g != nil && g.Blocks != nil && isIrismodFunc(g) {
					for k := range cx.transPrimKinds(g) {
						if isMutatingKind(k) {
							mut = true
						}
					}
				}
				if !mut {
					continue
				}
				n++
				if errorPropagated(c) || failureOnlyCleanup(c) {
					continue
				}
				key := moduleOf(funcPkgPath(f)) + "|" + shortFn(f) + "|" + name
				if why := effErrReviewed[key]; why != "" {
					r.ok(rule, key, cx.P.Pos(c.Pos()), "error of "+name+" dropped on purpose: "+why)
					continue
				}
				bad = append(bad, site{key, cx.P.Pos(c.Pos()), fmt.Sprintf("in %s the error returned by %s - a call that changes state - does not decide how the function ends (it is not returned, and no test of it leads only to failure exits): when the call fails the handler can still report success and the effects made before it are committed without it", shortFn(f), name)})
			}
		}
	}
	sort.Slice(bad, func(i, j int) bool { return bad[i].key < bad[j].key })
	seen := map[string]bool{}
	for _, s := range bad {
		if seen[s.key] {
			continue
		}
		seen[s.key] = true
		r.violate(rule, s.key, s.pos, s.msg)
	}
	if len(bad) == 0 {
		r.ok(rule, "scan:"+strings.Join(mods, ","), "", fmt.Sprintf("%d state-changing calls with an error result on message paths: every error is returned or tested with a failing consequence", n))
	}
	return n
}

func init() {
	dumps["efferr"] = func(cx *Ctx) {
		r := &Report{}
		_ = r
		var roots []*ssa.Function
		for _, e := range cx.Entries {
			if e.Role == "msg" {
				roots = append(roots, e.Fn)
			}
		}
		reach := cx.Reachable(roots, nil)
		n := 0
		for _, f := range reach.Order {
			if f.Blocks == nil || !isIrismodFunc(f) || !isConsensusCode(cx, f) || cx.isDoubleFunc(f) {
				continue
			}
			for _, b := range f.Blocks {
				for _, ins := range b.Instrs {
					c, ok := ins.(*ssa.Call)
					if !ok {
						continue
					}
					sig := c.Common().Signature()
					nr := sig.Results().Len()
					if nr == 0 || !isErrorType(sig.Results().At(nr-1).Type()) {
						continue
					}
					mut := false
					if k := cx.classifyCall(c); k != "" {
						mut = isMutatingKind(k)
					} else if g := c.Common().StaticCallee(); g != nil && g.Blocks != nil && isIrismodFunc(g) {
						for k := range cx.transPrimKinds(g) {
							if isMutatingKind(k) {
								mut = true
							}
						}
					}
					if !mut {
						continue
					}
					n++
					if !errorPropagated(c) {
						fmt.Printf("%s|%s|%s  %s\n", moduleOf(funcPkgPath(f)), shortFn(f), callName(c), cx.P.Pos(c.Pos()))
					}
				}
			}
		}
		fmt.Println(n, "sites")
	}
}
