package main

// C08 — Service: each request gets exactly one outcome; contexts are controlled
// by their consumer; module callbacks fire from the batch-completion sites only.

import (
	"fmt"
	"go/constant"
	"go/types"
	"strings"

	"golang.org/x/tools/go/ssa"
)

func init() { register("C08", true, true, "other", runC08) }

func runC08(cx *Ctx, r *Report) {
	r.Explanation = "F3 typestate and authority over every call chain of the service handlers and the end blocker. (answer guards) every mutation reachable from RespondService holds: the responder equals the request's recorded provider and the request is still in the active index; the active-index delete and the response write are must-executed. (expiry) the end blocker's per-request body must-executes slash, refund and the active-index delete for every expired request, and runs only under BatchState ≠ COMPLETED. (authority) every mutation of Pause/Start/Kill/UpdateRequestContext holds CheckAuthority(signer, context id, true) == nil, whose success implies signer == recorded consumer. (callback) the registered response callback is invoked from a single function, with outputs iff len(outputs) ≥ threshold, that function is called only from the batch-completion function under ModuleName ≠ \"\", and batch completion is called from exactly the two completion sites (last answer arrived; batch expired). Decides the one-outcome structure and who-may-act; the height arithmetic of repeated batches is not decided."
	r.Assumptions = []string{"a request is in the active index from issue until answer or expiry (C13 queue pairing)", "the SDK reverts a failing message"}
	per := collectEvents(cx, r, "service", "msg", "abci")
	mut := func(k string) bool { return htlcMutating(k) }
	// ------------------------------------------------ answer guards
	{
		evs := per["RespondService"]
		n, okAll := 0, true
		req := "service/keeper.Keeper.GetRequest(keeper, hex.DecodeString(msg.RequestId)#0)#0"
		for _, x := range evs {
			if !mut(x.ev.Kind) {
				continue
			}
			n++
			fs := x.w.FactsAt(x.ev.Fr, x.ev.Site)
			_, g1 := x.fact(true, "sdk.AccAddress.Equals(addr(msg.Provider), addr("+req+".Provider))")
			_, g2 := x.fact(true, "service/keeper.Keeper.IsRequestActive(keeper, hex.DecodeString(msg.RequestId)#0)")
			_, g3 := x.fact(true, "service/keeper.Keeper.GetRequest(keeper, hex.DecodeString(msg.RequestId)#0) : ok")
			if !g1 {
				// the record may be loaded through any read-only getter of the request prefix
				// keyed by the message's request id; a responder equal to the recorded provider
				// of that record implies the record exists (an absent record has no provider)
				if _, ok := cx.keyedRecordFact(fs, true, "sdk.AccAddress.Equals(addr(msg.Provider), addr(", ".Provider))", "service:RequestKey=0x13", "hex.DecodeString(msg.RequestId)#0"); ok {
					g1, g3 = true, true
				}
			}
			if !g2 {
				if _, ok := cx.keyedRecordFact(fs, true, "", "", "service:ActiveRequestByIDKey=0x15", "hex.DecodeString(msg.RequestId)#0"); ok {
					g2 = true
				}
			}
			if !(g1 && g2 && g3) {
				okAll = false
				r.violate("answer-guards", "RespondService|"+x.ev.Kind+"|"+strings.Join(x.ev.Prefix, ","), x.ev.Pos(cx), fmt.Sprintf("%s reachable in RespondService without {request found: %v, responder == recorded provider: %v, request active: %v} on chain %s", x.ev.Kind, g3, g1, g2, x.ev.Fr.String()))
			}
		}
		if okAll {
			r.ok("answer-guards", "RespondService", "", fmt.Sprintf("all %d mutations of RespondService are dominated by: request found ∧ responder == recorded provider ∧ request in the active index", n))
		}
		if n < 6 {
			r.toolErr("only %d mutations found in RespondService (≥6 confirmed)", n)
		}
		del := pick(evs, "store.delete", func(x hev) bool { return hasPrefix(x.ev, "service:ActiveRequestByIDKey=0x15") })
		del2 := pick(evs, "store.delete", func(x hev) bool { return hasPrefix(x.ev, "service:ActiveRequestKey=0x14") })
		resp := pick(evs, "store.set", func(x hev) bool { return hasPrefix(x.ev, "service:ResponseKey=0x16") })
		ok := len(del) == 1 && len(del2) == 1 && len(resp) == 1 && del[0].must() && del2[0].must() && resp[0].must() &&
			strings.Contains(del[0].ev.Args[0].LooseString(), "hex.DecodeString(msg.RequestId)#0") && strings.Contains(resp[0].ev.Args[0].LooseString(), "hex.DecodeString(msg.RequestId)#0")
		r.check(ok, "answer-closes", "RespondService", "", "every successful answer writes the response under the request id and removes the request from both active indexes", "a successful answer does not always write the response and delete both active-index entries of the answered request")
	}
	// ------------------------------------------------ expiry body
	{
		evs := per["EndBlock"]
		refund := pick(evs, "bank.SendCoinsFromModuleToAccount", func(x hev) bool { return x.ev.Args[1].LooseString() == `"service_request_account"` })
		slash := pick(evs, "bank.SendCoinsFromModuleToModule", func(x hev) bool { return x.ev.Args[1].LooseString() == `"service_deposit_account"` })
		delA := pick(evs, "store.delete", func(x hev) bool { return hasPrefix(x.ev, "service:ActiveRequestByIDKey=0x15") })
		ok := len(refund) == 1 && len(slash) >= 1 && len(delA) >= 1
		pos := ""
		if ok {
			pos = refund[0].ev.Pos(cx)
			cf, s1 := closureAncestor(refund[0].ev)
			cf2, s2 := closureAncestor(slash[0].ev)
			var cf3 *Frame
			var s3 ssa.Instruction
			for _, d := range delA {
				if c, s := closureAncestor(d.ev); c != nil && cf != nil && c.Fn == cf.Fn {
					cf3, s3 = c, s
				}
			}
			ok = cf != nil && cf2 != nil && cf3 != nil && cf.Fn == cf2.Fn && siteMust(s1) && siteMust(s2) && siteMust(s3)
			if ok {
				// the closure runs only under BatchState != COMPLETED
				_, g := refund[0].fact(true, "(‹RequestContext›.BatchState != 1)")
				ok = g
			}
		}
		if ok {
			expirySettledConverse(r, refund[0], pos)
		}
		r.check(ok, "expiry-body", "EndBlock", pos, "for every expired request the end blocker must-executes slash, refund and the active-index delete, and only while the batch is not completed", "the expiry body does not must-execute slash + refund + active-index delete under BatchState ≠ COMPLETED")
	}
	// ------------------------------------------------ authority on context control
	for _, name := range []string{"PauseRequestContext", "StartRequestContext", "KillRequestContext", "UpdateRequestContext"} {
		evs := per[name]
		n, okAll := 0, true
		for _, x := range evs {
			if !mut(x.ev.Kind) {
				continue
			}
			n++
			_, g := x.fact(true, "service/keeper.Keeper.CheckAuthority(keeper, addr(msg.Consumer), hex.DecodeString(msg.RequestContextId)#0, true) : err==nil")
			_, g2 := x.fact(false, "(msg.Consumer != service/keeper.Keeper.GetRequestContext(keeper, hex.DecodeString(msg.RequestContextId)#0)#0.Consumer)")
			if !(g && g2) {
				okAll = false
				r.violate("context-authority", name+"|"+x.ev.Kind+"|"+strings.Join(x.ev.Prefix, ","), x.ev.Pos(cx), x.ev.Kind+" reachable in "+name+" without CheckAuthority(signer, context id, true) == nil (signer == recorded consumer, module-owned contexts refused) on chain "+x.ev.Fr.String())
			}
		}
		if okAll && n > 0 {
			r.ok("context-authority", name, "", fmt.Sprintf("all %d mutations of %s are dominated by CheckAuthority(signer, id, true) == nil, which implies signer == the context's recorded consumer", n, name))
		}
		if n == 0 {
			r.toolErr("%s: no mutation found", name)
		}
	}
	// ------------------------------------------------ callback discipline
	cx.c08Callback(r)
	cx.lostUpdateRule(r, []string{"service", "oracle", "random"}, 40)
	cx.scanPrefixClosedRule(r, []string{"service"}, "scan-prefix-closed")
	cx.keyEncodingUniformRule(r, []string{"service"}, "key-encoding-uniform")
	// every entry of the three service work lists is taken off its list by the body that
	// processes it, on every path (rule shared with C13): a context whose entry stays behind
	// at a past height is never scheduled again and issues no further batch
	{
		walks := map[string]*c13Walk{}
		cx.c13DequeueRule(r, func(e Entry) *c13Walk {
			k := entryKey(&e)
			if walks[k] == nil {
				ee := e
				walks[k] = cx.c13WalkEntry(&ee, r)
			}
			return walks[k]
		}, func(q c13Queue) bool { return q.mod == "service" })
		r.requireCount("dequeue", 3)
	}
	// the expired-batch body schedules the next batch only for a repeated context that is
	// below its total (or unlimited)
	{
		n := 0
		for _, x := range per["EndBlock"] {
			if x.ev.Kind != "store.set" || !hasPrefix(x.ev, "service:NewRequestBatchKey=0x10") {
				continue
			}
			cf, s := closureAncestor(x.ev)
			if cf == nil {
				continue
			}
			n++
			// decided in the body or in any function between it and the scheduling call
			why1, ok1, why2, ok2 := "", false, "", false
			var site ssa.Instruction = x.ev.Site
			for f := x.ev.Fr; f != nil; f = f.Parent {
				w1, o1 := x.w.pathGuardAny(f, site, guardAlt{Value: true, Suffix: ".Repeated"}, guardAlt{Value: true, Suffix: ".Repeated}"})
				w2, o2 := x.w.pathGuardAny(f, site, guardAlt{Value: true, Subs: []string{".RepeatedTotal", " < 0)"}}, guardAlt{Value: true, Subs: []string{".BatchCounter", " < ", ".RepeatedTotal"}})
				if o1 && !ok1 {
					why1, ok1 = w1, true
				}
				if o2 && !ok2 {
					why2, ok2 = w2, true
				}
				if f == cf || f.Call == nil {
					break
				}
				site = f.Call
			}
			_ = s
			r.check(ok1 && ok2, "reschedule-condition", "EndBlock", x.ev.Pos(cx), "the next batch is scheduled only when Repeated ∧ (RepeatedTotal < 0 ∨ BatchCounter < RepeatedTotal): "+why1+"; "+why2, fmt.Sprintf("the expired-batch body schedules another batch without Repeated ∧ (RepeatedTotal < 0 ∨ BatchCounter < RepeatedTotal) decided on every path (Repeated: %v, below total: %v): a context would run past its total or a one-shot context would repeat", ok1, ok2))
		}
		if n == 0 {
			r.violate("reschedule-condition", "EndBlock", "", "the expired-batch body no longer schedules the next batch of a repeated context")
		}
	}
	r.requireCount("reschedule-condition", 1)
	cx.batchCompletedWriters(r, per)
	{
		walks := map[string]*c13Walk{}
		cx.singleEntryRule(r, func(e Entry) *c13Walk {
			k := entryKey(&e)
			if walks[k] == nil {
				ee := e
				walks[k] = cx.c13WalkEntry(&ee, r)
			}
			return walks[k]
		})
	}
	// a new batch starts with a clean answer count: wherever the batch counter advances,
	// BatchResponseCount := 0 executes with it. A count carried over from the previous
	// batch makes the next batch "complete" after too few answers; the requests still
	// open are then skipped at expiry and end with neither outcome.
	{
		n := 0
		kc := keyCounter{}
		for _, name := range sortedKeys(per) {
			for _, x := range per[name] {
				if x.ev.Kind != "delta:RequestContext.BatchCounter:+" {
					continue
				}
				n++
				ok := false
				for _, y := range per[name] {
					if y.ev.Kind == "assign:RequestContext.BatchResponseCount" && y.ev.Args[0].LooseString() == "0" && (y.ev.Fr == x.ev.Fr && mutualMust(x.ev.Site, y.ev.Site) || coExecuted(x.ev, y.ev)) {
						ok = true
					}
				}
				r.check(ok, "batch-start-resets", kc.next(name+"|"+shortFn(x.ev.Fr.Fn)), x.ev.Pos(cx), "BatchCounter++ is accompanied by BatchResponseCount := 0 on every path", "a new batch is started in "+shortFn(x.ev.Fr.Fn)+" (BatchCounter++) without resetting BatchResponseCount on every path: answers counted in the previous batch complete the new one early, and its unanswered requests are neither answered nor expired")
			}
		}
		if n < 2 {
			r.toolErr("only %d batch starts (BatchCounter++) found (2 functions confirmed)", n)
		}
	}
	r.requireCount("context-authority", 4)
}

// c08Callback: dynamic calls of values of the named func type ResponseCallback.
func (cx *Ctx) c08Callback(r *Report) {
	var sites []ssa.CallInstruction
	for _, f := range cx.P.AllFuncs {
		if !isConsensusCode(cx, f) || moduleOf(funcPkgPath(f)) != "service" {
			continue
		}
		for _, b := range f.Blocks {
			for _, ins := range b.Instrs {
				ci, ok := ins.(ssa.CallInstruction)
				if !ok || ci.Common().IsInvoke() || ci.Common().StaticCallee() != nil {
					continue
				}
				if n, ok := ci.Common().Value.Type().(*types.Named); ok && n.Obj().Name() == "ResponseCallback" {
					sites = append(sites, ci)
				}
			}
		}
	}
	if len(sites) == 0 {
		r.toolErr("no invocation of a ResponseCallback value found")
		return
	}
	F := sites[0].Parent()
	same := true
	for _, s := range sites {
		if s.Parent() != F {
			same = false
		}
	}
	r.check(same, "callback-single-dispatcher", "ResponseCallback", cx.P.Pos(sites[0].Pos()), fmt.Sprintf("the response callback is invoked only inside %s (%d call sites)", shortFn(F), len(sites)), "the response callback is invoked from more than one function")
	// with / without outputs split on the threshold
	if len(sites) == 2 {
		split := false
		for _, df := range dominatingFacts(sites[0].Block()) {
			if bo, ok := df.Cond.(*ssa.BinOp); ok && (bo.Op.String() == ">=" || bo.Op.String() == "<") {
				for _, df2 := range dominatingFacts(sites[1].Block()) {
					if df2.Cond == df.Cond && df2.Holds != df.Holds {
						split = true
					}
				}
			}
		}
		// the error argument is nil exactly on the ≥ side
		nilOnOK := false
		for i, s := range sites {
			args := s.Common().Args
			errNil := isNilConst(args[len(args)-1])
			for _, df := range dominatingFacts(s.Block()) {
				if bo, ok := df.Cond.(*ssa.BinOp); ok && bo.Op.String() == ">=" {
					if df.Holds == errNil {
						nilOnOK = true
					} else {
						nilOnOK = false
					}
				}
			}
			_ = i
		}
		r.check(split && nilOnOK, "callback-threshold", "ResponseCallback", cx.P.Pos(sites[0].Pos()), "the callback receives a nil error iff len(outputs) ≥ the batch response threshold, otherwise an error", "the two callback invocations are not the two sides of the len(outputs) ≥ threshold test (nil error on the ≥ side)")
	} else if len(sites) == 1 {
		// one call whose error argument is chosen by the threshold test:
		// `var err error; if len(outputs) < threshold { err = … }; cb(…, err)`
		args := sites[0].Common().Args
		ok := false
		errArg := args[len(args)-1]
		// the error handed over may be worked out by a helper that returns (outputs, err):
		// the rule is applied to what that helper returns
		for d := 0; d < 3; d++ {
			var c *ssa.Call
			idx := 0
			switch y := errArg.(type) {
			case *ssa.Extract:
				c, _ = y.Tuple.(*ssa.Call)
				idx = y.Index
			case *ssa.Call:
				c = y // a helper that returns just the error (thresholdShortfall(n, threshold))
			}
			if c == nil || c.Common().IsInvoke() {
				break
			}
			ex := struct{ Index int }{idx}
			g := c.Common().StaticCallee()
			if g == nil || g.Blocks == nil || !isIrismodFunc(g) {
				break
			}
			rets := returnsOf(g)
			// the helper decides with two returns: nil when len ≥ threshold, the error otherwise
			if len(rets) == 2 && ex.Index < len(rets[0].Results) && ex.Index < len(rets[1].Results) {
				nilRet, errRet := rets[0], rets[1]
				if !isNilConst(nilRet.Results[ex.Index]) {
					nilRet, errRet = errRet, nilRet
				}
				if isNilConst(nilRet.Results[ex.Index]) && isErrValue(errRet.Results[ex.Index], errRet.Block(), 0) {
					isLenArg := func(v ssa.Value) bool {
						if pa, isP := v.(*ssa.Parameter); isP {
							for i, q := range g.Params {
								if q == pa && i < len(c.Common().Args) {
									v = c.Common().Args[i]
								}
							}
						}
						if lc, isCall := v.(*ssa.Call); isCall {
							if b, isB := lc.Common().Value.(*ssa.Builtin); isB && b.Name() == "len" {
								return true
							}
						}
						return false
					}
					reached := func(ret *ssa.Return, wantAtLeast bool) bool {
						for _, df := range dominatingFacts(ret.Block()) {
							bo, isBin := df.Cond.(*ssa.BinOp)
							if !isBin || !isLenArg(bo.X) {
								continue
							}
							atLeast := (bo.Op.String() == ">=" && df.Holds) || (bo.Op.String() == "<" && !df.Holds)
							below := (bo.Op.String() == "<" && df.Holds) || (bo.Op.String() == ">=" && !df.Holds)
							if wantAtLeast && atLeast || !wantAtLeast && below {
								return true
							}
						}
						return false
					}
					if reached(nilRet, true) && reached(errRet, false) {
						ok = true
					}
				}
				break
			}
			if len(rets) != 1 || ex.Index >= len(rets[0].Results) {
				break
			}
			errArg = rets[0].Results[ex.Index]
		}
		if phi, isPhi := errArg.(*ssa.Phi); isPhi && len(phi.Edges) == 2 {
			for i, e := range phi.Edges {
				other := phi.Edges[1-i]
				if !isNilConst(other) || i >= len(phi.Block().Preds) {
					continue
				}
				pe, pn := phi.Block().Preds[i], phi.Block().Preds[1-i]
				if !isErrValue(e, pe, 0) {
					continue
				}
				for _, df := range dominatingFacts(pe) {
					bo, isBin := df.Cond.(*ssa.BinOp)
					if !isBin {
						continue
					}
					below := (bo.Op.String() == "<" && df.Holds) || (bo.Op.String() == ">=" && !df.Holds)
					isLen := false
					if c, isCall := bo.X.(*ssa.Call); isCall {
						if b, isB := c.Common().Value.(*ssa.Builtin); isB && b.Name() == "len" {
							isLen = true
						}
					}
					// the nil edge leaves the very block that makes the test (or one that holds its opposite)
					opposite := df.If != nil && df.If.Block() == pn
					for _, d2 := range dominatingFacts(pn) {
						if d2.Cond == df.Cond && d2.Holds != df.Holds {
							opposite = true
						}
					}
					if below && isLen && opposite {
						ok = true
					}
				}
			}
		}
		r.check(ok, "callback-threshold", "ResponseCallback", cx.P.Pos(sites[0].Pos()), "the callback's error argument is non-nil exactly when len(outputs) < the batch response threshold", "the single callback invocation does not receive {error iff len(outputs) < threshold}")
	} else {
		r.violate("callback-threshold", "ResponseCallback", cx.P.Pos(sites[0].Pos()), fmt.Sprintf("%d callback invocations (expected the two sides of the threshold test)", len(sites)))
	}
	cx.callbackOutputsFiltered(r, sites)
	// F called only from the completion function G, under ModuleName != ""
	// (call sites in functions that no message, block or callback entry reaches - an exported
	// convenience wrapper left for other modules - dispatch nothing on this chain)
	liveReach := cx.Reachable(cx.entryFns(cx.EntriesOf("msg", "abci", "callback", "hook", "genesis")), nil)
	var callers []CallSite
	for _, c := range cx.CallersOf(F) {
		if liveReach.Has(c.Caller) {
			callers = append(callers, c)
		}
	}
	okG := len(callers) == 1
	var G *ssa.Function
	if okG {
		G = callers[0].Caller
		// the guard in any spelling: len(x.ModuleName) != 0, x.ModuleName != "", …
		fs := newWalker(cx).FactsAt(&Frame{Fn: G}, callers[0].Site)
		_, guard := hasFact(fs, true, `.ModuleName != "")`)
		okG = guard
	}
	pos := ""
	if len(callers) > 0 {
		pos = cx.P.Pos(callers[0].Site.Pos())
	}
	r.check(okG, "callback-from-completion", "ResponseCallback", pos, "the dispatcher is called from a single site, under len(ModuleName) != 0", fmt.Sprintf("the callback dispatcher has %d call sites or is not guarded by len(ModuleName) != 0", len(callers)))
	if G != nil {
		gc := cx.CallersOf(G)
		// exactly two completion sites: one on the answer path, one in the end blocker
		msgReach := cx.Reachable(cx.entryFns(cx.entriesOfModule("service", "msg")), nil)
		abciReach := cx.Reachable(cx.entryFns(cx.entriesOfModule("service", "abci")), nil)
		nMsg, nAbci := 0, 0
		for _, c := range gc {
			// the end blocker's site is in the expired-batch body (a closure or a function
			// it calls), which no message handler reaches
			if msgReach.Has(c.Caller) {
				nMsg++
			} else if abciReach.Has(c.Caller) {
				nAbci++
			}
		}
		r.check(len(gc) == 2 && nMsg == 1 && nAbci == 1, "completion-sites", "CompleteBatch", cx.P.Pos(G.Pos()), "batch completion is called from exactly two sites: when the last answer arrives and when the batch expires in the end blocker", fmt.Sprintf("batch completion has %d call sites (answer path %d, end blocker %d); expected exactly one of each", len(gc), nMsg, nAbci))
		// the end-block site is under BatchState != COMPLETED; the answer site under count equality
		for _, c := range gc {
			facts := dominatingFacts(c.Site.Block())
			ok := false
			for _, df := range facts {
				if bo, ok2 := df.Cond.(*ssa.BinOp); ok2 && df.Holds {
					x := pureExpr(bo.X, 0)
					y := pureExpr(bo.Y, 0)
					if bo.Op.String() == "!=" && strings.HasSuffix(x, ".BatchState") {
						ok = true
					}
					if bo.Op.String() == "==" && (strings.HasSuffix(x, ".BatchResponseCount") && strings.HasSuffix(y, ".BatchRequestCount")) {
						ok = true
					}
				}
			}
			if ci, isIns := c.Site.(ssa.Instruction); isIns && !ok {
				// … or the test was made by a helper that worked out a plan for the batch
				// (plan.settleBatch = BatchState != COMPLETED): what the plan's flag implies
				fs := newWalker(cx).FactsAt(&Frame{Fn: c.Caller}, ci)
				if _, has := hasFact(fs, true, ".BatchState != "); has {
					ok = true
				}
				if _, has := hasFact(fs, true, ".BatchResponseCount", " == ", ".BatchRequestCount"); has {
					ok = true
				}
			}
			where := "answer path"
			if !msgReach.Has(c.Caller) {
				where = "end blocker"
			}
			r.check(ok, "completion-guard", where, cx.P.Pos(c.Site.Pos()), "completion on the "+where+" is guarded (BatchState ≠ COMPLETED / responses == requests)", "completion on the "+where+" is not guarded by the batch-state or response-count test: a batch could complete (and call back) twice")
		}
	}
}

// batchCompletedWriters (shared by C08 and C07): who may declare a batch completed.
func (cx *Ctx) batchCompletedWriters(r *Report, per map[string][]hev) {
	// who may declare a batch completed: only the batch-completion function and the
	// automatic pause; anything else (e.g. a kill) that sets BatchState := COMPLETED makes
	// the expiry handler skip the slash/refund of the batch's unanswered requests
	{
		n := 0
		kc := keyCounter{}
		for _, name := range sortedKeys(per) {
			for _, x := range per[name] {
				if x.ev.Kind != "assign:RequestContext.BatchState" || x.ev.Args[0].LooseString() != "1" {
					continue
				}
				n++
				okW := false
				for f := x.ev.Fr; f != nil; f = f.Parent {
					if nm := f.Fn.Name(); (nm == "CompleteBatch" || nm == "OnRequestContextPaused") && moduleOf(funcPkgPath(f.Fn)) == "service" {
						okW = true
					}
				}
				// a local copy that is brought in line with what a callee already stored and is
				// never written to the store afterwards declares nothing
				if !okW {
					stored := false
					for _, y := range per[name] {
						if y.ev.Kind == "store.set" && hasPrefix(y.ev, "service:RequestContextKey=0x08") && reachesBefore(x.ev, y.ev) {
							stored = true
						}
					}
					if !stored {
						r.ok("batch-completed-writers", kc.next(name), x.ev.Pos(cx), "BatchState := COMPLETED on a copy of the context that is not stored afterwards")
						continue
					}
				}
				r.check(okW, "batch-completed-writers", kc.next(name), x.ev.Pos(cx), "BatchState := COMPLETED is written by the batch-completion function or the automatic pause", "BatchState is set to COMPLETED in "+shortFn(x.ev.Fr.Fn)+" (reached from "+name+"), outside batch completion and automatic pause: the expired-batch handler then skips the slash and refund of the batch's unanswered requests, which end with neither outcome")
			}
		}
		if n < 3 {
			r.toolErr("only %d BatchState := COMPLETED sites found (≥3 confirmed)", n)
		}
	}
}

// expirySettledConverse: the converse of the expiry-body guard (shared with C13: an open
// batch that is skipped at its expiry leaves queue and index entries that nothing serves).
func expirySettledConverse(r *Report, refundEv hev, pos string) {
	refund := []hev{refundEv}
	// … and whenever the batch is not completed: the test that guards the settlement is false
	// only for a completed batch (a plan that also skips, say, a paused context leaves the
	// requests of its open batch unexpired for good - the list is looked at once)
	{
		decided, converse := false, true
		var site ssa.Instruction = refund[0].ev.Site
		for f := refund[0].ev.Fr; f != nil && !decided; f = f.Parent {
			for _, df := range dominatingFacts(site.Block()) {
				as, okA := refund[0].w.constAlts(f, df.Cond, 0)
				if !okA {
					continue
				}
				isGuard := false
				for _, a := range as {
					if a.val.Kind() != constant.Bool || constant.BoolVal(a.val) != df.Holds {
						continue
					}
					for k, ft := range a.facts {
						if ft.Holds && strings.HasSuffix(k, ".BatchState != 1)") {
							isGuard = true
						}
					}
				}
				if !isGuard {
					continue
				}
				decided = true
				for _, a := range as {
					if a.val.Kind() != constant.Bool || constant.BoolVal(a.val) == df.Holds {
						continue
					}
					done := false
					for k, ft := range a.facts {
						if !ft.Holds && strings.HasSuffix(ft.Text, ".BatchState != 1)") || ft.Holds && strings.HasSuffix(k, ".BatchState == 1)") {
							done = true
						}
					}
					if !done {
						converse = false
					}
				}
			}
			if f.Call != nil {
				site = f.Call
			} else if f.ViaSite != nil {
				site = f.ViaSite
			} else {
				break
			}
		}
		r.check(decided && converse, "expiry-body-complete", "EndBlock", pos, "the settlement of an expired batch is skipped only when the batch is already completed", "the test guarding the settlement of an expired batch can be false for a batch that is not completed: its unanswered requests are then never expired (no slash, no refund, active-index entries left behind) - the expired-batch list is looked at only once")
	}
}
