package main

// Thorough tier, second half: sensitivity of the property's rules. Each entry of
// selftest/variants.json that belongs to the property and still applies to the
// tree under test is applied to a scratch copy of the repository (never to the
// repository itself); the checker is re-run on the copy in a fresh process and
// must report the seeded construct (break variants) or stay silent
// (behaviour-preserving variants). The outcome is recorded in the evidence; it
// never changes the verdict on the tree under test.

import (
	"encoding/json"
	"fmt"
	"os"
	"os/exec"
	"path/filepath"
	"strings"
	"sync"
)

type variantEdit struct {
	File string `json:"file"`
	Old  string `json:"old"`
	New  string `json:"new"`
}

type variantDef struct {
	ID     string        `json:"id"`
	Prop   string        `json:"prop"`
	Kind   string        `json:"kind"`
	File   string        `json:"file"`
	Old    string        `json:"old"`
	New    string        `json:"new"`
	Edits  []variantEdit `json:"edits"`
	Expect string        `json:"expect"`
	Patch  string        `json:"patch"` // unified diff relative to the verif root (seeded changes)
}

type variantResult struct {
	ID      string `json:"id"`
	Kind    string `json:"kind"`
	Applied bool   `json:"applied"`
	Exit    int    `json:"exit"`
	Good    bool   `json:"as_expected"`
	Note    string `json:"note,omitempty"`
}

func copyTree(src, dst string) error {
	return filepath.Walk(src, func(p string, info os.FileInfo, err error) error {
		if err != nil {
			return err
		}
		rel, _ := filepath.Rel(src, p)
		if rel == ".git" || strings.HasPrefix(rel, ".git"+string(os.PathSeparator)) {
			if info.IsDir() {
				return filepath.SkipDir
			}
			return nil
		}
		t := filepath.Join(dst, rel)
		if info.IsDir() {
			return os.MkdirAll(t, 0o755)
		}
		if !info.Mode().IsRegular() {
			return nil
		}
		b, err := os.ReadFile(p)
		if err != nil {
			return err
		}
		return os.WriteFile(t, b, info.Mode().Perm())
	})
}

func runVariants(repo, verif, prop string) []variantResult {
	b, err := os.ReadFile(filepath.Join(verif, "selftest", "variants.json"))
	if err != nil {
		return nil
	}
	var all []variantDef
	if json.Unmarshal(b, &all) != nil {
		return nil
	}
	var mine []variantDef
	for _, v := range all {
		if v.Prop == prop {
			mine = append(mine, v)
		}
	}
	res := make([]variantResult, len(mine))
	self, _ := os.Executable()
	sem := make(chan struct{}, 4)
	var wg sync.WaitGroup
	for i, v := range mine {
		wg.Add(1)
		go func(i int, v variantDef) {
			defer wg.Done()
			sem <- struct{}{}
			defer func() { <-sem }()
			kind := v.Kind
			if kind == "" {
				kind = "break"
			}
			r := variantResult{ID: v.ID, Kind: kind}
			defer func() { res[i] = r }()
			edits := v.Edits
			if len(edits) == 0 && v.Patch == "" {
				edits = []variantEdit{{v.File, v.Old, v.New}}
			}
			if v.Patch != "" {
				if exec.Command("git", "-C", repo, "apply", "--check", filepath.Join(verif, v.Patch)).Run() != nil {
					r.Note = "does not apply to the tree under test (skipped)"
					return
				}
			}
			// applicable to the tree under test?
			for _, e := range edits {
				src, err := os.ReadFile(filepath.Join(repo, e.File))
				if err != nil || strings.Count(string(src), e.Old) != 1 {
					r.Note = "does not apply to the tree under test (skipped)"
					return
				}
			}
			tmp, err := os.MkdirTemp("", "irislint-variant-")
			if err != nil {
				r.Note = err.Error()
				return
			}
			defer os.RemoveAll(tmp)
			scratch := filepath.Join(tmp, "repo")
			if err := copyTree(repo, scratch); err != nil {
				r.Note = err.Error()
				return
			}
			for _, e := range edits {
				p := filepath.Join(scratch, e.File)
				src, _ := os.ReadFile(p)
				os.WriteFile(p, []byte(strings.Replace(string(src), e.Old, e.New, 1)), 0o644)
			}
			if v.Patch != "" {
				if out, err := exec.Command("git", "-C", scratch, "apply", filepath.Join(verif, v.Patch)).CombinedOutput(); err != nil {
					r.Note = "patch failed on the scratch copy: " + string(out)
					return
				}
			}
			r.Applied = true
			cmd := exec.Command(self, "-repo", scratch, "-verif", verif, "-prop", prop, "-tier", "quick")
			cmd.Env = append(os.Environ(), "VERIF_EVIDENCE_DIR="+filepath.Join(tmp, "evidence"))
			out, err := cmd.CombinedOutput()
			r.Exit = 0
			if ee, ok := err.(*exec.ExitError); ok {
				r.Exit = ee.ExitCode()
			} else if err != nil {
				r.Note = err.Error()
				r.Exit = -1
			}
			if kind == "break" {
				r.Good = r.Exit == 1 && strings.Contains(string(out), v.Expect)
			} else {
				r.Good = r.Exit == 0
			}
			if !r.Good && r.Note == "" {
				r.Note = fmt.Sprintf("expected %q", v.Expect)
			}
		}(i, v)
	}
	wg.Wait()
	return res
}
