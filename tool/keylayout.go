package main

// Key layouts: every store-key constructor is flattened into its sequence of
// components - constants (prefix bytes, delimiters), fixed-width encodings and
// variable-length values - and a variable-length component must not be followed
// directly by another non-constant component: without a delimiter between them
// the key of ("eth", n) is a prefix-neighbour of the keys of ("ethPrice", m), and a
// prefix scan for one name walks into the records of another.

import (
	"fmt"
	"go/types"
	"sort"
	"strings"

	"golang.org/x/tools/go/ssa"
)

type keyComp struct {
	kind string // C const, V variable length, F fixed width, ? unknown
	desc string
}

func (cx *Ctx) keyComponents(t *Term, depth int) []keyComp {
	if t == nil || depth > 12 {
		return []keyComp{{"?", "deep"}}
	}
	switch t.Op {
	case "global", "const":
		return []keyComp{{"C", t.LooseString()}}
	case "nil":
		return nil
	case "param", "free":
		return []keyComp{{"V", t.Name}}
	case "field", "index", "extract":
		return []keyComp{{"V", t.LooseString()}}
	case "phi":
		// alternatives of the same shape are common (state ? prefixA : prefixB)
		allC := true
		for _, a := range t.Args {
			for _, c := range cx.keyComponents(a, depth+1) {
				if c.kind != "C" {
					allC = false
				}
			}
		}
		if allC {
			return []keyComp{{"C", t.LooseString()}}
		}
		return []keyComp{{"?", "phi"}}
	case "alloc":
		return []keyComp{{"F", t.LooseString()}}
	case "call":
		switch {
		case t.Name == "append" || t.Name == "varargs":
			var out []keyComp
			for _, a := range t.Args {
				out = append(out, cx.keyComponents(a, depth+1)...)
			}
			return out
		case t.Name == "addr" || t.Name == "str":
			return []keyComp{{"V", t.LooseString()}}
		case strings.HasSuffix(t.Name, "Uint64ToBigEndian") || strings.HasSuffix(t.Name, "Int64ToBigEndian") || strings.Contains(t.Name, "BigEndian.AppendUint") || strings.HasSuffix(t.Name, "tmhash.Sum") || strings.HasSuffix(t.Name, "sha256.Sum256"):
			return []keyComp{{"F", t.Name}}
		case strings.HasSuffix(t.Name, "address.MustLengthPrefix") || strings.HasSuffix(t.Name, "address.LengthPrefix"):
			return []keyComp{{"F", "length-prefixed " + t.Name}}
		case strings.HasSuffix(t.Name, "bytes.Join") || strings.HasSuffix(t.Name, "strings.Join") || strings.HasSuffix(t.Name, "fmt.Sprintf"):
			return []keyComp{{"?", t.Name}}
		}
		return []keyComp{{"V", t.LooseString()}}
	case "struct":
		return []keyComp{{"?", "struct"}}
	}
	return []keyComp{{"?", t.Op}}
}

type keyLayout struct {
	fn    *ssa.Function
	comps []keyComp
}

func (cx *Ctx) keyLayouts() []keyLayout {
	var out []keyLayout
	for _, f := range cx.P.AllFuncs {
		if f.Blocks == nil || !isIrismodFunc(f) || f.Parent() != nil || f.Signature.Recv() != nil {
			continue
		}
		p := funcPkgPath(f)
		if !strings.Contains(p, "/types") || strings.Contains(p, "migrations") {
			continue
		}
		res := f.Signature.Results()
		if res.Len() != 1 {
			continue
		}
		sl, ok := res.At(0).Type().Underlying().(*types.Slice)
		if !ok {
			continue
		}
		if b, ok := sl.Elem().Underlying().(*types.Basic); !ok || b.Kind() != types.Byte {
			continue
		}
		n := f.Name()
		if !(strings.Contains(n, "Key") || strings.Contains(n, "Subspace") || strings.Contains(n, "Prefix")) {
			continue
		}
		ts := newTerms(cx)
		m := map[string][]keyComp{}
		for _, ret := range returnsOf(f) {
			t := ts.Of(ret.Results[0], &Frame{Fn: f})
			t = ts.expandKeyCalls(t, 0)
			cs := cx.keyComponents(t, 0)
			var ss []string
			for _, c := range cs {
				ss = append(ss, c.kind)
			}
			m[strings.Join(ss, "")] = cs
		}
		for _, k := range sortedKeys(m) {
			out = append(out, keyLayout{f, m[k]})
		}
	}
	sort.Slice(out, func(i, j int) bool { return shortFn(out[i].fn) < shortFn(out[j].fn) })
	return out
}

// expandKeyCalls replaces calls to other key constructors of the module by their
// own composition (GetFeedValueKey = GetFeedValuePrefixKey(name) ++ counter).
func (ts *Terms) expandKeyCalls(t *Term, depth int) *Term {
	return ts.expandKeyCallsF(t, depth, false)
}

// expandKeyCallsF: with ctorsOnly, only functions named like key constructors are opened
// (an id derivation such as GetID(sender, …) stays the opaque value it is for the rules).
func (ts *Terms) expandKeyCallsF(t *Term, depth int, ctorsOnly bool) *Term {
	if t == nil || depth > 6 {
		return t
	}
	if t.Op == "call" && t.src != nil {
		if f := t.src.Common().StaticCallee(); f != nil && f.Blocks != nil && isIrismodFunc(f) && strings.Contains(funcPkgPath(f), "/types") &&
			(!ctorsOnly || strings.Contains(f.Name(), "Key") || strings.Contains(f.Name(), "Subspace") || strings.Contains(f.Name(), "Prefix")) {
			if in := ts.Inlined(t.src, t.fr, 0, 14); in != nil {
				return ts.expandKeyCallsF(in, depth+1, ctorsOnly)
			}
		}
	}
	nt := *t
	nt.Args = nil
	for _, a := range t.Args {
		nt.Args = append(nt.Args, ts.expandKeyCallsF(a, depth+1, ctorsOnly))
	}
	return &nt
}

func init() {
	dumps["keylayout"] = func(cx *Ctx) {
		for _, kl := range cx.keyLayouts() {
			var ss []string
			for _, c := range kl.comps {
				ss = append(ss, c.kind+":"+trunc(c.desc, 40))
			}
			fmt.Printf("%-60s %s\n", shortFn(kl.fn), strings.Join(ss, " | "))
		}
	}
}

// nameDelimitedRule: in the key constructors of module m, a variable-length
// component that is a string parameter (a user-chosen name) and is followed by
// further components must be followed by a constant delimiter. Reports one
// obligation per constructor that has such a component.
func (cx *Ctx) nameDelimitedRule(r *Report, m, rule string) int {
	n := 0
	for _, kl := range cx.keyLayouts() {
		if moduleOf(funcPkgPath(kl.fn)) != m {
			continue
		}
		isStringParam := func(name string) bool {
			for _, p := range kl.fn.Params {
				if p.Name() == name {
					b, ok := p.Type().Underlying().(*types.Basic)
					return ok && b.Kind() == types.String
				}
			}
			return false
		}
		for i, c := range kl.comps {
			if c.kind != "V" || !isStringParam(c.desc) || i == len(kl.comps)-1 {
				continue
			}
			n++
			next := kl.comps[i+1]
			var ss []string
			for _, x := range kl.comps {
				ss = append(ss, x.kind+":"+trunc(x.desc, 30))
			}
			r.check(next.kind == "C", rule, shortFn(kl.fn)+"|"+c.desc, cx.P.Pos(kl.fn.Pos()), "the name "+c.desc+" is followed by the constant "+next.desc+" in the key ("+strings.Join(ss, " | ")+")",
				"in "+shortFn(kl.fn)+" the variable-length name "+c.desc+" is followed directly by "+next.kind+":"+trunc(next.desc, 40)+" without a delimiter ("+strings.Join(ss, " | ")+"): the keys of a name that is a prefix of another name overlap, and a prefix scan / trim for the one walks into the records of the other")
		}
	}
	return n
}

// scanPrefixClosedRule: a key constructor that is used as the prefix of a store iteration
// and ends in a variable-length component, while a longer constructor of the same module
// continues after that component, is an open-ended scan prefix: the scan for "farm-1"
// also walks the keys of "farm-10" … "farm-19". Such a prefix must end in a constant
// delimiter (or a fixed-width component). Constructors whose trailing component is
// fixed-width in practice (addresses, hashes) are listed as reviewed exceptions.
var scanPrefixReviewed = map[string]string{
	"farm/types.PrefixFarmInfo":                "the trailing component is a bech32 account address: equal length for equal address width, and the checksum makes one valid address a prefix of another only by a 2^-30 accident",
	"service/types.GetEarnedFeesSubspace":      "the trailing component is the raw bytes of an account address (fixed width per address kind)",
	"service/types.GetOwnerEarnedFeesSubspace": "the trailing component is the raw bytes of an account address (fixed width per address kind)",
	"service/types.GetOwnerProvidersSubspace":  "the trailing component is the raw bytes of an account address (fixed width per address kind)",
}

func (cx *Ctx) scanPrefixClosedRule(r *Report, mods []string, rule string) int {
	layouts := cx.keyLayouts()
	// constructors that feed an iterator
	usedAsScan := map[*ssa.Function]string{}
	for _, f := range cx.P.AllFuncs {
		if f.Blocks == nil || !isIrismodFunc(f) || !isConsensusCode(cx, f) {
			continue
		}
		for _, p := range cx.primsOf(f) {
			if p.Kind != "store.iter" && p.Kind != "store.riter" {
				continue
			}
			c := p.Site.Common()
			var key ssa.Value
			if c.IsInvoke() {
				if len(c.Args) > 0 {
					key = c.Args[0]
				}
			} else if len(c.Args) > 1 {
				key = c.Args[1]
			}
			var walk func(v ssa.Value, d int)
			walk = func(v ssa.Value, d int) {
				if v == nil || d > 6 {
					return
				}
				switch x := v.(type) {
				case *ssa.Call:
					if g := x.Common().StaticCallee(); g != nil && !x.Common().IsInvoke() {
						if _, ok := usedAsScan[g]; !ok {
							usedAsScan[g] = cx.P.Pos(p.Site.Pos())
						}
					}
				case *ssa.Phi:
					for _, e := range x.Edges {
						walk(e, d+1)
					}
				case *ssa.Convert:
					walk(x.X, d+1)
				case *ssa.ChangeType:
					walk(x.X, d+1)
				}
			}
			walk(key, 0)
		}
	}
	in := func(m string) bool {
		for _, x := range mods {
			if x == m {
				return true
			}
		}
		return false
	}
	n := 0
	for _, P := range layouts {
		m := moduleOf(funcPkgPath(P.fn))
		at, scan := usedAsScan[P.fn]
		if !in(m) || !scan || len(P.comps) < 2 || P.comps[len(P.comps)-1].kind != "V" {
			continue
		}
		var longer string
		for _, A := range layouts {
			if A.fn == P.fn || moduleOf(funcPkgPath(A.fn)) != m || len(A.comps) <= len(P.comps) {
				continue
			}
			same := true
			for i := range P.comps {
				if A.comps[i].kind != P.comps[i].kind || (P.comps[i].kind == "C" && A.comps[i].desc != P.comps[i].desc) {
					same = false
				}
			}
			if same && longer == "" {
				longer = shortFn(A.fn)
			}
		}
		if longer == "" {
			continue
		}
		// a component that follows its own length is self-delimiting (… | len(denom) | denom)
		if k := len(P.comps); k >= 2 && strings.Contains(P.comps[k-2].desc, "len("+P.comps[k-1].desc+")") {
			continue
		}
		n++
		key := shortFn(P.fn) + "|" + P.comps[len(P.comps)-1].desc
		var ss []string
		for _, x := range P.comps {
			ss = append(ss, x.kind+":"+trunc(x.desc, 30))
		}
		if why, ok := scanPrefixReviewed[shortFn(P.fn)]; ok {
			r.ok(rule, key, at, "open-ended scan prefix ("+strings.Join(ss, " | ")+"), reviewed: "+why)
			continue
		}
		r.violate(rule, key, cx.P.Pos(P.fn.Pos()), "the scan prefix built by "+shortFn(P.fn)+" ("+strings.Join(ss, " | ")+", iterated at "+at+") ends in the variable-length "+P.comps[len(P.comps)-1].desc+" while "+longer+" continues after it: a scan for one value also walks the keys of every value it is a prefix of (\"farm-1\" and \"farm-10\"), so records of another object are read, paid out or rewritten")
	}
	return n
}

// keyEncodingUniformRule: the key constructors of a module encode the string ids they are
// given in one way. A constructor that normalises its argument (trims, folds case, …)
// next to one that takes it verbatim makes two prefixes disagree on WHICH object a given
// id names: the balance of "T " is found under "T" while its supply is looked up under
// "T " - and paired records drift apart.
func (cx *Ctx) keyEncodingUniformRule(r *Report, mods []string, rule string) int {
	n := 0
	for _, m := range mods {
		type use struct {
			fn    *ssa.Function
			param string
			xf    string
		}
		var uses []use
		for _, f := range cx.P.AllFuncs {
			if f.Blocks == nil || !isIrismodFunc(f) || f.Parent() != nil || f.Signature.Recv() != nil || moduleOf(funcPkgPath(f)) != m {
				continue
			}
			p := funcPkgPath(f)
			if !strings.Contains(p, "/types") || strings.Contains(p, "migrations") {
				continue
			}
			res := f.Signature.Results()
			if res.Len() != 1 {
				continue
			}
			sl, ok := res.At(0).Type().Underlying().(*types.Slice)
			if !ok {
				continue
			}
			if b, ok := sl.Elem().Underlying().(*types.Basic); !ok || b.Kind() != types.Byte {
				continue
			}
			nm := f.Name()
			if !(strings.Contains(nm, "Key") || strings.Contains(nm, "Subspace") || strings.Contains(nm, "Prefix")) {
				continue
			}
			for _, prm := range f.Params {
				bt, ok := prm.Type().Underlying().(*types.Basic)
				if !ok || bt.Kind() != types.String {
					continue
				}
				xf := map[string]bool{}
				seen := map[ssa.Value]bool{}
				var fwd func(v ssa.Value, d int)
				fwd = func(v ssa.Value, d int) {
					if d > 8 || seen[v] || v.Referrers() == nil {
						return
					}
					seen[v] = true
					for _, ref := range *v.Referrers() {
						switch x := ref.(type) {
						case *ssa.Phi:
							fwd(x, d+1)
						case *ssa.Store:
							if a, ok := x.Addr.(*ssa.Alloc); ok && x.Val == v {
								for _, r2 := range *a.Referrers() {
									if ld, ok := r2.(*ssa.UnOp); ok {
										fwd(ld, d+1)
									}
								}
							}
						case *ssa.Call:
							if b, isB := x.Common().Value.(*ssa.Builtin); isB {
								_ = b
								continue
							}
							if x.Type() != nil {
								if rb, ok := x.Type().Underlying().(*types.Basic); ok && rb.Kind() == types.String {
									name := callName(x)
									if g := x.Common().StaticCallee(); g != nil && g.Blocks != nil && isIrismodFunc(g) {
										// a local helper: named by what it calls (normalizeID = strings.TrimSpace)
										for _, gb := range g.Blocks {
											for _, gi := range gb.Instrs {
												if gc, ok := gi.(*ssa.Call); ok {
													if _, isB := gc.Common().Value.(*ssa.Builtin); !isB {
														name = callName(gc)
													}
												}
											}
										}
									}
									xf[name] = true
									fwd(x, d+1)
								}
							}
						}
					}
				}
				fwd(prm, 0)
				uses = append(uses, use{f, prm.Name(), strings.Join(sortedKeys(xf), "+")})
			}
		}
		if len(uses) == 0 {
			continue
		}
		by := map[string][]string{}
		for _, u := range uses {
			by[u.xf] = append(by[u.xf], shortFn(u.fn)+"("+u.param+")")
		}
		n++
		if len(by) == 1 {
			r.ok(rule, m, "", fmt.Sprintf("%d string parameters of the module's key constructors are all encoded the same way (%q)", len(uses), sortedKeys(by)[0]))
			continue
		}
		var parts []string
		for _, k := range sortedKeys(by) {
			sort.Strings(by[k])
			kk := k
			if kk == "" {
				kk = "verbatim"
			}
			parts = append(parts, kk+": "+strings.Join(by[k], ", "))
		}
		r.violate(rule, m, cx.P.Pos(uses[0].fn.Pos()), "the key constructors of module "+m+" do not encode their string ids in one way ("+strings.Join(parts, " | ")+"): an id that the one normalises and the other takes verbatim names different objects under the two prefixes, so records that belong together (a balance and its supply, a record and its index entry) are read and written under different ids")
	}
	return n
}

// exactNameLookupRule: a keeper function that looks a record up BY A NAME it is given (a
// string parameter) reaches the store with a key made of that very string. A lookup that
// first parses the name and rebuilds a key from the parsed value ("abc-1" -> 1 -> "lpt-1")
// answers for a different name than the one asked about; its callers - who go on using
// the name they passed (its supply, its coins) - then act on two different objects.
func (cx *Ctx) exactNameLookupRule(r *Report, mod string, prefixes []string, rule string) int {
	n := 0
	for _, G := range cx.P.AllFuncs {
		if G.Blocks == nil || !isIrismodFunc(G) || G.Parent() != nil || moduleOf(funcPkgPath(G)) != mod || !isConsensusCode(cx, G) || !strings.Contains(funcPkgPath(G), "/keeper") {
			continue
		}
		var sp *ssa.Parameter
		ns := 0
		for _, p := range G.Params {
			if bt, ok := p.Type().Underlying().(*types.Basic); ok && bt.Kind() == types.String {
				sp = p
				ns++
			}
		}
		if ns != 1 {
			continue
		}
		// a lookup hands back the record (a type of the module) or says whether there is one;
		// a function that merely takes a name along with other inputs (a trade routine that is
		// given the standard denom) is not a lookup by that name
		isLookup := false
		if res := G.Signature.Results(); res.Len() > 0 {
			t0 := res.At(0).Type()
			if nt := namedOf(t0); nt != nil && nt.Obj().Pkg() != nil && isIrismodPath(nt.Obj().Pkg().Path()) {
				isLookup = true
			}
			if bt, ok := t0.Underlying().(*types.Basic); ok && (bt.Kind() == types.Bool || bt.Kind() == types.String) {
				isLookup = true
			}
			if _, ok := t0.Underlying().(*types.Slice); ok {
				isLookup = true
			}
			// (or only says whether the named object is acceptable: ValidatePool(name) error)
			if res.Len() == 1 && isErrorType(t0) {
				isLookup = true
			}
		}
		if !isLookup {
			continue
		}
		// store reads under the prefixes in G and its static callees (depth ≤ 3)
		type site struct {
			ci    ssa.CallInstruction
			stack []*ssa.Call
		}
		var sites []site
		var dfs func(f *ssa.Function, stack []*ssa.Call, d int)
		dfs = func(f *ssa.Function, stack []*ssa.Call, d int) {
			for _, b := range f.Blocks {
				for _, ins := range b.Instrs {
					ci, ok := ins.(ssa.CallInstruction)
					if !ok {
						continue
					}
					if kd := cx.classifyCall(ci); kd == "store.get" || kd == "store.has" {
						for _, px := range cx.storeKeyPrefix(ci, kd) {
							if contains(prefixes, px) {
								sites = append(sites, site{ci, append([]*ssa.Call{}, stack...)})
							}
						}
						continue
					}
					c, isCall := ins.(*ssa.Call)
					if !isCall || d >= 3 || c.Common().IsInvoke() {
						continue
					}
					if g := c.Common().StaticCallee(); g != nil && g.Blocks != nil && isIrismodFunc(g) && moduleOf(funcPkgPath(g)) == mod && strings.Contains(funcPkgPath(g), "/keeper") {
						dfs(g, append(append([]*ssa.Call{}, stack...), c), d+1)
					}
				}
			}
		}
		dfs(G, nil, 0)
		for _, st := range sites {
			key := storeArgs(st.ci)[0]
			isP := func(v ssa.Value, _ []*ssa.Call) bool { return v == ssa.Value(sp) }
			full := cx.newSlicer(isP, false)
			if !full.derives(key, st.stack, -1) {
				continue // this read is not keyed by the name
			}
			exact := cx.newSlicer(isP, true)
			exact.structural = true
			ok := exact.derives(key, st.stack, -1)
			n++
			r.check(ok, rule, shortFn(G)+"|"+sp.Name(), cx.P.Pos(st.ci.Pos()), "the store key of the lookup is built from the name "+sp.Name()+" itself", "in "+shortFn(G)+" the store key read at "+cx.P.Pos(st.ci.Pos())+" depends on the name "+sp.Name()+" only through a computation on it (parsed and rebuilt), not on the string itself: different names resolve to the same record (\"abc-1\" and \"lpt-1\"), and a caller that goes on using the name it passed acts on another object than the one returned")
		}
	}
	return n
}
