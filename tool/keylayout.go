package main

// Key layouts: every store-key constructor is flattened into its sequence of
// components - constants (prefix bytes, delimiters), fixed-width encodings and
// variable-length values - and a variable-length component must not be followed
// directly by another non-constant component: without a delimiter between them
// the key of ("eth", n) is a prefix-neighbour of the keys of ("ethPrice", m), and a
// prefix scan for one name walks into the records of another.

import (
	"fmt"
	"go/types"
	"sort"
	"strings"

	"golang.org/x/tools/go/ssa"
)

type keyComp struct {
	kind string // C const, V variable length, F fixed width, ? unknown
	desc string
}

func (cx *Ctx) keyComponents(t *Term, depth int) []keyComp {
	if t == nil || depth > 12 {
		return []keyComp{{"?", "deep"}}
	}
	switch t.Op {
	case "global", "const":
		return []keyComp{{"C", t.LooseString()}}
	case "nil":
		return nil
	case "param", "free":
		return []keyComp{{"V", t.Name}}
	case "field", "index", "extract":
		return []keyComp{{"V", t.LooseString()}}
	case "phi":
		// alternatives of the same shape are common (state ? prefixA : prefixB)
		allC := true
		for _, a := range t.Args {
			for _, c := range cx.keyComponents(a, depth+1) {
				if c.kind != "C" {
					allC = false
				}
			}
		}
		if allC {
			return []keyComp{{"C", t.LooseString()}}
		}
		return []keyComp{{"?", "phi"}}
	case "alloc":
		return []keyComp{{"F", t.LooseString()}}
	case "call":
		switch {
		case t.Name == "append" || t.Name == "varargs":
			var out []keyComp
			for _, a := range t.Args {
				out = append(out, cx.keyComponents(a, depth+1)...)
			}
			return out
		case t.Name == "addr" || t.Name == "str":
			return []keyComp{{"V", t.LooseString()}}
		case strings.HasSuffix(t.Name, "Uint64ToBigEndian") || strings.HasSuffix(t.Name, "Int64ToBigEndian") || strings.Contains(t.Name, "BigEndian.AppendUint") || strings.HasSuffix(t.Name, "tmhash.Sum") || strings.HasSuffix(t.Name, "sha256.Sum256"):
			return []keyComp{{"F", t.Name}}
		case strings.HasSuffix(t.Name, "address.MustLengthPrefix") || strings.HasSuffix(t.Name, "address.LengthPrefix"):
			return []keyComp{{"F", "length-prefixed " + t.Name}}
		case strings.HasSuffix(t.Name, "bytes.Join") || strings.HasSuffix(t.Name, "strings.Join") || strings.HasSuffix(t.Name, "fmt.Sprintf"):
			return []keyComp{{"?", t.Name}}
		}
		return []keyComp{{"V", t.LooseString()}}
	case "struct":
		return []keyComp{{"?", "struct"}}
	}
	return []keyComp{{"?", t.Op}}
}

type keyLayout struct {
	fn    *ssa.Function
	comps []keyComp
}

func (cx *Ctx) keyLayouts() []keyLayout {
	var out []keyLayout
	for _, f := range cx.P.AllFuncs {
		if f.Blocks == nil || !isIrismodFunc(f) || f.Parent() != nil || f.Signature.Recv() != nil {
			continue
		}
		p := funcPkgPath(f)
		if !strings.Contains(p, "/types") || strings.Contains(p, "migrations") {
			continue
		}
		res := f.Signature.Results()
		if res.Len() != 1 {
			continue
		}
		sl, ok := res.At(0).Type().Underlying().(*types.Slice)
		if !ok {
			continue
		}
		if b, ok := sl.Elem().Underlying().(*types.Basic); !ok || b.Kind() != types.Byte {
			continue
		}
		n := f.Name()
		if !(strings.Contains(n, "Key") || strings.Contains(n, "Subspace") || strings.Contains(n, "Prefix")) {
			continue
		}
		ts := newTerms(cx)
		m := map[string][]keyComp{}
		for _, ret := range returnsOf(f) {
			t := ts.Of(ret.Results[0], &Frame{Fn: f})
			t = ts.expandKeyCalls(t, 0)
			cs := cx.keyComponents(t, 0)
			var ss []string
			for _, c := range cs {
				ss = append(ss, c.kind)
			}
			m[strings.Join(ss, "")] = cs
		}
		for _, k := range sortedKeys(m) {
			out = append(out, keyLayout{f, m[k]})
		}
	}
	sort.Slice(out, func(i, j int) bool { return shortFn(out[i].fn) < shortFn(out[j].fn) })
	return out
}

// expandKeyCalls replaces calls to other key constructors of the module by their
// own composition (GetFeedValueKey = GetFeedValuePrefixKey(name) ++ counter).
func (ts *Terms) expandKeyCalls(t *Term, depth int) *Term {
	if t == nil || depth > 6 {
		return t
	}
	if t.Op == "call" && t.src != nil {
		if f := t.src.Common().StaticCallee(); f != nil && f.Blocks != nil && isIrismodFunc(f) && strings.Contains(funcPkgPath(f), "/types") {
			if in := ts.Inlined(t.src, t.fr, 0, 14); in != nil {
				return ts.expandKeyCalls(in, depth+1)
			}
		}
	}
	nt := *t
	nt.Args = nil
	for _, a := range t.Args {
		nt.Args = append(nt.Args, ts.expandKeyCalls(a, depth+1))
	}
	return &nt
}

func init() {
	dumps["keylayout"] = func(cx *Ctx) {
		for _, kl := range cx.keyLayouts() {
			var ss []string
			for _, c := range kl.comps {
				ss = append(ss, c.kind+":"+trunc(c.desc, 40))
			}
			fmt.Printf("%-60s %s\n", shortFn(kl.fn), strings.Join(ss, " | "))
		}
	}
}

// nameDelimitedRule: in the key constructors of module m, a variable-length
// component that is a string parameter (a user-chosen name) and is followed by
// further components must be followed by a constant delimiter. Reports one
// obligation per constructor that has such a component.
func (cx *Ctx) nameDelimitedRule(r *Report, m, rule string) int {
	n := 0
	for _, kl := range cx.keyLayouts() {
		if moduleOf(funcPkgPath(kl.fn)) != m {
			continue
		}
		isStringParam := func(name string) bool {
			for _, p := range kl.fn.Params {
				if p.Name() == name {
					b, ok := p.Type().Underlying().(*types.Basic)
					return ok && b.Kind() == types.String
				}
			}
			return false
		}
		for i, c := range kl.comps {
			if c.kind != "V" || !isStringParam(c.desc) || i == len(kl.comps)-1 {
				continue
			}
			n++
			next := kl.comps[i+1]
			var ss []string
			for _, x := range kl.comps {
				ss = append(ss, x.kind+":"+trunc(x.desc, 30))
			}
			r.check(next.kind == "C", rule, shortFn(kl.fn)+"|"+c.desc, cx.P.Pos(kl.fn.Pos()), "the name "+c.desc+" is followed by the constant "+next.desc+" in the key ("+strings.Join(ss, " | ")+")",
				"in "+shortFn(kl.fn)+" the variable-length name "+c.desc+" is followed directly by "+next.kind+":"+trunc(next.desc, 40)+" without a delimiter ("+strings.Join(ss, " | ")+"): the keys of a name that is a prefix of another name overlap, and a prefix scan / trim for the one walks into the records of the other")
		}
	}
	return n
}
