package main

// C01 — Coinswap pricing: formula conformance (F9) of every amount that enters
// or leaves a pool, with fee provenance and reserve guards.

import (
	"fmt"
	"os"
	"strings"

	"golang.org/x/tools/go/ssa"
)

func init() { register("C01", true, true, "other", runC01) }

func lastArgV(ev *Event) ssa.Value {
	a := ev.Site.(ssa.CallInstruction).Common().Args
	return a[len(a)-1]
}

// findLeaf: the unique leaf symbol of fx whose term satisfies pred.
func findLeaf(fx *Fx, r []Rat, pred func(term string) bool) (Rat, string, bool) {
	found := map[string]string{}
	for _, x := range r {
		for sym, t := range fx.leavesOf(x) {
			if pred(t) {
				found[sym] = t
			}
		}
	}
	if len(found) != 1 {
		return Rat{}, fmt.Sprintf("%d candidates", len(found)), false
	}
	for s, t := range found {
		return rSym(s), t, true
	}
	return Rat{}, "", false
}

func runC01(cx *Ctx, r *Report) {
	r.Explanation = "F9 formula conformance, F5 rounding direction and F3 reserve guards for every amount that enters or leaves a coinswap pool, on every call chain of the five handlers. Each amount (the SSA value passed to the bank call, followed through parameters and helper returns) is evaluated abstractly into a rational function over symbols (reserves = AmountOf(pool balances, denom), liquidity supply, request amounts, fee) with floor / integer-sqrt markers, and compared by cross-multiplication of normalised polynomials with the reference closed forms: exact-input leg bought = ⌊a·D·y/(x·10^18 + a·D)⌋, exact-output leg sold = ⌊x·b·10^18/((y−b)·D)⌋+1 with D = (1−Fee)·10^18 on the input side; add: mint ⌊L·s/S⌋ (or s for an empty pool), deposit ⌊T·s/S⌋+1 (or MaxToken for an empty pool); remove: ⌊w·S/L⌋, ⌊w·T/L⌋; one-sided add: ⌊√⌊(10^18·t + Du·e)·L²/(10^18·t)⌋⌋ − L; one-sided remove: ⌊(2L−w)·w·t·Du/(L²·10^18)⌋ with Du = (1−UnilateralLiquidityFee)·10^18. Equality of the whole expression fixes terms, factors, signs, the fee parameter used and every rounding point (pay-outs and mints floor, computed pay-ins floor+1). Reserve guards: both reserves positive (and bought < reserve for exact output) dominate each leg; non-zero reserves/supply dominate the add-liquidity quotients. That the closed forms imply the constant-product and share-value inequalities is a paper lemma (Uniswap v1 x·y=k with fee on the input side), cited, not machine-checked."
	r.Assumptions = []string{"paper lemma: the closed forms above satisfy (x+(1−fee)a)(y−b) ≥ xy with b maximal / a minimal+≤1, and value per share is non-decreasing under floor-out / ceil-in rounding", "math.Int.Quo truncates toward zero and all operands are non-negative, so Quo is floor", "bank balances of the pool escrow are the reserves"}
	entries := cx.entriesOfModule("coinswap", "msg")
	type evw struct {
		ev *Event
		w  *Walker
		e  string
	}
	var all []evw
	over := cx.forEachEvent(entries, nil, func(e *Entry, w *Walker, ev *Event) {
		if strings.HasPrefix(ev.Kind, "bank.") {
			all = append(all, evw{ev, w, e.Name})
		}
	})
	for _, o := range over {
		r.toolErr("frame budget exceeded for %s", o)
	}
	byFrame := map[*Frame][]evw{}
	var order []*Frame
	// (the deposit of an add-liquidity step is the transfer closest to its mint, whatever
	// helpers perform the two)
	perEntry := map[string][]*Event{}
	for _, x := range all {
		if x.e == "AddLiquidity" || x.e == "AddUnilateralLiquidity" {
			perEntry[x.e] = append(perEntry[x.e], x.ev)
		}
	}
	anchored := map[*Event]*Frame{}
	for _, evs := range perEntry {
		for ev, f := range anchorGroups(evs, "bank.MintCoins", []string{"bank.SendCoins"}) {
			anchored[ev] = f
		}
	}
	for _, x := range all {
		hf := hostFrame(x.ev.Fr)
		if f := anchored[x.ev]; f != nil {
			hf = f
		}
		if _, ok := byFrame[hf]; !ok {
			order = append(order, hf)
		}
		byFrame[hf] = append(byFrame[hf], x)
	}
	kc := keyCounter{}
	E := "1000000000000000000"
	for _, fr := range order {
		evs := byFrame[fr]
		name := evs[0].e
		w := evs[0].w
		fx := newFx(w)
		factsHave := func(x evw, holds bool, subs ...string) bool {
			_, ok := hasFact(x.w.FactsAt(x.ev.Fr, x.ev.Site), holds, subs...)
			return ok
		}
		switch name {
		case "SwapCoin":
			if len(evs) != 2 {
				continue // C02 reports closed-world violations
			}
			a, b := evs[0], evs[1]
			if !orderedBefore(a.ev, b.ev) {
				a, b = b, a
			}
			in := fx.CoinAmounts(lastArgV(a.ev), a.ev.Fr)
			out := fx.CoinAmounts(lastArgV(b.ev), b.ev.Fr)
			if len(in) != 1 || len(out) != 1 {
				r.toolErr("swap leg at %s: cannot decode coins", a.ev.Pos(cx))
				continue
			}
			A, B := in[0].Amt, out[0].Amt
			dS, dB := in[0].Denom, out[0].Denom
			key := kc.next("SwapCoin|leg " + dS + "→" + dB)
			pos := b.ev.Pos(cx)
			isRes := func(d, other string) func(string) bool {
				return func(t string) bool {
					if !strings.HasPrefix(t, "sdk.Coins.AmountOf(") || !strings.HasSuffix(t, ", "+d+")") {
						return false
					}
					// the balances are those of the pool of exactly this pair of denoms: looked up
					// by both denoms, or by the pool id of the pair's non-standard denom
					if strings.Contains(t, "(keeper, "+d+", "+other+")") || strings.Contains(t, "(keeper, "+other+", "+d+")") {
						return true
					}
					for _, k := range []string{d, other, "φ{" + d + "|" + other + "}", "φ{" + other + "|" + d + "}"} {
						if strings.Contains(t, "GetPoolId("+k+")") {
							return true
						}
					}
					return false
				}
			}
			X, xt, okx := findLeaf(fx, []Rat{A, B}, isRes(dS, dB))
			Y, yt, oky := findLeaf(fx, []Rat{A, B}, isRes(dB, dS))
			if !okx || !oky {
				r.violate("price-formula", key, pos, "cannot identify the two reserves of the pool ("+dS+","+dB+") in the leg's amounts: sold "+fx.Describe(A)+", bought "+fx.Describe(B)+" ["+fx.Legend(A)+"; "+fx.Legend(B)+"] ("+xt+" / "+yt+")")
				continue
			}
			// fee leaves in this leg's computed amount
			var fee Rat
			feeT := ""
			nFee := 0
			for sym, t := range fx.leavesOf(A) {
				if strings.Contains(t, "GetParams(keeper).") {
					fee, feeT = rSym(sym), t
					nFee++
				}
			}
			for sym, t := range fx.leavesOf(B) {
				if strings.Contains(t, "GetParams(keeper).") && t != feeT {
					fee, feeT = rSym(sym), t
					nFee++
				}
			}
			if nFee != 1 || !strings.HasSuffix(feeT, "GetParams(keeper).Fee") {
				r.violate("fee-provenance", key, pos, fmt.Sprintf("the leg's price must use exactly the swap fee parameter Params.Fee; found %d parameter leaves (%s)", nFee, feeT))
				continue
			}
			bind := map[string]Rat{"a": A, "b": B, "x": X, "y": Y, "fee": fee}
			refIn, err1 := fx.Ref("floor(a*((1-fee)*"+E+")*y / (x*"+E+" + a*((1-fee)*"+E+")))", bind)
			refOut, err2 := fx.Ref("floor(x*b*"+E+" / ((y-b)*((1-fee)*"+E+"))) + 1", bind)
			if err1 != nil || err2 != nil {
				r.toolErr("reference: %v %v", err1, err2)
				continue
			}
			switch {
			case rEq(B, refIn):
				r.ok("price-formula", key, pos, "exact-input leg: bought = ⌊a·D·y/(x·10^18 + a·D)⌋ with a = "+fx.Describe(A)+", D = (1−Fee)·10^18  ["+fx.Legend(B)+"]")
			case rEq(A, refOut):
				r.ok("price-formula", key, pos, "exact-output leg: sold = ⌊x·b·10^18/((y−b)·D)⌋ + 1 with b = "+fx.Describe(B)+"  ["+fx.Legend(A)+"]")
				okG := factsHave(a, false, "math.Int.GTE(", ", "+yt+")")
				r.check(okG, "reserve-guard", key+"|bought<reserve", pos, "¬(bought ≥ output reserve) dominates the leg", "exact-output leg without the dominating check bought < output reserve ("+yt+")")
			default:
				r.violate("price-formula", key, pos, "leg amounts match neither closed form: sold = "+fx.Describe(A)+" ; bought = "+fx.Describe(B)+"  ["+fx.Legend(A)+"; "+fx.Legend(B)+"]")
				continue
			}
			okP := factsHave(a, true, "math.Int.IsPositive("+xt+")") && factsHave(a, true, "math.Int.IsPositive("+yt+")")
			r.check(okP, "reserve-guard", key+"|positive", pos, "both reserves are tested positive before the leg", "leg executes without both reserve-positivity facts ("+xt+" ; "+yt+")")
		case "AddLiquidity", "AddUnilateralLiquidity":
			var pay, mint *evw
			for i := range evs {
				switch evs[i].ev.Kind {
				case "bank.SendCoins":
					pay = &evs[i]
				case "bank.MintCoins":
					mint = &evs[i]
				}
			}
			if pay == nil || mint == nil {
				continue // fee frame
			}
			key := kc.next(name)
			pos := mint.ev.Pos(cx)
			m := fx.CoinAmounts(lastArgV(mint.ev), mint.ev.Fr)
			d := fx.CoinAmounts(lastArgV(pay.ev), pay.ev.Fr)
			if len(m) != 1 {
				r.toolErr("%s: cannot decode minted coin", key)
				continue
			}
			L, lt, okL := findLeaf(fx, []Rat{m[0].Amt}, func(t string) bool {
				return strings.Contains(t, "BankKeeper.GetSupply(") && strings.HasSuffix(t, ".Amount")
			})
			if name == "AddLiquidity" {
				if len(d) != 2 {
					r.toolErr("%s: cannot decode deposit", key)
					continue
				}
				s := fx.symForTerm("msg.ExactStandardAmt", false)
				if rEq(m[0].Amt, s) {
					// empty / new pool
					r.check(rEq(d[1].Amt, fx.symForTerm("msg.MaxToken.Amount", false)) && rEq(d[0].Amt, s), "liquidity-formula", key, pos, "empty pool: mint = ExactStandardAmt, deposit = (ExactStandardAmt, MaxToken.Amount)", "empty-pool add: deposit is "+fx.Describe(d[0].Amt)+" / "+fx.Describe(d[1].Amt))
					continue
				}
				all := []Rat{m[0].Amt, d[1].Amt}
				S, st, okS := findLeaf(fx, all, func(t string) bool {
					return strings.HasPrefix(t, "sdk.Coins.AmountOf(") && strings.HasSuffix(t, ", coinswap/keeper.Keeper.GetStandardDenom(keeper))")
				})
				T, tt, okT := findLeaf(fx, all, func(t string) bool {
					return strings.HasPrefix(t, "sdk.Coins.AmountOf(") && strings.HasSuffix(t, ", msg.MaxToken.Denom)")
				})
				if os.Getenv("DEBUG_C01") != "" {
					fmt.Fprintf(os.Stderr, "C01 %s okL=%v okS=%v okT=%v d0=%s d1=%s\n   payterm=%s\n", key, okL, okS, okT, fx.Describe(d[0].Amt), fx.Describe(d[1].Amt), fx.w.ts.Of(lastArgV(pay.ev), pay.ev.Fr))
				}
				if !okL || !okS || !okT {
					r.violate("liquidity-formula", key, pos, "cannot identify supply / standard reserve / token reserve in mint = "+fx.Describe(m[0].Amt)+" ["+fx.Legend(m[0].Amt)+"]")
					continue
				}
				bind := map[string]Rat{"L": L, "s": s, "S": S, "T": T}
				r1, _ := fx.Ref("floor(L*s/S)", bind)
				r2, _ := fx.Ref("floor(T*s/S) + 1", bind)
				r.check(rEq(m[0].Amt, r1), "liquidity-formula", key+"|mint", pos, "mint = ⌊L·s/S⌋  ["+fx.Legend(m[0].Amt)+"]", "mint is "+fx.Describe(m[0].Amt)+", expected ⌊L·s/S⌋ ["+fx.Legend(m[0].Amt)+"]")
				r.check(rEq(d[1].Amt, r2) && rEq(d[0].Amt, s), "liquidity-formula", key+"|deposit", pay.ev.Pos(cx), "deposit = (s, ⌊T·s/S⌋ + 1)", "deposit is ("+fx.Describe(d[0].Amt)+", "+fx.Describe(d[1].Amt)+"), expected (s, ⌊T·s/S⌋+1) ["+fx.Legend(d[1].Amt)+"]")
				// ¬IsZero(x), or the stronger IsPositive(x)
				nz := func(t string) bool {
					return factsHave(*mint, false, "math.Int.IsZero("+t+")") || factsHave(*mint, true, "math.Int.IsPositive("+t+")")
				}
				okZ := nz(st) && nz(tt) && nz(lt)
				r.check(okZ, "reserve-guard", key+"|nonzero", pos, "standard reserve, token reserve and supply are tested non-zero before the quotients", "add-liquidity quotients without the three non-zero facts")
			} else {
				t, tt, okT := findLeaf(fx, []Rat{m[0].Amt}, func(t string) bool {
					return strings.HasPrefix(t, "sdk.Coins.AmountOf(") && strings.HasSuffix(t, ", msg.ExactToken.Denom)")
				})
				fee, ft, okF := findLeaf(fx, []Rat{m[0].Amt}, func(t string) bool { return strings.Contains(t, "GetParams(keeper).") })
				if !okL || !okT || !okF {
					r.violate("liquidity-formula", key, pos, "cannot identify supply / token reserve / fee in mint = "+fx.Describe(m[0].Amt)+" ["+fx.Legend(m[0].Amt)+"]")
					continue
				}
				r.check(strings.HasSuffix(ft, "GetParams(keeper).UnilateralLiquidityFee"), "fee-provenance", key, pos, "one-sided add uses Params.UnilateralLiquidityFee", "one-sided add uses "+ft)
				bind := map[string]Rat{"L": L, "t": t, "e": fx.symForTerm("msg.ExactToken.Amount", false), "fee": fee}
				ref, err := fx.Ref("isqrt(floor(("+E+"*t + ((1-fee)*"+E+")*e)*L*L / ("+E+"*t))) - L", bind)
				if err != nil {
					r.toolErr("%v", err)
					continue
				}
				r.check(rEq(m[0].Amt, ref), "liquidity-formula", key+"|mint", pos, "mint = ⌊√⌊(10^18·t + Du·e)·L²/(10^18·t)⌋⌋ − L", "one-sided mint is "+fx.Describe(m[0].Amt)+" ["+fx.Legend(m[0].Amt)+"]")
				_ = tt
			}
		case "RemoveLiquidity", "RemoveUnilateralLiquidity":
			var pay *evw
			for i := range evs {
				if evs[i].ev.Kind == "bank.SendCoins" {
					pay = &evs[i]
				}
			}
			if pay == nil {
				continue
			}
			key := kc.next(name)
			pos := pay.ev.Pos(cx)
			outs := fx.CoinAmounts(lastArgV(pay.ev), pay.ev.Fr)
			var amts []Rat
			for _, o := range outs {
				amts = append(amts, o.Amt)
			}
			L, _, okL := findLeaf(fx, amts, func(t string) bool {
				return strings.Contains(t, "BankKeeper.GetSupply(") && strings.HasSuffix(t, ".Amount")
			})
			if name == "RemoveLiquidity" {
				if len(outs) != 2 {
					r.toolErr("%s: cannot decode withdrawal", key)
					continue
				}
				S, _, okS := findLeaf(fx, amts, func(t string) bool {
					return strings.HasPrefix(t, "sdk.Coins.AmountOf(") && strings.HasSuffix(t, ", coinswap/keeper.Keeper.GetStandardDenom(keeper))")
				})
				T, _, okT := findLeaf(fx, amts, func(t string) bool {
					return strings.HasPrefix(t, "sdk.Coins.AmountOf(") && !strings.HasSuffix(t, ", coinswap/keeper.Keeper.GetStandardDenom(keeper))")
				})
				if !okL || !okS || !okT {
					r.violate("liquidity-formula", key, pos, "cannot identify supply / reserves in withdrawal "+fx.Describe(outs[0].Amt)+" ["+fx.Legend(outs[0].Amt)+"]")
					continue
				}
				bind := map[string]Rat{"L": L, "w": fx.symForTerm("msg.WithdrawLiquidity.Amount", false), "S": S, "T": T}
				r1, _ := fx.Ref("floor(w*S/L)", bind)
				r2, _ := fx.Ref("floor(w*T/L)", bind)
				r.check(rEq(outs[0].Amt, r1) && rEq(outs[1].Amt, r2), "liquidity-formula", key, pos, "withdrawals = (⌊w·S/L⌋, ⌊w·T/L⌋)", "withdrawals are ("+fx.Describe(outs[0].Amt)+", "+fx.Describe(outs[1].Amt)+") ["+fx.Legend(outs[0].Amt)+"]")
			} else {
				if len(outs) != 1 {
					r.toolErr("%s: cannot decode payout", key)
					continue
				}
				t, _, okT := findLeaf(fx, amts, func(t string) bool { return strings.HasPrefix(t, "sdk.Coins.AmountOf(") })
				fee, ft, okF := findLeaf(fx, amts, func(t string) bool { return strings.Contains(t, "GetParams(keeper).") })
				if !okL || !okT || !okF {
					r.violate("liquidity-formula", key, pos, "cannot identify supply / reserve / fee in payout "+fx.Describe(outs[0].Amt)+" ["+fx.Legend(outs[0].Amt)+"]")
					continue
				}
				r.check(strings.HasSuffix(ft, "GetParams(keeper).UnilateralLiquidityFee"), "fee-provenance", key, pos, "one-sided remove uses Params.UnilateralLiquidityFee", "one-sided remove uses "+ft)
				bind := map[string]Rat{"L": L, "w": fx.symForTerm("msg.ExactLiquidity", false), "t": t, "fee": fee}
				ref, err := fx.Ref("floor((2*L - w)*w*t*((1-fee)*"+E+") / (L*L*"+E+"))", bind)
				if err != nil {
					r.toolErr("%v", err)
					continue
				}
				r.check(rEq(outs[0].Amt, ref), "liquidity-formula", key, pos, "payout = ⌊(2L−w)·w·t·Du/(L²·10^18)⌋", "one-sided payout is "+fx.Describe(outs[0].Amt)+" ["+fx.Legend(outs[0].Amt)+"]")
			}
		}
	}
	// one-sided operations are priced against ONE of the pool's two reserves: the token of the
	// message must be the pool's counterparty denom or the standard denom on every path to the
	// mint / payout (a third denom that merely sits on the escrow account - a donation - would be
	// priced against a tiny "reserve" and mint an enormous share)
	{
		nU := 0
		for _, e := range entries {
			if e.Name != "AddUnilateralLiquidity" && e.Name != "RemoveUnilateralLiquidity" {
				continue
			}
			ee := e
			w := newWalker(cx)
			w.Walk(ee.Fn, func(fr *Frame) {
				for _, ev := range w.EventsOf(fr) {
					if ev.Kind != "bank.MintCoins" && ev.Kind != "bank.BurnCoins" {
						continue
					}
					nU++
					fld := "msg.ExactToken.Denom"
					if e.Name == "RemoveUnilateralLiquidity" {
						fld = "msg.MinToken.Denom"
					}
					why, ok := w.pathGuardAny(fr, ev.Site,
						guardAlt{Value: false, Subs: []string{"(" + fld + " != msg.CounterpartyDenom)"}},
						guardAlt{Value: true, Subs: []string{"(" + fld + " == msg.CounterpartyDenom)"}},
						guardAlt{Value: false, Subs: []string{"(" + fld + " != ", "GetStandardDenom("}},
						guardAlt{Value: true, Subs: []string{"(" + fld + " == ", "GetStandardDenom("}})
					r.check(ok, "one-sided-denom", e.Name+"|"+ev.Kind, cx.P.Pos(ev.Site.Pos()), "the message's token is the pool's counterparty or standard denom: "+why, e.Name+": "+ev.Kind+" is reachable with a token denom that is neither the pool's counterparty denom nor the standard denom (no such test decided on every path): the share would be priced against whatever amount of that denom sits on the escrow account")
				}
			})
		}
		if nU < 2 {
			r.toolErr("only %d one-sided mint/burn events found (≥2 confirmed)", nU)
		}
	}
	r.requireCount("price-formula", 6)
	r.requireCount("liquidity-formula", 6)
	r.requireCount("reserve-guard", 7)
	if n := cx.exactNameLookupRule(r, "coinswap", []string{"str:lptDenom/", "str:pool/"}, "name-lookup-exact"); n < 2 {
		r.toolErr("only %d name-keyed lookups of the pool records found in the coinswap keeper (≥2 confirmed)", n)
	}
	r.requireCount("fee-provenance", 2)
}
