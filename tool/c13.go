package main

// C13 — Begin/end block: queue pairing, reschedule pairing, abort classes.

import (
	"fmt"
	"go/token"
	"go/types"
	"os"
	"strings"

	"golang.org/x/tools/go/ssa"
)

var c13QueuePrefixes = []string{"htlc:HTLCExpiredQueueKey=0x02", "farm:ActiveFarmPoolKey=0x04", "service:ExpiredRequestBatchKey=0x09", "service:NewRequestBatchKey=0x10", "service:ExpiredRequestBatchHeightKey=0x11", "service:NewRequestBatchHeightKey=0x12", "random:RandomRequestQueueKey=0x02"}

func init() {
	dumps["queues"] = func(cx *Ctx) {
		for _, e := range cx.EntriesOf("msg", "abci", "callback", "hook") {
			w := newWalker(cx)
			hdr := false
			w.Walk(e.Fn, func(fr *Frame) {
				for _, ev := range w.EventsOf(fr) {
					okk := false
					for _, q := range c13QueuePrefixes {
						if hasPrefix(ev, q) && (ev.Kind == "store.set" || ev.Kind == "store.delete") {
							okk = true
						}
					}
					for _, a := range []string{"assign:HTLC.ExpirationHeight", "assign:FarmPool.EndHeight", "assign:HTLC.State", "assign:RequestContext.State", "assign:RequestContext.BatchState"} {
						if ev.Kind == a {
							okk = true
						}
					}
					if !okk {
						continue
					}
					if !hdr {
						fmt.Printf("== %s %s.%s\n", e.Role, e.Module, e.Name)
						hdr = true
					}
					s := ""
					for _, a := range ev.Args {
						if a.Op != "ctx" {
							s += trunc(a.LooseString(), 110) + " ; "
						}
					}
					must := "may "
					if w.chainMust(fr, ev.Site) {
						must = "MUST"
					}
					fmt.Printf("  %s %-30s %-28s %s %s\n      chain=%s\n", must, cx.P.Pos(ev.Site.Pos()), ev.Kind, strings.Join(ev.Prefix, "|"), s, trunc(ev.Fr.String(), 260))
				}
			})
		}
	}
	dumps["abci"] = func(cx *Ctx) {
		mod := os.Getenv("IRISLINT_MOD")
		for _, e := range cx.EntriesOf("abci") {
			if mod != "" && e.Module != mod {
				continue
			}
			fmt.Printf("== %s %s.%s\n", e.Role, e.Module, e.Name)
			w := newWalker(cx)
			w.Walk(e.Fn, func(fr *Frame) {
				for _, ev := range w.EventsOf(fr) {
					if !strings.HasPrefix(ev.Kind, "store.iter") && !strings.HasPrefix(ev.Kind, "store.riter") && ev.Kind != "store.delete" && ev.Kind != "store.set" {
						continue
					}
					s := ""
					for _, a := range ev.Args {
						if a.Op != "ctx" {
							s += trunc(a.LooseString(), 160) + " ; "
						}
					}
					cf, _ := closureAncestor(ev)
					cs := "-"
					if cf != nil {
						cs = shortFn(cf.Fn)
					}
					fmt.Printf("  %-32s %-12s %s key=%s\n      closure=%s chain=%s\n", cx.P.Pos(ev.Site.Pos()), ev.Kind, strings.Join(ev.Prefix, "|"), s, cs, trunc(ev.Fr.String(), 300))
				}
			})
		}
	}
}

type abortSite struct {
	fn   *ssa.Function
	ins  ssa.Instruction
	kind string // panic | div
	name string
	den  ssa.Value
}

// abortSitesOf: explicit panics and quotients in f.
func abortSitesOf(f *ssa.Function) []abortSite {
	var out []abortSite
	for _, b := range f.Blocks {
		for _, ins := range b.Instrs {
			switch x := ins.(type) {
			case *ssa.Panic:
				out = append(out, abortSite{f, x, "panic", "panic", nil})
			case *ssa.BinOp:
				if x.Op == token.QUO || x.Op == token.REM {
					if _, isC := x.Y.(*ssa.Const); isC {
						continue
					}
					if bt, ok := x.Y.Type().Underlying().(*types.Basic); ok && bt.Info()&types.IsInteger != 0 {
						out = append(out, abortSite{f, x, "div", "int " + x.Op.String(), x.Y})
					}
				}
			case *ssa.Call:
				if x.Common().IsInvoke() {
					continue
				}
				pkg, name := calleeName(x.Common())
				if !(pkg == "cosmossdk.io/math" || pkg == "math/big") {
					continue
				}
				m := name[strings.LastIndex(name, ".")+1:]
				if !(strings.HasPrefix(m, "Quo") || m == "Div" || m == "Mod" || m == "Rem" || m == "DivMod" || m == "QuoRem") {
					continue
				}
				args := x.Common().Args
				if len(args) < 2 {
					continue
				}
				den := args[len(args)-1]
				if pkg == "math/big" && len(args) >= 3 {
					den = args[2]
				}
				out = append(out, abortSite{f, x, "div", pkg[strings.LastIndex(pkg, "/")+1:] + "." + name, den})
			}
		}
	}
	return out
}

func init() {
	dumps["aborts"] = func(cx *Ctx) {
		for _, e := range cx.EntriesOf("abci", "callback") {
			w := newWalker(cx)
			seen := map[ssa.Instruction]bool{}
			w.Walk(e.Fn, func(fr *Frame) {
				if !isIrismodFunc(fr.Fn) {
					return
				}
				for _, s := range abortSitesOf(fr.Fn) {
					if seen[s.ins] {
						continue
					}
					seen[s.ins] = true
					g := ""
					if s.kind == "div" {
						if c, ok := s.ins.(*ssa.Call); ok {
							g = denominatorGuard(c, s.den)
						}
					}
					fmt.Printf("%s.%s  %s %s %s in %s guard=%q\n   chain=%s\n", e.Module, e.Name, cx.P.Pos(s.ins.Pos()), s.kind, s.name, shortFn(s.fn), g, trunc(fr.String(), 250))
				}
			})
		}
	}
}

func init() { register("C13", true, true, "other", runC13) }

type c13Queue struct {
	mod, q, marker, entry, what string
	idOnly                      bool // the entry key is the element's id alone (the iterator bound is folded into the id)
}

var c13Queues = []c13Queue{
	{"htlc", "htlc:HTLCExpiredQueueKey=0x02", "", "BeginBlock", "HTLC expiry queue", false},
	{"farm", "farm:ActiveFarmPoolKey=0x04", "", "EndBlock", "farm active-pool queue", false},
	{"service", "service:ExpiredRequestBatchKey=0x09", "service:ExpiredRequestBatchHeightKey=0x11", "EndBlock", "service expired-batch queue", false},
	{"service", "service:NewRequestBatchKey=0x10", "service:NewRequestBatchHeightKey=0x12", "EndBlock", "service new-batch queue", false},
	{"service", "service:ActiveRequestByIDKey=0x15", "service:ActiveRequestKey=0x14", "EndBlock", "service active requests of an expired batch", true},
	{"random", "random:RandomRequestQueueKey=0x02", "", "BeginBlock", "random request queue", false},
}

type c13Walk struct {
	e      *Entry
	w      *Walker
	frames []*Frame
	evs    []hev
}

func (cx *Ctx) c13WalkEntry(e *Entry, r *Report) *c13Walk {
	cw := &c13Walk{e: e, w: newWalker(cx)}
	cw.w.Walk(e.Fn, func(fr *Frame) {
		cw.frames = append(cw.frames, fr)
		for _, ev := range cw.w.EventsOf(fr) {
			cw.evs = append(cw.evs, hev{ev, cw.w, e})
		}
	})
	if cw.w.over || cw.w.cut > 0 {
		r.toolErr("frame budget exceeded / chain truncated for %s", entryKey(e))
	}
	return cw
}

// callArgsOf: argument strings of the outermost call of a key term.
func callArgsOf(t *Term) (string, []string) {
	if t == nil || t.Op != "call" {
		return "", nil
	}
	var as []string
	for _, a := range t.Args {
		as = append(as, a.LooseString())
	}
	return t.Name, as
}

// mentionsParamOf: the term contains a parameter (or an unbound record
// parameter) of fn.
func mentionsParamOf(t *Term, fn *ssa.Function) bool {
	names := map[string]bool{}
	for _, p := range fn.Params {
		names[p.Name()] = true
		if n := namedOf(p.Type()); n != nil {
			names["‹"+n.Obj().Name()+"›"] = true
		}
	}
	return findSub(t, func(x *Term) bool { return (x.Op == "param" || x.Op == "free") && names[x.Name] }) != nil
}

// infeasible: a dominating fact that is a constant contradicting itself
// (a flag parameter bound to a constant at this call chain).
func infeasible(fs []FactT) bool {
	for _, f := range fs {
		if (f.Text == "false" && f.Holds) || (f.Text == "true" && !f.Holds) {
			return true
		}
	}
	return false
}

func runC13(cx *Ctx, r *Report) {
	r.Explanation = "F2/F3/F5 over every call chain of the begin/end blockers (and, for the pairing rules, of every message handler and service callback). (dequeue) for each of the six block-handler work lists (HTLC expiry, farm active pools, service expired batches, service new batches, active requests of an expired batch, random requests) the per-entry body - the closure handed to the iterating keeper function, or the loop body - deletes the entry it was called for on every path, under a key whose height is the iterator's height (or the object's own key field) and whose id comes from the iterated element; the per-context height marker of the service queues is deleted and written together with the queue entry. (create) creating a queued object writes the object and its queue entry together, the entry's height being the very value stored in the object's key field. (reschedule) every assignment to a key field (FarmPool.EndHeight, HTLC.ExpirationHeight) of a stored object is preceded by the dequeue under the old value and, unless the object ends now, followed by the enqueue under the new one. (close) closing an HTLC by message dequeues it. (single entry) a service context is put on the new-batch list only when it is on neither list, was just taken off the expired list, or is brand new; it is put on the expired list only by the new-batch body. (abort classes) every explicit panic and every quotient reachable from a block handler or service callback is listed; quotients need a dominating non-zero guard on the same expression or a reviewed, re-checked reason. Errors discarded inside block handlers are enumerated. Decides pairing and the listed abort classes on all paths; it does not decide absence of every run-time abort, nor the due-height arithmetic beyond the wrap-around guard of random requests (due-height-no-wrap)."
	r.Assumptions = []string{"store iteration visits exactly the entries under the prefix", "block time is after 1970 (random's divisor)", "queue entries and objects agree initially (genesis import rebuilds the queues, C12)"}
	walks := map[string]*c13Walk{}
	get := func(e Entry) *c13Walk {
		k := entryKey(&e)
		if walks[k] == nil {
			ee := e
			walks[k] = cx.c13WalkEntry(&ee, r)
		}
		return walks[k]
	}
	// ------------------------------------------------------------ Q1 dequeue per entry
	cx.c13DequeueRule(r, get, nil)
	// an expired service batch is settled at its one look: skipped only when already completed
	// (the rule of C08; what is skipped stays in the active-request index for good)
	{
		sub := newReport("C13", r.Tier)
		perS := collectEvents(cx, sub, "service", "abci")
		refund := pick(perS["EndBlock"], "bank.SendCoinsFromModuleToAccount", func(x hev) bool { return x.ev.Args[1].LooseString() == `"service_request_account"` })
		if len(refund) == 1 {
			expirySettledConverse(r, refund[0], refund[0].ev.Pos(cx))
		}
	}
	// other iterations inside block handlers (informational)
	for _, e := range cx.EntriesOf("abci") {
		cw := get(e)
		seen := map[string]bool{}
		for _, x := range cw.evs {
			if x.ev.Kind != "store.iter" && x.ev.Kind != "store.riter" {
				continue
			}
			for _, px := range x.ev.Prefix {
				isQ := false
				for _, q := range c13Queues {
					if q.q == px {
						isQ = true
					}
				}
				if !isQ && !seen[px] {
					seen[px] = true
					r.ok("other-iteration", e.Module+"."+e.Name+"|"+px, x.ev.Pos(cx), "iterated inside a block handler; not a due-height work list")
				}
			}
		}
	}
	cx.c13Pairing(r, get)
	cx.c13Aborts(r, get)
	cx.recordListIndexRule(r, "abort-class-index")
	r.requireCount("dequeue", 6)
}

// bodyOfQueue: the function that is the per-entry body of queue prefix q in cw.
func bodyOfQueue(cw *c13Walk, q string) *ssa.Function {
	for _, it := range cw.evs {
		if (it.ev.Kind != "store.iter" && it.ev.Kind != "store.riter") || !hasPrefix(it.ev, q) {
			continue
		}
		// of several closures on the iterating chain (adapter closures of iterator
		// wrappers) the body is the one the effects happen under
		var best *Frame
		bestN := -1
		for _, cf := range cw.frames {
			if cf.MC == nil || cf.ViaSite == nil {
				continue
			}
			for f := it.ev.Fr; f != nil; f = f.Parent {
				if f.Call != nil && ssa.Instruction(f.Call) == cf.ViaSite && f.Parent == cf.Via {
					n := 0
					for _, x := range cw.evs {
						if a, _ := closureAncestor(x.ev); a == cf {
							n++
						}
					}
					if n > bestN {
						best, bestN = cf, n
					}
				}
			}
		}
		if best != nil {
			return best.Fn
		}
	}
	return nil
}

func structField(t *Term, typ, field string) (string, bool) {
	st := findSub(t, func(x *Term) bool { return x.Op == "struct" && x.Name == typ })
	if st == nil {
		return "", false
	}
	for i := 0; i+1 < len(st.Args); i += 2 {
		if st.Args[i].Name == field {
			return st.Args[i+1].LooseString(), true
		}
	}
	return "", false
}

func qKeyArg(ev *Event, i int) string {
	_, as := callArgsOf(ev.Args[0])
	if i < len(as) {
		return as[i]
	}
	return ""
}

func (cx *Ctx) c13Pairing(r *Report, get func(Entry) *c13Walk) {
	all := cx.EntriesOf("msg", "abci", "callback", "hook")
	// ------------------------------------------------------------ Q2 companion records
	pairs := [][2]string{{"service:ExpiredRequestBatchKey=0x09", "service:ExpiredRequestBatchHeightKey=0x11"}, {"service:NewRequestBatchKey=0x10", "service:NewRequestBatchHeightKey=0x12"}}
	nPair := 0
	for _, e := range all {
		if e.Module != "service" && e.Module != "oracle" && e.Module != "random" {
			continue
		}
		cw := get(e)
		kc := keyCounter{}
		for _, p := range pairs {
			for dir := 0; dir < 2; dir++ {
				a, b := p[dir], p[1-dir]
				for _, x := range cw.evs {
					if (x.ev.Kind != "store.set" && x.ev.Kind != "store.delete") || !hasPrefix(x.ev, a) {
						continue
					}
					ok := false
					for _, y := range cw.evs {
						if y.ev.Kind == x.ev.Kind && hasPrefix(y.ev, b) && coExecuted(x.ev, y.ev) && qKeyArg(x.ev, 0) == qKeyArg(y.ev, 0) {
							ok = true
						}
					}
					nPair++
					key := kc.next(entryKey(&e) + "|" + x.ev.Kind + "|" + a)
					r.check(ok, "companion-record", key, x.ev.Pos(cx), "queue entry and per-context height record are written/deleted together for the same context", x.ev.Kind+" under "+a+" without the same operation on its companion "+b+" for the same context on chain "+x.ev.Fr.String())
				}
			}
		}
	}
	if nPair < 20 {
		r.toolErr("only %d companion-record sites (≥20 confirmed)", nPair)
	}
	// ------------------------------------------------------------ Q3 create
	type createRule struct{ mod, entry, q, obj, typ, field string }
	for _, cr := range []createRule{
		{"htlc", "CreateHTLC", "htlc:HTLCExpiredQueueKey=0x02", "htlc:HTLCKey=0x01", "HTLC", "ExpirationHeight"},
		{"farm", "CreatePool", "farm:ActiveFarmPoolKey=0x04", "farm:FarmPoolKey=0x06", "FarmPool", "EndHeight"},
		{"random", "RequestRandom", "random:RandomRequestQueueKey=0x02", "", "", ""},
	} {
		for _, e := range cx.entriesOfModule(cr.mod, "msg") {
			if e.Name != cr.entry {
				continue
			}
			cw := get(e)
			enq := pick(cw.evs, "store.set", func(x hev) bool { return hasPrefix(x.ev, cr.q) })
			key := cr.mod + "." + cr.entry + "|" + cr.q
			if len(enq) == 0 {
				r.violate("enqueue-on-create", key, "", cr.entry+" no longer enqueues the object it creates under "+cr.q)
				continue
			}
			if cr.mod == "random" {
				// the entry must land on a height a begin blocker still visits
				cx.randomDueNoWrap(r, enq)
			}
			okAll := true
			for _, x := range enq {
				if !x.must() {
					okAll = false
					r.violate("enqueue-on-create", key, x.ev.Pos(cx), "the enqueue under "+cr.q+" is not executed on every successful path of "+cr.entry)
					continue
				}
				if cr.obj == "" {
					continue
				}
				objs := pick(cw.evs, "store.set", func(y hev) bool { return hasPrefix(y.ev, cr.obj) })
				match := false
				for _, o := range objs {
					val := x.w.expandCalls(o.ev.Fr, o.ev.Args[1], 3)
					fv1, ok1 := structField(val, cr.typ, cr.field)
					fv2, ok2 := structField(o.ev.Args[1], cr.typ, cr.field)
					kh := qKeyArg(x.ev, 0)
					if ((ok1 && fv1 == kh) || (ok2 && fv2 == kh)) && coExecuted(o.ev, x.ev) {
						match = true
					}
				}
				if !match {
					okAll = false
					r.violate("enqueue-on-create", key, x.ev.Pos(cx), "the height of the new queue entry ("+qKeyArg(x.ev, 0)+") is not the value stored in "+cr.typ+"."+cr.field+" of the object written with it")
				}
			}
			if okAll {
				r.ok("enqueue-on-create", key, enq[0].ev.Pos(cx), "the new object and its queue entry are written together; the entry's height is the object's stored key field")
			}
		}
	}
	// ------------------------------------------------------------ Q4 reschedule / Q5 close
	type fieldRule struct{ mod, q, obj, typ, field string }
	nAssign := 0
	for _, fr := range []fieldRule{
		{"farm", "farm:ActiveFarmPoolKey=0x04", "farm:FarmPoolKey=0x06", "FarmPool", "EndHeight"},
		{"htlc", "htlc:HTLCExpiredQueueKey=0x02", "htlc:HTLCKey=0x01", "HTLC", "ExpirationHeight"},
	} {
		for _, e := range all {
			cw := get(e)
			kc := keyCounter{}
			for _, x := range cw.evs {
				if x.ev.Kind != "assign:"+fr.typ+"."+fr.field {
					continue
				}
				if infeasible(x.w.FactsAt(x.ev.Fr, x.ev.Site)) {
					continue
				}
				nAssign++
				key := kc.next(entryKey(&e) + "|" + fr.typ + "." + fr.field)
				val := x.ev.Args[0].LooseString()
				var okDel, okEnq, okObj bool
				for _, y := range cw.evs {
					switch {
					case y.ev.Kind == "store.delete" && hasPrefix(y.ev, fr.q) && orderedBefore(y.ev, x.ev) && (strings.HasSuffix(qKeyArg(y.ev, 0), "."+fr.field) || strings.Contains(qKeyArg(y.ev, 0), "."+fr.field)):
						okDel = true
					case y.ev.Kind == "store.set" && hasPrefix(y.ev, fr.q) && coExecuted(x.ev, y.ev) && orderedBefore(x.ev, y.ev) && qKeyArg(y.ev, 0) == val:
						okEnq = true
					case y.ev.Kind == "store.set" && hasPrefix(y.ev, fr.obj) && followedBy(x.ev, y.ev):
						okObj = true
					}
				}
				endsNow := val == "sdk.Context.BlockHeight()"
				switch {
				case !okDel:
					r.violate("reschedule", key, x.ev.Pos(cx), fr.typ+"."+fr.field+" is changed without first removing the queue entry under the old value ("+fr.q+"): the old entry goes stale")
				case !endsNow && !okEnq:
					r.violate("reschedule", key, x.ev.Pos(cx), fr.typ+"."+fr.field+" is changed to "+trunc(val, 80)+" without adding a queue entry under that value on every path: the object is never processed")
				case !okObj:
					r.violate("reschedule", key, x.ev.Pos(cx), fr.typ+"."+fr.field+" is changed but the object is not persisted afterwards")
				default:
					r.ok("reschedule", key, x.ev.Pos(cx), "old entry removed before the change; "+map[bool]string{true: "the object ends at the current height (closed, not re-queued)", false: "new entry added under the new value"}[endsNow]+"; object persisted")
				}
			}
		}
	}
	if nAssign < 3 {
		r.toolErr("only %d key-field assignments analysed (≥3 confirmed)", nAssign)
	}
	cx.closeDequeuesRule(r, get)
	cx.singleEntryRule(r, get)

}

// singleEntryRule (C13, also C08's schedule clause): a service context is put on
// the new-batch list only when it is on neither list, was just taken off the
// expired list, or is brand new; it is put on the expired list only by the
// new-batch body.
func (cx *Ctx) singleEntryRule(r *Report, get func(Entry) *c13Walk) {
	all := cx.EntriesOf("msg", "abci", "callback", "hook")
	// ------------------------------------------------------------ Q6 single entry per service context
	var svcEnd *c13Walk
	for _, e := range cx.entriesOfModule("service", "abci") {
		if e.Name == "EndBlock" {
			svcEnd = get(e)
		}
	}
	if svcEnd == nil {
		r.toolErr("service EndBlock not found")
		return
	}
	expBody := bodyOfQueue(svcEnd, "service:ExpiredRequestBatchKey=0x09")
	newBody := bodyOfQueue(svcEnd, "service:NewRequestBatchKey=0x10")
	if expBody == nil || newBody == nil {
		r.toolErr("service batch bodies not identified")
		return
	}
	// ------------------------------------------------------------ same-block hand-off
	// The expired-batch body schedules the next batch at (height − Timeout + Frequency),
	// which IS the current height when Frequency == Timeout (the default). Such an entry
	// is only ever looked at in this very block, so the iteration that consumes the
	// new-batch list must come after the iteration that produces into it; in the other
	// order the entry lands in a bucket that has already been drained and the context
	// never issues another batch.
	{
		var itExp, itNew *Event
		for _, x := range svcEnd.evs {
			if x.ev.Kind != "store.iter" && x.ev.Kind != "store.riter" {
				continue
			}
			switch {
			case hasPrefix(x.ev, "service:ExpiredRequestBatchKey=0x09") && itExp == nil:
				itExp = x.ev
			case hasPrefix(x.ev, "service:NewRequestBatchKey=0x10") && itNew == nil:
				itNew = x.ev
			}
		}
		nHand := 0
		for _, x := range svcEnd.evs {
			if x.ev.Kind != "store.set" || !hasPrefix(x.ev, "service:NewRequestBatchKey=0x10") {
				continue
			}
			cf, _ := closureAncestor(x.ev)
			if cf == nil || cf.Fn != expBody {
				continue
			}
			h := qKeyArg(x.ev, 1)
			if strings.HasPrefix(h, "(sdk.Context.BlockHeight() + ") {
				continue // strictly in the future (what is added is a validated positive)
			}
			nHand++
			ok := itExp != nil && itNew != nil && orderedBefore(itExp, itNew)
			r.check(ok, "same-block-handoff", "service.EndBlock|new-batch", x.ev.Pos(cx), "the next batch may fall due in the current block (height "+trunc(h, 90)+"); the new-batch list is drained after the expired-batch list that schedules it", "the expired-batch body schedules the next batch at height "+trunc(h, 120)+", which can equal the current height (frequency == timeout), but the new-batch list of this height is iterated before the expired-batch list: the entry is never processed and the context issues no further batch")
		}
		if nHand == 0 {
			r.toolErr("no next-batch scheduling found in the expired-batch body")
		}
	}
	// ------------------------------------------------------------ expiry offset agrees with its reader
	// The expired-batch body reconstructs the start of the batch it closes as
	// (height − Timeout) and schedules the next batch relative to it. Whoever puts a
	// context on the expired-batch list must therefore use (height + Timeout) of that
	// context - for a skipped batch too: an entry at height+1 makes the reader place the
	// next batch Timeout−1 blocks early, every time, and a repeated context runs through
	// its total at the wrong pace.
	{
		nOff := 0
		for _, e := range all {
			if e.Module != "service" && e.Module != "oracle" && e.Module != "random" {
				continue
			}
			cw := get(e)
			kc := keyCounter{}
			for _, x := range cw.evs {
				if x.ev.Kind != "store.set" || !hasPrefix(x.ev, "service:ExpiredRequestBatchKey=0x09") {
					continue
				}
				h := qKeyArg(x.ev, 1)
				nOff++
				ok := strings.HasPrefix(h, "(sdk.Context.BlockHeight() + ") && strings.HasSuffix(h, ".Timeout)") && !strings.Contains(h[len("(sdk.Context.BlockHeight() + "):], " + ") && !strings.Contains(h[len("(sdk.Context.BlockHeight() + "):], " - ")
				r.check(ok, "expiry-offset", kc.next(entryKey(&e)), x.ev.Pos(cx), "the batch is put on the expired list at height + the context's Timeout, the offset the expired-batch body subtracts again", "a batch is put on the expired-batch list at height "+trunc(h, 120)+" instead of (current height + the context's Timeout): the expired-batch body computes the next batch as (its height − Timeout + RepeatedFrequency), so the following batches are issued at the wrong heights (chain "+x.ev.Fr.String()+")")
			}
		}
		if nOff < 2 {
			r.toolErr("only %d writes of the expired-batch list found (≥2 confirmed)", nOff)
		}
		// the reader side: next = (height − T) + F with T a Timeout and F a RepeatedFrequency
		for _, x := range svcEnd.evs {
			if x.ev.Kind != "store.set" || !hasPrefix(x.ev, "service:NewRequestBatchKey=0x10") {
				continue
			}
			cf, _ := closureAncestor(x.ev)
			if cf == nil || cf.Fn != expBody {
				continue
			}
			h := qKeyArg(x.ev, 1)
			ok := strings.HasPrefix(h, "((sdk.Context.BlockHeight() - ") && strings.Contains(h, ".Timeout") && strings.Contains(h, ".RepeatedFrequency") && strings.Contains(h, ") + ")
			r.check(ok, "expiry-offset", "service.EndBlock|next-batch", x.ev.Pos(cx), "the next batch is scheduled at (height − Timeout) + RepeatedFrequency", "the expired-batch body schedules the next batch at "+trunc(h, 160)+", not at (height − Timeout) + RepeatedFrequency")
		}
	}
	// ------------------------------------------------------------ frequency ≥ timeout is kept
	// The re-scheduling height (height − Timeout + Frequency) is not in the past only while
	// Frequency ≥ Timeout. Every update of either field must hold ¬(frequency < timeout) on
	// the very values it stores (the new one, or the kept one when the request leaves it 0).
	{
		nFT := 0
		for _, e := range all {
			if e.Module != "service" {
				continue
			}
			cw := get(e)
			kc := keyCounter{}
			for _, x := range cw.evs {
				var want func(t string) bool
				v := ""
				switch x.ev.Kind {
				case "assign:RequestContext.Timeout":
					v = x.ev.Args[0].LooseString()
					want = func(t string) bool { return strings.HasPrefix(t, "(") && strings.HasSuffix(t, " < "+v+")") }
				case "assign:RequestContext.RepeatedFrequency":
					v = x.ev.Args[0].LooseString()
					want = func(t string) bool { return strings.HasPrefix(t, "("+v+" < ") }
				default:
					continue
				}
				nFT++
				ok := false
				for _, f := range cw.w.FactsAt(x.ev.Fr, x.ev.Site) {
					if !f.Holds && want(f.Text) {
						ok = true
					}
				}
				r.check(ok, "frequency-covers-timeout", kc.next(entryKey(&e)+"|"+strings.TrimPrefix(x.ev.Kind, "assign:RequestContext.")), x.ev.Pos(cx), "¬(frequency < timeout) holds on the stored values when "+strings.TrimPrefix(x.ev.Kind, "assign:")+" is updated", strings.TrimPrefix(x.ev.Kind, "assign:")+" is set to "+trunc(v, 120)+" without ¬(repeated frequency < timeout) decided on that very value: a context can end up with Timeout > RepeatedFrequency, and its next batch is then scheduled at a height that has already passed (never processed)")
			}
		}
		if nFT < 2 {
			r.toolErr("only %d updates of RequestContext.Timeout / RepeatedFrequency found (2 confirmed)", nFT)
		}
	}
	nSingle := 0
	for _, e := range all {
		if e.Module != "service" && e.Module != "oracle" && e.Module != "random" {
			continue
		}
		cw := get(e)
		kc := keyCounter{}
		for _, x := range cw.evs {
			if x.ev.Kind != "store.set" {
				continue
			}
			switch {
			case hasPrefix(x.ev, "service:NewRequestBatchKey=0x10"):
				nSingle++
				key := kc.next(entryKey(&e) + "|new-batch")
				// the guards are recognised by what they read (the two per-context height
				// records), not by their names
				g1, g2 := false, false
				for _, g := range cx.existsCheckersOf("service", "service:NewRequestBatchHeightKey=0x12") {
					if _, ok := x.fact(false, callNameOfFn(g)+"("); ok {
						g1 = true
					}
				}
				for _, g := range cx.existsCheckersOf("service", "service:ExpiredRequestBatchHeightKey=0x11") {
					if _, ok := x.fact(false, callNameOfFn(g)+"("); ok {
						g2 = true
					}
				}
				fresh := strings.Contains(qKeyArg(x.ev, 0), "GenerateRequestContextID(")
				inExp := false
				if cf, _ := closureAncestor(x.ev); cf != nil && cf.Fn == expBody {
					for _, y := range cw.evs {
						if y.ev.Kind == "store.delete" && hasPrefix(y.ev, "service:ExpiredRequestBatchKey=0x09") && orderedBefore(y.ev, x.ev) {
							inExp = true
						}
					}
				}
				why := map[bool]string{true: "guarded by ¬HasNewRequestBatch ∧ ¬HasRequestBatchExpiration"}[g1 && g2] + map[bool]string{true: " brand-new context id"}[fresh] + map[bool]string{true: " inside the expired-batch body after its entry was removed"}[inExp]
				r.check((g1 && g2) || fresh || inExp, "single-entry", key, x.ev.Pos(cx), "context put on the new-batch list only when it has no entry: "+strings.TrimSpace(why), "a context is put on the new-batch list without checking that it is on neither list (duplicate queue entries) on chain "+x.ev.Fr.String())
			case hasPrefix(x.ev, "service:ExpiredRequestBatchKey=0x09"):
				nSingle++
				key := kc.next(entryKey(&e) + "|expired-batch")
				cf, _ := closureAncestor(x.ev)
				r.check(cf != nil && cf.Fn == newBody, "single-entry", key, x.ev.Pos(cx), "a batch expiration is scheduled only by the new-batch body (whose own entry is removed in the same pass)", "a batch expiration is scheduled outside the new-batch body on chain "+x.ev.Fr.String())
			}
		}
	}
	if nSingle < 8 {
		r.toolErr("only %d scheduling sites analysed (≥8 confirmed)", nSingle)
	}
}

// closeDequeuesRule (C13, C03/C04's queue clause): closing an HTLC by message
// removes its expiry-queue entry under (stored ExpirationHeight, id); otherwise
// the begin blocker refunds the closed contract a second time out of the escrow
// of the other open contracts.
func (cx *Ctx) closeDequeuesRule(r *Report, get func(Entry) *c13Walk) {
	for _, e := range cx.entriesOfModule("htlc", "msg") {
		cw := get(e)
		for _, x := range cw.evs {
			if x.ev.Kind != "assign:HTLC.State" || x.ev.Args[0].LooseString() == "0" {
				continue
			}
			ok := false
			for _, y := range cw.evs {
				if y.ev.Kind == "store.delete" && hasPrefix(y.ev, "htlc:HTLCExpiredQueueKey=0x02") && coExecuted(x.ev, y.ev) && strings.HasSuffix(qKeyArg(y.ev, 0), ".ExpirationHeight") {
					ok = true
				}
			}
			r.check(ok, "close-dequeues", entryKey(&e)+"|HTLC.State="+x.ev.Args[0].LooseString(), x.ev.Pos(cx), "closing the contract by message removes its expiry-queue entry (key height = the stored ExpirationHeight) on every successful path", "the contract is closed (State := "+x.ev.Args[0].LooseString()+") without removing its expiry-queue entry")
		}
	}
}

// followedBy: whenever a executes, b executes afterwards (lifted to the lowest
// common frame: every path from a's site to a success exit passes b's site).
func followedBy(a, b *Event) bool { return followedByOpt(a, b, true) }

// followedByCall: as followedBy, but b need only be reachable inside the call that is
// passed on every path (a write-back helper that loops over the collection it stores:
// the loop body is not a must of the helper, the helper call is a must of the caller).
func followedByCall(a, b *Event) bool { return followedByOpt(a, b, false) }

func followedByOpt(a, b *Event, below bool) bool {
	chain := func(e *Event) []*Frame {
		var c []*Frame
		for f := e.Fr; f != nil; f = f.Parent {
			c = append([]*Frame{f}, c...)
		}
		return c
	}
	ca, cb := chain(a), chain(b)
	i := 0
	for i < len(ca) && i < len(cb) && ca[i] == cb[i] {
		i++
	}
	if i == 0 {
		return false
	}
	sa, sb := siteOf(ca, i, a), siteOf(cb, i, b)
	if sa == nil || sb == nil || sa.Parent() != sb.Parent() || (below && !mustBelow(cb, i, b)) {
		return false
	}
	if !below && i >= len(cb) {
		return false // b itself sits in the common frame: nothing to relax
	}
	if sa.Block() == sb.Block() {
		return instrIndex(sa) < instrIndex(sb)
	}
	// every feasible path leaving a's block passes b's site (boolean flags set on
	// the way are tracked, so `changed = true … if changed { store }` is seen through)
	if len(sa.Block().Succs) == 0 {
		return false
	}
	as, consistent := assumptionsBelow(ca[i-1].Fn, ca[i:], cb[i:])
	if !consistent {
		return false
	}
	return withAssumptions(as, func() bool { return mustReachPS(sa.Parent(), sa.Block(), blockPredFor(sa.Block()), sb) })
}

// blockPredFor: a predecessor to enter b from when b has exactly one (phi
// values of b are then determined); nil otherwise.
func blockPredFor(b *ssa.BasicBlock) *ssa.BasicBlock {
	if len(b.Preds) == 1 {
		return b.Preds[0]
	}
	return nil
}

// ------------------------------------------------------------ abort classes

// divGuard: a dominating fact that the denominator expression is non-zero.
func divGuard(ins ssa.Instruction, den ssa.Value) string {
	if c, ok := ins.(*ssa.Call); ok {
		if g := denominatorGuard(c, den); g != "" {
			return g
		}
	}
	// a zero-preserving conversion of a guarded value (NewDecFromInt(x) is zero iff x is)
	if c, ok := den.(*ssa.Call); ok && len(c.Common().Args) == 1 && !c.Common().IsInvoke() {
		_, n := calleeName(c.Common())
		if strings.HasSuffix(n, "NewDecFromInt") || strings.HasSuffix(n, "ToLegacyDec") || strings.HasSuffix(n, "NewDecFromBigInt") || strings.HasSuffix(n, "NewIntFromBigInt") || strings.HasSuffix(n, "Int.BigInt") {
			if g := divGuard(ins, c.Common().Args[0]); g != "" {
				return g + " (through " + n + ")"
			}
		}
	}
	de := pureExpr(den, 0)
	if de == "" {
		return ""
	}
	for _, cf := range callFacts(ins.Block()) {
		_, name := calleeName(cf.Call.Common())
		m := name[strings.LastIndex(name, ".")+1:]
		args := cf.Call.Common().Args
		if len(args) == 0 || pureExpr(args[0], 0) != de {
			continue
		}
		zeroArg := func() bool {
			if len(args) < 2 {
				return false
			}
			if c, ok := args[1].(*ssa.Call); ok {
				_, n := calleeName(c.Common())
				return strings.HasSuffix(n, "ZeroInt") || strings.HasSuffix(n, "ZeroDec") || strings.HasSuffix(n, "ZeroUint")
			}
			return false
		}
		switch {
		case m == "IsZero" && cf.Outcome == "false", m == "IsPositive" && cf.Outcome == "true":
			return name + " : " + cf.Outcome
		case m == "GT" && cf.Outcome == "true" && zeroArg():
			return name + "(·, zero) : true"
		case m == "Equal" && cf.Outcome == "false" && zeroArg():
			return name + "(·, zero) : false"
		}
	}
	return ""
}

func (cx *Ctx) c13Aborts(r *Report, get func(Entry) *c13Walk) {
	// reviewed quotients: function → reason, each with a re-checked structural condition
	n := 0
	seen := map[ssa.Instruction]bool{}
	kc := keyCounter{}
	for _, e := range cx.EntriesOf("abci", "callback") {
		cw := get(e)
		for _, fr := range cw.frames {
			if !isIrismodFunc(fr.Fn) {
				continue
			}
			for _, s := range abortSitesOf(fr.Fn) {
				if seen[s.ins] {
					continue
				}
				seen[s.ins] = true
				n++
				pos := cx.P.Pos(s.ins.Pos())
				key := kc.next(moduleOf(funcPkgPath(s.fn)) + "|" + s.name + "|" + anchorOf(cx, s.fn))
				if s.kind == "panic" {
					if infeasible(cw.w.FactsAt(fr, s.ins)) {
						continue
					}
					if why := cx.unitIntervalAssertion(s.ins.(*ssa.Panic)); why != "" {
						r.ok("abort-class", key, pos, "explicit panic reachable from "+entryKey(cw.e)+" cannot fire: "+why)
						continue
					}
					r.violate("abort-class", key, pos, "explicit panic reachable from "+entryKey(cw.e)+" on chain "+fr.String()+": a panic inside a block handler halts the chain")
					continue
				}
				if g := divGuard(s.ins, s.den); g != "" {
					r.ok("abort-class", key, pos, "quotient "+s.name+" reachable from "+entryKey(cw.e)+": denominator guarded by "+g)
					continue
				}
				if g := factDivGuard(cw.w, fr, s.ins, s.den); g != "" {
					r.ok("abort-class", key, pos, "quotient "+s.name+" reachable from "+entryKey(cw.e)+": denominator guarded on this chain by "+g)
					continue
				}
				if why := cx.reviewedDivisor(s); why != "" {
					r.ok("abort-class", key, pos, "quotient "+s.name+" reachable from "+entryKey(cw.e)+": reviewed — "+why)
					continue
				}
				r.violate("abort-class", key, pos, "quotient "+s.name+" in "+shortFn(s.fn)+" is reachable from "+entryKey(cw.e)+" without a dominating non-zero guard on its denominator: a zero divisor panics inside the block handler and halts the chain")
			}
		}
	}
	if n < 2 {
		r.toolErr("only %d abort-class sites found (≥2 expected: the farm release quotient and the random generator's)", n)
	}
	// discarded errors inside block handlers (enumerated)
	nd := 0
	seenC := map[ssa.Instruction]bool{}
	for _, e := range cx.EntriesOf("abci") {
		cw := get(e)
		for _, fr := range cw.frames {
			if !isIrismodFunc(fr.Fn) || !strings.Contains(cx.P.File(fr.Fn.Pos()), "abci.go") {
				continue
			}
			for _, b := range fr.Fn.Blocks {
				for _, ins := range b.Instrs {
					c, ok := ins.(*ssa.Call)
					if !ok || seenC[c] {
						continue
					}
					res := c.Common().Signature().Results()
					if res.Len() == 0 || !isErrorType(res.At(res.Len()-1).Type()) {
						continue
					}
					used := false
					for _, ref := range *c.Referrers() {
						if ex, ok := ref.(*ssa.Extract); ok && res.Len() > 1 {
							if ex.Index == res.Len()-1 && len(*ex.Referrers()) > 0 {
								used = true
							}
							continue
						}
						if _, ok := ref.(*ssa.DebugRef); !ok && res.Len() == 1 {
							used = true
						}
					}
					if used {
						continue
					}
					seenC[c] = true
					nd++
					_, name := calleeName(c.Common())
					r.ok("discarded-error", e.Module+"."+e.Name+"|"+name, cx.P.Pos(c.Pos()), "error result discarded inside the block handler (the handler continues; the dequeue rule above covers the entry)")
				}
			}
		}
	}
	r.Extra["discarded_errors_in_block_handlers"] = nd
}

// reviewedDivisor: reviewed quotients whose divisor is non-zero for a reason
// outside the function; the structural part of the reason is re-checked.
func (cx *Ctx) reviewedDivisor(s abortSite) string {
	if moduleOf(funcPkgPath(s.fn)) != "random" {
		return ""
	}
	// the divisor is big.NewInt(p.BlockTimestamp) or Exp(10, RandPrec), possibly handed
	// to a helper as a parameter (then every caller must pass such a value)
	var source func(v ssa.Value, depth int) string
	source = func(v ssa.Value, depth int) string {
		if depth > 8 || v == nil {
			return ""
		}
		if iv := cx.initOnceValue(v); iv != nil {
			v = iv // a package-level value computed once at start-up and never assigned again
		}
		switch x := v.(type) {
		case *ssa.Parameter:
			fn := x.Parent()
			idx := -1
			for i, p := range fn.Params {
				if p == x {
					idx = i
				}
			}
			res := ""
			for _, cs := range cx.CallersOf(fn) {
				cc := cs.Site.Common()
				if cc.IsInvoke() || cc.StaticCallee() != fn || idx < 0 || idx >= len(cc.Args) {
					continue
				}
				r := source(cc.Args[idx], depth+1)
				if r == "" || (res != "" && res != r) {
					return ""
				}
				res = r
			}
			return res
		case *ssa.Call:
			_, n := calleeName(x.Common())
			switch {
			case strings.HasSuffix(n, "NewInt") && len(x.Common().Args) == 1:
				if cx.isBlockTimestamp(x.Common().Args[0], 0) {
					return "timestamp"
				}
				return ""
			case strings.HasSuffix(n, "Int.Exp"):
				return "exp"
			}
		}
		if ins, ok := v.(ssa.Instruction); ok {
			for _, op := range ins.Operands(nil) {
				if op != nil && *op != nil {
					if r := source(*op, depth+1); r != "" {
						return r
					}
				}
			}
		}
		return ""
	}
	src := source(s.den, 0)
	if os.Getenv("DEBUG_DIV") != "" {
		fmt.Fprintf(os.Stderr, "reviewedDivisor %s den=%s src=%q\n", shortFn(s.fn), s.den, src)
	}
	switch src {
	case "timestamp":
		// every generator is built with the block header time
		okAll, n := true, 0
		for _, f := range cx.P.AllFuncs {
			if !isConsensusCode(cx, f) {
				continue
			}
			for _, ci := range findCalls(f, func(ci ssa.CallInstruction) bool { return calleeIs(ci, "random/types", "MakePRNG") }) {
				n++
				// the timestamp argument is the block time's Unix()/UnixNano(), however it travels
				// (a local, a parameter, a field of a small struct filled from the header)
				fromHeader := func(v ssa.Value, _ []*ssa.Call) bool {
					c, ok := v.(*ssa.Call)
					if !ok {
						return false
					}
					_, nm := calleeName(c.Common())
					return strings.HasSuffix(nm, "Context.BlockHeader") || strings.HasSuffix(nm, "Context.BlockTime")
				}
				isBlockUnix := func(v ssa.Value, st []*ssa.Call) bool {
					c, ok := v.(*ssa.Call)
					if !ok {
						return false
					}
					_, nm := calleeName(c.Common())
					if !(strings.HasSuffix(nm, "Time.Unix") || strings.HasSuffix(nm, "Time.UnixNano")) || len(c.Common().Args) == 0 {
						return false
					}
					return cx.newSlicer(fromHeader, true).derives(c.Common().Args[0], st, -1)
				}
				if !cx.newSlicer(isBlockUnix, true).derives(ci.Common().Args[1], nil, -1) {
					okAll = false
				}
			}
		}
		if okAll && n >= 2 {
			return fmt.Sprintf("the divisor is the generator's BlockTimestamp, and all %d MakePRNG call sites pass the block header's Time.Unix() (BFT time is after 1970, never 0)", n)
		}
	case "exp":
		return "the divisor is 10^RandPrec built from constants"
	}
	return ""
}

func init() {
	dumps["dyn"] = func(cx *Ctx) {
		for _, f := range cx.P.AllFuncs {
			if f.Blocks == nil || !strings.Contains(shortFn(f), os.Getenv("IRISLINT_FN")) {
				continue
			}
			for _, e := range cx.Edges(f) {
				if e.Kind == "dynamic" {
					k, ent := cx.tableDispatch(e.Site.(ssa.CallInstruction))
					fmt.Printf("%s: dynamic -> %s synthetic=%q table=%v key=%v\n", shortFn(f), shortFn(e.Callee), e.Callee.Synthetic, ent != nil, k)
				}
			}
		}
	}
	dumps["c04dbg"] = func(cx *Ctx) {
		for _, e := range cx.entriesOfModule("htlc", "abci") {
			ee := e
			cw := cx.c13WalkEntry(&ee, &Report{})
			for _, x := range cw.evs {
				if strings.HasPrefix(x.ev.Kind, "assign:AssetSupply.Time") || strings.HasPrefix(x.ev.Kind, "delta:AssetSupply.Time") {
					fmt.Printf("%s %s = %s\n   facts: %s\n", x.ev.Pos(cx), x.ev.Kind, x.ev.Args[0].LooseString(), factStrings(x.w.FactsAt(x.ev.Fr, x.ev.Site)))
				}
			}
		}
	}
}

// ------------------------------------------------------------ lost updates

type lostUpdate struct {
	e        *Entry
	read     *Event // the store read inside the getter
	mid, end *Event // the intervening write and the stale write-back
	getter   string
	sameKey  bool
}

// lostUpdates: a value read from prefix P (through a getter call g), then a
// write S' under P, then a write S under P whose value derives from g without
// passing through the call that performed S'. sameKey: S' and S write the same
// key term (a definite overwrite); otherwise the keys may alias.
func (cx *Ctx) lostUpdates(cw *c13Walk) []lostUpdate {
	var out []lostUpdate
	var sets, reads []hev
	for _, x := range cw.evs {
		switch x.ev.Kind {
		case "store.set":
			sets = append(sets, x)
		case "store.get", "store.iter", "store.riter":
			reads = append(reads, x)
		}
	}
	isAncestorCall := func(pos token.Pos, ev *Event) bool {
		for f := ev.Fr; f != nil; f = f.Parent {
			if f.Call != nil && f.Call.Pos() == pos {
				return true
			}
		}
		return false
	}
	// the call instance a term denotes: its source position and, where known, the
	// activation it was evaluated in (an inlined helper is evaluated once per invocation)
	isAncestorCallT := func(t *Term, ev *Event) bool {
		if t.fr == nil {
			return isAncestorCall(t.Site, ev)
		}
		want := framePath(t.fr)
		for f := ev.Fr; f != nil; f = f.Parent {
			if f.Call != nil && f.Call.Pos() == t.Site && framePath(f.Parent) == want {
				return true
			}
		}
		return false
	}
	for _, S := range sets {
		if len(S.ev.Prefix) != 1 || len(S.ev.Args) < 2 {
			continue
		}
		P := S.ev.Prefix[0]
		for _, Sp := range sets {
			if Sp.ev == S.ev || !hasPrefix(Sp.ev, P) || !orderedBefore(Sp.ev, S.ev) {
				continue
			}
			// getter subterms of S's value, not descending into calls that contain S'
			var gs []*Term
			var visit func(t *Term)
			visit = func(t *Term) {
				if t == nil {
					return
				}
				if t.Op == "call" && t.Site.IsValid() {
					if isAncestorCallT(t, Sp.ev) {
						return // result of the call that performed the intervening write
					}
					gs = append(gs, t)
				}
				for _, a := range t.Args {
					visit(a)
				}
			}
			visit(S.ev.Args[1])
			for _, g := range gs {
				for _, R := range reads {
					if !hasPrefix(R.ev, P) || !isAncestorCallT(g, R.ev) {
						continue
					}
					if orderedBefore(R.ev, Sp.ev) {
						if cx.freshThroughWriter(R.ev, Sp.ev, S.ev) {
							continue
						}
						out = append(out, lostUpdate{cw.e, R.ev, Sp.ev, S.ev, g.Name, Sp.ev.Args[0].LooseString() == S.ev.Args[0].LooseString()})
					}
				}
			}
		}
	}
	return out
}

// freshThroughWriter: second opinion on a stale write-back candidate, on the SSA values
// instead of the terms (where an inlined helper has lost its call identity): the value
// stored by S depends on the early read R only THROUGH the result of the call that
// performed the intervening write S' (pool, _, err = k.update(ctx, pool, ...); ...;
// k.SetPool(ctx, pool)) - it is the fresh value. Conclusive only when the slice followed
// everything it met.
func (cx *Ctx) freshThroughWriter(R, Sp, S *Event) bool {
	cs, ok := S.Site.(ssa.CallInstruction)
	if !ok || len(storeArgs(cs)) < 2 {
		return false
	}
	anc := func(ev *Event) map[token.Pos]bool {
		m := map[token.Pos]bool{}
		for f := ev.Fr; f != nil; f = f.Parent {
			if f.Call != nil {
				m[f.Call.Pos()] = true
			}
		}
		return m
	}
	ancR, ancSp := anc(R), anc(Sp)
	var stack []*ssa.Call
	for f := S.Fr; f != nil; f = f.Parent {
		if f.Call == nil {
			if f.Parent != nil {
				return false // closure frame: not handled here
			}
			break
		}
		c, isCall := f.Call.(*ssa.Call)
		if !isCall {
			return false
		}
		stack = append([]*ssa.Call{c}, stack...)
	}
	sl := cx.newSlicer(func(v ssa.Value, _ []*ssa.Call) bool {
		c, ok := v.(*ssa.Call)
		return ok && ancR[c.Pos()] && !ancSp[c.Pos()]
	}, false)
	sl.wholeOnly = true
	sl.stop = func(v ssa.Value, _ []*ssa.Call) bool {
		c, ok := v.(*ssa.Call)
		return ok && ancSp[c.Pos()]
	}
	dep := sl.derives(storeArgs(cs)[1], stack, -1)
	if os.Getenv("DEBUG_FRESH") != "" {
		fmt.Fprintf(os.Stderr, "freshThroughWriter S=%s dep=%v unknown=%v steps=%d\n", cx.P.Pos(S.Site.Pos()), dep, sl.unknown, sl.steps)
	}
	return !dep && !sl.unknown
}

// discardedBranch: the event runs on a branched context (ctx.CacheContext()) whose write
// function is not called on every path that leaves the branching function: on the other
// paths everything the event did is thrown away. Block handlers are not wrapped in a
// transaction, so a "rolled back" dequeue or payment simply did not happen while the
// handler carries on. Returns the position of the CacheContext call.
func (cx *Ctx) discardedBranch(w *Walker, ev *Event) (string, bool) {
	// trace the context the event's function received back along the call chain
	var trace func(v ssa.Value, f *Frame, depth int) (*ssa.Call, *Frame)
	trace = func(v ssa.Value, f *Frame, depth int) (*ssa.Call, *Frame) {
		if depth > 40 || f == nil {
			return nil, nil
		}
		switch x := v.(type) {
		case *ssa.Parameter:
			if f.Call != nil && f.Parent != nil {
				idx := -1
				for i, p := range f.Fn.Params {
					if p == x {
						idx = i
					}
				}
				args := f.Call.Common().Args
				if f.Call.Common().IsInvoke() {
					idx-- // the receiver is not among the arguments of an interface call
				}
				if idx >= 0 && idx < len(args) {
					return trace(args[idx], f.Parent, depth+1)
				}
			}
			if f.Via != nil && f.ViaSite != nil {
				// a closure entered where it is passed: its context parameter is supplied by
				// the iterating helper, which received it from the frame that passed the closure
				if vc, ok := f.ViaSite.(ssa.CallInstruction); ok {
					for _, a := range vc.Common().Args {
						if isCtxType(a.Type()) {
							return trace(a, f.Via, depth+1)
						}
					}
				}
			}
		case *ssa.FreeVar:
			if f.MC != nil && f.Parent != nil {
				for i, fv := range f.Fn.FreeVars {
					if fv == x && i < len(f.MC.Bindings) {
						return trace(f.MC.Bindings[i], f.Parent, depth+1)
					}
				}
			}
		case *ssa.Extract:
			if call, ok := x.Tuple.(*ssa.Call); ok {
				if _, name := calleeName(call.Common()); name == "Context.CacheContext" && x.Index == 0 {
					return call, f
				}
			}
		case *ssa.Call:
			cc := x.Common()
			for _, a := range cc.Args {
				if isCtxType(a.Type()) {
					return trace(a, f, depth+1)
				}
			}
		case *ssa.UnOp:
			if a, ok := x.X.(*ssa.Alloc); ok && a.Referrers() != nil {
				for _, r := range *a.Referrers() {
					if st, ok := r.(*ssa.Store); ok && st.Addr == a {
						if c, cf := trace(st.Val, f, depth+1); c != nil {
							return c, cf
						}
					}
				}
				return nil, nil
			}
			return trace(x.X, f, depth+1)
		case *ssa.Phi:
			for _, e := range x.Edges {
				if c, cf := trace(e, f, depth+1); c != nil {
					return c, cf
				}
			}
		case *ssa.MakeInterface:
			return trace(x.X, f, depth+1)
		case *ssa.ChangeType:
			return trace(x.X, f, depth+1)
		case *ssa.TypeAssert:
			return trace(x.X, f, depth+1)
		}
		return nil, nil
	}
	var start ssa.Value
	for _, p := range ev.Fr.Fn.Params {
		if isCtxType(p.Type()) {
			start = p
			break
		}
	}
	if start == nil {
		for _, fv := range ev.Fr.Fn.FreeVars {
			if isCtxType(fv.Type()) || (func() bool {
				pt, ok := fv.Type().(*types.Pointer)
				return ok && isCtxType(pt.Elem())
			})() {
				start = fv
				break
			}
		}
	}
	if start == nil {
		return "", false
	}
	call, cf := trace(start, ev.Fr, 0)
	if call == nil {
		return "", false
	}
	var wfn ssa.Value
	if call.Referrers() != nil {
		for _, ref := range *call.Referrers() {
			if ex, ok := ref.(*ssa.Extract); ok && ex.Index == 1 {
				wfn = ex
			}
		}
	}
	committed := false
	if wfn != nil {
		isWrite := func(x ssa.Instruction) bool {
			ci, ok := x.(ssa.CallInstruction)
			return ok && ci.Common().Value == wfn && !ci.Common().IsInvoke()
		}
		committed = mustPassFrom(cf.Fn, call.Block(), isWrite, func(b *ssa.BasicBlock) bool {
			if len(b.Instrs) == 0 {
				return false
			}
			_, isRet := b.Instrs[len(b.Instrs)-1].(*ssa.Return)
			return isRet
		})
	}
	if committed {
		return "", false
	}
	return cx.P.Pos(call.Pos()), true
}

func init() {
	dumps["lostupdate"] = func(cx *Ctx) {
		for _, e := range cx.EntriesOf("msg", "abci", "callback") {
			ee := e
			cw := cx.c13WalkEntry(&ee, &Report{})
			seen := map[string]bool{}
			for _, lu := range cx.lostUpdates(cw) {
				k := fmt.Sprintf("%s %s: read via %s at %s; intervening write %s; stale write-back %s  sameKey=%v prefix=%s\n    read chain %s\n    mid chain  %s\n    end chain  %s", e.Module, e.Name, lu.getter, lu.read.Pos(cx), lu.mid.Pos(cx), lu.end.Pos(cx), lu.sameKey, lu.end.Prefix[0], lu.read.Fr, lu.mid.Fr, lu.end.Fr)
				if !seen[k] {
					seen[k] = true
					fmt.Println(k)
					fmt.Println("    value term:", lu.end.Args[1].String())
				}
			}
		}
	}
}

// lostUpdateRule reports, for the entries of the given modules, every stale
// write-back (see lostUpdates). Writes under different key terms may alias
// (transfer to self); they are reported unless a dominating fact separates the
// differing key components.
func (cx *Ctx) lostUpdateRule(r *Report, mods []string, minSets int) {
	nSets := 0
	for _, e := range cx.EntriesOf("msg", "abci", "callback", "hook") {
		in := false
		for _, m := range mods {
			if e.Module == m || strings.HasPrefix(e.Module, m+"/") {
				in = true
			}
		}
		if !in {
			continue
		}
		ee := e
		cw := cx.c13WalkEntry(&ee, r)
		for _, x := range cw.evs {
			if x.ev.Kind == "store.set" {
				nSets++
			}
		}
		seen := map[string]bool{}
		for _, lu := range cx.lostUpdates(cw) {
			key := entryKey(&ee) + "|" + lu.end.Prefix[0]
			if seen[key] {
				continue
			}
			if !lu.sameKey {
				// keys differ textually: separated by a fact?
				ka, kb := lu.mid.Args[0], lu.end.Args[0]
				sep := false
				if ka.Op == "call" && kb.Op == "call" && len(ka.Args) == len(kb.Args) {
					for i := range ka.Args {
						a, b := ka.Args[i].LooseString(), kb.Args[i].LooseString()
						if a == b {
							continue
						}
						for _, f := range cw.w.FactsAt(lu.end.Fr, lu.end.Site) {
							if strings.Contains(f.Text, a) && strings.Contains(f.Text, b) && (strings.Contains(f.Text, "Equal") || strings.Contains(f.Text, "==") || strings.Contains(f.Text, "!=")) {
								sep = true
							}
						}
					}
				}
				if sep {
					continue
				}
			}
			seen[key] = true
			how := "the same key"
			if !lu.sameKey {
				how = "a key of the same record family that may be the same record (nothing on the path separates " + trunc(lu.mid.Args[0].LooseString(), 90) + " from " + trunc(lu.end.Args[0].LooseString(), 90) + ")"
			}
			r.violate("lost-update", key, lu.end.Pos(cx), "stale write-back: the value stored at "+lu.end.Pos(cx)+" derives from a read through "+lu.getter+" ("+lu.read.Pos(cx)+") that precedes an intervening write at "+lu.mid.Pos(cx)+" ("+shortFn(lu.mid.Fr.Fn)+") to "+how+"; the intervening update is overwritten / ignored")
		}
	}
	if nSets < minSets {
		r.toolErr("lost-update: only %d store writes analysed (≥%d confirmed)", nSets, minSets)
	}
	r.ok("lost-update", strings.Join(mods, ","), "", fmt.Sprintf("%d store writes on message/block/callback paths checked: no value read before an intervening write of the same record family is written back afterwards", nSets))
}

// existsCheckersOf: functions of module m returning a single bool that read
// (Has/Get) exactly the given prefix and no other.
func (cx *Ctx) existsCheckersOf(m, prefix string) []*ssa.Function {
	var out []*ssa.Function
	for _, f := range cx.P.AllFuncs {
		if moduleOf(funcPkgPath(f)) != m || f.Parent() != nil || !isConsensusCode(cx, f) {
			continue
		}
		res := f.Signature.Results()
		if res.Len() != 1 {
			continue
		}
		if bt, ok := res.At(0).Type().Underlying().(*types.Basic); !ok || bt.Kind() != types.Bool {
			continue
		}
		reads, other := false, false
		for _, p := range cx.primsOf(f) {
			if p.Kind == "store.has" || p.Kind == "store.get" {
				if len(p.Prefix) == 1 && p.Prefix[0] == prefix {
					reads = true
				} else {
					other = true
				}
			}
		}
		if reads && !other {
			out = append(out, f)
		}
	}
	return out
}

// ------------------------------------------------------------ unpersisted modifications

// recordPrefixes: record type name -> prefixes under which values of that type are stored.
func (cx *Ctx) recordPrefixes() map[string]map[string]bool {
	out := map[string]map[string]bool{}
	for _, f := range cx.P.AllFuncs {
		if !isConsensusCode(cx, f) {
			continue
		}
		for _, p := range cx.primsOf(f) {
			if p.Kind != "store.set" || len(p.Prefix) != 1 || len(p.Site.Common().Args) < 2 {
				continue
			}
			ms := marshalSource(storeArgs(p.Site)[1])
			if ms == nil {
				continue
			}
			n := namedOf(ms.Type())
			if n == nil || n.Obj().Pkg() == nil || !strings.HasPrefix(n.Obj().Pkg().Path(), modPrefix) {
				continue
			}
			if out[n.Obj().Name()] == nil {
				out[n.Obj().Name()] = map[string]bool{}
			}
			out[n.Obj().Name()][p.Prefix[0]] = true
		}
	}
	return out
}

type unpersisted struct {
	e  *Entry
	ev *Event
	w  *Walker
}

// unpersistedMods: field updates of a stored record type that are not followed,
// on every feasible path to a successful return, by a store under one of the
// prefixes that hold that type.
func (cx *Ctx) unpersistedMods(cw *c13Walk, rp map[string]map[string]bool) []unpersisted {
	var out []unpersisted
	for _, x := range cw.evs {
		var tf string
		switch {
		case strings.HasPrefix(x.ev.Kind, "assign:"):
			tf = strings.TrimPrefix(x.ev.Kind, "assign:")
		case strings.HasPrefix(x.ev.Kind, "delta:"):
			tf = strings.TrimPrefix(x.ev.Kind, "delta:")
			tf = tf[:strings.LastIndex(tf, ":")]
		default:
			continue
		}
		typ := tf[:strings.Index(tf, ".")]
		prefixes := rp[typ]
		if len(prefixes) == 0 {
			continue
		}
		if infeasible(cw.w.FactsAt(x.ev.Fr, x.ev.Site)) {
			continue
		}
		ok := false
		for _, y := range cw.evs {
			if y.ev.Kind != "store.set" || len(y.ev.Prefix) != 1 || !prefixes[y.ev.Prefix[0]] {
				continue
			}
			if followedBy(x.ev, y.ev) {
				ok = true
				break
			}
		}
		if !ok {
			out = append(out, unpersisted{cw.e, x.ev, cw.w})
		}
	}
	return out
}

func init() {
	dumps["unpersisted"] = func(cx *Ctx) {
		rp := cx.recordPrefixes()
		for _, e := range cx.EntriesOf("msg", "abci", "callback") {
			ee := e
			cw := cx.c13WalkEntry(&ee, &Report{})
			seen := map[string]bool{}
			for _, u := range cx.unpersistedMods(cw, rp) {
				k := fmt.Sprintf("%s %s: %s at %s = %s\n    chain %s", e.Module, e.Name, u.ev.Kind, u.ev.Pos(cx), trunc(u.ev.Args[0].LooseString(), 80), u.ev.Fr)
				if !seen[k] {
					seen[k] = true
					fmt.Println(k)
				}
			}
		}
	}
}

func init() {
	dumps["c08dbg"] = func(cx *Ctx) {
		for _, e := range cx.entriesOfModule("service", "abci") {
			if e.Name != "EndBlock" {
				continue
			}
			ee := e
			cw := cx.c13WalkEntry(&ee, &Report{})
			for _, x := range cw.evs {
				if x.ev.Kind == "store.set" && hasPrefix(x.ev, "service:NewRequestBatchKey=0x10") {
					cf, s := closureAncestor(x.ev)
					if cf == nil {
						continue
					}
					envs, complete := pathAssignments(cf.Fn, s, func(v ssa.Value) string { return cw.w.ts.Of(v, cf).LooseString() })
					fmt.Println("complete", complete, "paths", len(envs))
					for _, env := range envs {
						for _, k := range sortedKeys(env) {
							fmt.Printf("   %v  %s\n", env[k], trunc(k, 200))
						}
						fmt.Println("   --")
					}
				}
			}
		}
	}
}

// forwardsToCallback: a call of a function value the closure captured or received
// (the adapter's `op(...)`).
func forwardsToCallback(x ssa.Instruction) bool {
	c, ok := x.(*ssa.Call)
	if !ok || c.Common().IsInvoke() {
		return false
	}
	v := c.Common().Value
	for {
		u, isLoad := v.(*ssa.UnOp)
		if !isLoad || u.Op != token.MUL {
			break
		}
		v = u.X
	}
	switch v.(type) {
	case *ssa.FreeVar, *ssa.Parameter:
		_, isSig := c.Common().Value.Type().Underlying().(*types.Signature)
		return isSig
	}
	return false
}

// iteratorLoopHeader: the header of a loop in fn whose continuation test is the
// iterator's Valid() (nil if fn has none).
func iteratorLoopHeader(fn *ssa.Function) *ssa.BasicBlock {
	if fn == nil || fn.Blocks == nil {
		return nil
	}
	for _, b := range fn.Blocks {
		ifi, ok := b.Instrs[len(b.Instrs)-1].(*ssa.If)
		if !ok {
			continue
		}
		c, ok := ifi.Cond.(*ssa.Call)
		if !ok || !c.Common().IsInvoke() || c.Common().Method.Name() != "Valid" {
			continue
		}
		for _, p := range b.Preds {
			if b.Dominates(p) {
				return b
			}
		}
	}
	return nil
}

// isCallbackResult: v is the (possibly negated) boolean result of calling a function
// value the enclosing function received.
func isCallbackResult(v ssa.Value) bool {
	for {
		if u, ok := v.(*ssa.UnOp); ok && u.Op == token.NOT {
			v = u.X
			continue
		}
		break
	}
	c, ok := v.(*ssa.Call)
	if !ok || c.Common().IsInvoke() {
		return false
	}
	switch c.Common().Value.(type) {
	case *ssa.Parameter, *ssa.FreeVar:
		return true
	}
	return false
}

// snapshotCollector: f is a read-only collector of a work list: it walks a store
// iterator, appends one element to a slice on every path through the loop body, and
// returns that slice. Its caller, ranging over the result, is the consumer of the
// iteration (`for _, e := range k.GetDue(ctx, h) { … }`).
func (cx *Ctx) snapshotCollector(f *ssa.Function) bool {
	_, ok := cx.snapshotCollectorIdx(f)
	return ok
}

// snapshotCollectorIdx: which result is the list of collected entries (a collector may hand
// back the list together with a lookup table filled in the same loop).
func (cx *Ctx) snapshotCollectorIdx(f *ssa.Function) (int, bool) {
	if f == nil || f.Blocks == nil {
		return -1, false
	}
	for i := 0; i < f.Signature.Results().Len(); i++ {
		if cx.snapshotCollectorAt(f, i) {
			return i, true
		}
	}
	return -1, false
}

func (cx *Ctx) snapshotCollectorAt(f *ssa.Function, idx int) bool {
	if f == nil || f.Blocks == nil || idx >= f.Signature.Results().Len() {
		return false
	}
	sl, ok := f.Signature.Results().At(idx).Type().Underlying().(*types.Slice)
	if !ok {
		return false
	}
	if b, ok := sl.Elem().Underlying().(*types.Basic); ok && b.Kind() == types.Byte {
		return false
	}
	for k := range cx.transPrimKinds(f) {
		if isMutatingKind(k) {
			return false
		}
	}
	h := iteratorLoopHeader(f)
	if h == nil {
		return false
	}
	inL := func(b *ssa.BasicBlock) bool { return b == h || (h.Dominates(b) && blockReaches(b, h)) }
	// the appends in the loop that feed the returned slice
	var sites []ssa.Instruction
	seen := map[ssa.Value]bool{}
	var back func(v ssa.Value)
	back = func(v ssa.Value) {
		if v == nil || seen[v] {
			return
		}
		seen[v] = true
		switch x := v.(type) {
		case *ssa.Phi:
			for _, e := range x.Edges {
				back(e)
			}
		case *ssa.UnOp:
			if a, ok := x.X.(*ssa.Alloc); ok && x.Op == token.MUL && a.Referrers() != nil {
				for _, r := range *a.Referrers() {
					if st, ok := r.(*ssa.Store); ok && st.Addr == a {
						back(st.Val)
					}
				}
			}
		case *ssa.Slice:
			back(x.X)
		case *ssa.Call:
			if b, ok := x.Common().Value.(*ssa.Builtin); ok && b.Name() == "append" {
				if inL(x.Block()) {
					sites = append(sites, x)
				}
				back(x.Common().Args[0])
			}
		}
	}
	for _, ret := range returnsOf(f) {
		if idx < len(ret.Results) {
			back(ret.Results[idx])
		}
	}
	return len(sites) > 0 && loopHeaderOf(sites[0].Block()) == h && perIterationMust(sites)
}

// rangeLoopOver: the header of the `for … range v` loop over the slice v
// (index compared against len(v)).
func rangeLoopOver(v ssa.Value) *ssa.BasicBlock {
	if v == nil || v.Referrers() == nil {
		return nil
	}
	for _, r := range *v.Referrers() {
		c, ok := r.(*ssa.Call)
		if !ok {
			continue
		}
		if b, ok := c.Common().Value.(*ssa.Builtin); !ok || b.Name() != "len" || c.Referrers() == nil {
			continue
		}
		for _, r2 := range *c.Referrers() {
			bo, ok := r2.(*ssa.BinOp)
			if !ok || bo.Op != token.LSS || bo.Y != ssa.Value(c) || bo.Referrers() == nil {
				continue
			}
			for _, r3 := range *bo.Referrers() {
				if ifi, ok := r3.(*ssa.If); ok {
					h := ifi.Block()
					for _, p := range h.Preds {
						if h.Dominates(p) {
							return h
						}
					}
				}
			}
		}
	}
	return nil
}

// loopEarlyExit: a way to leave the loop with header h other than the header's own
// exhaustion test. stopProto reports an exit governed by a callback's boolean answer.
func (cx *Ctx) loopEarlyExit(fn *ssa.Function, h *ssa.BasicBlock) (early string, stopProto bool) {
	inL := func(b *ssa.BasicBlock) bool { return b == h || (h.Dominates(b) && blockReaches(b, h)) }
	for _, b := range fn.Blocks {
		if !inL(b) || b == h {
			continue
		}
		leaves := false
		for _, sc := range b.Succs {
			// an exit that can only abort (panic, failure return) leaves nothing behind:
			// the block is not committed
			if !inL(sc) && !onlyFailureExits(sc, nil) {
				leaves = true
			}
		}
		if ret, isRet := b.Instrs[len(b.Instrs)-1].(*ssa.Return); isRet && !isFailureReturn(ret) {
			leaves = true
		}
		if !leaves {
			continue
		}
		// `if stop := op(…); stop { break }`: governed by the callback's answer
		if ifi, ok := b.Instrs[len(b.Instrs)-1].(*ssa.If); ok && isCallbackResult(ifi.Cond) {
			stopProto = true
			continue
		}
		early = cx.P.Pos(condPos(nil, b))
	}
	return early, stopProto
}

// iterationConsumer: for an iteration event, the frame that holds the loop walking
// the iterator (loopFr, header h) and, when that loop is a read-only snapshot
// collector, the frame that ranges over the snapshot (consumer, header ch).
// For a direct loop consumer == loopFr and ch == h. ok is false when the shape is
// neither (e.g. the collector's result is not ranged over by its caller).
func (cx *Ctx) iterationConsumer(itFr *Frame) (loopFr *Frame, h *ssa.BasicBlock, consumer *Frame, ch *ssa.BasicBlock, ok bool) {
	for f := itFr; f != nil; f = f.Parent {
		if hh := iteratorLoopHeader(f.Fn); hh != nil {
			loopFr, h = f, hh
			break
		}
	}
	if loopFr == nil && itFr != nil && itFr.Fn.Blocks != nil {
		// the iterator is opened here and walked by a helper it is handed to
		// (k.iterateQueuedPools(ctx, KVStorePrefixIterator(…), fun))
		for _, b := range itFr.Fn.Blocks {
			for _, ins := range b.Instrs {
				c, ok := ins.(*ssa.Call)
				if !ok || c.Common().IsInvoke() {
					continue
				}
				g := c.Common().StaticCallee()
				if g == nil || g.Blocks == nil || !isIrismodFunc(g) || onChain(itFr, g) {
					continue
				}
				passes := false
				for _, a := range c.Common().Args {
					if n := namedOf(a.Type()); n != nil && n.Obj().Name() == "Iterator" {
						passes = true
					}
				}
				if hh := iteratorLoopHeader(g); passes && hh != nil && loopFr == nil {
					loopFr, h = &Frame{Fn: g, Parent: itFr, Call: c, Depth: itFr.Depth + 1}, hh
				}
			}
		}
	}
	if loopFr == nil {
		return nil, nil, nil, nil, false
	}
	if !cx.snapshotCollector(loopFr.Fn) || loopFr.Parent == nil || loopFr.Call == nil {
		return loopFr, h, loopFr, h, true
	}
	cv, _ := loopFr.Call.(ssa.Value)
	if idx, _ := cx.snapshotCollectorIdx(loopFr.Fn); cv != nil && loopFr.Fn.Signature.Results().Len() > 1 && cv.Referrers() != nil {
		// (list, table := collect(…)): the list is result #idx of the call
		var ex ssa.Value
		for _, r := range *cv.Referrers() {
			if e, ok := r.(*ssa.Extract); ok && e.Index == idx {
				ex = e
			}
		}
		cv = ex
	}
	ch = rangeLoopOver(cv)
	if ch == nil {
		return loopFr, h, nil, nil, false
	}
	return loopFr, h, loopFr.Parent, ch, true
}

// ---------------------------------------------------------------- range assertions

// unitIntervalProducer: every return of f is new(big.Rat).SetFrac(x mod P, P) with one
// and the same P = 10^k (k a positive constant): a non-nil value in [0,1).
func unitIntervalProducer(f *ssa.Function) bool {
	if f == nil || f.Blocks == nil {
		return false
	}
	rets := returnsOf(f)
	if len(rets) == 0 {
		return false
	}
	for _, ret := range rets {
		if len(ret.Results) != 1 {
			return false
		}
		c, ok := ret.Results[0].(*ssa.Call)
		if !ok {
			return false
		}
		if pkg, name := calleeName(c.Common()); pkg != "math/big" || name != "Rat.SetFrac" {
			return false
		}
		args := c.Common().Args
		num, den := args[1], args[2]
		m, ok := num.(*ssa.Call)
		if !ok {
			return false
		}
		if pkg, name := calleeName(m.Common()); pkg != "math/big" || name != "Int.Mod" || m.Common().Args[2] != den {
			return false
		}
		e, ok := den.(*ssa.Call)
		if !ok {
			return false
		}
		if pkg, name := calleeName(e.Common()); pkg != "math/big" || name != "Int.Exp" {
			return false
		}
		a := e.Common().Args
		if bigConst(a[1]) != "10" || bigConst(a[2]) == "" || strings.HasPrefix(bigConst(a[2]), "-") || bigConst(a[2]) == "0" {
			return false
		}
		if k, ok := a[3].(*ssa.Const); !ok || !k.IsNil() {
			return false
		}
	}
	return true
}

// impliedByUnitInterval: pred(r *big.Rat) bool returns true for every non-nil r in
// [0,1): following the true edge of every branch (each condition being one of the
// atoms r != nil, r.Sign() >= 0, r.Sign() > -1, r.Cmp(1) < 0) reaches a return of
// such an atom or of the constant true.
func impliedByUnitInterval(pred *ssa.Function) bool {
	if pred == nil || pred.Blocks == nil || len(pred.Params) != 1 || pred.Signature.Results().Len() != 1 {
		return false
	}
	p := pred.Params[0]
	isOne := func(v ssa.Value) bool {
		c, ok := v.(*ssa.Call)
		if !ok {
			return false
		}
		if pkg, name := calleeName(c.Common()); pkg != "math/big" || name != "NewRat" {
			return false
		}
		a, ok1 := c.Common().Args[0].(*ssa.Const)
		b, ok2 := c.Common().Args[1].(*ssa.Const)
		return ok1 && ok2 && a.Value != nil && b.Value != nil && a.Value.ExactString() == b.Value.ExactString() && a.Value.ExactString() != "0"
	}
	method := func(v ssa.Value, name string) *ssa.Call {
		c, ok := v.(*ssa.Call)
		if !ok || len(c.Common().Args) == 0 || c.Common().Args[0] != ssa.Value(p) {
			return nil
		}
		if pkg, n := calleeName(c.Common()); pkg != "math/big" || n != name {
			return nil
		}
		return c
	}
	constIs := func(v ssa.Value, s string) bool {
		c, ok := v.(*ssa.Const)
		return ok && c.Value != nil && c.Value.ExactString() == s
	}
	atom := func(v ssa.Value) bool {
		if c, ok := v.(*ssa.Const); ok {
			return c.Value != nil && c.Value.ExactString() == "true"
		}
		b, ok := v.(*ssa.BinOp)
		if !ok {
			return false
		}
		switch {
		case b.Op == token.NEQ && b.X == ssa.Value(p):
			c, ok := b.Y.(*ssa.Const)
			return ok && c.IsNil()
		case b.Op == token.GEQ && method(b.X, "Rat.Sign") != nil && constIs(b.Y, "0"):
			return true
		case b.Op == token.GTR && method(b.X, "Rat.Sign") != nil && constIs(b.Y, "-1"):
			return true
		case b.Op == token.LSS && constIs(b.Y, "0"):
			if c := method(b.X, "Rat.Cmp"); c != nil && isOne(c.Common().Args[1]) {
				return true
			}
		}
		return false
	}
	b := pred.Blocks[0]
	var prev *ssa.BasicBlock
	for steps := 0; steps < 64; steps++ {
		switch last := b.Instrs[len(b.Instrs)-1].(type) {
		case *ssa.If:
			if !atom(last.Cond) {
				return false
			}
			prev, b = b, b.Succs[0]
		case *ssa.Jump:
			prev, b = b, b.Succs[0]
		case *ssa.Return:
			v := last.Results[0]
			if phi, ok := v.(*ssa.Phi); ok && phi.Block() == b && prev != nil {
				for i, pb := range b.Preds {
					if pb == prev {
						v = phi.Edges[i]
					}
				}
			}
			return atom(v)
		default:
			return false
		}
	}
	return false
}

// unitIntervalAssertion: the panic is an assertion that cannot fire: its block is
// entered only when pred(v) is false, v being the direct result of a generator that
// yields [0,1) by construction and pred being implied by membership in [0,1).
func (cx *Ctx) unitIntervalAssertion(pn *ssa.Panic) string {
	b := pn.Block()
	for steps := 0; steps < 8; steps++ {
		if len(b.Preds) != 1 {
			return ""
		}
		p := b.Preds[0]
		ifi, ok := p.Instrs[len(p.Instrs)-1].(*ssa.If)
		if !ok {
			b = p
			continue
		}
		want := p.Succs[1] == b // entered on the false edge: the condition must be pred(v)
		cond := ifi.Cond
		for {
			if u, ok := cond.(*ssa.UnOp); ok && u.Op == token.NOT {
				cond = u.X
				want = !want
				continue
			}
			break
		}
		c, ok := cond.(*ssa.Call)
		if !ok || !want || len(c.Common().Args) != 1 {
			return ""
		}
		pred := c.Common().StaticCallee()
		g, ok := c.Common().Args[0].(*ssa.Call)
		if !ok {
			return ""
		}
		gen := g.Common().StaticCallee()
		if gen == nil && g.Common().IsInvoke() {
			return ""
		}
		if impliedByUnitInterval(pred) && unitIntervalProducer(gen) {
			return "assertion " + shortFn(pred) + " on the result of " + shortFn(gen) + ", which is (x mod P)/P with P = 10^k by construction: every branch of the predicate holds on [0,1)"
		}
		return ""
	}
	return ""
}

// mayReturnNonFalse: a return of fn whose single boolean result is not the constant
// false - looking through φs and through calls to functions (helpers, the method behind
// a bound-method wrapper) that themselves always return false. nil when fn always
// returns false.
func mayReturnNonFalse(fn *ssa.Function, depth int) ssa.Instruction {
	if fn == nil || fn.Blocks == nil || depth > 4 {
		if fn != nil && fn.Blocks != nil {
			return fn.Blocks[0].Instrs[0]
		}
		return nil
	}
	var bad ssa.Instruction
	seen := map[ssa.Value]bool{}
	var isFalse func(v ssa.Value) bool
	isFalse = func(v ssa.Value) bool {
		if seen[v] {
			return true
		}
		seen[v] = true
		switch x := v.(type) {
		case *ssa.Const:
			return x.Value != nil && x.Value.ExactString() == "false"
		case *ssa.Phi:
			for _, e := range x.Edges {
				if !isFalse(e) {
					return false
				}
			}
			return true
		case *ssa.Call:
			g := x.Common().StaticCallee()
			if g == nil || g.Blocks == nil || g.Signature.Results().Len() != 1 {
				return false
			}
			return mayReturnNonFalse(g, depth+1) == nil
		}
		return false
	}
	for _, ret := range returnsOf(fn) {
		if len(ret.Results) != 1 {
			continue
		}
		if !isFalse(ret.Results[0]) && bad == nil {
			bad = ret
		}
	}
	return bad
}

// mayReturnNonFalseFr: the same on a call chain: a result handed on from a function value
// (an adapter `func(…) bool { return op(r) }`) is that of the closure the chain binds to it.
func mayReturnNonFalseFr(fr *Frame, depth int) ssa.Instruction {
	fn := fr.Fn
	if fn == nil || fn.Blocks == nil {
		return nil
	}
	if depth > 5 {
		return fn.Blocks[0].Instrs[0]
	}
	var bad ssa.Instruction
	seen := map[ssa.Value]bool{}
	var isFalse func(v ssa.Value) bool
	isFalse = func(v ssa.Value) bool {
		if seen[v] {
			return true
		}
		seen[v] = true
		switch x := v.(type) {
		case *ssa.Const:
			return x.Value != nil && x.Value.ExactString() == "false"
		case *ssa.Phi:
			for _, e := range x.Edges {
				if !isFalse(e) {
					return false
				}
			}
			return true
		case *ssa.Call:
			if x.Common().IsInvoke() {
				return false
			}
			if g := x.Common().StaticCallee(); g != nil {
				if g.Blocks == nil || g.Signature.Results().Len() != 1 {
					return false
				}
				return mayReturnNonFalseFr(&Frame{Fn: g, Parent: fr, Call: x, Depth: frameDepth(fr) + 1}, depth+1) == nil
			}
			mc, g, creator := resolveClosure(x.Common().Value, fr, 0)
			if g == nil || g.Blocks == nil || g.Signature.Results().Len() != 1 || onChain(fr, g) {
				return false
			}
			return mayReturnNonFalseFr(&Frame{Fn: g, Parent: creator, MC: mc, Call: x, ArgsFr: fr, Depth: frameDepth(fr) + 1}, depth+1) == nil
		}
		return false
	}
	for _, ret := range returnsOf(fn) {
		if len(ret.Results) != 1 {
			continue
		}
		if !isFalse(ret.Results[0]) && bad == nil {
			bad = ret
		}
	}
	return bad
}

// c13DequeueRule: the per-entry dequeue obligations (Q1) for the block-handler work lists
// selected by only (nil: all of them). Shared with C08 (service lists) and C18 (random).
func (cx *Ctx) c13DequeueRule(r *Report, get func(Entry) *c13Walk, only func(q c13Queue) bool) {
	for _, q := range c13Queues {
		if only != nil && !only(q) {
			continue
		}
		var cw *c13Walk
		for _, e := range cx.entriesOfModule(q.mod, "abci") {
			if e.Name == q.entry {
				cw = get(e)
			}
		}
		key := q.mod + "." + q.entry + "|" + q.q
		if cw == nil {
			r.toolErr("no abci entry %s.%s", q.mod, q.entry)
			continue
		}
		var iters, dels, mdels []hev
		for _, x := range cw.evs {
			switch {
			case (x.ev.Kind == "store.iter" || x.ev.Kind == "store.riter") && hasPrefix(x.ev, q.q):
				iters = append(iters, x)
			case x.ev.Kind == "store.delete" && hasPrefix(x.ev, q.q):
				dels = append(dels, x)
			case x.ev.Kind == "store.delete" && q.marker != "" && hasPrefix(x.ev, q.marker):
				mdels = append(mdels, x)
			}
		}
		if len(iters) == 0 {
			r.violate("dequeue", key, "", "the "+q.what+" is no longer iterated by "+q.mod+"."+q.entry+": due entries are never processed")
			continue
		}
		// a delete performed on a branched context that is not committed on every path is
		// not a delete on the paths that drop the branch
		{
			var kept []hev
			for _, d := range dels {
				if at, disc := cx.discardedBranch(d.w, d.ev); disc {
					r.violate("dequeue", key+"|discarded-branch", d.ev.Pos(cx), "the entry of the "+q.what+" is deleted on a branched context (CacheContext at "+at+") whose write function is not called on every path: where the branch is dropped the entry stays queued at a past height (and everything else done on the branch is lost) while the block handler carries on")
					continue
				}
				kept = append(kept, d)
			}
			dels = kept
		}
		// a read-only scan of the queue (a counter, a getter: a function that reaches no
		// mutation and takes no callback) processes nothing; the processing iteration is
		// the one the rule is about, and there must be one
		var proc []hev
		for _, it := range iters {
			// the consumer of the iterator: a helper that hands the iterator out is
			// looked through, its caller does the processing
			cfr := it.ev.Fr
			handsOut := func(f *ssa.Function) bool {
				for i := 0; i < f.Signature.Results().Len(); i++ {
					if strings.Contains(f.Signature.Results().At(i).Type().String(), "Iterator") {
						return true
					}
				}
				return cx.snapshotCollector(f)
			}
			for cfr.Parent != nil && handsOut(cfr.Fn) {
				cfr = cfr.Parent
			}
			f := cfr.Fn
			pure := !handsOut(f)
			for k := range cx.transPrimKinds(f) {
				if isMutatingKind(k) {
					pure = false
				}
			}
			for i := 0; i < f.Signature.Params().Len(); i++ {
				if _, isFn := f.Signature.Params().At(i).Type().Underlying().(*types.Signature); isFn {
					pure = false
				}
			}
			if !pure || f.Parent() != nil || cfr.Parent == nil {
				proc = append(proc, it)
			}
		}
		if len(proc) == 0 {
			r.violate("dequeue", key, "", "the "+q.what+" is only scanned by read-only helpers in "+q.mod+"."+q.entry+": due entries are never processed")
			continue
		}
		iters = proc
		for _, it := range iters {
			pos := it.ev.Pos(cx)
			var pArgs []string
			if len(it.ev.Args) > 1 {
				_, pArgs = callArgsOf(it.ev.Args[1])
			}
			// closure form: the iterating call receives the per-entry body
			var body *Frame
			var bodies []*Frame
			for _, cf := range cw.frames {
				if cf.MC == nil || cf.ViaSite == nil {
					continue
				}
				for f := it.ev.Fr; f != nil; f = f.Parent {
					if f.Call != nil && ssa.Instruction(f.Call) == cf.ViaSite && f.Parent == cf.Via {
						bodies = append(bodies, cf)
					}
				}
			}
			// several closures on the iterating chain: an iterator wrapper hands an adapter
			// closure (`func(id, c) { op(id, &c) }`) to a shared helper. The body is the
			// closure that deletes; every other one must forward to its captured callback
			// on all paths.
			adaptersOK := true
			for _, cf := range bodies {
				has := false
				for _, d := range dels {
					if a, _ := closureAncestor(d.ev); a == cf {
						has = true
					}
				}
				if has || len(bodies) == 1 {
					body = cf
				}
			}
			if body == nil && len(bodies) > 0 {
				body = bodies[len(bodies)-1]
			}
			for _, cf := range bodies {
				if cf != body && !mustPass(cf.Fn, forwardsToCallback) {
					adaptersOK = false
				}
			}
			var mine []hev
			okMust := false
			form := ""
			loopFr, lh, consumer, ch, shapeOK := cx.iterationConsumer(it.ev.Fr)
			snapName, wrongLoop := "", false
			if body != nil {
				form = "closure " + shortFn(body.Fn)
				sites := map[ssa.Instruction]bool{}
				for _, d := range dels {
					cf, s := closureAncestor(d.ev)
					if cf == body {
						mine = append(mine, d)
						if mustBelowSite(d.ev, cf) {
							sites[s] = true
						}
					}
				}
				// every path through the body passes one of the deleting sites
				okMust = adaptersOK && len(sites) > 0 && mustPass(body.Fn, func(x ssa.Instruction) bool { return sites[x] })
			} else {
				// loop form: the handler consumes the iterator itself, or ranges over a
				// snapshot of the bucket taken by a read-only collector
				for L := it.ev.Fr; L != nil && !okMust; L = L.Parent {
					var sites []ssa.Instruction
					var cand []hev
					for _, d := range dels {
						if s := liftTo(d.ev, L); s != nil && inLoop(s.Block()) {
							sites = append(sites, s)
							cand = append(cand, d)
						}
					}
					if len(sites) > 0 {
						form = "loop in " + shortFn(L.Fn)
						mine = cand
						okMust = perIterationMust(sites)
						if shapeOK && consumer != loopFr {
							form = "loop in " + shortFn(L.Fn) + " over the snapshot taken by " + shortFn(loopFr.Fn)
							snapName = callName(loopFr.Call)
						}
						if !shapeOK || L != consumer || loopHeaderOf(sites[0].Block()) != ch {
							okMust = false
							wrongLoop = true
						}
						break
					}
				}
			}
			if len(mine) == 0 {
				r.violate("dequeue", key, pos, "the per-entry body of the "+q.what+" ("+form+") never deletes the entry it processes: the entry stays queued")
				continue
			}
			if wrongLoop {
				r.violate("dequeue", key, mine[0].ev.Pos(cx), "the deletes of the "+q.what+" ("+form+") are not in the loop that walks the queue (or its snapshot): entries are not deleted one per processed entry")
				continue
			}
			if !okMust {
				r.violate("dequeue", key, mine[0].ev.Pos(cx), "the per-entry body of the "+q.what+" ("+form+") has a path that returns without deleting the entry it processes (stale queue entry)")
				continue
			}
			// key agreement
			okKey := true
			why := ""
			for _, d := range mine {
				_, kArgs := callArgsOf(d.ev.Args[0])
				if kArgs == nil {
					okKey, why = false, "key "+d.ev.Args[0].LooseString()+" is not built by a key function"
					continue
				}
				for _, pa := range pArgs {
					if q.idOnly {
						break
					}
					found := false
					for _, ka := range kArgs {
						if ka == pa || strings.HasSuffix(ka, ".EndHeight") || strings.HasSuffix(ka, ".ExpirationHeight") {
							found = true
						}
					}
					if !found {
						okKey, why = false, "the iterator's bound "+pa+" is not part of the deleted key "+d.ev.Args[0].LooseString()
					}
				}
				elem := false
				for i, a := range d.ev.Args[0].Args {
					if contains(pArgs, kArgs[i]) {
						continue
					}
					if body != nil && mentionsParamOf(a, body.Fn) {
						elem = true
					}
					if body == nil && (strings.Contains(kArgs[i], "new:") || strings.Contains(kArgs[i], "Iterator.")) {
						elem = true
					}
					if body == nil && snapName != "" && strings.Contains(kArgs[i], snapName+"(") && strings.Contains(kArgs[i], ")[") {
						elem = true // an element of the snapshot
					}
				}
				if !elem {
					okKey, why = false, "no component of the deleted key "+d.ev.Args[0].LooseString()+" comes from the iterated element"
				}
			}
			if !okKey {
				r.violate("dequeue", key, mine[0].ev.Pos(cx), "the per-entry body of the "+q.what+" deletes under a different key than the entry it processes: "+why)
				continue
			}
			// marker
			if q.marker != "" {
				okM := false
				for _, d := range mine {
					for _, m := range mdels {
						if coExecuted(d.ev, m.ev) {
							okM = true
						}
					}
				}
				if !okM {
					r.violate("dequeue", key, mine[0].ev.Pos(cx), "the entry of the "+q.what+" is deleted without its companion record under "+q.marker)
					continue
				}
			}
			r.ok("dequeue", key, mine[0].ev.Pos(cx), fmt.Sprintf("%s iterated at %s; per-entry body (%s) deletes the processed entry on every path, key height = iterator bound, id from the element%s", q.what, pos, form, map[bool]string{true: "; companion " + q.marker + " deleted with it", false: ""}[q.marker != ""]))
			// the whole bucket is drained: the loop that walks the iterator ends only when the
			// iterator is exhausted. A bucket is looked at in the one block of its height, so
			// entries left behind by a break, an early return or a callback that asks to stop
			// are never processed.
			{
				early, stopProto := "", false
				found := shapeOK
				if shapeOK {
					early, stopProto = cx.loopEarlyExit(loopFr.Fn, lh)
					if consumer != loopFr && early == "" {
						e2, sp2 := cx.loopEarlyExit(consumer.Fn, ch)
						early, stopProto = e2, stopProto || sp2
					}
				}
				if stopProto {
					for _, cf := range bodies {
						if at := mayReturnNonFalseFr(cf, 0); at != nil {
							early = cx.P.Pos(at.Pos()) + " (the per-entry callback can ask the iteration to stop)"
						}
					}
				}
				r.check(found && early == "", "drain-complete", key, pos, "the iteration over the "+q.what+" ends only when the iterator is exhausted", "the iteration over the "+q.what+" can end early ("+early+"): the remaining due entries are never looked at again and stay queued")
			}
		}
	}
}

// recordListIndexRule (C13 abort class, shared with C16): on a block-handler or service
// callback path, a constant index into a list held in a FIELD of a record (binding.Deposit[0],
// htlc.Amount[0]) is taken only under a test of that list's length / emptiness in the same
// function, or where the record's creation guarantees the length (reviewed). A stored
// list can legitimately become empty (a deposit slashed to nothing under an accepted
// slash fraction of 1) and the index then aborts the block handler - the chain halts.
var recordIndexReviewed = map[string]string{
	"htlc|HTLC.Amount": "a cross-chain transfer is created only with exactly one coin (len(amount) == 1 is checked by the creating handler, C03/C04 limit rules)",
}

func (cx *Ctx) recordListIndexRule(r *Report, rule string) int {
	reach := cx.Reachable(cx.entryFns(cx.EntriesOf("abci", "callback")), nil)
	n := 0
	seen := map[string]bool{}
	for _, f := range reach.Order {
		if f.Blocks == nil || !isConsensusCode(cx, f) {
			continue
		}
		for _, b := range f.Blocks {
			for _, ins := range b.Instrs {
				var x, idx ssa.Value
				switch y := ins.(type) {
				case *ssa.IndexAddr:
					x, idx = y.X, y.Index
				case *ssa.Index:
					x, idx = y.X, y.Index
				default:
					continue
				}
				if _, isSlice := x.Type().Underlying().(*types.Slice); !isSlice {
					continue
				}
				c, isConst := idx.(*ssa.Const)
				if !isConst || c.Value == nil {
					continue
				}
				// the list is a field of an irismod record
				var fieldOf string
				v := x
				if u, ok := v.(*ssa.UnOp); ok && u.Op == token.MUL {
					v = u.X
				}
				switch fa := v.(type) {
				case *ssa.FieldAddr:
					if nt := namedOf(fa.X.Type()); nt != nil && nt.Obj().Pkg() != nil && strings.HasPrefix(nt.Obj().Pkg().Path(), modPrefix) {
						fieldOf = nt.Obj().Name() + "." + fieldNameShort(fa.X.Type(), fa.Field)
					}
				case *ssa.Field:
					if nt := namedOf(fa.X.Type()); nt != nil && nt.Obj().Pkg() != nil && strings.HasPrefix(nt.Obj().Pkg().Path(), modPrefix) {
						fieldOf = nt.Obj().Name() + "." + fieldNameShort(fa.X.Type(), fa.Field)
					}
				}
				if fieldOf == "" {
					continue
				}
				// (stored records are declared in the module's types packages; a keeper-internal
				// parameter bundle that carries a copy of such a list is not one)
				var recT types.Type
				switch fa := v.(type) {
				case *ssa.FieldAddr:
					recT = fa.X.Type()
				case *ssa.Field:
					recT = fa.X.Type()
				}
				if nt := namedOf(recT); nt == nil || !strings.Contains(nt.Obj().Pkg().Path()+"/", "/types/") {
					continue
				}
				mod := moduleOf(funcPkgPath(f))
				key := mod + "|" + fieldOf + "|" + anchorOf(cx, f)
				if seen[key] {
					continue
				}
				seen[key] = true
				n++
				pos := cx.P.Pos(ins.Pos())
				guard := ""
				xs := pureExpr(x, 0)
				for _, df := range dominatingFacts(b) {
					cs := pureExpr(df.Cond, 0)
					if xs != "" && cs != "" && strings.Contains(cs, xs) && (strings.Contains(cs, "len(") || strings.Contains(cs, "Empty") || strings.Contains(cs, "IsZero") || strings.Contains(cs, "Len(")) {
						guard = cs
					}
				}
				if guard == "" {
					// len(list) compared in a dominating condition (len is a builtin call, not pure-rendered)
					for _, df := range dominatingFacts(b) {
						if bo, ok := df.Cond.(*ssa.BinOp); ok {
							for _, side := range []ssa.Value{bo.X, bo.Y} {
								if lc, ok := side.(*ssa.Call); ok {
									if bi, isB := lc.Common().Value.(*ssa.Builtin); isB && bi.Name() == "len" && len(lc.Common().Args) == 1 && sameValue(lc.Common().Args[0], x) {
										guard = "len(" + xs + ") " + bo.Op.String() + " …"
									}
								}
							}
						}
					}
				}
				switch {
				case guard != "":
					r.ok(rule, key, pos, "constant index into "+fieldOf+" under the length test "+guard)
				case recordIndexReviewed[mod+"|"+fieldOf] != "":
					r.ok(rule, key, pos, "constant index into "+fieldOf+", reviewed: "+recordIndexReviewed[mod+"|"+fieldOf])
				default:
					r.violate(rule, key, pos, "constant index ["+c.Value.ExactString()+"] into the stored list "+fieldOf+" in "+shortFn(f)+" without a test of its length on a block-handler path ("+reach.Path(f)+"): when the list is empty (a deposit slashed to nothing, a record emptied by an earlier step) the begin/end blocker panics with index out of range and the chain halts")
				}
			}
		}
	}
	r.ok(rule, "scan", "", fmt.Sprintf("%d constant indexes into lists held in record fields on block-handler / callback paths, each under a length test or reviewed", n))
	return n
}

// initOnceValue: for a load of a package-level variable of irismod that is assigned exactly
// once - by its initialiser in the package's init - and whose address is never taken, the
// value it was initialised with (an instruction of the init function); nil otherwise.
func (cx *Ctx) initOnceValue(v ssa.Value) ssa.Value {
	u, ok := v.(*ssa.UnOp)
	if !ok || u.Op != token.MUL {
		return nil
	}
	g, ok := u.X.(*ssa.Global)
	if !ok || g.Pkg == nil || g.Pkg.Pkg == nil || !strings.HasPrefix(g.Pkg.Pkg.Path(), modPrefix) {
		return nil
	}
	if cx.initOnce == nil {
		cx.initOnce = map[*ssa.Global]ssa.Value{}
		bad := map[*ssa.Global]bool{}
		scan := func(f *ssa.Function, isInit bool) {
			for _, b := range f.Blocks {
				for _, ins := range b.Instrs {
					if st, ok := ins.(*ssa.Store); ok {
						if gg, ok := st.Addr.(*ssa.Global); ok {
							if _, dup := cx.initOnce[gg]; dup || !isInit {
								bad[gg] = true
							}
							cx.initOnce[gg] = st.Val
							continue
						}
					}
					for _, op := range ins.Operands(nil) {
						if op == nil || *op == nil {
							continue
						}
						gg, ok := (*op).(*ssa.Global)
						if !ok {
							continue
						}
						if ld, isLoad := ins.(*ssa.UnOp); isLoad && ld.Op == token.MUL {
							continue
						}
						bad[gg] = true // address handed on
					}
				}
			}
		}
		for _, pk := range cx.P.SSAPkgs {
			if pk == nil {
				continue
			}
			if in := pk.Func("init"); in != nil {
				scan(in, true)
			}
		}
		for _, f := range cx.P.AllFuncs {
			if f.Name() != "init" || f.Synthetic == "" {
				scan(f, false)
			}
		}
		for gg := range bad {
			delete(cx.initOnce, gg)
		}
	}
	return cx.initOnce[g]
}

// factDivGuard: the denominator (or the value a zero-preserving conversion makes it from) is
// known positive / non-zero by a fact that holds at the quotient on this call chain - a
// guard made through a predicate function or in a caller.
func factDivGuard(w *Walker, fr *Frame, ins ssa.Instruction, den ssa.Value) string {
	t := w.ts.Of(den, fr)
	cands := []string{t.LooseString()}
	for d := 0; d < 3 && t != nil && t.Op == "call" && len(t.Args) == 1; d++ {
		if !(strings.HasSuffix(t.Name, "NewDecFromInt") || strings.HasSuffix(t.Name, "ToLegacyDec") || strings.HasSuffix(t.Name, "NewDecFromBigInt") || strings.HasSuffix(t.Name, "NewIntFromBigInt") || strings.HasSuffix(t.Name, "Int.BigInt")) {
			break
		}
		t = t.Args[0]
		cands = append(cands, t.LooseString())
	}
	for _, ft := range w.FactsAt(fr, ins) {
		if isOutcomeFact(ft.Text) {
			continue
		}
		for _, c := range cands {
			if c == "" || strings.HasPrefix(c, "new:") {
				continue
			}
			switch {
			case ft.Holds && strings.HasSuffix(ft.Text, ".IsPositive("+c+")"),
				!ft.Holds && strings.HasSuffix(ft.Text, ".IsZero("+c+")"):
				return ft.String()
			}
		}
	}
	return ""
}

// isBlockTimestamp: the value is the generator's BlockTimestamp field, or a parameter that
// every caller fills with it (or that the constructor stores into that very field).
func (cx *Ctx) isBlockTimestamp(v ssa.Value, depth int) bool {
	if depth > 6 {
		return false
	}
	switch x := v.(type) {
	case *ssa.UnOp:
		if f, ok := x.X.(*ssa.FieldAddr); ok && x.Op == token.MUL && fieldNameShort(f.X.Type(), f.Field) == "BlockTimestamp" {
			return true
		}
	case *ssa.Field:
		return fieldNameShort(x.X.Type(), x.Field) == "BlockTimestamp"
	case *ssa.Parameter:
		fn := x.Parent()
		// the constructor: the same parameter is what the field is set to
		if x.Referrers() != nil {
			for _, r := range *x.Referrers() {
				if st, ok := r.(*ssa.Store); ok && st.Val == ssa.Value(x) {
					if fa, ok := st.Addr.(*ssa.FieldAddr); ok && fieldNameShort(fa.X.Type(), fa.Field) == "BlockTimestamp" {
						return true
					}
				}
			}
		}
		idx := -1
		for i, p := range fn.Params {
			if p == x {
				idx = i
			}
		}
		cs := cx.CallersOf(fn)
		if idx < 0 || len(cs) == 0 {
			return false
		}
		for _, c := range cs {
			cc := c.Site.Common()
			if cc.IsInvoke() || cc.StaticCallee() != fn || idx >= len(cc.Args) || !cx.isBlockTimestamp(cc.Args[idx], depth+1) {
				return false
			}
		}
		return true
	}
	return false
}
