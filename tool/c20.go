package main

// C20 — translation validation of the two generated protobuf families against
// each other and against the .proto sources (rule family F6). Purely syntactic:
// descriptor byte literals are extracted from the syntax tree, never by running
// generated code.

import (
	"bytes"
	"compress/gzip"
	"fmt"
	"go/ast"
	"go/parser"
	"go/token"
	"go/types"
	"io"
	"os"
	"path/filepath"
	"reflect"
	"sort"
	"strconv"
	"strings"

	"golang.org/x/tools/go/ssa"
	"google.golang.org/protobuf/encoding/protowire"
	"google.golang.org/protobuf/proto"
	"google.golang.org/protobuf/types/descriptorpb"
)

func init() { register("C20", true, true, "translation_validation", runC20) }

type genFile struct {
	path    string // go file
	fd      *descriptorpb.FileDescriptorProto
	astFile *ast.File
	fset    *token.FileSet
}

func walkGo(root string, suffix string) []string {
	var out []string
	filepath.Walk(root, func(p string, info os.FileInfo, err error) error {
		if err != nil {
			return nil
		}
		if !info.IsDir() && strings.HasSuffix(p, suffix) {
			out = append(out, p)
		}
		return nil
	})
	sort.Strings(out)
	return out
}

// byteLit evaluates a []byte{...} composite literal of integer literals.
func byteLit(e ast.Expr) ([]byte, bool) {
	cl, ok := e.(*ast.CompositeLit)
	if !ok {
		return nil, false
	}
	at, ok := cl.Type.(*ast.ArrayType)
	if !ok {
		return nil, false
	}
	if id, ok := at.Elt.(*ast.Ident); !ok || id.Name != "byte" {
		return nil, false
	}
	out := make([]byte, 0, len(cl.Elts))
	for _, el := range cl.Elts {
		bl, ok := el.(*ast.BasicLit)
		if !ok {
			return nil, false
		}
		n, err := strconv.ParseUint(bl.Value, 0, 8)
		if err != nil {
			return nil, false
		}
		out = append(out, byte(n))
	}
	return out, true
}

func extractDescriptors(files []string, varPrefix, varSuffix string, gz bool) ([]*genFile, []string) {
	var out []*genFile
	var errs []string
	for _, p := range files {
		fset := token.NewFileSet()
		f, err := parser.ParseFile(fset, p, nil, parser.SkipObjectResolution)
		if err != nil {
			errs = append(errs, fmt.Sprintf("%s: parse: %v", p, err))
			continue
		}
		found := false
		for _, d := range f.Decls {
			gd, ok := d.(*ast.GenDecl)
			if !ok || gd.Tok != token.VAR {
				continue
			}
			for _, sp := range gd.Specs {
				vs := sp.(*ast.ValueSpec)
				for i, n := range vs.Names {
					if !strings.HasPrefix(n.Name, varPrefix) || !strings.HasSuffix(n.Name, varSuffix) || i >= len(vs.Values) {
						continue
					}
					raw, ok := byteLit(vs.Values[i])
					if !ok {
						continue
					}
					if gz {
						zr, err := gzip.NewReader(bytes.NewReader(raw))
						if err != nil {
							errs = append(errs, fmt.Sprintf("%s: %s: gzip: %v", p, n.Name, err))
							continue
						}
						raw, err = io.ReadAll(zr)
						if err != nil {
							errs = append(errs, fmt.Sprintf("%s: %s: gunzip: %v", p, n.Name, err))
							continue
						}
					}
					fd := &descriptorpb.FileDescriptorProto{}
					if err := proto.Unmarshal(raw, fd); err != nil {
						errs = append(errs, fmt.Sprintf("%s: %s: descriptor does not decode: %v", p, n.Name, err))
						continue
					}
					out = append(out, &genFile{path: p, fd: fd, astFile: f, fset: fset})
					found = true
				}
			}
		}
		if !found {
			errs = append(errs, fmt.Sprintf("%s: no embedded file descriptor literal found", p))
		}
	}
	return out, errs
}

// canonOptions renders an options message as sorted (number, wiretype, value) triples
// so that known and unknown (extension) fields compare independent of order.
func canonOptions(m proto.Message) string {
	if m == nil || reflect.ValueOf(m).IsNil() {
		return ""
	}
	b, err := proto.MarshalOptions{Deterministic: true}.Marshal(m)
	if err != nil {
		return "ERR:" + err.Error()
	}
	type ent struct {
		num protowire.Number
		s   string
	}
	var ents []ent
	for len(b) > 0 {
		num, typ, n := protowire.ConsumeTag(b)
		if n < 0 {
			return fmt.Sprintf("ERR:bad tag %x", b)
		}
		b = b[n:]
		m := protowire.ConsumeFieldValue(num, typ, b)
		if m < 0 {
			return "ERR:bad value"
		}
		val := b[:m]
		b = b[m:]
		s := fmt.Sprintf("%d/%d=%x", num, typ, val)
		if typ == protowire.BytesType {
			bs, _ := protowire.ConsumeBytes(val)
			printable := true
			for _, c := range bs {
				if c < 0x20 || c > 0x7e {
					printable = false
				}
			}
			if printable {
				s = fmt.Sprintf("%d=%q", num, string(bs))
			}
		} else if typ == protowire.VarintType {
			v, _ := protowire.ConsumeVarint(val)
			s = fmt.Sprintf("%d=%d", num, v)
		}
		ents = append(ents, ent{num, s})
	}
	sort.SliceStable(ents, func(i, j int) bool { return ents[i].num < ents[j].num })
	var parts []string
	for _, e := range ents {
		parts = append(parts, e.s)
	}
	return strings.Join(parts, ",")
}

// flatten a descriptor into "element full name" -> canonical one-line description.
func flattenFD(fd *descriptorpb.FileDescriptorProto) map[string]string {
	out := map[string]string{}
	pkg := fd.GetPackage()
	out["file:syntax"] = fd.GetSyntax()
	out["file:package"] = pkg
	deps := append([]string{}, fd.GetDependency()...)
	sort.Strings(deps)
	out["file:deps"] = strings.Join(deps, ",")
	var msg func(prefix string, m *descriptorpb.DescriptorProto)
	enum := func(prefix string, e *descriptorpb.EnumDescriptorProto) {
		name := prefix + "." + e.GetName()
		out["enum:"+name] = "opts{" + canonOptions(e.GetOptions()) + "}"
		for _, v := range e.GetValue() {
			out["enumvalue:"+name+"."+v.GetName()] = fmt.Sprintf("number=%d opts{%s}", v.GetNumber(), canonOptions(v.GetOptions()))
		}
	}
	msg = func(prefix string, m *descriptorpb.DescriptorProto) {
		name := prefix + "." + m.GetName()
		var oneofs []string
		for _, o := range m.GetOneofDecl() {
			oneofs = append(oneofs, o.GetName())
		}
		out["message:"+name] = fmt.Sprintf("opts{%s} oneofs[%s] nfields=%d", canonOptions(m.GetOptions()), strings.Join(oneofs, ","), len(m.GetField()))
		for _, f := range m.GetField() {
			oneof := ""
			if f.OneofIndex != nil {
				oneof = fmt.Sprintf(" oneof=%d", f.GetOneofIndex())
			}
			out["field:"+name+"."+f.GetName()] = fmt.Sprintf("number=%d label=%s type=%s typename=%s json=%s%s proto3opt=%v default=%q opts{%s}",
				f.GetNumber(), f.GetLabel(), f.GetType(), f.GetTypeName(), f.GetJsonName(), oneof, f.GetProto3Optional(), f.GetDefaultValue(), canonOptions(f.GetOptions()))
		}
		for _, n := range m.GetNestedType() {
			msg(name, n)
		}
		for _, e := range m.GetEnumType() {
			enum(name, e)
		}
	}
	for _, m := range fd.GetMessageType() {
		msg(pkg, m)
	}
	for _, e := range fd.GetEnumType() {
		enum(pkg, e)
	}
	for _, s := range fd.GetService() {
		name := pkg + "." + s.GetName()
		out["service:"+name] = "opts{" + canonOptions(s.GetOptions()) + "}"
		for _, m := range s.GetMethod() {
			out["rpc:"+name+"."+m.GetName()] = fmt.Sprintf("in=%s out=%s cs=%v ss=%v opts{%s}", m.GetInputType(), m.GetOutputType(), m.GetClientStreaming(), m.GetServerStreaming(), canonOptions(m.GetOptions()))
		}
	}
	return out
}

func runC20(cx *Ctx, r *Report) {
	r.Explanation = "F6 translation validation: (1) the gzipped file descriptors embedded in modules/**/*.pb.go and the raw descriptors embedded in api/**/*.pulsar.go are extracted from the Go syntax tree, decoded with descriptorpb and compared element by element (messages, fields: number/label/type/type name/json name/oneof/options; enums and values; services, rpcs and their options; file-level options excluded); (2) a proto3 skeleton parser over proto/irismod/**/*.proto must agree with both descriptor sets; (3) every rpc input of a service carrying cosmos.msg.v1.service is an argument of RegisterImplementations((*sdk.Msg)(nil), …) in the package that holds its gogoproto code, RegisterMsgServiceDesc is called there, and its cosmos.msg.v1.signer option names an existing string field carrying the cosmos.AddressString scalar (through a nested message's own signer where the field is a message); (4) gogoproto struct tags, Marshal key bytes, Unmarshal case labels and the pulsar fast-reflection field names agree with the descriptor; (5) every gogoproto decoder allocates a nullable nested message whenever it is nil, after the rejecting length checks and under no other condition, so a present-but-empty nested message written by the other family does not decode as absent. Decides descriptor and wiring agreement for every element; byte-level round trips follow only under the assumption that both runtimes implement the protobuf wire format for a given descriptor."
	r.Assumptions = []string{"descriptorpb decodes FileDescriptorProto correctly", "the golang/protobuf and gogoproto runtimes encode a message as its descriptor says", "file-level options (go_package and gogoproto *_all switches) are code-generator options and are excluded, as the property states"}
	repo := cx.Repo
	gogoFiles := []string{}
	for _, p := range walkGo(filepath.Join(repo, "modules"), ".pb.go") {
		if strings.HasSuffix(p, "_grpc.pb.go") {
			continue
		}
		gogoFiles = append(gogoFiles, p)
	}
	apiFiles := walkGo(filepath.Join(repo, "api"), ".pulsar.go")
	gogo, e1 := extractDescriptors(gogoFiles, "fileDescriptor_", "", true)
	api, e2 := extractDescriptors(apiFiles, "file_", "_rawDesc", false)
	for _, e := range append(e1, e2...) {
		r.toolErr("%s", e)
	}
	gm := map[string]*genFile{}
	am := map[string]*genFile{}
	for _, g := range gogo {
		gm[g.fd.GetName()] = g
	}
	for _, a := range api {
		am[a.fd.GetName()] = a
	}
	rel := func(p string) string { return strings.TrimPrefix(p, repo+"/") }
	names := map[string]bool{}
	for n := range gm {
		names[n] = true
	}
	for n := range am {
		names[n] = true
	}
	var sorted []string
	for n := range names {
		sorted = append(sorted, n)
	}
	sort.Strings(sorted)
	programs := 0
	elements := 0
	for _, n := range sorted {
		g, a := gm[n], am[n]
		if g == nil {
			if strings.HasSuffix(n, "/module/v1/module.proto") {
				r.ok("desc-pair", n, rel(a.path), "api-only app-wiring module config (no gogoproto twin by design)")
				continue
			}
			r.violate("desc-pair", n, rel(a.path), "descriptor exists only in the api family")
			continue
		}
		if a == nil {
			r.violate("desc-pair", n, rel(g.path), "descriptor exists only in the modules family")
			continue
		}
		programs++
		fg, fa := flattenFD(g.fd), flattenFD(a.fd)
		keys := map[string]bool{}
		for k := range fg {
			keys[k] = true
		}
		for k := range fa {
			keys[k] = true
		}
		var ks []string
		for k := range keys {
			ks = append(ks, k)
		}
		sort.Strings(ks)
		bad := 0
		for _, k := range ks {
			elements++
			vg, okg := fg[k]
			va, oka := fa[k]
			switch {
			case !okg:
				r.violate("desc-equal", n+"|"+k, rel(a.path), "element present only in api descriptor: "+va)
				bad++
			case !oka:
				r.violate("desc-equal", n+"|"+k, rel(g.path), "element present only in modules descriptor: "+vg)
				bad++
			case vg != va:
				r.violate("desc-equal", n+"|"+k, rel(g.path), fmt.Sprintf("families disagree: modules{%s} api{%s}", vg, va))
				bad++
			}
		}
		if bad == 0 {
			r.ok("desc-equal", n, rel(g.path), fmt.Sprintf("%d elements equal in %s and %s", len(ks), rel(g.path), rel(a.path)))
		}
	}
	r.Extra["programs"] = programs
	r.Extra["elements_compared"] = elements
	if programs < 45 {
		r.toolErr("only %d descriptor pairs found (45 confirmed by hand)", programs)
	}

	// (2) .proto skeletons
	protoFiles := walkGo(filepath.Join(repo, "proto", "irismod"), ".proto")
	nproto := 0
	msgServices := map[string]*protoService{} // full name -> service
	allMsgs := map[string]*protoMessage{}
	for _, pf := range protoFiles {
		src, err := os.ReadFile(pf)
		if err != nil {
			r.toolErr("%s: %v", pf, err)
			continue
		}
		pp, err := parseProto(string(src))
		if err != nil {
			r.toolErr("%s: proto parse: %v", rel(pf), err)
			continue
		}
		nproto++
		name := strings.TrimPrefix(pf, filepath.Join(repo, "proto")+"/")
		for _, m := range pp.allMessages() {
			allMsgs[m.full] = m
		}
		for _, s := range pp.services {
			if s.msgService {
				msgServices[pp.pkg+"."+s.name] = s
			}
		}
		for _, side := range []struct {
			tag string
			m   map[string]*genFile
		}{{"modules", gm}, {"api", am}} {
			g := side.m[name]
			if g == nil {
				if side.tag == "modules" && strings.HasSuffix(name, "/module/v1/module.proto") {
					continue
				}
				r.violate("proto-has-desc", side.tag+"|"+name, rel(pf), "no generated descriptor in family "+side.tag+" for this .proto")
				continue
			}
			diffs := compareProtoToDesc(pp, g.fd)
			if len(diffs) == 0 {
				r.ok("proto-agrees", side.tag+"|"+name, rel(pf), "skeleton (messages, fields, enums, services, signer options) equals the embedded descriptor in "+rel(g.path))
			}
			for _, d := range diffs {
				r.violate("proto-agrees", side.tag+"|"+name+"|"+d.key, rel(pf), d.msg+" (generated: "+rel(g.path)+")")
			}
		}
	}
	for n, g := range gm {
		if _, err := os.Stat(filepath.Join(repo, "proto", n)); err != nil {
			r.violate("desc-has-proto", n, rel(g.path), "generated descriptor has no .proto source under proto/")
		}
	}
	r.Extra["proto_files"] = nproto
	if nproto < 55 {
		r.toolErr("only %d .proto files parsed (55 confirmed)", nproto)
	}

	// (3) Msg services: registration and signer
	c20Registration(cx, r, gm, msgServices, allMsgs)
	// (4) generated-code conformance
	c20GoGoConformance(cx, r, gogo)
	c20PulsarConformance(cx, r, api)
	c20PresenceTests(cx, r, api, "presence-test")
	c20PresenceTests(cx, r, gogo, "presence-test")
	c20ApiGrpc(cx, r, api)
	cx.gogoNestedAlloc(r)
	r.requireCount("desc-equal", 45)
	r.requireCount("msg-registered", 60)
	r.requireCount("signer", 60)
	r.requireCount("signer-legacy-agrees", 60)
	r.requireCount("gogo-tags", 200)
	r.requireCount("gogo-nested-alloc", 40)
}

// ------------------------------------------------------------------ registration

func c20Registration(cx *Ctx, r *Report, gm map[string]*genFile, svcs map[string]*protoService, msgs map[string]*protoMessage) {
	var legacy map[string]map[string][]string
	repo := cx.Repo
	rel := func(p string) string { return strings.TrimPrefix(p, repo+"/") }
	// index: go package dir -> registered msg type names, RegisterMsgServiceDesc args
	type pkgReg struct {
		impls    map[string]bool
		svcDescs map[string]bool
		resps    map[string]bool // registered as tx.MsgResponse implementations
	}
	regs := map[string]*pkgReg{}
	scan := func(dir string) *pkgReg {
		if pr, ok := regs[dir]; ok {
			return pr
		}
		pr := &pkgReg{impls: map[string]bool{}, svcDescs: map[string]bool{}, resps: map[string]bool{}}
		regs[dir] = pr
		ents, _ := os.ReadDir(dir)
		for _, e := range ents {
			if e.IsDir() || !strings.HasSuffix(e.Name(), ".go") || strings.HasSuffix(e.Name(), "_test.go") || isGeneratedFile(e.Name()) {
				continue
			}
			fset := token.NewFileSet()
			f, err := parser.ParseFile(fset, filepath.Join(dir, e.Name()), nil, parser.SkipObjectResolution)
			if err != nil {
				continue
			}
			ast.Inspect(f, func(n ast.Node) bool {
				call, ok := n.(*ast.CallExpr)
				if !ok {
					return true
				}
				sel, ok := call.Fun.(*ast.SelectorExpr)
				if !ok {
					return true
				}
				switch sel.Sel.Name {
				case "RegisterImplementations":
					if len(call.Args) < 2 {
						return true
					}
					// first arg must be (*sdk.Msg)(nil)
					first := exprString(call.Args[0])
					if !strings.Contains(first, "Msg)(nil)") {
						return true
					}
					for _, a := range call.Args[1:] {
						if u, ok := a.(*ast.UnaryExpr); ok && u.Op == token.AND {
							if cl, ok := u.X.(*ast.CompositeLit); ok {
								pr.impls[exprString(cl.Type)] = true
							}
						}
					}
				case "RegisterMsgServiceDesc":
					if len(call.Args) == 2 {
						pr.svcDescs[exprString(call.Args[1])] = true
					}
				}
				return true
			})
		}
		// the same through the type-checked program, whatever the spelling: the interface
		// pointer or the descriptor may sit in a local, the calls in a helper
		ssaRegistrations(cx, modPrefix+rel(dir), pr.impls, pr.svcDescs, pr.resps)
		return pr
	}
	var names []string
	for n := range svcs {
		names = append(names, n)
	}
	sort.Strings(names)
	for _, sn := range names {
		s := svcs[sn]
		// which generated file holds it
		var holder *genFile
		for _, g := range gm {
			if g.fd.GetPackage()+"."+s.name == sn {
				for _, sv := range g.fd.GetService() {
					if sv.GetName() == s.name {
						holder = g
					}
				}
			}
		}
		if holder == nil {
			r.violate("msg-service-generated", sn, "", "Msg service has no generated gogoproto descriptor")
			continue
		}
		dir := filepath.Dir(holder.path)
		pr := scan(dir)
		wantDesc := "&_" + s.name + "_serviceDesc"
		pkgOf := sn[:strings.LastIndex(sn, ".")]
		// RegisterMsgServiceDesc registers the requests as sdk.Msg and the responses as
		// tx.MsgResponse; doing both by hand for every rpc of the service is the same thing
		byHand := len(s.rpcs) > 0
		for _, rpc := range s.rpcs {
			in, out := rpc.in, rpc.out
			if i := strings.LastIndex(in, "."); i >= 0 {
				in = in[i+1:]
			}
			if i := strings.LastIndex(out, "."); i >= 0 {
				out = out[i+1:]
			}
			if !pr.impls[in] || !pr.resps[out] {
				byHand = false
			}
		}
		if byHand && !pr.svcDescs[wantDesc] {
			r.ok("msg-service-desc", sn, rel(dir), "every request of the service is registered as sdk.Msg and every response as tx.MsgResponse explicitly (what RegisterMsgServiceDesc does)")
		} else {
			r.check(pr.svcDescs[wantDesc], "msg-service-desc", sn, rel(dir), "RegisterMsgServiceDesc(registry, "+wantDesc+") is called in the package", "RegisterMsgServiceDesc is not called for "+wantDesc+" in "+rel(dir))
		}
		for _, rpc := range s.rpcs {
			in := rpc.in
			full := in
			if !strings.Contains(in, ".") {
				full = pkgOf + "." + in
			}
			short := full[strings.LastIndex(full, ".")+1:]
			// RegisterMsgServiceDesc registers every request type of the service it is
			// given (resolved through the embedded file descriptor named by Metadata),
			// so a message is registered when it is listed explicitly or when its
			// service descriptor is registered and names this rpc.
			viaDesc := pr.svcDescs[wantDesc] && descHasRPC(holder, s.name, rpc.name, short)
			how := "explicitly in RegisterImplementations((*sdk.Msg)(nil), …)"
			if !pr.impls[short] {
				how = "through RegisterMsgServiceDesc (request type of rpc " + rpc.name + " in the registered service descriptor)"
			}
			r.check(pr.impls[short] || viaDesc, "msg-registered", sn+"."+rpc.name+"|"+short, rel(dir), short+" is registered as an sdk.Msg implementation "+how, "rpc input "+short+" is neither passed to RegisterImplementations((*sdk.Msg)(nil), …) nor covered by a RegisterMsgServiceDesc call in "+rel(dir))
			m := msgs[full]
			if m == nil {
				r.violate("signer", full, "", "rpc input message not found in .proto sources")
				continue
			}
			ok, why := signerOK(m, msgs, 0)
			r.check(ok, "signer", full, "proto/"+strings.ReplaceAll(pkgOf, ".", "/"), "cosmos.msg.v1.signer "+why, "signer option problem: "+why)
			// the declared signer is the account the hand-written legacy GetSigners() returns:
			// an option naming another string field (a recipient, an EVM address) still "exists"
			// but makes descriptor-based signer resolution disagree with the module's own
			if legacy == nil {
				legacy = map[string]map[string][]string{}
			}
			if legacy[dir] == nil {
				legacy[dir] = legacySignerFields(dir)
			}
			if got, has := legacy[dir][short]; has {
				var want []string
				for _, sname := range m.signers {
					want = append(want, goCamel(sname))
				}
				sort.Strings(want)
				same := len(got) == len(want)
				for i := range got {
					if same && got[i] != want[i] {
						same = false
					}
				}
				r.check(same, "signer-legacy-agrees", full, rel(dir), "the signer option names the field(s) that GetSigners() reads ("+strings.Join(got, ", ")+")", fmt.Sprintf("cosmos.msg.v1.signer of %s names %v but the module's GetSigners() derives the signer from %v: the two ways of finding the signer of this message disagree", full, want, got))
			}
		}
	}
}

// legacySignerFields: for every type with a hand-written GetSigners method in
// dir, the receiver fields (first level) the method reads.
func legacySignerFields(dir string) map[string][]string {
	out := map[string][]string{}
	fset := token.NewFileSet()
	ents, _ := os.ReadDir(dir)
	type meth struct {
		recv string
		body *ast.BlockStmt
	}
	methods := map[string]map[string]meth{} // type -> method -> body (hand-written files only)
	for _, e := range ents {
		n := e.Name()
		if e.IsDir() || !strings.HasSuffix(n, ".go") || strings.HasSuffix(n, "_test.go") || strings.HasSuffix(n, ".pb.go") || strings.HasSuffix(n, ".pb.gw.go") {
			continue
		}
		f, err := parser.ParseFile(fset, filepath.Join(dir, n), nil, 0)
		if err != nil {
			continue
		}
		for _, d := range f.Decls {
			fd, ok := d.(*ast.FuncDecl)
			if !ok || fd.Recv == nil || len(fd.Recv.List) != 1 || fd.Body == nil || len(fd.Recv.List[0].Names) != 1 {
				continue
			}
			var tname string
			switch t := fd.Recv.List[0].Type.(type) {
			case *ast.StarExpr:
				if id, ok := t.X.(*ast.Ident); ok {
					tname = id.Name
				}
			case *ast.Ident:
				tname = t.Name
			}
			if tname == "" {
				continue
			}
			if methods[tname] == nil {
				methods[tname] = map[string]meth{}
			}
			methods[tname][fd.Name.Name] = meth{fd.Recv.List[0].Names[0].Name, fd.Body}
		}
	}
	// fields of the receiver a method reads, through the type's own hand-written helper
	// methods (msg.ConsumerAddress() reads msg.Consumer) and generated getters (GetX -> X)
	var fieldsOf func(tname, mname string, depth int, set map[string]bool)
	fieldsOf = func(tname, mname string, depth int, set map[string]bool) {
		m, ok := methods[tname][mname]
		if !ok || depth > 4 {
			return
		}
		ast.Inspect(m.body, func(nd ast.Node) bool {
			se, ok := nd.(*ast.SelectorExpr)
			if !ok {
				return true
			}
			id, ok := se.X.(*ast.Ident)
			if !ok || id.Name != m.recv {
				return true
			}
			if _, isMeth := methods[tname][se.Sel.Name]; isMeth && se.Sel.Name != mname {
				fieldsOf(tname, se.Sel.Name, depth+1, set)
				return true
			}
			name := se.Sel.Name
			if strings.HasPrefix(name, "Get") && len(name) > 3 {
				name = name[3:] // generated getter
			}
			set[name] = true
			return true
		})
	}
	for tname, ms := range methods {
		if _, ok := ms["GetSigners"]; !ok {
			continue
		}
		set := map[string]bool{}
		fieldsOf(tname, "GetSigners", 0, set)
		var fs []string
		for k := range set {
			fs = append(fs, k)
		}
		sort.Strings(fs)
		out[tname] = fs
	}
	return out
}

// descHasRPC: the embedded descriptor of holder has service svc with rpc whose
// input type's short name is in, and the Go _<svc>_serviceDesc literal names the
// same file in Metadata (that is how RegisterMsgServiceDesc finds the descriptor).
func descHasRPC(holder *genFile, svc, rpc, in string) bool {
	found := false
	for _, s := range holder.fd.GetService() {
		if s.GetName() != svc {
			continue
		}
		for _, m := range s.GetMethod() {
			if m.GetName() == rpc && strings.HasSuffix(m.GetInputType(), "."+in) {
				found = true
			}
		}
	}
	if !found {
		return false
	}
	meta := ""
	ast.Inspect(holder.astFile, func(n ast.Node) bool {
		vs, ok := n.(*ast.ValueSpec)
		if !ok {
			return true
		}
		for i, nm := range vs.Names {
			if nm.Name == "_"+svc+"_serviceDesc" && i < len(vs.Values) {
				ast.Inspect(vs.Values[i], func(n2 ast.Node) bool {
					if kv, ok := n2.(*ast.KeyValueExpr); ok {
						if k, ok := kv.Key.(*ast.Ident); ok && k.Name == "Metadata" {
							if bl, ok := kv.Value.(*ast.BasicLit); ok {
								meta, _ = strconv.Unquote(bl.Value)
							}
						}
					}
					return true
				})
			}
		}
		return true
	})
	return meta == holder.fd.GetName()
}

func signerOK(m *protoMessage, msgs map[string]*protoMessage, depth int) (bool, string) {
	if len(m.signers) == 0 {
		return false, "message " + m.full + " declares no cosmos.msg.v1.signer"
	}
	if depth > 3 {
		return false, "signer nesting too deep"
	}
	var facts []string
	for _, sname := range m.signers {
		var fld *protoField
		for _, f := range m.fields {
			if f.name == sname {
				fld = f
			}
		}
		if fld == nil {
			return false, fmt.Sprintf("names field %q which does not exist in %s", sname, m.full)
		}
		if fld.typ == "string" {
			if fld.repeated {
				facts = append(facts, fmt.Sprintf("%q is a repeated string field", sname))
				continue
			}
			if strings.Contains(fld.opts, "cosmos.AddressString") {
				facts = append(facts, fmt.Sprintf("%q is an existing string field annotated cosmos.AddressString", sname))
			} else {
				facts = append(facts, fmt.Sprintf("%q is an existing singular string field (no scalar annotation)", sname))
			}
			continue
		}
		// message-typed: nested signer
		var nested *protoMessage
		cands := []string{fld.typ, m.pkg + "." + fld.typ, m.full + "." + fld.typ}
		for _, c := range cands {
			if mm := msgs[strings.TrimPrefix(c, ".")]; mm != nil {
				nested = mm
				break
			}
		}
		if nested == nil {
			return false, fmt.Sprintf("field %q of %s has type %s which is neither string nor a known message", sname, m.full, fld.typ)
		}
		ok, why := signerOK(nested, msgs, depth+1)
		if !ok {
			return false, fmt.Sprintf("field %q → %s: %s", sname, nested.full, why)
		}
		facts = append(facts, fmt.Sprintf("%q → %s whose own signer %s", sname, nested.full, why))
	}
	return true, strings.Join(facts, "; ")
}

func exprString(e ast.Expr) string {
	switch x := e.(type) {
	case *ast.Ident:
		return x.Name
	case *ast.SelectorExpr:
		return exprString(x.X) + "." + x.Sel.Name
	case *ast.StarExpr:
		return "*" + exprString(x.X)
	case *ast.ParenExpr:
		return "(" + exprString(x.X) + ")"
	case *ast.UnaryExpr:
		return x.Op.String() + exprString(x.X)
	case *ast.CallExpr:
		var as []string
		for _, a := range x.Args {
			as = append(as, exprString(a))
		}
		return exprString(x.Fun) + "(" + strings.Join(as, ",") + ")"
	case *ast.BasicLit:
		return x.Value
	case *ast.CompositeLit:
		return exprString(x.Type) + "{}"
	case *ast.IndexExpr:
		return exprString(x.X) + "[" + exprString(x.Index) + "]"
	case *ast.ArrayType:
		return "[]" + exprString(x.Elt)
	case *ast.BinaryExpr:
		return exprString(x.X) + x.Op.String() + exprString(x.Y)
	}
	return fmt.Sprintf("%T", e)
}

// ssaRegistrations: in the functions of package path, the types handed to
// InterfaceRegistry.RegisterImplementations with a *sdk.Msg first argument, and the
// globals handed to msgservice.RegisterMsgServiceDesc.
func ssaRegistrations(cx *Ctx, path string, impls, descs, resps map[string]bool) {
	peel := func(v ssa.Value) ssa.Value {
		for {
			switch x := v.(type) {
			case *ssa.MakeInterface:
				v = x.X
			case *ssa.ChangeType:
				v = x.X
			case *ssa.ChangeInterface:
				v = x.X
			default:
				return v
			}
		}
	}
	for _, f := range cx.P.AllFuncs {
		if f.Blocks == nil || funcPkgPath(f) != path {
			continue
		}
		for _, b := range f.Blocks {
			for _, ins := range b.Instrs {
				ci, ok := ins.(ssa.CallInstruction)
				if !ok {
					continue
				}
				c := ci.Common()
				_, name := calleeName(c)
				switch {
				case strings.HasSuffix(name, "RegisterImplementations") && len(c.Args) >= 2:
					first := peel(c.Args[0])
					if os.Getenv("DEBUG_C20") != "" {
						fmt.Fprintf(os.Stderr, "RegisterImplementations in %s first=%s (%T)\n", f, first.Type(), first)
					}
					// the interface is chosen per row of a package-level table the call's loop
					// walks (registry.RegisterImplementations(t.iface(), t.msg)): row by row
					if _, isConst := first.(*ssa.Const); !isConst {
						perRow := evalCallPerRow(ci)
						if os.Getenv("DEBUG_C20") != "" {
							fmt.Fprintf(os.Stderr, "per-row evaluation in %s: table=%v rows=%d\n", f, loopTableOf(ci), len(perRow))
							for _, vals := range perRow {
								for _, v := range vals {
									fmt.Fprintf(os.Stderr, "   %s:%v", v.kind, v.typ)
								}
								fmt.Fprintln(os.Stderr)
							}
						}
						if perRow != nil {
							for _, vals := range perRow {
								if len(vals) < 2 || vals[0].kind != "iface" && vals[0].kind != "nilptr" {
									continue
								}
								rpt, isPtr := vals[0].typ.(*types.Pointer)
								if !isPtr {
									continue
								}
								isM, isR := ifaceKind(rpt)
								for _, e := range vals[1:] {
									if e.kind != "iface" {
										continue
									}
									tn := namedOf(e.typ)
									if tn == nil {
										continue
									}
									if isM {
										impls[tn.Obj().Name()] = true
									} else if isR {
										resps[tn.Obj().Name()] = true
									}
								}
							}
							continue
						}
					}
					pt, isPtr := first.Type().(*types.Pointer)
					if !isPtr {
						continue
					}
					// sdk.Msg (an alias of the gogoproto Message interface in this SDK)
					isMsg := false
					for _, t := range []types.Type{pt.Elem(), types.Unalias(pt.Elem())} {
						var obj *types.TypeName
						switch tt := t.(type) {
						case *types.Alias:
							obj = tt.Obj()
						case *types.Named:
							obj = tt.Obj()
						}
						if obj == nil || obj.Pkg() == nil {
							continue
						}
						if obj.Name() == "Msg" && obj.Pkg().Path() == "github.com/cosmos/cosmos-sdk/types" || obj.Name() == "Message" && obj.Pkg().Path() == "github.com/cosmos/gogoproto/proto" {
							isMsg = true
						}
					}
					// (with transparent aliases sdk.Msg is the bare interface {ProtoMessage(); Reset(); String() string})
					if it, ok := pt.Elem().Underlying().(*types.Interface); ok && !isMsg && namedOf(pt.Elem()) == nil && it.NumMethods() == 3 {
						names := map[string]bool{}
						for i := 0; i < it.NumMethods(); i++ {
							names[it.Method(i).Name()] = true
						}
						isMsg = names["ProtoMessage"] && names["Reset"] && names["String"]
					}
					if !isMsg {
						// the responses, registered by hand under tx.MsgResponse
						if nt := namedOf(pt.Elem()); nt != nil && nt.Obj().Name() == "MsgResponse" && nt.Obj().Pkg() != nil && strings.HasSuffix(nt.Obj().Pkg().Path(), "/types/tx") {
							for _, e := range variadicElems(c.Args[len(c.Args)-1]) {
								if e != nil {
									if tn := namedOf(peel(e).Type()); tn != nil {
										resps[tn.Obj().Name()] = true
									}
								}
							}
							for _, name := range tableColumnTypes(cx, c.Args[len(c.Args)-1]) {
								resps[name] = true
							}
						}
						continue
					}
					els := variadicElems(c.Args[len(c.Args)-1])
					for _, e := range els {
						if e == nil {
							continue
						}
						if tn := namedOf(peel(e).Type()); tn != nil {
							impls[tn.Obj().Name()] = true
						}
					}
					if len(els) == 0 {
						// a list built from one column of a package-level table
						// (for _, t := range msgTypes { reqs = append(reqs, t.req) })
						for _, name := range tableColumnTypes(cx, c.Args[len(c.Args)-1]) {
							impls[name] = true
						}
					}
				case strings.HasSuffix(name, "RegisterMsgServiceDesc") && len(c.Args) == 2:
					v := peel(c.Args[1])
					if g, isG := v.(*ssa.Global); isG {
						descs["&"+g.Name()] = true
					}
				}
			}
		}
	}
}

// tableColumnTypes: the slice is filled by appending field f of the entries of a
// package-level table (a slice literal assigned once in the package initialiser): the
// concrete types stored in that column.
func tableColumnTypes(cx *Ctx, v ssa.Value) []string {
	peel := func(v ssa.Value) ssa.Value {
		for {
			switch x := v.(type) {
			case *ssa.MakeInterface:
				v = x.X
			case *ssa.ChangeType:
				v = x.X
			case *ssa.ChangeInterface:
				v = x.X
			default:
				return v
			}
		}
	}
	type col struct {
		g *ssa.Global
		f int
	}
	cols := map[col]bool{}
	other := false
	seen := map[ssa.Value]bool{}
	var elem func(e ssa.Value)
	elem = func(e ssa.Value) {
		e = peel(e)
		var base ssa.Value
		field := -1
		switch x := e.(type) {
		case *ssa.UnOp:
			if fa, ok := x.X.(*ssa.FieldAddr); ok && x.Op == token.MUL {
				base, field = fa.X, fa.Field
			}
		case *ssa.Field:
			base, field = x.X, x.Field
		}
		if field < 0 {
			other = true
			return
		}
		// the entry: a local copy of table[i], or table[i] itself
		for d := 0; d < 4; d++ {
			switch y := base.(type) {
			case *ssa.Alloc:
				var st *ssa.Store
				if y.Referrers() != nil {
					for _, r := range *y.Referrers() {
						if s2, ok := r.(*ssa.Store); ok && s2.Addr == ssa.Value(y) {
							st = s2
						}
					}
				}
				if st == nil {
					other = true
					return
				}
				base = st.Val
				continue
			case *ssa.UnOp:
				base = y.X
				continue
			case *ssa.IndexAddr:
				base = y.X
				continue
			case *ssa.Index:
				base = y.X
				continue
			}
			break
		}
		if g, ok := base.(*ssa.Global); ok {
			cols[col{g, field}] = true
			return
		}
		other = true
	}
	var visit func(v ssa.Value, d int)
	visit = func(v ssa.Value, d int) {
		if v == nil || seen[v] || d > 12 {
			return
		}
		seen[v] = true
		switch x := v.(type) {
		case *ssa.Phi:
			for _, e := range x.Edges {
				visit(e, d+1)
			}
		case *ssa.Slice:
			visit(x.X, d+1)
		case *ssa.Call:
			if b, ok := x.Common().Value.(*ssa.Builtin); ok && b.Name() == "append" && len(x.Common().Args) == 2 {
				visit(x.Common().Args[0], d+1)
				for _, e := range variadicElems(x.Common().Args[1]) {
					if e != nil {
						elem(e)
					}
				}
				return
			}
			other = true
		case *ssa.MakeSlice, *ssa.Const:
		default:
			other = true
		}
	}
	visit(v, 0)
	if os.Getenv("DEBUG_C20") != "" {
		fmt.Fprintf(os.Stderr, "tableColumnTypes: other=%v cols=%d\n", other, len(cols))
	}
	if other || len(cols) != 1 {
		return nil
	}
	var out []string
	for c := range cols {
		in := c.g.Pkg.Func("init")
		if in == nil {
			return nil
		}
		for _, b := range in.Blocks {
			for _, ins := range b.Instrs {
				st, ok := ins.(*ssa.Store)
				if !ok || st.Addr != ssa.Value(c.g) {
					continue
				}
				sl, ok := st.Val.(*ssa.Slice)
				if !ok {
					return nil
				}
				arr, ok := sl.X.(*ssa.Alloc)
				if !ok || arr.Referrers() == nil {
					return nil
				}
				for _, r := range *arr.Referrers() {
					ia, ok := r.(*ssa.IndexAddr)
					if !ok || ia.Referrers() == nil {
						continue
					}
					for _, r2 := range *ia.Referrers() {
						fa, ok := r2.(*ssa.FieldAddr)
						if !ok || fa.Field != c.f || fa.Referrers() == nil {
							continue
						}
						for _, r3 := range *fa.Referrers() {
							if s3, ok := r3.(*ssa.Store); ok && s3.Addr == ssa.Value(fa) {
								if tn := namedOf(peel(s3.Val).Type()); tn != nil {
									out = append(out, tn.Obj().Name())
								}
							}
						}
					}
				}
			}
		}
	}
	return out
}

// ifaceKind: the interface a registration is made under: sdk.Msg (requests) or tx.MsgResponse.
func ifaceKind(pt *types.Pointer) (isMsg, isResp bool) {
	for _, t := range []types.Type{pt.Elem(), types.Unalias(pt.Elem())} {
		var obj *types.TypeName
		switch tt := t.(type) {
		case *types.Alias:
			obj = tt.Obj()
		case *types.Named:
			obj = tt.Obj()
		}
		if obj == nil || obj.Pkg() == nil {
			continue
		}
		if obj.Name() == "Msg" && obj.Pkg().Path() == "github.com/cosmos/cosmos-sdk/types" || obj.Name() == "Message" && obj.Pkg().Path() == "github.com/cosmos/gogoproto/proto" {
			isMsg = true
		}
	}
	if it, ok := pt.Elem().Underlying().(*types.Interface); ok && !isMsg && namedOf(pt.Elem()) == nil && it.NumMethods() == 3 {
		names := map[string]bool{}
		for i := 0; i < it.NumMethods(); i++ {
			names[it.Method(i).Name()] = true
		}
		isMsg = names["ProtoMessage"] && names["Reset"] && names["String"]
	}
	if !isMsg {
		if nt := namedOf(pt.Elem()); nt != nil && nt.Obj().Name() == "MsgResponse" && nt.Obj().Pkg() != nil && strings.HasSuffix(nt.Obj().Pkg().Path(), "/types/tx") {
			isResp = true
		}
	}
	return
}
