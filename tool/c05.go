package main

// C05 — Farm: staked principal is exactly accounted for and withdrawable.
// C06 — Farm: reward budget is conserved, released only while staked, refunded once.

import (
	"fmt"
	"os"
	"strings"

	"golang.org/x/tools/go/ssa"
)

func init() {
	register("C05", true, true, "other", runC05)
	register("C06", true, true, "other", runC06)
}

func collectEvents(cx *Ctx, r *Report, mod string, roles ...string) map[string][]hev {
	entries := cx.entriesOfModule(mod, roles...)
	per := map[string][]hev{}
	over := cx.forEachEvent(entries, nil, func(e *Entry, w *Walker, ev *Event) {
		per[e.Name] = append(per[e.Name], hev{ev, w, e})
	})
	for _, o := range over {
		r.toolErr("frame budget exceeded for %s", o)
	}
	return per
}

func pick(evs []hev, kind string, pred func(hev) bool) []hev {
	var out []hev
	for _, x := range evs {
		if x.ev.Kind == kind && (pred == nil || pred(x)) {
			out = append(out, x)
		}
	}
	return out
}

func (x hev) must() bool { return x.w.chainMust(x.ev.Fr, x.ev.Site) }

func runC05(cx *Ctx, r *Report) {
	defer func() { r.requireCount("settlement-committed", 1) }()
	r.Explanation = "F4 double entry for staked principal on every call chain of Stake and Unstake: Stake = {signer→farm escrow (msg.Amount), farmer.Locked += msg.Amount.Amount, pool.TotalLptLocked += msg.Amount.Amount}, all must-executed and persisted; Unstake = {farm escrow→signer (msg.Amount), farmer.Locked −= msg.Amount.Amount, and exactly one of two mutually exclusive pool-total updates (expired branch: direct subtraction; running pool: through the shared pool update with the negated amount)}, dominated by ¬(Locked < amount) and ¬(pool total < amount); in the expired branch no call that can return an error precedes the payout. Rewards are paid only out of the reward-collector account, only to the signer, only with the amount computed by the per-share calculation; the only payouts out of the farm escrow are unstaked principal, reward release to the collector and budget refunds. Decides the bookkeeping structure; that a withdrawal from a running pool can never fail (the release arithmetic) is not decided."
	r.Assumptions = []string{"bank keeper semantics", "Σ farmer.Locked = pool.TotalLptLocked holds initially; the rules keep it by pairing equal deltas"}
	per := collectEvents(cx, r, "farm", "msg", "abci")
	cx.farmSettlementCommitted(r, per)
	cx.rewardAfterUpdate(r, per)
	cx.scanPrefixClosedRule(r, []string{"farm"}, "scan-prefix-closed")
	cx.keyEncodingUniformRule(r, []string{"farm"}, "key-encoding-uniform")
	// the escrow covers the undistributed budgets only if every way of creating a pool funds it
	cx.farmOtherCreators(r)
	amt := "msg.Amount.Amount"
	// ---------------- Stake
	{
		evs := per["Stake"]
		pay := pick(evs, "bank.SendCoinsFromAccountToModule", nil)
		lock := pick(evs, "delta:FarmInfo.Locked:+", nil)
		tot := pick(evs, "assign:FarmPool.TotalLptLocked", nil)
		setInfo := pick(evs, "store.set", func(x hev) bool { return hasPrefix(x.ev, "farm:FarmerKey=0x03") })
		setPool := pick(evs, "store.set", func(x hev) bool { return hasPrefix(x.ev, "farm:FarmPoolKey=0x06") })
		ok := len(pay) == 1 && len(lock) == 1 && len(tot) == 1
		if ok {
			t := tot[0].ev.Args[0].LooseString()
			ok = pay[0].ev.Args[1].LooseString() == "addr(msg.Sender)" && pay[0].ev.Args[2].LooseString() == `"farm"` && lastArgS(pay[0].ev) == "coins(msg.Amount)" &&
				lock[0].ev.Args[0].LooseString() == amt && strings.Contains(t, "math.Int.Add(") && strings.Contains(t, ".TotalLptLocked") && strings.HasSuffix(t, ", "+amt+"))") &&
				pay[0].must() && lock[0].must() && tot[0].must() && len(setInfo) == 1 && setInfo[0].must() && len(setPool) == 1 && setPool[0].must()
		}
		pos := ""
		if len(pay) > 0 {
			pos = pay[0].ev.Pos(cx)
		}
		r.check(ok, "stake-double-entry", "Stake", pos, "signer→escrow(msg.Amount), farmer.Locked += msg.Amount.Amount and pool total += msg.Amount.Amount all execute on every successful path and both records are persisted", fmt.Sprintf("Stake bookkeeping is not {escrow in, farmer +, pool +} with one amount, all must and persisted (pay %d, locked %d, total %d)", len(pay), len(lock), len(tot)))
	}
	// ---------------- Unstake
	{
		evs := per["Unstake"]
		pay := pick(evs, "bank.SendCoinsFromModuleToAccount", func(x hev) bool { return x.ev.Args[1].LooseString() == `"farm"` })
		lock := pick(evs, "delta:FarmInfo.Locked:-", nil)
		direct := pick(evs, "delta:FarmPool.TotalLptLocked:-", nil)
		shared := pick(evs, "assign:FarmPool.TotalLptLocked", nil)
		ok := len(pay) == 1 && len(lock) == 1 && len(direct) == 1 && len(shared) == 1
		pos := ""
		if len(pay) > 0 {
			pos = pay[0].ev.Pos(cx)
		}
		if ok {
			t := shared[0].ev.Args[0].LooseString()
			okAmt := pay[0].ev.Args[2].LooseString() == "addr(msg.Sender)" && lastArgS(pay[0].ev) == "coins(msg.Amount)" && lock[0].ev.Args[0].LooseString() == amt &&
				direct[0].ev.Args[0].LooseString() == "msg.Amount" && strings.HasSuffix(t, ", math.Int.Neg("+amt+")))") && strings.Contains(t, ".TotalLptLocked")
			r.check(okAmt && pay[0].must() && lock[0].must(), "unstake-double-entry", "Unstake|amounts", pos, "escrow→signer(msg.Amount), farmer.Locked −= msg.Amount.Amount (both must) and the pool total is reduced by the same amount on either route", "Unstake amounts/endpoints differ: pay "+lastArgS(pay[0].ev)+" to "+pay[0].ev.Args[2].LooseString()+", locked −"+lock[0].ev.Args[0].LooseString()+", direct −"+direct[0].ev.Args[0].LooseString()+", shared "+t)
			// exactly one of the two routes: at the lowest frame the two reductions share they are
			// mutually exclusive and one of them is on every successful path; from there up to
			// the payout's frame every call is a must call, and both precede the payout
			top := hostFrame(pay[0].ev.Fr)
			lift := func(e *Event) ssa.Instruction {
				var s ssa.Instruction = e.Site
				for f := e.Fr; f != nil; f = f.Parent {
					if f == top {
						return s
					}
					if f.Call == nil {
						return nil
					}
					s = f.Call
				}
				return nil
			}
			lcf, s1, s2 := commonFrame(direct[0].ev, shared[0].ev)
			okOne := lcf != nil && s1 != nil && s2 != nil && s1 != s2 && s1.Block() != s2.Block() && !s1.Block().Dominates(s2.Block()) && !s2.Block().Dominates(s1.Block()) &&
				mustPass(lcf.Fn, func(i ssa.Instruction) bool { return i == s1 || i == s2 })
			for f := lcf; okOne && f != nil && f != top; f = f.Parent {
				if f.Call == nil || !siteMust(f.Call) || !errorPropagated(f.Call) {
					okOne = false
				}
			}
			paySite := lift(pay[0].ev)
			if l1, l2 := lift(direct[0].ev), lift(shared[0].ev); okOne && (l1 == nil || l2 == nil || paySite == nil || !orderedBeforeInstr(l1, paySite) || !orderedBeforeInstr(l2, paySite)) {
				okOne = false
			}
			r.check(okOne, "unstake-one-route", "Unstake", pos, "every successful unstake reduces the pool total by exactly one of two mutually exclusive routes before paying out", "the pool total is not reduced by exactly one route on every successful unstake")
			_, g1 := pay[0].fact(false, "math.Int.LT(", ".Locked, "+amt+")")
			_, g2 := pay[0].fact(false, "math.Int.LT(", ".TotalLptLocked.Amount, "+amt+")")
			r.check(g1 && g2, "unstake-guards", "Unstake", pos, "¬(farmer.Locked < amount) and ¬(pool total < amount) dominate the payout", "principal payout not dominated by both balance checks")
			// expired branch: no fallible call before the payout
			b := direct[0].ev.Site.Block()
			fallible := ""
			for _, ins := range b.Instrs {
				if ci, ok := ins.(ssa.CallInstruction); ok {
					sig := ci.Common().Signature()
					n := sig.Results().Len()
					if n > 0 && isErrorType(sig.Results().At(n-1).Type()) {
						fallible = callName(ci)
					}
				}
			}
			_, exp := direct[0].fact(true, "Expired(")
			r.check(fallible == "" && exp, "expired-unstake-infallible", "Unstake", direct[0].ev.Pos(cx), "in the expired-pool branch no call that can return an error precedes the principal payout", "expired-pool unstake branch calls "+fallible+" (can fail) before paying out the principal, or is not under the Expired test")
			// persistence of the farmer record: set or delete
			set := pick(evs, "store.set", func(x hev) bool { return hasPrefix(x.ev, "farm:FarmerKey=0x03") })
			del := pick(evs, "store.delete", func(x hev) bool { return hasPrefix(x.ev, "farm:FarmerKey=0x03") })
			okP := len(set) == 1 && len(del) == 1
			if okP {
				a, c := lift(set[0].ev), lift(del[0].ev)
				okP = a != nil && c != nil && mustPass(top.Fn, func(i ssa.Instruction) bool { return i == a || i == c })
				_, z := del[0].fact(true, "math.Int.IsZero(")
				okP = okP && z
			}
			r.check(okP, "unstake-persist", "Unstake", pos, "the reduced farmer record is written back, or deleted exactly when the remaining stake is zero", "the reduced farmer record is not always persisted (or is deleted without the zero test)")
			// both pool-total reductions are stored afterwards on every path
			okPool := persistedAfter(direct[0], evs, "farm:FarmPoolKey=0x06") && persistedAfter(shared[0], evs, "farm:FarmPoolKey=0x06")
			r.check(okPool, "unstake-pool-persist", "Unstake", direct[0].ev.Pos(cx), "the reduced pool total is stored after the reduction on both routes", "the pool total is reduced but the pool is not stored afterwards on every path (the store precedes the reduction or is skipped): the recorded total stays above the sum of the farmers' stakes")
			// the route that bypasses the shared pool update is taken exactly when the pool has ended
			_, e1 := direct[0].fact(true, "farm/keeper.Keeper.Expired(")
			_, e2 := shared[0].fact(false, "farm/keeper.Keeper.Expired(")
			r.check(e1 && e2, "unstake-route-guard", "Unstake", direct[0].ev.Pos(cx), "the direct route holds Expired(pool) and the releasing route holds ¬Expired(pool) (Expired treats the end block itself as running until the end blocker has taken the pool off the queue)", "the unstake routes are not selected by the pool's Expired test: a pool in its final block would skip the reward release (or an ended pool would run it)")
		} else {
			r.violate("unstake-double-entry", "Unstake|inventory", pos, fmt.Sprintf("Unstake bookkeeping events: pay %d, locked %d, direct pool %d, shared pool %d (expected 1 each)", len(pay), len(lock), len(direct), len(shared)))
		}
	}
	// ---------------- rewards only from the collector; closed world for escrow payouts
	nRew, nEsc := 0, 0
	for _, name := range sortedKeys(per) {
		for _, x := range per[name] {
			if !strings.HasPrefix(x.ev.Kind, "bank.") || x.e.Role != "msg" && x.e.Role != "abci" {
				continue
			}
			from := x.ev.Args[1].LooseString()
			switch {
			case x.ev.Kind == "bank.SendCoinsFromModuleToAccount" && from == `"reward_collector"`:
				nRew++
				a := lastArgS(x.ev)
				ok := x.ev.Args[2].LooseString() == "addr(msg.Sender)" && strings.HasPrefix(a, "farm/types.FarmPool.CaclRewards(") && strings.HasSuffix(a, "#0")
				_, pos := x.fact(true, "sdk.Coins.IsAllPositive(")
				r.check(ok && pos, "reward-payout", name, x.ev.Pos(cx), "rewards are paid from the collector to the signer with the amount of the per-share calculation", "reward payout "+a+" to "+x.ev.Args[2].LooseString()+" is not the calculated reward to the signer")
			case (x.ev.Kind == "bank.SendCoinsFromModuleToAccount" || x.ev.Kind == "bank.SendCoinsFromModuleToModule") && from == `"farm"`:
				nEsc++
				a := lastArgS(x.ev)
				to := x.ev.Args[2].LooseString()
				var why string
				switch {
				case name == "Unstake" && a == "coins(msg.Amount)" && to == "addr(msg.Sender)":
					why = "unstaked principal"
				case to == `"reward_collector"` && strings.Contains(a, ".RewardPerBlock"):
					why = "reward release to the collector"
				case (name == "DestroyPool" || name == "EndBlock") && strings.Contains(a, ".RemainingReward"):
					why = "budget refund"
				case name == "CreatePool" && to == "keeper.feeCollectorName" && strings.Contains(a, ".PoolCreationFee.Amount") && strings.Contains(a, ".TaxRate") && strings.Contains(a, "TruncateInt"):
					why = "tax share of the pool creation fee (paid in by the creator in the same handler)"
				}
				r.check(why != "", "escrow-payouts", name+"|"+to, x.ev.Pos(cx), "escrow payout is "+why, "unexpected payout out of the farm escrow in "+name+": "+a+" to "+to)
			}
		}
	}
	// pool creation fee passes through the escrow without residue: pay fee, forward tax, burn fee−tax
	{
		evs := per["CreatePool"]
		a2m := pick(evs, "bank.SendCoinsFromAccountToModule", func(x hev) bool { return strings.Contains(lastArgS(x.ev), "PoolCreationFee") })
		m2m := pick(evs, "bank.SendCoinsFromModuleToModule", func(x hev) bool { return x.ev.Args[2].LooseString() == "keeper.feeCollectorName" })
		burn := pick(evs, "bank.BurnCoins", nil)
		ok := len(a2m) == 1 && len(m2m) == 1 && len(burn) == 1
		pos := ""
		if ok {
			pos = a2m[0].ev.Pos(cx)
			fee := coinsOf(lastArgS(a2m[0].ev))[0]
			tax := coinsOf(lastArgS(m2m[0].ev))[0]
			ok = lastArgS(burn[0].ev) == "coins(sdk.Coin.Sub("+fee+", "+tax+"))" && a2m[0].ev.Args[1].LooseString() == "addr(msg.Creator)" && a2m[0].must() && m2m[0].must() && burn[0].must()
		}
		r.check(ok, "creation-fee-split", "CreatePool", pos, "the creation fee enters the escrow, ⌊fee·TaxRate⌋ is forwarded to the fee collector and fee−tax is burned (nothing of it stays in the escrow)", "pool creation fee is not split as pay / tax / burn(fee−tax) with shared terms")
	}
	if nRew < 3 || nEsc < 6 {
		r.toolErr("reward payouts %d (≥3) / escrow payouts %d (≥6) below the confirmed counts", nRew, nEsc)
	}
	// ---------------- AdjustPool: the new end height
	// new end = S + ⌊available / perBlock⌋ where, for a started pool, available counts the
	// blocks still to run from the same S (S = max(current height, start height)):
	// (EndHeight − S)·perBlock + appended. Counting from another point re-funds blocks that
	// have already been paid, the end height overshoots the budget and every later
	// release - hence every unstake - fails with insufficient remaining reward.
	{
		n := 0
		for _, x := range per["AdjustPool"] {
			if x.ev.Kind != "assign:FarmPool.EndHeight" || x.ev.Args[0].LooseString() == "sdk.Context.BlockHeight()" {
				continue
			}
			n++
			v := x.ev.Args[0]
			okE := false
			why := "the new end height is not of the form S + …"
			if v.Op == "bin" && v.Name == "+" && len(v.Args) == 2 {
				S := v.Args[0].LooseString()
				full := v.LooseString()
				switch {
				case !strings.Contains(S, ".StartHeight") || !strings.Contains(S, "sdk.Context.BlockHeight()"):
					why = "the base " + trunc(S, 100) + " is not max(current height, start height)"
				case !strings.Contains(full, ".EndHeight - "+S+")"):
					why = "the blocks still to run are not counted from the same base as the new end height (expected (old EndHeight − " + trunc(S, 80) + "))"
				default:
					okE = true
				}
			}
			r.check(okE, "adjust-end-height", "AdjustPool", x.ev.Pos(cx), "new EndHeight = S + ⌊available/perBlock⌋ with the remaining blocks counted as (old EndHeight − S) from the same S = max(current, start)", "AdjustPool: "+why)
		}
		if n == 0 {
			r.violate("adjust-end-height", "AdjustPool", "", "AdjustPool no longer recomputes the pool's end height")
		}
	}
	// a stale copy of the pool or its rules written back over the shared pool update puts
	// already-released rewards back on the books: recorded stakes + budgets then exceed
	// the escrow and the last withdrawals fail
	cx.lostUpdateRule(r, []string{"farm"}, 20)
	cx.insufficientStrict(r, "farm")
	r.requireCount("adjust-end-height", 1)
	cx.rewardFormula(r)
	r.requireCount("reward-formula", 1)
	r.requireCount("unstake-pool-persist", 1)
	r.requireCount("unstake-route-guard", 1)
}

func orderedBeforeInstr(a, b ssa.Instruction) bool {
	if a.Parent() != b.Parent() {
		return false
	}
	if a.Block() == b.Block() {
		return instrIndex(a) < instrIndex(b)
	}
	// a's block can reach b's block and not vice versa through domination of the join
	seen := map[*ssa.BasicBlock]bool{}
	q := []*ssa.BasicBlock{a.Block()}
	for len(q) > 0 {
		x := q[0]
		q = q[1:]
		if seen[x] {
			continue
		}
		seen[x] = true
		if x == b.Block() {
			return true
		}
		q = append(q, x.Succs...)
	}
	return false
}

func runC06(cx *Ctx, r *Report) {
	r.Explanation = "F4 double entry for the reward budget on every call chain of the farm handlers and the end blocker. Create: creator→escrow(total) is must-executed and each rule is initialised with TotalReward = RemainingReward = that coin's amount. Adjust: creator→escrow(additional) is co-executed with TotalReward += and RemainingReward += AmountOf(additional, rule denom). Release: RemainingReward −= RewardPerBlock·(height−last) is co-located with escrow→collector of the same product, under the facts height advanced ∧ total staked > 0 ∧ ¬(remaining < product). Refund: the dequeue of the active entry is must-executed first, each rule's remaining budget is added to the refund and then zeroed and persisted in the same iteration, the refund is paid from the escrow to the creator (or the community pool); the zeroing is reachable only from DestroyPool and the end blocker, and DestroyPool holds creator == signer, Editable and ¬Expired. Decides conservation structure; pro-rata shares and rounding bounds are not decided."
	r.Assumptions = []string{"bank keeper semantics", "the active queue contains each running pool once (C13)"}
	per := collectEvents(cx, r, "farm", "msg", "abci")
	cx.farmSettlementCommitted(r, per)
	cx.rewardAfterUpdate(r, per)
	cx.scanPrefixClosedRule(r, []string{"farm"}, "scan-prefix-closed")
	cx.keyEncodingUniformRule(r, []string{"farm"}, "key-encoding-uniform")
	// ---------------- create
	{
		evs := per["CreatePool"]
		pay := pick(evs, "bank.SendCoinsFromAccountToModule", func(x hev) bool { return !strings.Contains(lastArgS(x.ev), "PoolCreationFee") })
		rule := pick(evs, "store.set", func(x hev) bool { return hasPrefix(x.ev, "farm:FarmPoolRuleKey=0x02") })
		ok := len(pay) == 1 && len(rule) == 1
		pos := ""
		if ok {
			pos = pay[0].ev.Pos(cx)
			total := lastArgS(pay[0].ev)
			st := findSub(rule[0].ev.Args[1], func(t *Term) bool { return t.Op == "struct" && t.Name == "RewardRule" })
			f := map[string]string{}
			if st != nil {
				for i := 0; i+1 < len(st.Args); i += 2 {
					f[st.Args[i].Name] = st.Args[i+1].LooseString()
				}
			}
			ok = pay[0].must() && pay[0].ev.Args[1].LooseString() == "addr(msg.Creator)" && strings.HasPrefix(f["TotalReward"], total+"[") && strings.HasSuffix(f["TotalReward"], "].Amount") && f["RemainingReward"] == f["TotalReward"] &&
				strings.HasPrefix(f["Reward"], total+"[") && strings.HasSuffix(f["Reward"], "].Denom")
		}
		r.check(ok, "budget-create", "CreatePool", pos, "creator→escrow(total reward) and every rule starts with TotalReward = RemainingReward = that coin of the same total", "pool creation does not fund the escrow with exactly the budget the rules are initialised with")
	}
	cx.farmOtherCreators(r)
	// ---------------- adjust
	{
		evs := per["AdjustPool"]
		pay := pick(evs, "bank.SendCoinsFromAccountToModule", nil)
		tr := pick(evs, "assign:RewardRule.TotalReward", nil)
		rr := pick(evs, "assign:RewardRule.RemainingReward", func(x hev) bool { return strings.Contains(x.ev.Args[0].LooseString(), "msg.AdditionalReward") })
		ok := len(pay) == 1 && len(tr) == 1 && len(rr) == 1
		pos := ""
		if ok {
			pos = pay[0].ev.Pos(cx)
			a, b := tr[0].ev.Args[0].LooseString(), rr[0].ev.Args[0].LooseString()
			ok = lastArgS(pay[0].ev) == "msg.AdditionalReward" && pay[0].ev.Args[1].LooseString() == "addr(msg.Creator)" &&
				strings.HasPrefix(a, "math.Int.Add(") && strings.Contains(a, ".TotalReward, sdk.Coins.AmountOf(msg.AdditionalReward, ") &&
				strings.HasPrefix(b, "math.Int.Add(") && strings.Contains(b, ".RemainingReward, sdk.Coins.AmountOf(msg.AdditionalReward, ") &&
				tr[0].ev.Site.Block() == rr[0].ev.Site.Block() && orderedBefore(pay[0].ev, tr[0].ev)
			// the loop that updates the rules is entered only after the payment succeeded
			_, g := tr[0].fact(true, "BankKeeper.SendCoinsFromAccountToModule(", " : err==nil")
			ok = ok && g
			// and the raised budget reaches the store on every successful path (an early
			// return between the update and the write-back keeps the coins and drops the booking)
			okP := false
			for _, y := range evs {
				if y.ev.Kind == "store.set" && hasPrefix(y.ev, "farm:FarmPoolRuleKey=0x02") && (followedBy(tr[0].ev, y.ev) || followedByCall(tr[0].ev, y.ev)) && (followedBy(rr[0].ev, y.ev) || followedByCall(rr[0].ev, y.ev)) {
					okP = true
				}
			}
			r.check(okP, "budget-adjust-persisted", "AdjustPool", tr[0].ev.Pos(cx), "the raised TotalReward / RemainingReward are written back under the rule prefix on every successful path", "AdjustPool can return successfully after taking the additional funding without writing the raised TotalReward / RemainingReward back (a return between the update and SetRewardRules): the top-up stays in the escrow unbooked and is never released or refunded")
		}
		r.check(ok, "budget-adjust", "AdjustPool", pos, "creator→escrow(additional) succeeded before TotalReward and RemainingReward are both raised by AmountOf(additional, denom)", "AdjustPool does not pair the additional funding with equal increases of TotalReward and RemainingReward")
	}
	// ---------------- release (shared pool update), checked once per entry that reaches it
	nRel := 0
	for _, name := range sortedKeys(per) {
		evs := per[name]
		// a decrement of the remaining budget, written either as x = x.Sub(p) on one
		// place (delta) or as an assignment of Sub(old, p)
		type relT struct {
			x    hev
			prod string
		}
		var rel []relT
		for _, x := range evs {
			switch {
			case x.ev.Kind == "delta:RewardRule.RemainingReward:-":
				rel = append(rel, relT{x, x.ev.Args[0].LooseString()})
			case x.ev.Kind == "assign:RewardRule.RemainingReward" && strings.HasPrefix(x.ev.Args[0].LooseString(), "math.Int.Sub("):
				t := x.ev.Args[0].LooseString()
				if j := strings.Index(t, ".RemainingReward, "); j >= 0 {
					rel = append(rel, relT{x, strings.TrimSuffix(t[j+len(".RemainingReward, "):], ")")})
				} else {
					rel = append(rel, relT{x, ""})
				}
			}
		}
		send := pick(evs, "bank.SendCoinsFromModuleToModule", func(x hev) bool { return x.ev.Args[2].LooseString() == `"reward_collector"` })
		if len(rel) == 0 && len(send) == 0 {
			continue
		}
		nRel++
		ok := len(rel) >= 1 && len(rel) == len(send)
		pos := ""
		for i := 0; ok && i < len(rel); i++ {
			pos = rel[i].x.ev.Pos(cx)
			prod := rel[i].prod
			if prod == "" {
				ok = false
				break
			}
			// the transfer on the same call chain (same frame or an enclosing one) moves
			// coin(rule.Reward, prod) accumulated over the rules
			var s *hev
			for k := range send {
				for f := rel[i].x.ev.Fr; f != nil; f = f.Parent {
					if hostFrame(send[k].ev.Fr) == f {
						s = &send[k]
					}
				}
			}
			okS := s != nil && strings.Contains(lastArgS(s.ev), prod) && s.ev.Args[1].LooseString() == `"farm"` && strings.Contains(prod, ".RewardPerBlock") && strings.Contains(prod, "BlockHeight()") && strings.Contains(prod, ".LastHeightDistrRewards")
			_, g1a := rel[i].x.fact(true, "math.Int.GT(", ".TotalLptLocked.Amount, math.ZeroInt())")
			_, g1b := rel[i].x.fact(true, "math.Int.IsPositive(", ".TotalLptLocked.Amount)")
			g1 := g1a || g1b
			_, g2 := rel[i].x.fact(true, "(sdk.Context.BlockHeight() > ", ".LastHeightDistrRewards)")
			_, g3 := rel[i].x.fact(false, "math.Int.LT(", ".RemainingReward, "+prod+")")
			persisted := persistedAfter(rel[i].x, evs, "farm:FarmPoolRuleKey=0x02")
			if !(okS && g1 && g2 && g3 && persisted) {
				ok = false
				r.violate("budget-release", name, pos, fmt.Sprintf("release is not {remaining −= perBlock·Δheight persisted, escrow→collector of the same product} under {staked>0: %v, height advanced: %v, ¬(remaining<product): %v} (transfer matches: %v, persisted: %v)", g1, g2, g3, okS, persisted))
			}
		}
		if ok {
			r.ok("budget-release", name, pos, "RemainingReward −= RewardPerBlock·(height−last), persisted per rule, with escrow→collector of the same product, only while staked > 0 and height advanced and the budget suffices")
		} else if len(rel) != len(send) {
			r.violate("budget-release", name, pos, fmt.Sprintf("release bookkeeping unbalanced: %d remaining-budget decrements vs %d transfers to the collector", len(rel), len(send)))
		}
	}
	if nRel < 5 {
		r.toolErr("release reached from %d entries (5 confirmed: AdjustPool, DestroyPool, Harvest, Stake, Unstake + EndBlock)", nRel)
	}
	// ---------------- refund
	for _, name := range sortedKeys(per) {
		evs := per[name]
		zero := pick(evs, "assign:RewardRule.RemainingReward", func(x hev) bool { return x.ev.Args[0].LooseString() == "math.ZeroInt()" })
		refundPay := pick(evs, "bank.SendCoinsFromModuleToAccount", func(x hev) bool {
			return x.ev.Args[1].LooseString() == `"farm"` && strings.Contains(lastArgS(x.ev), ".RemainingReward")
		})
		if len(zero) == 0 && len(refundPay) > 0 {
			r.violate("budget-refund", name, refundPay[0].ev.Pos(cx), "the remaining budget is paid out of the escrow in "+name+" without being set to zero: it could be refunded again")
			continue
		}
		if len(zero) == 0 {
			continue
		}
		if name != "DestroyPool" && name != "EndBlock" {
			r.violate("refund-callers", name, zero[0].ev.Pos(cx), "the remaining budget is zeroed (refund) on a path from "+name+"; only DestroyPool and the end blocker may refund")
			continue
		}
		r.ok("refund-callers", name, zero[0].ev.Pos(cx), "refund reachable from "+name)
		z := zero[0]
		pays := refundPay
		pool := pick(evs, "bank.SendCoinsFromModuleToModule", func(x hev) bool {
			return x.ev.Args[2].LooseString() == "keeper.communityPoolName" && strings.Contains(lastArgS(x.ev), ".RemainingReward")
		})
		deq := pick(evs, "store.delete", func(x hev) bool { return hasPrefix(x.ev, "farm:ActiveFarmPoolKey=0x04") && orderedBefore(x.ev, z.ev) })
		ok := len(pays) == 1 && len(pool) == 1 && len(deq) == 1
		if ok {
			a := lastArgS(pays[0].ev)
			ok = strings.Contains(a, "sdk.Coins.Add(") && strings.Contains(pays[0].ev.Args[2].LooseString(), ".Creator") && pool[0].ev.Args[1].LooseString() == `"farm"`
			// dequeue first and unconditionally: lifted to the function it shares with the
			// zeroing, the dequeue sits in that function's entry block
			lcf, s1, _ := commonFrame(deq[0].ev, z.ev)
			ok = ok && lcf != nil && s1 != nil && s1.Block() == lcf.Fn.Blocks[0]
			// zeroing and persisting in the same iteration, after the old value was added to the refund
			ok = ok && persistedAfter(z, evs, "farm:FarmPoolRuleKey=0x02")
			// the community-pool route is taken exactly when the creator IS the community pool's
			// module account (the very name the coins are then sent to)
			_, c1 := pool[0].fact(true, "Equals(", "GetModuleAddress(", "keeper.communityPoolName")
			_, c2 := pays[0].fact(false, "Equals(", "GetModuleAddress(", "keeper.communityPoolName")
			ok = ok && c1 && c2
			// exactly one of the two payouts on every successful path
			pf, p1, p2 := commonFrame(pays[0].ev, pool[0].ev)
			ok = ok && pf != nil && p1 != nil && p2 != nil && p1 != p2 && mustPass(pf.Fn, func(i ssa.Instruction) bool { return i == p1 || i == p2 }) && !p1.Block().Dominates(p2.Block()) && !p2.Block().Dominates(p1.Block())
		}
		if !ok && os.Getenv("DEBUG_C06") != "" {
			fmt.Fprintf(os.Stderr, "budget-refund %s: pays=%d pool=%d deq=%d persisted=%v\n", name, len(pays), len(pool), len(deq), persistedAfter(z, evs, "farm:FarmPoolRuleKey=0x02"))
			if len(pays) == 1 && len(pool) == 1 && len(deq) == 1 {
				lcf, s1, _ := commonFrame(deq[0].ev, z.ev)
				_, c1 := pool[0].fact(true, "Equals(", "GetModuleAddress(", "keeper.communityPoolName")
				_, c2 := pays[0].fact(false, "Equals(", "GetModuleAddress(", "keeper.communityPoolName")
				fmt.Fprintf(os.Stderr, "   entryblock=%v c1=%v c2=%v a=%s\n", lcf != nil && s1 != nil && s1.Block() == lcf.Fn.Blocks[0], c1, c2, trunc(lastArgS(pays[0].ev), 100))
			}
		}
		r.check(ok, "budget-refund", name, z.ev.Pos(cx), "refund: the active entry is dequeued first, each rule's remaining budget is added to the refund, zeroed and persisted in the same iteration, and the sum is paid from the escrow to the creator or (exclusively) the community pool", "refund structure broken in "+name+" (dequeue-first / accumulate-zero-persist / exactly one payout)")
		if name == "DestroyPool" {
			_, g1 := z.fact(false, "(msg.Creator != ", ".Creator)")
			_, g2 := z.fact(true, ".Editable")
			_, g3 := z.fact(false, "Expired(")
			r.check(g1 && g2 && g3, "destroy-guards", name, z.ev.Pos(cx), "DestroyPool refunds only under signer == pool creator ∧ Editable ∧ ¬Expired", fmt.Sprintf("DestroyPool refund not dominated by all of creator==signer (%v), Editable (%v), ¬Expired (%v)", g1, g2, g3))
		}
	}
	cx.lostUpdateRule(r, []string{"farm"}, 20)
	// the per-share accumulator grows by ⌊collected / total staked⌋ at 18 decimals: a
	// division that rounds to nearest or up lets ⌊rps·stake⌋ exceed what was released,
	// and the collector account cannot cover the payouts
	{
		seen := map[string]bool{}
		n := 0
		for _, name := range sortedKeys(per) {
			for _, x := range per[name] {
				if x.ev.Kind != "assign:RewardRule.RewardPerShare" && x.ev.Kind != "delta:RewardRule.RewardPerShare:+" {
					continue
				}
				pos := x.ev.Pos(cx)
				if seen[pos] {
					continue
				}
				seen[pos] = true
				n++
				var divs, bad []string
				var walk func(t *Term)
				walk = func(t *Term) {
					if t == nil {
						return
					}
					if t.Op == "call" && strings.Contains(t.Name, "Quo") {
						divs = append(divs, t.Name)
						m := t.Name[strings.LastIndex(t.Name, ".")+1:]
						if m != "QuoInt" && m != "QuoInt64" && m != "QuoTruncate" && m != "QuoRaw" {
							bad = append(bad, t.Name)
						}
					}
					for _, a := range t.Args {
						walk(a)
					}
				}
				walk(x.ev.Args[0])
				r.check(len(divs) > 0 && len(bad) == 0, "release-per-share-truncates", pos, pos, "the per-share increment is computed with a truncating division ("+strings.Join(divs, ", ")+")", "RewardPerShare is raised by a quotient that does not truncate ("+strings.Join(append(bad, divs...), ", ")+"): LegacyDec.Quo rounds half-even at the 18th decimal, so ⌊rewardPerShare·stake⌋ can exceed the amount released to the collector and the farmers' payouts fail or are paid out of other pools' rewards")
			}
		}
		if n == 0 {
			r.toolErr("no assignment to RewardRule.RewardPerShare found")
		}
	}
	// every reward payout is preceded by the pool's reward release unless the pool has ended:
	// the only route around the shared pool update (Unstake) is selected by Expired(pool)
	{
		evs := per["Unstake"]
		direct := pick(evs, "delta:FarmPool.TotalLptLocked:-", nil)
		shared := pick(evs, "assign:FarmPool.TotalLptLocked", nil)
		ok := len(direct) == 1 && len(shared) == 1
		pos := ""
		if ok {
			pos = direct[0].ev.Pos(cx)
			_, e1 := direct[0].fact(true, "farm/keeper.Keeper.Expired(")
			_, e2 := shared[0].fact(false, "farm/keeper.Keeper.Expired(")
			ok = e1 && e2
		}
		r.check(ok, "release-before-payout", "Unstake", pos, "an unstake skips the reward release only when Expired(pool) holds (the end block itself counts as running until the end blocker has dequeued the pool)", "an unstake can skip the reward release although the pool has not ended by its Expired test: the leaving farmer loses, and the remaining farmers gain, the rewards accrued since the last release")
	}
	r.requireCount("release-before-payout", 1)
	cx.rewardFormula(r)
	r.requireCount("reward-formula", 1)
	r.requireCount("budget-release", 5)
	r.requireCount("budget-refund", 2)
	r.requireCount("refund-callers", 2)
}

// rewardFormula (C05/C06): the per-share reward calculation is
//
//	pending  = ⌊rewardPerShare·locked⌋ − rewardDebt
//	newDebt  = ⌊rewardPerShare·(locked + Δ)⌋
//
// with both roundings toward zero. Rounding the debt up (or the pending amount
// down by more) makes pending negative for some residues, which aborts every
// later unstake/harvest of that farmer; rounding it down less pays rewards twice.
func (cx *Ctx) rewardFormula(r *Report) {
	var fn *ssa.Function
	for _, f := range cx.P.AllFuncs {
		if shortFn(f) == "(farm/types.FarmPool).CaclRewards" {
			fn = f
		}
	}
	if fn == nil {
		r.toolErr("FarmPool.CaclRewards not found")
		return
	}
	w := newWalker(cx)
	fr := &Frame{Fn: fn}
	// the coins added to the two results (built in place or by a helper)
	var coinVals []ssa.Value
	for _, ci := range findCalls(fn, func(ci ssa.CallInstruction) bool { return calleeIs(ci, "cosmos-sdk/types", "Coins.Add") }) {
		args := ci.Common().Args
		if len(args) < 2 {
			continue
		}
		coinVals = append(coinVals, variadicElems(args[len(args)-1])...)
	}
	if len(coinVals) != 2 {
		r.violate("reward-formula", "CaclRewards", cx.P.Pos(fn.Pos()), fmt.Sprintf("the per-share reward calculation adds %d coins to its results (expected the pending reward and the new debt)", len(coinVals)))
		return
	}
	okP, okD := false, false
	var seen []string
	for _, cv := range coinVals {
		fx := newFx(w)
		cas := fx.CoinAmounts(cv, fr)
		if len(cas) != 1 {
			seen = append(seen, "undecodable coin")
			continue
		}
		got := fx.StripRound(cas[0].Amt)
		bind := map[string]Rat{}
		for sym, t := range fx.leavesOf(got) {
			switch {
			case strings.Contains(t, "RewardPerShare"):
				bind["rps"] = rSym(sym)
				fx.decSyms[sym] = true
			case strings.Contains(t, "RewardDebt"):
				bind["debt"] = rSym(sym)
			case strings.HasSuffix(t, ".Locked"):
				bind["locked"] = rSym(sym)
			case t == "deltaAmt" || strings.HasSuffix(t, "deltaAmt"):
				bind["delta"] = rSym(sym)
			}
		}
		seen = append(seen, fx.Describe(got)+"  "+fx.Legend(got))
		if _, ok := bind["delta"]; !ok {
			bind["delta"] = rSym("·delta")
		}
		if _, ok := bind["debt"]; !ok {
			bind["debt"] = rSym("·debt")
		}
		if bind["rps"].N == nil || bind["locked"].N == nil {
			continue
		}
		if ref, err := fx.Ref("floor(rps*locked) - debt", bind); err == nil && rEq(got, ref) {
			okP = true
		}
		if ref, err := fx.Ref("floor(rps*(locked+delta))", bind); err == nil && rEq(got, ref) {
			okD = true
		}
	}
	r.check(okP && okD, "reward-formula", "CaclRewards", cx.P.Pos(fn.Pos()), "pending = ⌊rewardPerShare·locked⌋ − rewardDebt and new debt = ⌊rewardPerShare·(locked+Δ)⌋, both rounded toward zero", fmt.Sprintf("the per-share reward calculation is not {pending = ⌊rps·locked⌋ − debt: %v, new debt = ⌊rps·(locked+Δ)⌋: %v}; found %s", okP, okD, strings.Join(seen, " ; ")))
}

// commonFrame: the lowest frame shared by the chains of a and b, and the two
// events' sites lifted to it.
func commonFrame(a, b *Event) (*Frame, ssa.Instruction, ssa.Instruction) {
	chain := func(e *Event) []*Frame {
		var c []*Frame
		for f := e.Fr; f != nil; f = f.Parent {
			c = append([]*Frame{f}, c...)
		}
		return c
	}
	ca, cb := chain(a), chain(b)
	i := 0
	for i < len(ca) && i < len(cb) && ca[i] == cb[i] {
		i++
	}
	if i == 0 {
		return nil, nil, nil
	}
	return ca[i-1], siteOf(ca, i, a), siteOf(cb, i, b)
}

// farmSettlementCommitted (C05, C06): everything the end blocker does for an ending pool -
// the last release of rewards to the collector, the refund, the zeroed budgets, the
// dequeue - happens on the block's own context. On a branched context that is dropped
// on some path (e.g. when Refund reports that nothing is left to refund) the last
// interval's rewards are never collected and the farmers lose them.
func (cx *Ctx) farmSettlementCommitted(r *Report, per map[string][]hev) {
	n, bad := 0, 0
	for _, x := range per["EndBlock"] {
		if !(strings.HasPrefix(x.ev.Kind, "bank.") || x.ev.Kind == "store.set" || x.ev.Kind == "store.delete") {
			continue
		}
		n++
		if at, disc := cx.discardedBranch(x.w, x.ev); disc {
			bad++
			if bad == 1 {
				r.violate("settlement-committed", "EndBlock", x.ev.Pos(cx), "the end blocker settles an ending pool on a branched context (CacheContext at "+at+") whose write function is not called on every path: where the branch is dropped the final reward release and the dequeue are lost while the block carries on ("+x.ev.Kind+" on chain "+x.ev.Fr.String()+")")
			}
		}
	}
	if n == 0 {
		r.toolErr("no state effect found on the farm EndBlock chain")
	} else if bad == 0 {
		r.ok("settlement-committed", "EndBlock", "", fmt.Sprintf("all %d state effects of the farm end blocker run on the block's own context (no branch that can be dropped)", n))
	}
}

// rewardAfterUpdate (C05, C06): every reward payout is preceded, on every path, by the
// shared pool update (or the ended-pool route that loads the rules itself).
func (cx *Ctx) rewardAfterUpdate(r *Report, per map[string][]hev) {
	for _, name := range sortedKeys(per) {
		for _, x := range per[name] {
			if x.ev.Kind != "bank.SendCoinsFromModuleToAccount" || x.ev.Args[1].LooseString() != `"reward_collector"` || x.e.Role != "msg" && x.e.Role != "abci" {
				continue
			}
			// the per-share calculation runs on the pool as the shared update left it (rules
			// loaded, rewards released up to this block): the update is executed before the
			// payout on every path, except on the route of an ended pool
			// (path rule in the handler's own frame: every path to the payout passes the call
			// that performs the update, or the ended-pool route that loads the rules itself)
			upd := false
			var cands []hev
			for _, y := range per[name] {
				switch {
				case y.ev.Kind == "assign:FarmPool.LastHeightDistrRewards":
					cands = append(cands, y)
				case (y.ev.Kind == "store.iter" || y.ev.Kind == "store.get") && hasPrefix(y.ev, "farm:FarmPoolRuleKey=0x02"):
					if _, exp := y.fact(true, "farm/keeper.Keeper.Expired("); exp {
						cands = append(cands, y)
					}
				}
			}
			for A := x.ev.Fr; A != nil && !upd; A = A.Parent {
				px := liftTo(x.ev, A)
				if px == nil {
					break
				}
				sites := coveringSites(A, cands)
				delete(sites, px)
				upd = len(sites) > 0 && mustPassFrom(A.Fn, A.Fn.Blocks[0], func(i ssa.Instruction) bool { return sites[i] }, func(b *ssa.BasicBlock) bool { return b == px.Block() })
			}
			ended := false
			r.check(upd || ended, "reward-after-update", name, x.ev.Pos(cx), "the reward is calculated after the shared pool update has run on every path (or the pool has ended)", "in "+name+" the reward is calculated and paid on a path that skips the shared pool update (the update that loads the reward rules into the pool and releases rewards up to this block): the calculation then sees no rules, pays nothing and stores an empty reward debt, so the farmer's next interaction pays the whole accumulated share again out of other farmers' rewards")
		}
	}
}

// coveringSites: the instructions of frame fr's function through which one of the events
// is certain to execute: the event's own site, or a call whose callee cannot return
// successfully without passing such a site itself (the events may sit in different
// branches of a helper, as long as every successful path of the helper takes one of them).
func coveringSites(fr *Frame, evs []hev) map[ssa.Instruction]bool {
	out := map[ssa.Instruction]bool{}
	children := map[*Frame][]hev{}
	for _, e := range evs {
		if e.ev.Fr == fr {
			out[e.ev.Site] = true
			continue
		}
		for f := e.ev.Fr; f != nil; {
			up := f.Parent
			if f.Call == nil && firstErrorStep(f) != nil {
				up = f.Via
			}
			if up == fr && entrySite(f) != nil {
				children[f] = append(children[f], e)
				break
			}
			f = up
		}
	}
	for c, sub := range children {
		in := coveringSites(c, sub)
		pred := func(i ssa.Instruction) bool { return in[i] }
		if len(in) > 0 && (mustPass(c.Fn, pred) ||
			// (the callee branches on a plan worked out up the chain: judged once per
			// combination of values the plan can have on this chain)
			(len(sub) > 0 && sub[0].w != nil && (sub[0].w.mustPassPerKind(c, pred) || sub[0].w.mustPassPerAlternatives(c, pred)))) {
			out[entrySite(c)] = true
		}
	}
	return out
}
