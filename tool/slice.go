package main

// A small backward slicer over SSA values, used where a rule asks "does this value
// depend on that source" through byte buffers, small structs and helper functions.
// It is context-sensitive for irismod callees (a call is entered and its parameters
// are bound to the arguments of that very call), field-sensitive for structs that
// are assembled field by field, and treats a call into other code as depending on
// all its arguments.

import (
	"go/token"
	"go/types"
	"strings"

	"golang.org/x/tools/go/ssa"
)

type slicer struct {
	cx   *Ctx
	pred func(v ssa.Value, stack []*ssa.Call) bool
	// copyOnly: follow only moves of the value itself (parameters, loads and stores,
	// field projection, conversions, returns of helpers), not computations on it
	copyOnly bool
	seen     map[sliceKey]bool
	steps    int
	// stop: values the slice does not look behind (treated as fresh sources)
	stop func(v ssa.Value, stack []*ssa.Call) bool
	// structural (with copyOnly): elements of slices / arrays, append and (un)marshalling
	// are moves of (part of) the value too
	structural bool
	// wholeOnly: the identity of a struct value is what was stored into it as a whole;
	// stores into single fields are followed only when that field is asked for
	wholeOnly bool
	// unknown: the slice ran into something it does not follow (captured variable, depth or
	// step bound) - a negative answer is then not conclusive
	unknown bool
}

type sliceKey struct {
	v     ssa.Value
	top   *ssa.Call
	field int
}

func (cx *Ctx) newSlicer(pred func(v ssa.Value, stack []*ssa.Call) bool, copyOnly bool) *slicer {
	return &slicer{cx: cx, pred: pred, copyOnly: copyOnly, seen: map[sliceKey]bool{}}
}

// derives: v (or, when field >= 0, field #field of the struct value v) depends on a
// value satisfying pred. stack holds the calls entered so far (innermost last).
func (s *slicer) derives(v ssa.Value, stack []*ssa.Call, field int) bool {
	if v == nil {
		return false
	}
	if len(stack) > 6 {
		s.unknown = true
		return false
	}
	s.steps++
	if s.steps > 20000 {
		s.unknown = true
		return false
	}
	if s.stop != nil && s.stop(v, stack) {
		return false
	}
	var top *ssa.Call
	if len(stack) > 0 {
		top = stack[len(stack)-1]
	}
	k := sliceKey{v, top, field}
	if s.seen[k] {
		return false
	}
	s.seen[k] = true
	if s.pred(v, stack) { // (a field of a value that is itself a source derives from it)
		return true
	}
	switch x := v.(type) {
	case *ssa.Parameter:
		fn := x.Parent()
		idx := -1
		for i, p := range fn.Params {
			if p == x {
				idx = i
			}
		}
		if idx < 0 {
			return false
		}
		if top != nil {
			if top.Common().StaticCallee() != fn {
				return false
			}
			args := top.Common().Args
			if idx < len(args) {
				return s.derives(args[idx], stack[:len(stack)-1], field)
			}
			return false
		}
		// not entered through a call of this slice: every static call site must supply it
		callers := s.cx.CallersOf(fn)
		if len(callers) == 0 {
			return false
		}
		for _, cs := range callers {
			cc := cs.Site.Common()
			if cc.IsInvoke() || cc.StaticCallee() != fn || idx >= len(cc.Args) {
				return false
			}
			if !s.derives(cc.Args[idx], nil, field) {
				return false
			}
		}
		return true
	case *ssa.FreeVar:
		s.unknown = true
		return false
	case *ssa.Const, *ssa.Global, *ssa.Function, *ssa.Builtin:
		return false
	case *ssa.UnOp:
		if x.Op != token.MUL {
			if s.copyOnly {
				return false
			}
			return s.derives(x.X, stack, -1)
		}
		switch a := x.X.(type) {
		case *ssa.FieldAddr:
			if base, ok := a.X.(*ssa.Alloc); ok {
				if _, isStruct := base.Type().(*types.Pointer).Elem().Underlying().(*types.Struct); isStruct {
					return s.fromAlloc(base, stack, a.Field, x)
				}
			}
			return s.derives(a.X, stack, -1)
		case *ssa.Alloc:
			return s.fromAlloc(a, stack, field, x)
		case *ssa.IndexAddr:
			if s.copyOnly && !s.structural {
				return false
			}
			return s.derives(a.X, stack, -1)
		case *ssa.FreeVar:
			// a variable of the enclosing function captured by reference: what that function
			// stores into it (the literal is created once)
			if al := capturedAlloc(a); al != nil {
				return s.fromAlloc(al, nil, field, nil)
			}
		}
		return s.derives(x.X, stack, field)
	case *ssa.Alloc:
		return s.fromAlloc(x, stack, field, nil)
	case *ssa.Field:
		return s.derives(x.X, stack, x.Field)
	case *ssa.Extract:
		if c, ok := x.Tuple.(*ssa.Call); ok {
			return s.fromCall(c, x.Index, stack, field)
		}
		return s.derives(x.Tuple, stack, field)
	case *ssa.Call:
		return s.fromCall(x, 0, stack, field)
	case *ssa.Convert:
		return s.derives(x.X, stack, field)
	case *ssa.ChangeType:
		return s.derives(x.X, stack, field)
	case *ssa.MakeInterface:
		return s.derives(x.X, stack, field)
	case *ssa.Phi:
		for _, e := range x.Edges {
			if e != v && s.derives(e, stack, field) {
				return true
			}
		}
		return false
	case *ssa.Slice:
		return s.derives(x.X, stack, -1)
	case *ssa.MakeSlice:
		if s.copyOnly {
			return false
		}
		return s.bufferWriters(x, stack)
	}
	if s.copyOnly {
		if bo, ok := v.(*ssa.BinOp); ok && s.structural && bo.Op == token.ADD {
			if bt, ok := bo.Type().Underlying().(*types.Basic); ok && bt.Kind() == types.String {
				return s.derives(bo.X, stack, -1) || s.derives(bo.Y, stack, -1) // string concatenation
			}
		}
		return false
	}
	if ins, ok := v.(ssa.Instruction); ok {
		for _, op := range ins.Operands(nil) {
			if op != nil && *op != nil && s.derives(*op, stack, -1) {
				return true
			}
		}
	}
	return false
}

// fromAlloc: what was stored into the local (or, with field >= 0, into that field of it).
func (s *slicer) fromAlloc(a *ssa.Alloc, stack []*ssa.Call, field int, at ssa.Instruction) bool {
	if a.Referrers() == nil {
		return false
	}
	// flow-sensitive for whole-value stores: a load sees only the stores that reach it
	// (pool = get(); ...; pool, err = update(pool); ...; use(pool))
	var whole []*ssa.Store
	for _, r := range *a.Referrers() {
		if y, ok := r.(*ssa.Store); ok && y.Addr == a {
			whole = append(whole, y)
		}
	}
	// stores into the asked field (or, when the whole value is asked for, into any field)
	var fieldSt []*ssa.Store
	for _, r := range *a.Referrers() {
		y, ok := r.(*ssa.FieldAddr)
		if !ok || y.Referrers() == nil {
			continue
		}
		if field >= 0 && y.Field != field {
			continue
		}
		if field < 0 && s.wholeOnly && len(whole) > 0 {
			continue
		}
		for _, r2 := range *y.Referrers() {
			if st, ok := r2.(*ssa.Store); ok && st.Addr == ssa.Value(y) {
				fieldSt = append(fieldSt, st)
			}
		}
	}
	// flow-sensitive: a field assigned BEFORE the whole value is overwritten is gone
	// (pool.Rules = load(); …; pool, err = update(pool); …; use(pool.Rules))
	if at != nil && at.Parent() == a.Parent() && len(whole)+len(fieldSt) > 1 {
		whole, fieldSt = reachingStores(whole, fieldSt, at)
	}
	for _, y := range whole {
		if s.derives(y.Val, stack, field) {
			return true
		}
	}
	for _, st := range fieldSt {
		if s.derives(st.Val, stack, -1) {
			return true
		}
	}
	if field < 0 && (!s.copyOnly || s.structural) {
		// a byte array / buffer filled through calls; the argument array of a variadic call
		return s.bufferWriters(a, stack)
	}
	return false
}

// bufferWriters: calls that receive (a slice of) the buffer write their other
// arguments into it (copy, PutUint32, append).
func (s *slicer) bufferWriters(buf ssa.Value, stack []*ssa.Call) bool {
	refs := buf.Referrers()
	if refs == nil {
		return false
	}
	for _, r := range *refs {
		switch x := r.(type) {
		case *ssa.Slice:
			if s.bufferWriters(x, stack) {
				return true
			}
		case ssa.CallInstruction:
			for _, a := range x.Common().Args {
				if a != buf && s.derives(a, stack, -1) {
					return true
				}
			}
		case *ssa.IndexAddr:
			if x.Referrers() == nil {
				continue
			}
			for _, r2 := range *x.Referrers() {
				if st, ok := r2.(*ssa.Store); ok && st.Addr == x && s.derives(st.Val, stack, -1) {
					return true
				}
			}
		}
	}
	return false
}

// fromCall: result #res of the call. An irismod callee is entered; any other call
// depends on all its arguments.
func (s *slicer) fromCall(c *ssa.Call, res int, stack []*ssa.Call, field int) bool {
	if s.stop != nil && s.stop(c, stack) {
		return false
	}
	if s.pred(c, stack) {
		return true
	}
	g := c.Common().StaticCallee()
	if g != nil && g.Blocks != nil && isIrismodFunc(g) && !c.Common().IsInvoke() {
		for _, on := range stack {
			if on.Common().StaticCallee() == g {
				return false // recursion
			}
		}
		ns := append(append([]*ssa.Call{}, stack...), c)
		for _, ret := range returnsOf(g) {
			if res < len(ret.Results) && s.derives(ret.Results[res], ns, field) {
				return true
			}
		}
		return false
	}
	if s.copyOnly {
		if !s.structural {
			return false
		}
		_, nm := calleeName(c.Common())
		if !(strings.Contains(nm, "Marshal") || nm == "append" || strings.HasSuffix(nm, "Sprintf") || strings.HasSuffix(nm, "Join") || strings.HasSuffix(nm, "Sprint")) {
			return false
		}
		for _, a := range c.Common().Args {
			if s.derives(a, stack, -1) {
				return true
			}
		}
		return false
	}
	cc := c.Common()
	if cc.IsInvoke() && s.derives(cc.Value, stack, -1) {
		return true
	}
	// a stateful writer (hash.Hash, bytes.Buffer): what h.Sum() / buf.Bytes() hands out
	// depends on everything written into the same object by the other calls on it
	var recv ssa.Value
	if cc.IsInvoke() {
		recv = cc.Value
	} else if g := cc.StaticCallee(); g != nil && g.Signature.Recv() != nil && len(cc.Args) > 0 {
		// (only objects held by pointer accumulate what is written into them; a number type
		// with value receivers - math.Int, LegacyDec - is a plain value)
		if _, isPtr := cc.Args[0].Type().Underlying().(*types.Pointer); isPtr {
			recv = cc.Args[0]
		}
	}
	if recv != nil && recv.Referrers() != nil {
		for _, r := range *recv.Referrers() {
			oc, ok := r.(ssa.CallInstruction)
			if !ok || oc == ssa.CallInstruction(c) {
				continue
			}
			occ := oc.Common()
			same := occ.IsInvoke() && occ.Value == recv || !occ.IsInvoke() && len(occ.Args) > 0 && occ.Args[0] == recv
			if !same {
				continue
			}
			for i, a := range occ.Args {
				if !occ.IsInvoke() && i == 0 {
					continue
				}
				if s.derives(a, stack, -1) {
					return true
				}
			}
		}
	}
	for _, a := range cc.Args {
		if s.derives(a, stack, -1) {
			return true
		}
	}
	return false
}

// capturedAlloc: the local of the enclosing function a free variable of a function literal
// is bound to, when the literal is created at exactly one place.
func capturedAlloc(fv *ssa.FreeVar) *ssa.Alloc {
	fn := fv.Parent()
	par := fn.Parent()
	if par == nil {
		return nil
	}
	idx := -1
	for i, v := range fn.FreeVars {
		if v == fv {
			idx = i
		}
	}
	var out *ssa.Alloc
	n := 0
	for _, b := range par.Blocks {
		for _, ins := range b.Instrs {
			mc, ok := ins.(*ssa.MakeClosure)
			if !ok || mc.Fn != ssa.Value(fn) || idx < 0 || idx >= len(mc.Bindings) {
				continue
			}
			n++
			if a, ok := mc.Bindings[idx].(*ssa.Alloc); ok {
				out = a
			}
		}
	}
	if n != 1 {
		return nil
	}
	return out
}
