package main

import (
	"bufio"
	"encoding/json"
	"fmt"
	"os"
	"path/filepath"
	"sort"
	"strings"
	"time"
)

// Obligation is one rule instance decided on this run.
type Obligation struct {
	Rule string `json:"rule"`
	Key  string `json:"key"`
	Pos  string `json:"pos,omitempty"`
	Fact string `json:"fact"`
	OK   bool   `json:"ok"`
}

// Violation is a rule instance that does not hold. Key is spelled with
// externally anchored names only (rule | construct).
type Violation struct {
	Rule   string `json:"rule"`
	Key    string `json:"key"`
	Pos    string `json:"pos"`
	Msg    string `json:"msg"`
	Known  bool   `json:"known_finding"`
	KnownT string `json:"known_text,omitempty"`
}

type Report struct {
	Prop        string
	Tier        string
	Level       string
	start       time.Time
	Obls        []Obligation
	Viols       []Violation
	ToolErrs    []string
	Explanation string
	Assumptions []string
	Extra       map[string]interface{}
	Controls    []string
	ruleCount   map[string]int
}

func newReport(prop, tier string) *Report {
	return &Report{Prop: prop, Tier: tier, Level: "other", start: time.Now(), Extra: map[string]interface{}{}, ruleCount: map[string]int{}}
}

func (r *Report) ok(rule, key, pos, fact string) {
	r.Obls = append(r.Obls, Obligation{rule, key, pos, fact, true})
	r.ruleCount[rule]++
}

func (r *Report) violate(rule, key, pos, msg string) {
	r.Obls = append(r.Obls, Obligation{rule, key, pos, msg, false})
	r.Viols = append(r.Viols, Violation{Rule: rule, Key: r.Prop + "|" + rule + "|" + key, Pos: pos, Msg: msg})
	r.ruleCount[rule]++
}

// check records ok or violation depending on cond.
func (r *Report) check(cond bool, rule, key, pos, okFact, badMsg string) bool {
	if cond {
		r.ok(rule, key, pos, okFact)
	} else {
		r.violate(rule, key, pos, badMsg)
	}
	return cond
}

// toolErr: the analysis could not decide something; exit 2, never a pass.
func (r *Report) toolErr(format string, a ...interface{}) {
	r.ToolErrs = append(r.ToolErrs, fmt.Sprintf(format, a...))
}

// requireCount fails (tool error) when a rule matched fewer instances than were
// confirmed by hand: a rule that silently matches nothing must not pass.
func (r *Report) requireCount(rule string, min int) {
	if r.ruleCount[rule] < min {
		r.toolErr("rule %s matched %d instances, expected at least %d (confirmed by hand); the rule may have gone vacuous", rule, r.ruleCount[rule], min)
	}
}

type knownFinding struct {
	prop, key, text string
}

func loadKnown(path string) ([]knownFinding, error) {
	f, err := os.Open(path)
	if err != nil {
		if os.IsNotExist(err) {
			return nil, nil
		}
		return nil, err
	}
	defer f.Close()
	var out []knownFinding
	sc := bufio.NewScanner(f)
	sc.Buffer(make([]byte, 1<<20), 1<<20)
	for sc.Scan() {
		line := strings.TrimSpace(sc.Text())
		if !strings.HasPrefix(line, "finding:") {
			continue // comments, blank lines and "fixed:" lines suppress nothing
		}
		rest := strings.TrimSpace(strings.TrimPrefix(line, "finding:"))
		// property=<id> key=<key> — text
		var kf knownFinding
		parts := strings.SplitN(rest, " — ", 2)
		if len(parts) == 2 {
			kf.text = parts[1]
		}
		head := parts[0]
		if !strings.HasPrefix(head, "property=") {
			continue
		}
		head = strings.TrimPrefix(head, "property=")
		i := strings.Index(head, " key=")
		if i < 0 {
			continue
		}
		kf.prop = head[:i]
		kf.key = strings.TrimSpace(head[i+5:])
		out = append(out, kf)
	}
	return out, sc.Err()
}

// finish matches violations to known findings, writes evidence, prints the
// verdict lines and returns the exit code.
func (r *Report) finish(verifDir string, nPkgs, nFuncs int, seed int) int {
	known, err := loadKnown(filepath.Join(verifDir, "known_findings.txt"))
	if err != nil {
		r.toolErr("known_findings.txt: %v", err)
	}
	sort.SliceStable(r.Viols, func(i, j int) bool { return r.Viols[i].Key < r.Viols[j].Key })
	newV := 0
	for i := range r.Viols {
		v := &r.Viols[i]
		for _, k := range known {
			if k.prop == r.Prop && k.key == v.Key {
				v.Known = true
				v.KnownT = k.text
			}
		}
		if !v.Known {
			newV++
		}
	}
	discharged := 0
	for _, o := range r.Obls {
		if o.OK {
			discharged++
		}
	}
	// samples: first obligations of each rule
	perRule := map[string]int{}
	var samples []Obligation
	for _, o := range r.Obls {
		if perRule[o.Rule] < 3 {
			samples = append(samples, o)
			perRule[o.Rule]++
		}
	}
	if len(samples) == 0 {
		samples = append(samples, Obligation{Rule: "none", Fact: "no obligations were generated"})
	}
	rules := []string{}
	for k, n := range r.ruleCount {
		rules = append(rules, fmt.Sprintf("%s=%d", k, n))
	}
	sort.Strings(rules)
	cov := map[string]interface{}{
		"explanation":        r.Explanation,
		"obligations":        len(r.Obls),
		"discharged":         discharged,
		"rule_instances":     rules,
		"packages_analysed":  nPkgs,
		"functions_analysed": nFuncs,
		"samples":            samples,
		"violations_listed":  r.Viols,
		"tool_errors":        r.ToolErrs,
		"controls":           r.Controls,
		"exhaustive":         true,
		"evaluations":        len(r.Obls),
		"distinct_nontrivial": func() int {
			m := map[string]bool{}
			for _, o := range r.Obls {
				m[o.Rule+"|"+o.Key] = true
			}
			return len(m)
		}(),
		"rule": "one evaluation per rule instance (rule + anchored construct) found in /repo's current source; distinct = distinct rule|construct keys",
	}
	for k, v := range r.Extra {
		cov[k] = v
	}
	if r.Level == "translation_validation" {
		if _, ok := cov["programs"]; !ok {
			cov["programs"] = 0
		}
		if _, ok := cov["disagreements_checked"]; !ok {
			cov["disagreements_checked"] = len(r.Obls)
		}
	}
	ev := map[string]interface{}{
		"property_id": r.Prop,
		"tier":        r.Tier,
		"seed":        seed,
		"level":       r.Level,
		"coverage":    cov,
		"assumptions": r.Assumptions,
		"wall_s":      time.Since(r.start).Seconds(),
		"violations":  newV,
	}
	evDir := filepath.Join(verifDir, "evidence")
	if d := os.Getenv("VERIF_EVIDENCE_DIR"); d != "" {
		evDir = d // self-test runs against edited scratch states must not overwrite the registered evidence
	}
	os.MkdirAll(evDir, 0o755)
	b, _ := json.MarshalIndent(ev, "", " ")
	if err := os.WriteFile(filepath.Join(evDir, r.Prop+".json"), b, 0o644); err != nil {
		fmt.Fprintf(os.Stderr, "cannot write evidence: %v\n", err)
		return 2
	}
	vpath := filepath.Join(evDir, r.Prop+".violations.json")
	if len(r.Viols) > 0 {
		vb, _ := json.MarshalIndent(r.Viols, "", " ")
		os.WriteFile(vpath, vb, 0o644)
	} else {
		os.Remove(vpath)
	}
	fmt.Printf("property %s tier %s: %d obligations, %d discharged, %d violations (%d known), %d tool errors; %s\n",
		r.Prop, r.Tier, len(r.Obls), discharged, len(r.Viols), len(r.Viols)-newV, len(r.ToolErrs), strings.Join(rules, " "))
	for _, v := range r.Viols {
		if v.Known {
			fmt.Printf("KNOWN-FINDING: property=%s %s at %s: %s\n", r.Prop, v.Key, v.Pos, v.Msg)
		}
	}
	for _, e := range r.ToolErrs {
		fmt.Printf("TOOL-ERROR property=%s %s\n", r.Prop, e)
	}
	if newV > 0 {
		fmt.Printf("VIOLATION property=%s replay=%s\n", r.Prop, vpath)
		for _, v := range r.Viols {
			if !v.Known {
				fmt.Printf("  %s  [%s]  %s\n", v.Pos, v.Key, v.Msg)
			}
		}
		return 1
	}
	if len(r.ToolErrs) > 0 {
		return 2
	}
	return 0
}
