package main

// C02 — Coinswap: settlement moves exactly the traded coins between the right
// parties; bounds and deadline dominate; LPT mint/burn pairing; fee split.

import (
	"fmt"
	"strings"
)

func init() { register("C02", true, true, "other", runC02) }

type bev struct {
	ev *Event
	w  *Walker
}

func lastArgS(ev *Event) string { return ev.Args[len(ev.Args)-1].LooseString() }

// coinsOf splits "coins(a, b)" into its top-level elements.
func coinsOf(s string) []string {
	if !strings.HasPrefix(s, "coins(") || !strings.HasSuffix(s, ")") {
		return []string{s}
	}
	body := s[len("coins(") : len(s)-1]
	var out []string
	depth, start := 0, 0
	for i, c := range body {
		switch c {
		case '(', '{', '[':
			depth++
		case ')', '}', ']':
			depth--
		case ',':
			if depth == 0 {
				out = append(out, strings.TrimSpace(body[start:i]))
				start = i + 1
			}
		}
	}
	out = append(out, strings.TrimSpace(body[start:]))
	return out
}

// coinParts splits "coin(d, a)" into denom and amount; a bare term t gives (t.Denom, t.Amount).
func coinParts(c string) (string, string) {
	if strings.HasPrefix(c, "coin(") && strings.HasSuffix(c, ")") {
		body := c[len("coin(") : len(c)-1]
		depth := 0
		for i, ch := range body {
			switch ch {
			case '(', '{', '[':
				depth++
			case ')', '}', ']':
				depth--
			case ',':
				if depth == 0 {
					return strings.TrimSpace(body[:i]), strings.TrimSpace(body[i+1:])
				}
			}
		}
	}
	return c + ".Denom", c + ".Amount"
}

type swapLeg struct {
	in, out        *Event
	payer, pool    string
	payee          string
	soldC, boughtC string
	w              *Walker
}

func runC02(cx *Ctx, r *Report) {
	r.Explanation = "F4 effect inventory with endpoints and provenance, plus F3 guard dominance, over every call chain of the five coinswap handlers. Swap legs are recognised structurally as a frame holding exactly {user→pool, pool→user}; a trade is the list of legs under one parent frame. Rules: (closed world) SwapCoin has no bank effect outside legs; (endpoints) the first leg's payer is the declared signer (msg.Input.Address), the last leg's payee is the recipient (or the signer when empty), each leg pays out of the pool it paid into; (net-zero intermediate) in a routed trade the coin bought in leg i is the coin sold in leg i+1 and its payee is that leg's payer; (bounds) the exact-input trade holds ¬(bought_final < msg.Output.Coin.Amount) at the final payout, the exact-output trade holds ¬(sold_first > msg.Input.Coin.Amount) at the first payment; (deadline / blocked recipient) the block-time-after-deadline test dominates every bank effect of all five handlers and the blocked-address test every effect of SwapCoin. Liquidity: add = {signer→pool(standard exact + token deposit), mint(lpt), module→signer(same lpt)} with ¬(mint < MinLiquidity) and ¬(deposit > MaxToken); remove = {signer→module(lpt), burn(same lpt), pool→signer(withdrawals)} with the minima; creation fee only on the pool-does-not-exist branch and split as pay / tax / burn(fee−tax). Decides who pays whom what on every path; the numeric relation between legs is C01."
	r.Assumptions = []string{"bank keeper semantics: SendCoins debits and credits exactly its argument", "pool escrow accounts are only moved by the coinswap module"}
	entries := cx.entriesOfModule("coinswap", "msg")
	per := map[string][]bev{}
	over := cx.forEachEvent(entries, nil, func(e *Entry, w *Walker, ev *Event) {
		if strings.HasPrefix(ev.Kind, "bank.") {
			per[e.Name] = append(per[e.Name], bev{ev, w})
		}
	})
	for _, o := range over {
		r.toolErr("frame budget exceeded for %s", o)
	}
	// ---------------------------------------------------------------- deadline / blocked
	for _, name := range sortedKeys(per) {
		if name == "UpdateParams" {
			continue
		}
		okAll := true
		var first *Event
		for _, x := range per[name] {
			if first == nil {
				first = x.ev
			}
			fs := x.w.FactsAt(x.ev.Fr, x.ev.Site)
			if _, ok := hasFact(fs, false, "time.Time.After(sdk.Context.BlockTime(), time.Unix(msg.Deadline, 0))"); !ok {
				okAll = false
				r.violate("deadline-guard", name+"|"+x.ev.Kind, x.ev.Pos(cx), "bank effect reachable in "+name+" without the dominating test blockTime.After(msg.Deadline) on chain "+x.ev.Fr.String())
				break
			}
		}
		if okAll && first != nil {
			r.ok("deadline-guard", name, first.Pos(cx), fmt.Sprintf("¬blockTime.After(Unix(msg.Deadline)) dominates all %d bank effects of %s", len(per[name]), name))
		}
	}
	{
		okAll := true
		for _, x := range per["SwapCoin"] {
			fs := x.w.FactsAt(x.ev.Fr, x.ev.Site)
			if _, ok := hasFact(fs, false, "blockedAddrs[msg.Output.Address]"); !ok {
				okAll = false
				r.violate("blocked-recipient-guard", "SwapCoin|"+x.ev.Kind, x.ev.Pos(cx), "swap effect reachable without the blocked-recipient test on chain "+x.ev.Fr.String())
				break
			}
		}
		if okAll && len(per["SwapCoin"]) > 0 {
			r.ok("blocked-recipient-guard", "SwapCoin", per["SwapCoin"][0].ev.Pos(cx), "¬blockedAddrs[msg.Output.Address] dominates every swap effect")
		}
	}
	// ---------------------------------------------------------------- swap legs
	byFrame := map[*Frame][]bev{}
	var frames []*Frame
	for _, x := range per["SwapCoin"] {
		hf := hostFrame(x.ev.Fr)
		if _, ok := byFrame[hf]; !ok {
			frames = append(frames, hf)
		}
		byFrame[hf] = append(byFrame[hf], x)
	}
	trades := map[*Frame][]*swapLeg{}
	var tradeOrder []*Frame
	for _, fr := range frames {
		evs := byFrame[fr]
		if len(evs) != 2 || evs[0].ev.Kind != "bank.SendCoins" || evs[1].ev.Kind != "bank.SendCoins" {
			for _, x := range evs {
				r.violate("swap-closed-world", "SwapCoin|"+x.ev.Kind, x.ev.Pos(cx), "bank effect in SwapCoin outside a {user→pool, pool→user} leg: "+x.ev.Kind+"("+strings.Join(argsLoose(x.ev)[1:], ", ")+") on chain "+fr.String())
			}
			continue
		}
		a, b := evs[0].ev, evs[1].ev
		if !orderedBefore(a, b) {
			a, b = b, a
		}
		leg := &swapLeg{in: a, out: b, w: evs[0].w,
			payer: a.Args[1].LooseString(), pool: a.Args[2].LooseString(),
			payee: b.Args[2].LooseString(), soldC: lastArgS(a), boughtC: lastArgS(b)}
		if b.Args[1].LooseString() != leg.pool {
			r.violate("swap-leg-pool", "SwapCoin", b.Pos(cx), "leg pays out of "+b.Args[1].LooseString()+" but paid into "+leg.pool)
		}
		if _, ok := trades[fr.Parent]; !ok {
			tradeOrder = append(tradeOrder, fr.Parent)
		}
		trades[fr.Parent] = append(trades[fr.Parent], leg)
	}
	signer := "addr(msg.Input.Address)"
	recip := "addr(msg.Output.Address)"
	recipOK := func(s string) bool {
		return s == recip || s == "φ{"+signer+"|"+recip+"}"
	}
	kc := keyCounter{}
	for _, tf := range tradeOrder {
		legs := trades[tf]
		// order legs by their call sites in the trade frame
		for i := 0; i < len(legs); i++ {
			for j := i + 1; j < len(legs); j++ {
				if orderedBefore(legs[j].in, legs[i].in) {
					legs[i], legs[j] = legs[j], legs[i]
				}
			}
		}
		first, last := legs[0], legs[len(legs)-1]
		kind := "exact-input"
		if last.boughtC == "coins(msg.Output.Coin)" {
			kind = "exact-output"
		} else if first.soldC != "coins(msg.Input.Coin)" {
			kind = "?"
		}
		hops := map[int]string{1: "single", 2: "double"}[len(legs)]
		tkey := kc.next("SwapCoin|" + kind + "|" + hops)
		pos := first.in.Pos(cx)
		r.check(kind != "?", "swap-exactness", tkey, pos, "trade is "+kind+": "+map[string]string{"exact-input": "the first payment is msg.Input.Coin", "exact-output": "the final payout is msg.Output.Coin"}[kind], "neither the first payment is msg.Input.Coin nor the final payout msg.Output.Coin: sold "+first.soldC+", bought "+last.boughtC)
		r.check(first.payer == signer, "swap-endpoints", tkey+"|payer", pos, "the first leg is paid by the declared signer "+signer, "the first leg is paid by "+first.payer+", not by the declared signer "+signer)
		r.check(recipOK(last.payee), "swap-endpoints", tkey+"|payee", last.out.Pos(cx), "the final payout goes to "+last.payee, "the final payout goes to "+last.payee+", expected the recipient (or the signer when empty)")
		sd, _ := coinParts(coinsOf(first.soldC)[0])
		bd, _ := coinParts(coinsOf(last.boughtC)[0])
		r.check(sd == "msg.Input.Coin.Denom" && bd == "msg.Output.Coin.Denom", "swap-denoms", tkey, pos, "sold denom is msg.Input.Coin.Denom, bought denom is msg.Output.Coin.Denom", "sold denom "+sd+" / bought denom "+bd+" differ from the order")
		for i := 0; i+1 < len(legs); i++ {
			l, n := legs[i], legs[i+1]
			sameCoin := l.boughtC == n.soldC
			r.check(sameCoin, "net-zero-intermediate", tkey+"|coin", l.out.Pos(cx), "the coin bought in leg "+fmt.Sprint(i+1)+" is the coin sold in leg "+fmt.Sprint(i+2)+": "+l.boughtC, "intermediate coin differs between legs: bought "+l.boughtC+", sold "+n.soldC)
			r.check(l.payee == n.payer, "net-zero-intermediate", tkey+"|party", l.out.Pos(cx), "the intermediate coin is received and paid by the same account "+l.payee,
				"the intermediate coin is paid out to "+l.payee+" but taken from "+n.payer+": with recipient ≠ sender the sender loses and the recipient keeps the intermediate standard coin")
		}
		// bounds
		if kind == "exact-input" {
			_, amt := coinParts(coinsOf(last.boughtC)[0])
			fs := last.w.FactsAt(last.out.Fr, last.out.Site)
			_, ok := hasFact(fs, false, "math.Int.LT("+amt+", msg.Output.Coin.Amount)")
			r.check(ok, "swap-bound", tkey, last.out.Pos(cx), "¬(bought < msg.Output.Coin.Amount) holds at the final payout of "+amt, "final payout of "+amt+" is not dominated by the minimum-received check against msg.Output.Coin.Amount")
		} else if kind == "exact-output" {
			_, amt := coinParts(coinsOf(first.soldC)[0])
			fs := first.w.FactsAt(first.in.Fr, first.in.Site)
			_, ok := hasFact(fs, false, "math.Int.GT("+amt+", msg.Input.Coin.Amount)")
			r.check(ok, "swap-bound", tkey, first.in.Pos(cx), "¬(sold > msg.Input.Coin.Amount) holds at the first payment of "+amt, "first payment of "+amt+" is not dominated by the maximum-paid check against msg.Input.Coin.Amount")
		}
	}
	if len(tradeOrder) != 4 {
		r.toolErr("expected 4 swap trade shapes (2 directions × {direct, routed}), found %d", len(tradeOrder))
	}
	// ---------------------------------------------------------------- liquidity
	cx.c02Liquidity(r, per)
	cx.lostUpdateRule(r, []string{"coinswap"}, 4)
	r.requireCount("net-zero-intermediate", 4)
	r.requireCount("swap-bound", 4)
	r.requireCount("deadline-guard", 5)
	if n := cx.exactNameLookupRule(r, "coinswap", []string{"str:lptDenom/", "str:pool/"}, "name-lookup-exact"); n < 2 {
		r.toolErr("only %d name-keyed lookups of the pool records found in the coinswap keeper (≥2 confirmed)", n)
	}
	r.requireCount("lpt-pairing", 4)
}

func (cx *Ctx) c02Liquidity(r *Report, per map[string][]bev) {
	// the deposit-and-mint step: anchored on each mint, with the deposit and the hand-over of
	// the minted coin that are closest to it on the call chains (whatever helpers sit in
	// between); everything else is grouped by the function it belongs to
	group := func(name string) map[*Frame][]bev {
		m := map[*Frame][]bev{}
		used := map[*Event]bool{}
		for _, x := range per[name] {
			if x.ev.Kind != "bank.MintCoins" {
				continue
			}
			g := []bev{x}
			top := x.ev.Fr
			for _, kind := range []string{"bank.SendCoins", "bank.SendCoinsFromModuleToAccount"} {
				var best *Frame
				var pick []bev
				for _, y := range per[name] {
					if y.ev.Kind != kind || used[y.ev] {
						continue
					}
					f, _, _ := commonFrame(x.ev, y.ev)
					if f == nil {
						continue
					}
					switch {
					case best == nil || f.Depth > best.Depth:
						best, pick = f, []bev{y}
					case f == best:
						pick = append(pick, y)
					}
				}
				g = append(g, pick...)
				if best != nil && best.Depth < top.Depth {
					top = best
				}
			}
			for _, y := range g {
				used[y.ev] = true
			}
			m[top] = append(m[top], g...)
		}
		for _, x := range per[name] {
			if !used[x.ev] {
				m[hostFrame(x.ev.Fr)] = append(m[hostFrame(x.ev.Fr)], x)
			}
		}
		return m
	}
	sender := "addr(msg.Sender)"
	factAt := func(x bev, holds bool, subs ...string) bool {
		_, ok := hasFact(x.w.FactsAt(x.ev.Fr, x.ev.Site), holds, subs...)
		return ok
	}
	kc := keyCounter{}
	// ---- AddLiquidity and AddUnilateralLiquidity
	for _, name := range []string{"AddLiquidity", "AddUnilateralLiquidity"} {
		nAdd := 0
		sawEmpty, sawProp := false, false
		for fr, evs := range group(name) {
			kinds := map[string]int{}
			for _, x := range evs {
				kinds[x.ev.Kind]++
			}
			if kinds["bank.MintCoins"] == 0 {
				// fee handling frame
				if kinds["bank.SendCoinsFromAccountToModule"] == 1 && kinds["bank.SendCoinsFromModuleToModule"] == 1 && kinds["bank.BurnCoins"] == 1 && len(evs) == 3 {
					var a2m, m2m, burn bev
					for _, x := range evs {
						switch x.ev.Kind {
						case "bank.SendCoinsFromAccountToModule":
							a2m = x
						case "bank.SendCoinsFromModuleToModule":
							m2m = x
						default:
							burn = x
						}
					}
					fee := coinsOf(lastArgS(a2m.ev))[0]
					tax := coinsOf(lastArgS(m2m.ev))[0]
					ok := lastArgS(burn.ev) == "coins(sdk.Coin.Sub("+fee+", "+tax+"))" && strings.Contains(tax, fee+".Amount") && strings.Contains(tax, "TruncateInt") &&
						a2m.ev.Args[1].LooseString() == sender && m2m.ev.Args[2].LooseString() == "keeper.feeCollectorName" && strings.HasSuffix(fee, ".PoolCreationFee")
					r.check(ok, "creation-fee-split", name, a2m.ev.Pos(cx), "signer pays the pool creation fee into the module, ⌊fee·TaxRate⌋ goes to the fee collector, fee−tax is burned", "pool creation fee split differs: paid "+fee+" by "+a2m.ev.Args[1].LooseString()+", tax "+tax+", burned "+lastArgS(burn.ev))
					r.check(factAt(a2m, false, "GetPool(keeper, coinswap/types.GetPoolId(msg.MaxToken.Denom))#1"), "creation-fee-branch", name, a2m.ev.Pos(cx), "the creation fee is charged only under the fact that the pool does not exist", "creation fee charged on a path where the pool may exist")
					continue
				}
				for _, x := range evs {
					r.violate("liquidity-closed-world", name+"|"+x.ev.Kind, x.ev.Pos(cx), "unexpected bank effect in "+name+": "+x.ev.Kind+"("+strings.Join(argsLoose(x.ev)[1:], ", ")+")")
				}
				continue
			}
			nAdd++
			key := kc.next(name)
			var pay, mint, give bev
			ok := len(evs) == 3
			for _, x := range evs {
				switch x.ev.Kind {
				case "bank.SendCoins":
					pay = x
				case "bank.MintCoins":
					mint = x
				case "bank.SendCoinsFromModuleToAccount":
					give = x
				default:
					ok = false
				}
			}
			if !ok || pay.ev == nil || mint.ev == nil || give.ev == nil {
				r.violate("liquidity-inventory", key, evs[0].ev.Pos(cx), "add-liquidity effects are not exactly {signer→pool, mint, module→signer} on chain "+fr.String())
				continue
			}
			r.ok("liquidity-inventory", key, pay.ev.Pos(cx), "effects are exactly {signer→pool, mint(lpt), module→signer(lpt)}")
			lpt := lastArgS(mint.ev)
			r.check(lpt == lastArgS(give.ev) && give.ev.Args[2].LooseString() == sender && pay.ev.Args[1].LooseString() == sender &&
				mint.w.chainMust2(mint.ev, give.ev), "lpt-pairing", key, mint.ev.Pos(cx), "the minted liquidity coin "+lpt+" is the coin sent to the signer; the deposit comes from the signer", "minted "+lpt+" but sent "+lastArgS(give.ev)+" to "+give.ev.Args[2].LooseString()+" (deposit from "+pay.ev.Args[1].LooseString()+")")
			_, mintAmt := coinParts(coinsOf(lpt)[0])
			r.check(factAt(mint, false, "math.Int.LT("+mintAmt+", msg.MinLiquidity)"), "liquidity-bound", key+"|min-liquidity", mint.ev.Pos(cx), "¬(mint < msg.MinLiquidity) holds at the mint of "+mintAmt, "mint of "+mintAmt+" is not dominated by the MinLiquidity check")
			deps := coinsOf(lastArgS(pay.ev))
			if name == "AddLiquidity" {
				if len(deps) != 2 {
					r.violate("liquidity-deposit", key, pay.ev.Pos(cx), "deposit is not {standard, token}: "+lastArgS(pay.ev))
					continue
				}
				_, stdAmt := coinParts(deps[0])
				tokD, tokAmt := coinParts(deps[1])
				r.check(stdAmt == "msg.ExactStandardAmt" && tokD == "msg.MaxToken.Denom", "liquidity-deposit", key, pay.ev.Pos(cx), "deposit = exactly msg.ExactStandardAmt of the standard coin plus "+tokAmt+" of msg.MaxToken.Denom", "deposit differs: "+lastArgS(pay.ev))
				if tokAmt != "msg.MaxToken.Amount" {
					sawProp = true
					r.check(factAt(pay, false, "math.Int.GT("+tokAmt+", msg.MaxToken.Amount)"), "liquidity-bound", key+"|max-token", pay.ev.Pos(cx), "¬(deposit > msg.MaxToken.Amount) holds at the deposit of "+tokAmt, "deposit of "+tokAmt+" is not dominated by the MaxToken check")
				} else {
					sawEmpty = true
					r.ok("liquidity-bound", key+"|max-token", pay.ev.Pos(cx), "deposit is msg.MaxToken.Amount itself (empty pool)")
				}
			} else {
				r.check(lastArgS(pay.ev) == "coins(msg.ExactToken)", "liquidity-deposit", key, pay.ev.Pos(cx), "deposit = exactly msg.ExactToken", "deposit differs: "+lastArgS(pay.ev))
			}
		}
		// (AddLiquidity has three call sites of the deposit-and-mint step today; merging the two
		// empty-pool sites into one is the same behaviour: what must be seen is at least one
		// empty-pool path and one proportional path)
		want := map[string]int{"AddLiquidity": 2, "AddUnilateralLiquidity": 1}[name]
		if name == "AddLiquidity" && nAdd >= want && !(sawEmpty && sawProp) {
			nAdd = 0
		}
		if nAdd < want {
			r.toolErr("%s: %d add paths found (empty-pool path seen: %v, proportional path seen: %v), at least %d confirmed by hand", name, nAdd, sawEmpty, sawProp, want)
		}
	}
	// ---- RemoveLiquidity and RemoveUnilateralLiquidity
	for _, name := range []string{"RemoveLiquidity", "RemoveUnilateralLiquidity"} {
		evs := per[name]
		var take, burn, pay bev
		ok := len(evs) == 3
		for _, x := range evs {
			switch x.ev.Kind {
			case "bank.SendCoinsFromAccountToModule":
				take = x
			case "bank.BurnCoins":
				burn = x
			case "bank.SendCoins":
				pay = x
			default:
				ok = false
			}
		}
		if !ok || take.ev == nil || burn.ev == nil || pay.ev == nil {
			r.violate("liquidity-inventory", name, "", "remove-liquidity effects are not exactly {signer→module(lpt), burn(lpt), pool→signer}")
			continue
		}
		r.ok("liquidity-inventory", name, take.ev.Pos(cx), "effects are exactly {signer→module(lpt), burn(lpt), pool→signer(withdrawals)}")
		lpt := lastArgS(burn.ev)
		wantLpt := map[string]string{"RemoveLiquidity": "coins(msg.WithdrawLiquidity)", "RemoveUnilateralLiquidity": ""}[name]
		okP := lpt == lastArgS(take.ev) && take.ev.Args[1].LooseString() == sender && pay.ev.Args[2].LooseString() == sender && take.w.chainMust2(take.ev, burn.ev) && take.w.chainMust2(burn.ev, pay.ev)
		if wantLpt != "" {
			okP = okP && lpt == wantLpt
		} else {
			okP = okP && strings.HasSuffix(lpt, ".LptDenom, msg.ExactLiquidity))")
		}
		r.check(okP, "lpt-pairing", name, burn.ev.Pos(cx), "the liquidity coin taken from the signer ("+lpt+") is the coin burned; the withdrawal is paid to the signer; all three always execute together", "taken "+lastArgS(take.ev)+" from "+take.ev.Args[1].LooseString()+", burned "+lpt+", paid to "+pay.ev.Args[2].LooseString())
		outs := coinsOf(lastArgS(pay.ev))
		if name == "RemoveLiquidity" {
			if len(outs) != 2 {
				r.violate("liquidity-bound", name, pay.ev.Pos(cx), "withdrawal is not {standard, token}: "+lastArgS(pay.ev))
				continue
			}
			_, a1 := coinParts(outs[0])
			_, a2 := coinParts(outs[1])
			r.check(factAt(pay, false, "math.Int.LT("+a1+", msg.MinStandardAmt)") && factAt(pay, false, "math.Int.LT("+a2+", msg.MinToken)"), "liquidity-bound", name+"|minima", pay.ev.Pos(cx), "¬(standard < msg.MinStandardAmt) and ¬(token < msg.MinToken) hold at the payout", "payout of "+a1+" / "+a2+" is not dominated by both minimum checks")
		} else {
			d, a := coinParts(outs[0])
			r.check(len(outs) == 1 && factAt(pay, false, "math.Int.LT("+a+", msg.MinToken.Amount)"), "liquidity-bound", name+"|minimum", pay.ev.Pos(cx), "¬(payout < msg.MinToken.Amount) holds at the payout", "payout of "+a+" is not dominated by the minimum check")
			// the stated minimum is a coin: the payout it bounds is in that coin's denomination
			r.check(len(outs) == 1 && d == "msg.MinToken.Denom", "liquidity-bound", name+"|minimum-denom", pay.ev.Pos(cx), "the payout is denominated in msg.MinToken.Denom, the denomination of the stated minimum", "the payout is denominated in "+d+", not in msg.MinToken.Denom: the stated minimum bounds an amount of another coin than the one paid")
		}
	}
}

// chainMust2: both events are must on their chains and execute together.
func (w *Walker) chainMust2(a, b *Event) bool {
	return coExecuted(a, b) || (w.chainMust(a.Fr, a.Site) && w.chainMust(b.Fr, b.Site))
}

// anchorGroups: for every event of kind anchor, the events of the given kinds that are
// closest to it on the call chains (deepest lowest-common frame); returns the frame each
// grouped event belongs to (the highest of the common frames of its group).
func anchorGroups(evs []*Event, anchor string, kinds []string) map[*Event]*Frame {
	out := map[*Event]*Frame{}
	for _, x := range evs {
		if x.Kind != anchor {
			continue
		}
		g := []*Event{x}
		top := x.Fr
		for _, kind := range kinds {
			var best *Frame
			var pick []*Event
			for _, y := range evs {
				if y.Kind != kind || out[y] != nil {
					continue
				}
				f, _, _ := commonFrame(x, y)
				if f == nil {
					continue
				}
				switch {
				case best == nil || f.Depth > best.Depth:
					best, pick = f, []*Event{y}
				case f == best:
					pick = append(pick, y)
				}
			}
			g = append(g, pick...)
			if best != nil && best.Depth < top.Depth {
				top = best
			}
		}
		for _, y := range g {
			out[y] = top
		}
	}
	return out
}
