package main

// Absolute, canonical store keys for accesses through prefix stores.
//
//	st := prefix.NewStore(ctx.KVStore(k.storeKey), types.HTLCKey)
//	st.Set(id, bz)                      // key relative to the prefix
//
// touches the same key as  store.Set(types.GetHTLCKey(id), bz). The rules speak about
// keys in the module's own vocabulary - the key constructors of its types package - so
// an access through a prefix store is rewritten, for the rules, into the absolute form:
// the prefix term of the store (found along the call chain: helpers that return the
// store, stores passed down as parameters, wrapper structs) is put in front of the
// relative key, and if a key constructor of the module builds exactly that sequence of
// components, the key is spelled as a call of that constructor with the unified arguments.

import (
	"fmt"
	"os"
	"strings"

	"golang.org/x/tools/go/ssa"
)

// storePrefixTerm: the prefix term of a (possibly nested) prefix store value, nil if the
// value is the module's plain KVStore.
func (w *Walker) storePrefixTerm(store ssa.Value, fr *Frame) *Term {
	if store == nil {
		return nil
	}
	t := w.ts.Of(store, fr)
	var find func(t *Term, d int) *Term
	find = func(t *Term, d int) *Term {
		if t == nil || d > 8 {
			return nil
		}
		if t.Op == "call" && strings.HasSuffix(t.Name, "prefix.NewStore") && len(t.Args) == 2 {
			if outer := find(t.Args[0], d+1); outer != nil {
				return mk("call", "append", outer, t.Args[1])
			}
			return t.Args[1]
		}
		if t.Op == "phi" {
			// the same prefix on every alternative
			var one *Term
			for _, a := range t.Args {
				p := find(a, d+1)
				if p == nil {
					return nil
				}
				if one != nil && one.LooseString() != p.LooseString() {
					return nil
				}
				one = p
			}
			return one
		}
		if t.Op == "field" || t.Op == "extract" {
			if len(t.Args) > 0 {
				return find(t.Args[0], d+1)
			}
		}
		return nil
	}
	return find(t, 0)
}

func flattenKey(t *Term) []*Term {
	if t == nil || t.Op == "nil" {
		return nil
	}
	if t.Op == "call" && (t.Name == "append" || t.Name == "varargs") {
		var out []*Term
		for _, a := range t.Args {
			out = append(out, flattenKey(a)...)
		}
		return out
	}
	if t.Op == "call" && t.Name == "str" && len(t.Args) == 1 {
		return flattenKey(t.Args[0]) // []byte(s)
	}
	if t.Op == "alloc" && t.Name == "slice" && len(t.Args) == 1 {
		return nil // make([]byte, 0, n): the empty buffer a key is appended to
	}
	return []*Term{t}
}

type keyPattern struct {
	fn     *ssa.Function
	comps  []*Term
	params []string
}

func (cx *Ctx) keyPatterns() []keyPattern {
	if cx.keyPats != nil {
		return cx.keyPats
	}
	var out []keyPattern
	for _, kl := range cx.keyLayouts() {
		f := kl.fn
		rets := returnsOf(f)
		if len(rets) != 1 {
			continue
		}
		ts := newTerms(cx)
		t := ts.expandKeyCalls(ts.Of(rets[0].Results[0], &Frame{Fn: f}), 0)
		comps := flattenKey(t)
		ok := len(comps) > 0
		for _, c := range comps {
			if c.Op == "phi" || c.Op == "alloc" {
				ok = false
			}
		}
		if !ok {
			continue
		}
		var ps []string
		for _, p := range f.Params {
			ps = append(ps, p.Name())
		}
		out = append(out, keyPattern{f, comps, ps})
	}
	cx.keyPats = out
	if out == nil {
		cx.keyPats = []keyPattern{}
	}
	return cx.keyPats
}

// unifyKey: pattern (a constructor's component, parameters are variables) against actual.
func unifyKey(pat, act *Term, params map[string]bool, bind map[string]*Term) bool {
	if pat == nil || act == nil {
		return pat == nil && act == nil
	}
	if pat.Op == "param" && params[pat.Name] {
		if b, ok := bind[pat.Name]; ok {
			return b.LooseString() == act.LooseString()
		}
		bind[pat.Name] = act
		return true
	}
	// []byte(x) / string(x) conversions are transparent on both sides
	if pat.Op == "call" && pat.Name == "str" && len(pat.Args) == 1 {
		return unifyKey(pat.Args[0], act, params, bind)
	}
	if act.Op == "call" && act.Name == "str" && len(act.Args) == 1 {
		return unifyKey(pat, act.Args[0], params, bind)
	}
	if pat.Op != act.Op || pat.Name != act.Name || len(pat.Args) != len(act.Args) {
		return false
	}
	for i := range pat.Args {
		if !unifyKey(pat.Args[i], act.Args[i], params, bind) {
			return false
		}
	}
	return true
}

// canonKey: spell an absolute key (prefix ++ relative key) as a call of the module's key
// constructor that builds the same components; the flat append term otherwise.
func (w *Walker) canonKey(prefix, rel *Term) *Term {
	abs := prefix
	if rel != nil && rel.Op != "nil" {
		abs = mk("call", "append", prefix, rel)
		// the key an iterator over this very prefix store stands at: spelled (term.go) as the
		// key of the absolute prefix iterator, which is the absolute key already
		if rel.Op == "call" && strings.HasSuffix(rel.Name, "Iterator.Key") && len(rel.Args) == 1 {
			it := rel.Args[0]
			if it.Op == "call" && (it.Name == "storetypes.KVStorePrefixIterator" || it.Name == "storetypes.KVStoreReversePrefixIterator") && len(it.Args) == 2 &&
				it.src != nil && !strings.HasSuffix(callName(it.src), "PrefixIterator") &&
				keyString(w.ts, it.Args[1]) == keyString(w.ts, prefix) {
				return rel
			}
		}
		// the relative key spelled as the absolute one with the prefix cut off:
		// KeyBalance(a, d, id)[len(PrefixBalance):]
		if rel.Op == "index" && rel.Name == "slice" && len(rel.Args) == 3 && rel.Args[2].Op == "nil" &&
			rel.Args[1].LooseString() == "len("+prefix.LooseString()+")" {
			full := flattenKey(w.ts.expandKeyCallsF(rel.Args[0], 0, true))
			pf := flattenKey(w.ts.expandKeyCallsF(prefix, 0, true))
			ok := len(full) >= len(pf) && len(pf) > 0
			for i := range pf {
				if ok && full[i].LooseString() != pf[i].LooseString() {
					ok = false
				}
			}
			if ok {
				abs = rel.Args[0]
			}
		}
	}
	act := flattenKey(w.ts.expandKeyCallsF(abs, 0, true))
	if len(act) == 0 {
		return abs
	}
	if os.Getenv("DEBUG_KEYPAT") != "" {
		var as []string
		for _, a := range act {
			as = append(as, a.LooseString())
		}
		fmt.Fprintf(os.Stderr, "canonKey act=%v\n", as)
		for _, kp := range w.cx.keyPatterns() {
			if len(kp.comps) == len(act) {
				var ps []string
				for _, a := range kp.comps {
					ps = append(ps, a.LooseString())
				}
				fmt.Fprintf(os.Stderr, "   pat %s = %v\n", kp.fn.Name(), ps)
			}
		}
	}
	var best *Term
	for _, kp := range w.cx.keyPatterns() {
		if len(kp.comps) != len(act) {
			continue
		}
		params := map[string]bool{}
		for _, p := range kp.params {
			params[p] = true
		}
		bind := map[string]*Term{}
		ok := true
		for i := range act {
			if !unifyKey(kp.comps[i], act[i], params, bind) {
				ok = false
				break
			}
		}
		if !ok || len(bind) != len(kp.params) {
			continue
		}
		t := &Term{Op: "call", Name: termNameOf(kp.fn)}
		for _, p := range kp.params {
			t.Args = append(t.Args, bind[p])
		}
		if best == nil || len(t.Name) < len(best.Name) {
			best = t
		}
	}
	if best != nil {
		return best
	}
	return abs
}

func keyString(ts *Terms, t *Term) string {
	var ps []string
	for _, c := range flattenKey(ts.expandKeyCallsF(t, 0, true)) {
		ps = append(ps, c.LooseString())
	}
	return strings.Join(ps, " | ")
}
