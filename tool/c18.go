package main

// C18 — Random: each request is fulfilled once, reproducibly, within [0,1).

import (
	"fmt"
	"go/constant"
	"go/types"
	"math/big"
	"strings"

	"golang.org/x/tools/go/ssa"
)

func init() { register("C18", true, true, "other", runC18) }

const (
	rndResult = "random:RandomKey=0x01"
	rndQueue  = "random:RandomRequestQueueKey=0x02"
	rndOracle = "random:OracleRandomRequestKey=0x03"
)

// loopHeaderOf: the header of the innermost natural loop containing b.
func loopHeaderOf(b *ssa.BasicBlock) *ssa.BasicBlock {
	for h := b; h != nil; h = h.Idom() {
		for _, p := range h.Preds {
			if h.Dominates(p) && (p == b || b == h || reachesAvoiding(b, p, h)) {
				return h
			}
		}
	}
	return nil
}

// reachesAvoiding: a path from → to that does not pass through avoid
// (membership of the natural loop of the back edge to→avoid).
func reachesAvoiding(from, to, avoid *ssa.BasicBlock) bool {
	seen := map[*ssa.BasicBlock]bool{avoid: true}
	q := []*ssa.BasicBlock{from}
	for len(q) > 0 {
		x := q[0]
		q = q[1:]
		if x == to {
			return true
		}
		if seen[x] {
			continue
		}
		seen[x] = true
		q = append(q, x.Succs...)
	}
	return false
}

func blockReaches(from, to *ssa.BasicBlock) bool {
	seen := map[*ssa.BasicBlock]bool{}
	q := []*ssa.BasicBlock{from}
	for len(q) > 0 {
		x := q[0]
		q = q[1:]
		if x == to {
			return true
		}
		if seen[x] {
			continue
		}
		seen[x] = true
		q = append(q, x.Succs...)
	}
	return false
}

// perIterationMust: every path from the loop header through the body back to
// the header executes one of the sites.
func perIterationMust(sites []ssa.Instruction) bool {
	if len(sites) == 0 {
		return false
	}
	h := loopHeaderOf(sites[0].Block())
	if h == nil {
		return false
	}
	fn := sites[0].Parent()
	set := map[ssa.Instruction]bool{}
	for _, s := range sites {
		set[s] = true
	}
	// body entries: successors of the header that are inside the loop (can reach the header again)
	for _, s := range h.Succs {
		// (membership of the natural loop of h: s reaches a back-edge source without passing
		// h - the exit of an inner loop reaches h again only through the enclosing loop)
		inBody := false
		for _, p := range h.Preds {
			if h.Dominates(p) && (s == p || reachesAvoiding(s, p, h)) {
				inBody = true
			}
		}
		if !inBody {
			continue
		}
		if !mustPassFrom(fn, s, func(i ssa.Instruction) bool { return set[i] }, func(b *ssa.BasicBlock) bool { return b == h }) {
			return false
		}
	}
	return true
}

func liftTo(ev *Event, top *Frame) ssa.Instruction {
	var s ssa.Instruction = ev.Site
	for f := ev.Fr; f != nil; f = f.Parent {
		if f == top {
			return s
		}
		if f.Call == nil {
			return nil
		}
		s = f.Call
	}
	return nil
}

func rootFrame(fr *Frame) *Frame {
	for fr.Parent != nil {
		fr = fr.Parent
	}
	return fr
}

func runC18(cx *Ctx, r *Report) {
	r.Explanation = "F3/F1/F5 for the random module. (dequeue) in the begin blocker every iteration over the queue of the previous height deletes the entry it handles on every path of the loop body (both the plain and the oracle branch), under the key (previous height, request id). (fulfil once) on the plain branch the result write and the dequeue execute together; the request id is GenerateRequestID(request). In the response callback the result write is followed, must-executed, by the delete of the pending oracle request, and every early exit that gives up also deletes it. (provenance) the stored value is FloatString(20) of GetRand() of a generator built from the block header's AppHash, the block time, the request's consumer and the oracle seed only. (range) GetRand returns SetFrac(x mod P, P) with one and the same P = 10^20, so the value is in [0,1) with 20 digits by construction; no clock or global randomness feeds it (C11's slice rule). (read back) results are written under RandomKey(request id) only by these two sites. (due height) RequestRandom queues the request under exactly current height + msg.BlockInterval and the begin blocker serves the queue of the previous height, so fulfilment is in the block following h+n. Decides structure; statistical quality is not decided."
	r.Assumptions = []string{"SHA-256 and big.Int arithmetic are deterministic", "the service module delivers at most one response callback per batch (C08)"}
	per := collectEvents(cx, r, "random", "abci", "callback", "msg")
	// ---------------- begin blocker
	{
		evs := per["BeginBlock"]
		// the general per-entry rule of C13, restricted to the random queue: it follows the
		// per-entry body wherever it is spelled (loop body, callback handed to a walker)
		sharedDeq, sharedDrain := false, false
		{
			sub := newReport("C18", r.Tier)
			walks := map[string]*c13Walk{}
			cx.c13DequeueRule(sub, func(e Entry) *c13Walk {
				k := entryKey(&e)
				if walks[k] == nil {
					ee := e
					walks[k] = cx.c13WalkEntry(&ee, sub)
				}
				return walks[k]
			}, func(q c13Queue) bool { return q.mod == "random" })
			bad := map[string]bool{}
			for _, v := range sub.Viols {
				bad[v.Rule] = true
			}
			clean := len(sub.ToolErrs) == 0
			sharedDeq = clean && sub.ruleCount["dequeue"] > 0 && !bad["dequeue"]
			sharedDrain = clean && sub.ruleCount["drain-complete"] > 0 && !bad["drain-complete"]
		}
		deq := pick(evs, "store.delete", func(x hev) bool { return hasPrefix(x.ev, rndQueue) })
		set := pick(evs, "store.set", func(x hev) bool { return hasPrefix(x.ev, rndResult) })
		iter := pick(evs, "store.iter", func(x hev) bool { return hasPrefix(x.ev, rndQueue) })
		ok := len(deq) == 2 && len(set) == 1 && len(iter) >= 1
		if ok {
			// lift the dequeues to the frame that holds the loop
			var top *Frame
			for f := deq[0].ev.Fr; f != nil; f = f.Parent {
				if s := liftTo(deq[0].ev, f); s != nil && inLoop(s.Block()) {
					top = f
					break
				}
			}
			okLoop := false
			if top != nil {
				s1, s2 := liftTo(deq[0].ev, top), liftTo(deq[1].ev, top)
				okLoop = s1 != nil && s2 != nil && perIterationMust([]ssa.Instruction{s1, s2})
			}
			r.check(okLoop || sharedDeq, "dequeue-every-iteration", "BeginBlock", deq[0].ev.Pos(cx), "every path through the begin blocker's loop body deletes the queue entry being handled", "a path through the begin blocker's loop body does not dequeue the handled request: it would be handled again or never")
			// the loop drains the whole bucket: its only exit is the iterator running out. The
			// bucket of a height is looked at in one block only, so whatever a break or an
			// early return leaves behind is never served. The loop holding the dequeues must be
			// the loop that walks the iterator, or the range over a snapshot of the bucket
			// taken by a read-only collector that appends every entry.
			if top == nil && sharedDeq {
				r.check(sharedDrain, "drain-complete", "BeginBlock", deq[0].ev.Pos(cx), "the walk over the due requests ends only when the iterator is exhausted (the per-entry callback never asks to stop)", "the walk over the due requests can end early: the remaining requests of that height are never looked at again (only the previous height's bucket is scanned) - they get no result and stay queued forever")
			}
			if top != nil {
				s1 := liftTo(deq[0].ev, top)
				h := loopHeaderOf(s1.Block())
				loopFr, lh, consumer, ch, shapeOK := cx.iterationConsumer(iter[0].ev.Fr)
				early := ""
				okTie := shapeOK && h != nil && consumer == top && ch == h
				if !okTie {
					early = "the loop holding the dequeues is not the loop over the queue iterator or its snapshot"
				} else {
					early, _ = cx.loopEarlyExit(loopFr.Fn, lh)
					if consumer != loopFr && early == "" {
						early, _ = cx.loopEarlyExit(consumer.Fn, ch)
					}
				}
				r.check(okTie && early == "", "drain-complete", "BeginBlock", deq[0].ev.Pos(cx), "the loop over the due requests is left only when the iterator is exhausted", "the begin blocker leaves the loop over the due requests early ("+early+"): the remaining requests of that height are never looked at again (only the previous height's bucket is scanned) - they get no result and stay queued forever")
			}
			k0 := deq[0].ev.Args[0].LooseString()
			okKey := strings.Contains(k0, "(sdk.Context.BlockHeight() - 1)") && strings.Contains(k0, "random/types.GenerateRequestID(") && deq[1].ev.Args[0].LooseString() == k0 &&
				strings.Contains(iter[0].ev.Args[len(iter[0].ev.Args)-1].LooseString(), "(sdk.Context.BlockHeight() - 1)")
			r.check(okKey, "dequeue-key", "BeginBlock", deq[0].ev.Pos(cx), "the queue is iterated at height−1 and entries are deleted under (height−1, GenerateRequestID(request))", "iteration height and dequeue key disagree: "+k0)
			okSet := coExecutedInLoop(set[0].ev, deq) && strings.Contains(set[0].ev.Args[0].LooseString(), "random/types.GenerateRequestID(")
			r.check(okSet, "fulfil-with-dequeue", "BeginBlock", set[0].ev.Pos(cx), "on the plain branch the result is written under the request id in the same straight-line region as the dequeue", "the plain branch does not write the result together with the dequeue")
			cx.c18Provenance(r, set[0], "BeginBlock", false)
		} else {
			r.violate("dequeue-every-iteration", "BeginBlock", "", fmt.Sprintf("begin blocker events: %d dequeues (2), %d result writes (1), %d queue iterations (≥1)", len(deq), len(set), len(iter)))
		}
	}
	// ---------------- response callback
	{
		evs := per["RegisterResponseCallback"]
		set := pick(evs, "store.set", func(x hev) bool { return hasPrefix(x.ev, rndResult) })
		del := pick(evs, "store.delete", func(x hev) bool { return hasPrefix(x.ev, rndOracle) })
		ok := len(set) == 1 && len(del) >= 2
		if ok {
			// the delete that follows the write
			var after *hev
			for i := range del {
				if orderedBefore(set[0].ev, del[i].ev) {
					after = &del[i]
				}
			}
			okAfter := after != nil && coExecuted(set[0].ev, after.ev) && strings.Contains(after.ev.Args[0].LooseString(), "requestContextID")
			r.check(okAfter, "oracle-fulfil-once", "response callback", set[0].ev.Pos(cx), "the result write is followed, on every path, by the delete of the pending oracle request of the same context id", "the oracle result can be written without deleting the pending request (a second response would fulfil it again)")
			_, g1 := set[0].fact(false, "(len(responseOutput) == 0)")
			_, g2 := set[0].fact(true, "random/keeper.Keeper.GetOracleRandRequest(keeper, requestContextID) : err==nil")
			r.check(g1 && g2, "oracle-guards", "response callback", set[0].ev.Pos(cx), "the result is written only for a non-empty response and a pending request found under the context id", "oracle result written without the non-empty-response / pending-request facts")
			cx.c18Provenance(r, set[0], "response callback", true)
		} else {
			r.violate("oracle-fulfil-once", "response callback", "", fmt.Sprintf("response callback events: %d result writes (1), %d pending-request deletes (≥2)", len(set), len(del)))
		}
	}
	// ---------------- result writers: closed world
	nw := 0
	for _, f := range cx.P.AllFuncs {
		if !isConsensusCode(cx, f) {
			continue
		}
		for _, p := range cx.primsOf(f) {
			if p.Kind == "store.set" && len(p.Prefix) == 1 && p.Prefix[0] == rndResult {
				nw++
				callers := cx.CallersOf(f)
				okC := len(callers) == 2
				r.check(okC, "result-writers", "0x01", cx.P.Pos(p.Site.Pos()), "the result prefix has one writer function, called from exactly the two fulfilment sites", fmt.Sprintf("the result writer has %d call sites (expected the begin blocker and the response callback)", len(callers)))
			}
			if p.Kind == "store.delete" && len(p.Prefix) == 1 && p.Prefix[0] == rndResult {
				r.violate("result-writers", "0x01|delete", cx.P.Pos(p.Site.Pos()), "a stored result can be deleted in "+shortFn(f))
			}
		}
	}
	if nw != 1 {
		r.toolErr("%d writers of the result prefix (1 confirmed)", nw)
	}
	// ---------------- range by construction
	cx.c18Range(r)
	cx.sharedNumberRule(r, []string{"random"}, "number-not-shared-mutated")
	// ---------------- due height of a new request
	{
		evs := per["RequestRandom"]
		enq := pick(evs, "store.set", func(x hev) bool { return hasPrefix(x.ev, rndQueue) })
		ok := len(enq) == 1
		pos, got := "", ""
		if ok {
			pos = enq[0].ev.Pos(cx)
			got = qKeyArg(enq[0].ev, 0)
			ok = got == "(sdk.Context.BlockHeight() + msg.BlockInterval)" && enq[0].must()
			if ok {
				// the stored request and the returned / emitted height use the same value
				req := findSub(enq[0].ev.Args[1], func(t *Term) bool { return t.Op == "struct" && t.Name == "Request" })
				_ = req
			}
		}
		cx.randomDueNoWrap(r, enq)
		r.check(ok, "due-height", "RequestRandom", pos, "a request made at height h with interval n is queued, on every successful path, under exactly h + n (the begin blocker of h+n+1 serves the queue of the previous height)", fmt.Sprintf("the request is queued under %q (expected exactly current height + msg.BlockInterval, on every successful path; %d enqueue sites)", got, len(enq)))
	}
	r.requireCount("due-height", 1)
	r.requireCount("prng-provenance", 2)
	r.requireCount("range-by-construction", 1)
}

// randomDueNoWrap: the due height of a new random request must not wrap (shared by
// C18, which owns the request's due height, and C13, whose "one entry at its due
// height" fails when the entry lands on a height that is already past).
func (cx *Ctx) randomDueNoWrap(r *Report, enq []hev) {
	// the due height must not wrap: msg.BlockInterval is an unsigned 64-bit value that
	// is converted to a signed height and added to the current one. Unguarded, an
	// interval ≥ 2^63 − h queues the request under a height that is already past (or
	// negative): it is never served and never leaves the queue.
	if len(enq) == 1 {
		conv := ""
		for f := enq[0].ev.Fr; f != nil && conv == ""; f = f.Parent {
			for _, b := range f.Fn.Blocks {
				for _, ins := range b.Instrs {
					cv, isC := ins.(*ssa.Convert)
					if !isC {
						continue
					}
					from, ok1 := cv.X.Type().Underlying().(*types.Basic)
					to, ok2 := cv.Type().Underlying().(*types.Basic)
					if ok1 && ok2 && from.Info()&types.IsUnsigned != 0 && to.Info()&types.IsInteger != 0 && to.Info()&types.IsUnsigned == 0 {
						if _, isP := cv.X.(*ssa.Parameter); isP {
							conv = cx.P.Pos(cv.Pos())
						}
					}
				}
			}
		}
		guard := ""
		if conv != "" {
			guard = noWrapFact(enq[0].w.FactsAt(enq[0].ev.Fr, enq[0].ev.Site), "(sdk.Context.BlockHeight() + msg.BlockInterval)", "sdk.Context.BlockHeight()", "msg.BlockInterval")
		}
		r.check(conv == "" || guard != "", "due-height-no-wrap", "RequestRandom", enq[0].ev.Pos(cx), "the unsigned interval is converted to a signed height under the guard "+guard, "the unsigned msg.BlockInterval is converted to a signed height at "+conv+" and added to the current height with no bound or wrap-around check: an interval ≥ 2^63 − h queues the request under a past or negative height, where no begin blocker ever looks - it is never fulfilled and never leaves the queue")
	}
}

// coExecutedInLoop: a and one of bs are in the same frame/function region where
// one dominates the other (same branch of the loop body).
func coExecutedInLoop(a *Event, bs []hev) bool {
	for _, b := range bs {
		if orderedBefore(a, b.ev) || orderedBefore(b.ev, a) {
			return true
		}
	}
	return false
}

func (cx *Ctx) c18Provenance(r *Report, set hev, where string, oracle bool) {
	v := set.ev.Args[1]
	v = set.w.expandCalls(set.ev.Fr, v, 3)
	s := v.LooseString()
	okShape := strings.Contains(s, "big.Rat.FloatString(") && strings.HasSuffix(strings.TrimRight(s, ")"), ", 20") && (strings.Contains(s, ".GetRand(") || strings.Contains(s, "big.Rat.SetFrac("))
	okIn := strings.Contains(s, "sdk.Context.BlockHeader().AppHash") && strings.Contains(s, "sdk.Context.BlockTime()") && strings.Contains(s, ".Consumer")
	if oracle {
		okIn = okIn && strings.Contains(s, "hex.DecodeString(") && strings.Contains(s, "responseOutput[0]")
	}
	// no other producers: every call in the term is from an allowed set
	bad := ""
	var walk func(t *Term)
	walk = func(t *Term) {
		if t == nil {
			return
		}
		if t.Op == "call" && (strings.HasPrefix(t.Name, "out:codec.") || strings.HasPrefix(t.Name, "random/keeper.Keeper.GetOracleRandRequest")) {
			return // the stored request record itself: its fields (consumer) are the requester's data
		}
		if t.Op == "index" && len(t.Args) > 0 && t.Args[0].Op == "alloc" && strings.HasPrefix(t.Args[0].Name, "map") && bad == "" {
			// a value looked up in a map the handler fills as it goes (a memo keyed by tx hash,
			// height, ...): it was computed for ANOTHER request, from that request's inputs
			bad = "a value carried over from another request in a local map (" + trunc(t.LooseString(), 80) + ")"
		}
		if t.Op == "call" && cx.c18RequestReader(t) {
			return // a read-only getter of the request stores: the stored request record again
		}
		if t.Op == "call" {
			n := t.Name
			allowed := n == "sdk.Context.BlockHeader" || n == "sdk.Context.BlockTime" || strings.HasPrefix(n, "random/types.") || strings.HasPrefix(n, "random/keeper.Keeper.GetOracleRandRequest") || strings.HasPrefix(n, "big.") || strings.HasPrefix(n, "time.Time.Unix") ||
				strings.HasPrefix(n, "codec.") || strings.HasPrefix(n, "out:codec.") || strings.HasPrefix(n, "cosmos-db.Iterator.") || strings.HasPrefix(n, "random/keeper.Keeper.IterateRandomRequestQueueByHeight") || strings.HasPrefix(n, "storetypes.") || n == "addr" || n == "str" || strings.HasPrefix(n, "hex.") || strings.HasPrefix(n, "gjson.") || strings.HasPrefix(n, "proto.Header") || strings.HasPrefix(n, "types.Header") || n == "varargs" || n == "append" || n == "len" || n == "cap" || strings.HasPrefix(n, "bytes.HexBytes")
			if !allowed && bad == "" {
				bad = n
			}
		}
		for _, a := range t.Args {
			walk(a)
		}
	}
	// judge the producers of the Value field only (Height legitimately uses the block height)
	if st := findSub(v, func(t *Term) bool { return t.Op == "struct" && t.Name == "Random" }); st != nil {
		for i := 0; i+1 < len(st.Args); i += 2 {
			if st.Args[i].Name == "Value" {
				walk(st.Args[i+1])
			}
		}
	} else {
		walk(v)
	}
	r.check(okShape && okIn && bad == "", "prng-provenance", where, set.ev.Pos(cx), "the stored value is FloatString(20) of GetRand() over {AppHash of the block header, block time, the request's consumer"+map[bool]string{true: ", the seed decoded from the response", false: ""}[oracle]+"} only", "stored random value does not have the expected provenance (shape "+fmt.Sprint(okShape)+", inputs "+fmt.Sprint(okIn)+", foreign producer "+bad+"): "+trunc(s, 300))
}

// c18Range: in the GetRand implementation, SetFrac(Mod(_, P), P) with one P = 10^RandPrec.
func (cx *Ctx) c18Range(r *Report) {
	found := false
	for _, f := range cx.P.AllFuncs {
		if moduleOf(funcPkgPath(f)) != "random" || f.Name() != "GetRand" || f.Signature.Recv() == nil {
			continue
		}
		for _, b := range f.Blocks {
			for _, ins := range b.Instrs {
				c, ok := ins.(*ssa.Call)
				if !ok {
					continue
				}
				if pkg, name := calleeName(c.Common()); pkg != "math/big" || name != "Rat.SetFrac" {
					continue
				}
				found = true
				args := c.Common().Args
				num, den := args[1], args[2]
				// a modulus kept in a package-level variable that is computed once and never
				// assigned again is one value wherever it is loaded
				resolve := func(v ssa.Value) ssa.Value {
					if iv := cx.initOnceValue(v); iv != nil {
						return iv
					}
					return v
				}
				den = resolve(den)
				ok2 := false
				why := ""
				if m, ok := num.(*ssa.Call); ok {
					if pkg, name := calleeName(m.Common()); pkg == "math/big" && name == "Int.Mod" {
						if resolve(m.Common().Args[2]) == den {
							ok2 = true
						} else {
							why = "the modulus and the denominator are different values"
						}
					} else {
						why = "the numerator is not x mod P"
					}
				} else {
					why = "the numerator is not x mod P"
				}
				// P = 10^20
				okP := false
				if e, ok := den.(*ssa.Call); ok {
					if pkg, name := calleeName(e.Common()); pkg == "math/big" && name == "Int.Exp" {
						a := e.Common().Args
						okP = bigConst(a[1]) == "10" && bigConst(a[2]) == "20"
					}
				}
				r.check(ok2 && okP, "range-by-construction", "GetRand", cx.P.Pos(c.Pos()), "GetRand returns SetFrac(x mod P, P) with the same P = 10^20: a value in [0,1) with at most 20 decimal digits", "GetRand does not return (x mod P)/P with one P = 10^20: "+why)
			}
		}
	}
	if !found {
		r.toolErr("no big.Rat.SetFrac call found in a GetRand method of the random module")
	}
}

// bigConst: v is big.NewInt(c) → c.
func bigConst(v ssa.Value) string {
	c, ok := v.(*ssa.Call)
	if !ok {
		return ""
	}
	if pkg, name := calleeName(c.Common()); pkg != "math/big" || name != "NewInt" {
		return ""
	}
	a := c.Common().Args[0]
	if cv, ok := a.(*ssa.Convert); ok {
		a = cv.X
	}
	if k, ok := a.(*ssa.Const); ok && k.Value != nil && k.Value.Kind() == constant.Int {
		return k.Value.ExactString()
	}
	return ""
}

// c18RequestReader: the call is to a function that does nothing but read the queue /
// pending-oracle-request prefixes of the random store (a getter or snapshot of the
// stored requests).
func (cx *Ctx) c18RequestReader(t *Term) bool {
	c := t.src
	if c == nil {
		return false
	}
	f := c.Common().StaticCallee()
	if f == nil || f.Blocks == nil || moduleOf(funcPkgPath(f)) != "random" {
		return false
	}
	n := 0
	for _, g := range cx.Reachable([]*ssa.Function{f}, nil).Order {
		if g.Blocks == nil {
			continue
		}
		for _, p := range cx.primsOf(g) {
			switch p.Kind {
			case "store.get", "store.has", "store.iter", "store.riter":
				for _, px := range p.Prefix {
					if px != rndQueue && px != rndOracle {
						return false
					}
				}
				n++
			default:
				return false
			}
		}
	}
	return n > 0
}

// noWrapFact: among the facts one that excludes wrap-around of sum = base + n:
// ¬(sum < base) (in any of its spellings), or a constant upper bound n ≤ K, K ≤ 2^62.
func noWrapFact(facts []FactT, sum, base, n string) string {
	for _, ft := range facts {
		t := ft.Text
		if isOutcomeFact(t) || !strings.HasPrefix(t, "(") || !strings.HasSuffix(t, ")") {
			continue
		}
		t = t[1 : len(t)-1]
		for _, op := range []string{" < ", " <= ", " > ", " >= "} {
			parts := splitTopLevelOp(t, op)
			if parts == nil {
				continue
			}
			l, rr := parts[0], parts[1]
			o := strings.TrimSpace(op)
			if !ft.Holds { // negate
				o = map[string]string{"<": ">=", "<=": ">", ">": "<=", ">=": "<"}[o]
			}
			// normalise to l o r with o in {<=, <} by mirroring
			if o == ">" || o == ">=" {
				l, rr = rr, l
				o = map[string]string{">": "<", ">=": "<="}[o]
			}
			// now: l < r or l <= r
			if l == base && rr == sum && o == "<=" {
				return ft.String()
			}
			if l == n {
				if k, ok := new(big.Int).SetString(rr, 10); ok && k.Sign() >= 0 && k.BitLen() <= 62 {
					return ft.String()
				}
			}
		}
	}
	return ""
}

// splitTopLevelOp splits "a op b" at the one depth-0 occurrence of op.
func splitTopLevelOp(s, op string) []string {
	depth := 0
	for i := 0; i+len(op) <= len(s); i++ {
		switch s[i] {
		case '(', '[', '{':
			depth++
		case ')', ']', '}':
			depth--
		}
		if depth == 0 && strings.HasPrefix(s[i:], op) {
			return []string{s[:i], s[i+len(op):]}
		}
	}
	return nil
}
