package main

// A small proto3 skeleton parser (messages, fields, enums, services, options)
// and its comparison with a decoded FileDescriptorProto.

import (
	"fmt"
	"sort"
	"strconv"
	"strings"

	"google.golang.org/protobuf/encoding/protowire"
	"google.golang.org/protobuf/proto"
	"google.golang.org/protobuf/types/descriptorpb"
)

type protoFile struct {
	pkg, syntax string
	imports     []string
	messages    []*protoMessage
	enums       []*protoEnum
	services    []*protoService
}
type protoMessage struct {
	name, full, pkg string
	fields          []*protoField
	nested          []*protoMessage
	enums           []*protoEnum
	signers         []string
	oneofs          []string
	nopts           int
}
type protoField struct {
	name, typ          string
	number             int
	repeated, optional bool
	mapKey, mapVal     string
	oneof              string
	opts               string // raw text between [ ]
	optLits            []string
	nopts              int
}
type protoEnum struct {
	name, full string
	values     []protoEnumValue
}
type protoEnumValue struct {
	name   string
	number int
}
type protoService struct {
	name       string
	msgService bool
	rpcs       []protoRPC
}
type protoRPC struct{ name, in, out string }

func (p *protoFile) allMessages() []*protoMessage {
	var out []*protoMessage
	var rec func(m *protoMessage)
	rec = func(m *protoMessage) {
		out = append(out, m)
		for _, n := range m.nested {
			rec(n)
		}
	}
	for _, m := range p.messages {
		rec(m)
	}
	return out
}

type ptok struct {
	kind string // ident, int, str, sym
	val  string
	line int
}

func lexProto(src string) ([]ptok, error) {
	var toks []ptok
	line := 1
	i := 0
	for i < len(src) {
		c := src[i]
		switch {
		case c == '\n':
			line++
			i++
		case c == ' ' || c == '\t' || c == '\r':
			i++
		case c == '/' && i+1 < len(src) && src[i+1] == '/':
			for i < len(src) && src[i] != '\n' {
				i++
			}
		case c == '/' && i+1 < len(src) && src[i+1] == '*':
			j := strings.Index(src[i+2:], "*/")
			if j < 0 {
				return nil, fmt.Errorf("line %d: unterminated comment", line)
			}
			line += strings.Count(src[i:i+2+j+2], "\n")
			i += 2 + j + 2
		case c == '"' || c == '\'':
			j := i + 1
			var sb strings.Builder
			for j < len(src) && src[j] != c {
				if src[j] == '\\' && j+1 < len(src) {
					sb.WriteByte(src[j+1])
					j += 2
					continue
				}
				if src[j] == '\n' {
					line++
				}
				sb.WriteByte(src[j])
				j++
			}
			if j >= len(src) {
				return nil, fmt.Errorf("line %d: unterminated string", line)
			}
			toks = append(toks, ptok{"str", sb.String(), line})
			i = j + 1
		case c >= '0' && c <= '9' || (c == '-' && i+1 < len(src) && src[i+1] >= '0' && src[i+1] <= '9'):
			j := i + 1
			for j < len(src) && (src[j] >= '0' && src[j] <= '9' || src[j] == 'x' || src[j] == '.' || (src[j] >= 'a' && src[j] <= 'f') || (src[j] >= 'A' && src[j] <= 'F')) {
				j++
			}
			toks = append(toks, ptok{"int", src[i:j], line})
			i = j
		case c == '_' || (c >= 'a' && c <= 'z') || (c >= 'A' && c <= 'Z') || c == '.':
			j := i + 1
			for j < len(src) && (src[j] == '_' || src[j] == '.' || (src[j] >= 'a' && src[j] <= 'z') || (src[j] >= 'A' && src[j] <= 'Z') || (src[j] >= '0' && src[j] <= '9')) {
				j++
			}
			toks = append(toks, ptok{"ident", src[i:j], line})
			i = j
		default:
			toks = append(toks, ptok{"sym", string(c), line})
			i++
		}
	}
	return toks, nil
}

type pparser struct {
	toks []ptok
	pos  int
}

func (p *pparser) peek() ptok {
	if p.pos < len(p.toks) {
		return p.toks[p.pos]
	}
	return ptok{"eof", "", -1}
}
func (p *pparser) next() ptok { t := p.peek(); p.pos++; return t }
func (p *pparser) expect(val string) error {
	t := p.next()
	if t.val != val {
		return fmt.Errorf("line %d: expected %q, found %q", t.line, val, t.val)
	}
	return nil
}
func (p *pparser) skipTo(val string) {
	depth := 0
	for p.pos < len(p.toks) {
		t := p.next()
		if t.kind == "sym" {
			switch t.val {
			case "{", "[", "(":
				depth++
			case "}", "]", ")":
				depth--
			}
		}
		if depth <= 0 && t.val == val {
			return
		}
	}
}

// parseOptionName parses "(a.b).c" or "name" and returns its text.
func (p *pparser) parseOptionName() string {
	var sb strings.Builder
	for {
		t := p.peek()
		if t.val == "(" {
			p.next()
			sb.WriteString("(" + p.next().val + ")")
			p.next() // )
		} else if t.kind == "ident" {
			sb.WriteString(p.next().val)
		} else {
			break
		}
	}
	return sb.String()
}

// parseConst consumes an option value (scalar, or { ... } aggregate) and returns literal strings in it.
func (p *pparser) parseConst() (string, []string) {
	t := p.peek()
	if t.val == "{" {
		start := p.pos
		p.skipTo("}")
		var lits []string
		var sb strings.Builder
		for _, tk := range p.toks[start:p.pos] {
			sb.WriteString(tk.val + " ")
			if tk.kind == "str" {
				lits = append(lits, tk.val)
			}
		}
		return sb.String(), lits
	}
	p.next()
	val := t.val
	var lits []string
	if t.kind == "str" {
		// adjacent string literals concatenate
		for p.peek().kind == "str" {
			val += p.next().val
		}
		lits = append(lits, val)
	}
	return val, lits
}

func parseProto(src string) (*protoFile, error) {
	toks, err := lexProto(src)
	if err != nil {
		return nil, err
	}
	p := &pparser{toks: toks}
	f := &protoFile{}
	for p.peek().kind != "eof" {
		t := p.next()
		switch t.val {
		case "syntax":
			p.expect("=")
			f.syntax = p.next().val
			p.expect(";")
		case "package":
			f.pkg = p.next().val
			p.expect(";")
		case "import":
			if n := p.peek(); n.val == "public" || n.val == "weak" {
				p.next()
			}
			f.imports = append(f.imports, p.next().val)
			p.expect(";")
		case "option":
			p.skipTo(";")
		case "message":
			m, err := p.parseMessage(f.pkg, f.pkg)
			if err != nil {
				return nil, err
			}
			f.messages = append(f.messages, m)
		case "enum":
			e, err := p.parseEnum(f.pkg)
			if err != nil {
				return nil, err
			}
			f.enums = append(f.enums, e)
		case "service":
			s, err := p.parseService()
			if err != nil {
				return nil, err
			}
			f.services = append(f.services, s)
		case ";":
		default:
			return nil, fmt.Errorf("line %d: unexpected top-level token %q", t.line, t.val)
		}
	}
	if f.syntax != "proto3" {
		return nil, fmt.Errorf("syntax is %q, only proto3 is supported", f.syntax)
	}
	return f, nil
}

func (p *pparser) parseFieldOptions(fl *protoField) {
	if p.peek().val != "[" {
		return
	}
	start := p.pos
	p.next()
	for {
		p.parseOptionName()
		if p.peek().val == "=" {
			p.next()
			_, lits := p.parseConst()
			fl.optLits = append(fl.optLits, lits...)
		}
		fl.nopts++
		if p.peek().val == "," {
			p.next()
			continue
		}
		break
	}
	if p.peek().val == "]" {
		p.next()
	}
	var sb strings.Builder
	for _, tk := range p.toks[start:p.pos] {
		sb.WriteString(tk.val)
		sb.WriteString(" ")
	}
	fl.opts = sb.String()
}

func (p *pparser) parseMessage(pkg, prefix string) (*protoMessage, error) {
	name := p.next().val
	m := &protoMessage{name: name, full: prefix + "." + name, pkg: pkg}
	if err := p.expect("{"); err != nil {
		return nil, err
	}
	for {
		t := p.peek()
		if t.kind == "eof" {
			return nil, fmt.Errorf("unexpected end of file in message %s", name)
		}
		if t.val == "}" {
			p.next()
			return m, nil
		}
		switch t.val {
		case ";":
			p.next()
		case "option":
			p.next()
			oname := p.parseOptionName()
			p.expect("=")
			val, _ := p.parseConst()
			p.expect(";")
			m.nopts++
			if oname == "(cosmos.msg.v1.signer)" {
				m.signers = append(m.signers, val)
			}
		case "message":
			p.next()
			n, err := p.parseMessage(pkg, m.full)
			if err != nil {
				return nil, err
			}
			m.nested = append(m.nested, n)
		case "enum":
			p.next()
			e, err := p.parseEnum(m.full)
			if err != nil {
				return nil, err
			}
			m.enums = append(m.enums, e)
		case "reserved", "extensions":
			p.skipTo(";")
		case "oneof":
			p.next()
			oname := p.next().val
			m.oneofs = append(m.oneofs, oname)
			p.expect("{")
			for p.peek().val != "}" {
				if p.peek().val == "option" {
					p.skipTo(";")
					continue
				}
				fl, err := p.parseField()
				if err != nil {
					return nil, err
				}
				fl.oneof = oname
				m.fields = append(m.fields, fl)
			}
			p.next()
		default:
			fl, err := p.parseField()
			if err != nil {
				return nil, err
			}
			m.fields = append(m.fields, fl)
		}
	}
}

func (p *pparser) parseField() (*protoField, error) {
	fl := &protoField{}
	t := p.next()
	switch t.val {
	case "repeated":
		fl.repeated = true
		t = p.next()
	case "optional":
		fl.optional = true
		t = p.next()
	}
	if t.val == "map" {
		p.expect("<")
		fl.mapKey = p.next().val
		p.expect(",")
		fl.mapVal = p.next().val
		p.expect(">")
		fl.typ = "map"
		fl.repeated = true
	} else {
		if t.kind != "ident" {
			return nil, fmt.Errorf("line %d: expected a field type, found %q", t.line, t.val)
		}
		fl.typ = t.val
	}
	fl.name = p.next().val
	if err := p.expect("="); err != nil {
		return nil, err
	}
	nt := p.next()
	n, err := strconv.Atoi(nt.val)
	if err != nil {
		return nil, fmt.Errorf("line %d: bad field number %q", nt.line, nt.val)
	}
	fl.number = n
	p.parseFieldOptions(fl)
	if err := p.expect(";"); err != nil {
		return nil, err
	}
	return fl, nil
}

func (p *pparser) parseEnum(prefix string) (*protoEnum, error) {
	name := p.next().val
	e := &protoEnum{name: name, full: prefix + "." + name}
	if err := p.expect("{"); err != nil {
		return nil, err
	}
	for p.peek().val != "}" {
		t := p.peek()
		if t.kind == "eof" {
			return nil, fmt.Errorf("unexpected end of file in enum %s", name)
		}
		if t.val == "option" || t.val == "reserved" {
			p.skipTo(";")
			continue
		}
		if t.val == ";" {
			p.next()
			continue
		}
		vname := p.next().val
		if err := p.expect("="); err != nil {
			return nil, err
		}
		nt := p.next()
		n, err := strconv.Atoi(nt.val)
		if err != nil {
			return nil, fmt.Errorf("line %d: bad enum number %q", nt.line, nt.val)
		}
		if p.peek().val == "[" {
			p.skipTo("]")
		}
		p.expect(";")
		e.values = append(e.values, protoEnumValue{vname, n})
	}
	p.next()
	return e, nil
}

func (p *pparser) parseService() (*protoService, error) {
	s := &protoService{name: p.next().val}
	if err := p.expect("{"); err != nil {
		return nil, err
	}
	for p.peek().val != "}" {
		t := p.next()
		switch t.val {
		case "option":
			oname := p.parseOptionName()
			p.expect("=")
			val, _ := p.parseConst()
			p.expect(";")
			if oname == "(cosmos.msg.v1.service)" && val == "true" {
				s.msgService = true
			}
		case "rpc":
			rpc := protoRPC{name: p.next().val}
			p.expect("(")
			if p.peek().val == "stream" {
				p.next()
			}
			rpc.in = p.next().val
			p.expect(")")
			p.expect("returns")
			p.expect("(")
			if p.peek().val == "stream" {
				p.next()
			}
			rpc.out = p.next().val
			p.expect(")")
			if p.peek().val == "{" {
				p.skipTo("}")
			} else {
				p.expect(";")
			}
			s.rpcs = append(s.rpcs, rpc)
		case ";":
		case "":
			return nil, fmt.Errorf("unexpected end of file in service %s", s.name)
		default:
			return nil, fmt.Errorf("line %d: unexpected token %q in service", t.line, t.val)
		}
	}
	p.next()
	return s, nil
}

// ---------------------------------------------------------------- comparison

type protoDiff struct{ key, msg string }

var scalarTypes = map[string]descriptorpb.FieldDescriptorProto_Type{
	"double": descriptorpb.FieldDescriptorProto_TYPE_DOUBLE, "float": descriptorpb.FieldDescriptorProto_TYPE_FLOAT,
	"int64": descriptorpb.FieldDescriptorProto_TYPE_INT64, "uint64": descriptorpb.FieldDescriptorProto_TYPE_UINT64,
	"int32": descriptorpb.FieldDescriptorProto_TYPE_INT32, "fixed64": descriptorpb.FieldDescriptorProto_TYPE_FIXED64,
	"fixed32": descriptorpb.FieldDescriptorProto_TYPE_FIXED32, "bool": descriptorpb.FieldDescriptorProto_TYPE_BOOL,
	"string": descriptorpb.FieldDescriptorProto_TYPE_STRING, "bytes": descriptorpb.FieldDescriptorProto_TYPE_BYTES,
	"uint32": descriptorpb.FieldDescriptorProto_TYPE_UINT32, "sfixed32": descriptorpb.FieldDescriptorProto_TYPE_SFIXED32,
	"sfixed64": descriptorpb.FieldDescriptorProto_TYPE_SFIXED64, "sint32": descriptorpb.FieldDescriptorProto_TYPE_SINT32,
	"sint64": descriptorpb.FieldDescriptorProto_TYPE_SINT64,
}

// unknown/extension entries of an options message: number -> values (bytes payloads as strings)
func optionEntries(m proto.Message) (n int, byNum map[protowire.Number][]string) {
	byNum = map[protowire.Number][]string{}
	b, _ := proto.MarshalOptions{Deterministic: true}.Marshal(m)
	for len(b) > 0 {
		num, typ, k := protowire.ConsumeTag(b)
		if k < 0 {
			return
		}
		b = b[k:]
		l := protowire.ConsumeFieldValue(num, typ, b)
		if l < 0 {
			return
		}
		val := b[:l]
		b = b[l:]
		n++
		if typ == protowire.BytesType {
			bs, _ := protowire.ConsumeBytes(val)
			byNum[num] = append(byNum[num], string(bs))
		} else {
			byNum[num] = append(byNum[num], fmt.Sprintf("%x", val))
		}
	}
	return
}

func typeMatches(protoType, descTypeName string) bool {
	pt := strings.TrimPrefix(protoType, ".")
	dt := strings.TrimPrefix(descTypeName, ".")
	return dt == pt || strings.HasSuffix(dt, "."+pt)
}

func camelEntry(name string) string {
	var sb strings.Builder
	up := true
	for _, c := range name {
		if c == '_' {
			up = true
			continue
		}
		if up {
			sb.WriteString(strings.ToUpper(string(c)))
			up = false
		} else {
			sb.WriteRune(c)
		}
	}
	return sb.String() + "Entry"
}

func compareProtoToDesc(pp *protoFile, fd *descriptorpb.FileDescriptorProto) []protoDiff {
	var diffs []protoDiff
	add := func(key, format string, a ...interface{}) {
		diffs = append(diffs, protoDiff{key, fmt.Sprintf(format, a...)})
	}
	if pp.pkg != fd.GetPackage() {
		add("package", "package %q in .proto, %q in descriptor", pp.pkg, fd.GetPackage())
	}
	// imports
	pi := append([]string{}, pp.imports...)
	di := append([]string{}, fd.GetDependency()...)
	sort.Strings(pi)
	sort.Strings(di)
	if strings.Join(pi, ",") != strings.Join(di, ",") {
		add("imports", "imports differ: .proto [%s] descriptor [%s]", strings.Join(pi, ","), strings.Join(di, ","))
	}
	var cmpEnum func(pe *protoEnum, de *descriptorpb.EnumDescriptorProto)
	cmpEnum = func(pe *protoEnum, de *descriptorpb.EnumDescriptorProto) {
		pv := map[string]int{}
		for _, v := range pe.values {
			pv[v.name] = v.number
		}
		dv := map[string]int{}
		for _, v := range de.GetValue() {
			dv[v.GetName()] = int(v.GetNumber())
		}
		for n, x := range pv {
			if y, ok := dv[n]; !ok {
				add("enumvalue:"+pe.full+"."+n, "enum value %s.%s missing from descriptor", pe.full, n)
			} else if x != y {
				add("enumvalue:"+pe.full+"."+n, "enum value %s.%s is %d in .proto, %d in descriptor", pe.full, n, x, y)
			}
		}
		for n := range dv {
			if _, ok := pv[n]; !ok {
				add("enumvalue:"+pe.full+"."+n, "enum value %s.%s only in descriptor", pe.full, n)
			}
		}
	}
	cmpEnums := func(where string, pes []*protoEnum, des []*descriptorpb.EnumDescriptorProto) {
		dm := map[string]*descriptorpb.EnumDescriptorProto{}
		for _, d := range des {
			dm[d.GetName()] = d
		}
		for _, pe := range pes {
			d := dm[pe.name]
			if d == nil {
				add("enum:"+pe.full, "enum %s missing from descriptor", pe.full)
				continue
			}
			delete(dm, pe.name)
			cmpEnum(pe, d)
		}
		for n := range dm {
			add("enum:"+where+"."+n, "enum %s.%s only in descriptor", where, n)
		}
	}
	var cmpMsg func(pm *protoMessage, dm *descriptorpb.DescriptorProto)
	cmpMsg = func(pm *protoMessage, dm *descriptorpb.DescriptorProto) {
		// options: signer
		nopt, byNum := optionEntries(dm.GetOptions())
		ds := byNum[11110000]
		if strings.Join(ds, ",") != strings.Join(pm.signers, ",") {
			add("signer:"+pm.full, "cosmos.msg.v1.signer of %s is [%s] in .proto, [%s] in descriptor", pm.full, strings.Join(pm.signers, ","), strings.Join(ds, ","))
		}
		if dm.GetOptions() == nil {
			nopt = 0
		}
		if nopt != pm.nopts {
			add("msgopts:"+pm.full, "message %s has %d options in .proto, %d in descriptor", pm.full, pm.nopts, nopt)
		}
		// oneofs (excluding synthetic proto3-optional oneofs)
		var dOne []string
		for _, o := range dm.GetOneofDecl() {
			if !strings.HasPrefix(o.GetName(), "_") {
				dOne = append(dOne, o.GetName())
			}
		}
		if strings.Join(dOne, ",") != strings.Join(pm.oneofs, ",") {
			add("oneofs:"+pm.full, "oneofs of %s: .proto [%s] descriptor [%s]", pm.full, strings.Join(pm.oneofs, ","), strings.Join(dOne, ","))
		}
		df := map[string]*descriptorpb.FieldDescriptorProto{}
		for _, f := range dm.GetField() {
			df[f.GetName()] = f
		}
		nested := map[string]*descriptorpb.DescriptorProto{}
		for _, n := range dm.GetNestedType() {
			nested[n.GetName()] = n
		}
		for _, pf := range pm.fields {
			key := "field:" + pm.full + "." + pf.name
			d := df[pf.name]
			if d == nil {
				add(key, "field %s.%s (= %d) missing from descriptor", pm.full, pf.name, pf.number)
				continue
			}
			delete(df, pf.name)
			if int(d.GetNumber()) != pf.number {
				add(key, "field %s.%s has number %d in .proto, %d in descriptor", pm.full, pf.name, pf.number, d.GetNumber())
			}
			wantRep := pf.repeated
			isRep := d.GetLabel() == descriptorpb.FieldDescriptorProto_LABEL_REPEATED
			if wantRep != isRep {
				add(key, "field %s.%s repeated=%v in .proto, label %s in descriptor", pm.full, pf.name, wantRep, d.GetLabel())
			}
			if pf.optional != d.GetProto3Optional() {
				add(key, "field %s.%s optional=%v in .proto, proto3_optional=%v in descriptor", pm.full, pf.name, pf.optional, d.GetProto3Optional())
			}
			if pf.typ == "map" {
				en := camelEntry(pf.name)
				ent := nested[en]
				if ent == nil || !ent.GetOptions().GetMapEntry() || d.GetType() != descriptorpb.FieldDescriptorProto_TYPE_MESSAGE || !strings.HasSuffix(d.GetTypeName(), "."+en) {
					add(key, "map field %s.%s has no matching map entry type %s in descriptor", pm.full, pf.name, en)
				} else {
					delete(nested, en)
					for i, want := range []string{pf.mapKey, pf.mapVal} {
						ef := ent.GetField()[i]
						if st, ok := scalarTypes[want]; ok {
							if ef.GetType() != st {
								add(key, "map field %s.%s %s type %s in .proto, %s in descriptor", pm.full, pf.name, ef.GetName(), want, ef.GetType())
							}
						} else if !typeMatches(want, ef.GetTypeName()) {
							add(key, "map field %s.%s %s type %s in .proto, %s in descriptor", pm.full, pf.name, ef.GetName(), want, ef.GetTypeName())
						}
					}
				}
			} else if st, ok := scalarTypes[pf.typ]; ok {
				if d.GetType() != st {
					add(key, "field %s.%s has type %s in .proto, %s in descriptor", pm.full, pf.name, pf.typ, d.GetType())
				}
			} else {
				if d.GetType() != descriptorpb.FieldDescriptorProto_TYPE_MESSAGE && d.GetType() != descriptorpb.FieldDescriptorProto_TYPE_ENUM {
					add(key, "field %s.%s has named type %s in .proto, scalar %s in descriptor", pm.full, pf.name, pf.typ, d.GetType())
				} else if !typeMatches(pf.typ, d.GetTypeName()) {
					add(key, "field %s.%s has type %s in .proto, %s in descriptor", pm.full, pf.name, pf.typ, d.GetTypeName())
				}
			}
			// oneof membership
			inOne := d.OneofIndex != nil && !d.GetProto3Optional()
			if (pf.oneof != "") != inOne {
				add(key, "field %s.%s oneof membership differs", pm.full, pf.name)
			} else if inOne && dm.GetOneofDecl()[d.GetOneofIndex()].GetName() != pf.oneof {
				add(key, "field %s.%s is in oneof %s in .proto, %s in descriptor", pm.full, pf.name, pf.oneof, dm.GetOneofDecl()[d.GetOneofIndex()].GetName())
			}
			// options: count and string literals
			no, vals := 0, map[protowire.Number][]string{}
			if d.GetOptions() != nil {
				no, vals = optionEntries(d.GetOptions())
			}
			if no != pf.nopts {
				add(key, "field %s.%s has %d options in .proto, %d in descriptor", pm.full, pf.name, pf.nopts, no)
			}
			for _, lit := range pf.optLits {
				found := false
				for _, vs := range vals {
					for _, v := range vs {
						if v == lit || strings.Contains(v, lit) {
							found = true
						}
					}
				}
				if !found {
					add(key, "field %s.%s option literal %q is not in the descriptor's field options", pm.full, pf.name, lit)
				}
			}
		}
		for n, d := range df {
			add("field:"+pm.full+"."+n, "field %s.%s (= %d) only in descriptor", pm.full, n, d.GetNumber())
		}
		for _, pn := range pm.nested {
			d := nested[pn.name]
			if d == nil {
				add("message:"+pn.full, "message %s missing from descriptor", pn.full)
				continue
			}
			delete(nested, pn.name)
			cmpMsg(pn, d)
		}
		for n, d := range nested {
			if d.GetOptions().GetMapEntry() {
				add("message:"+pm.full+"."+n, "map entry %s.%s only in descriptor", pm.full, n)
			} else {
				add("message:"+pm.full+"."+n, "nested message %s.%s only in descriptor", pm.full, n)
			}
		}
		cmpEnums(pm.full, pm.enums, dm.GetEnumType())
	}
	dmsgs := map[string]*descriptorpb.DescriptorProto{}
	for _, m := range fd.GetMessageType() {
		dmsgs[m.GetName()] = m
	}
	for _, pm := range pp.messages {
		d := dmsgs[pm.name]
		if d == nil {
			add("message:"+pm.full, "message %s missing from descriptor", pm.full)
			continue
		}
		delete(dmsgs, pm.name)
		cmpMsg(pm, d)
	}
	for n := range dmsgs {
		add("message:"+pp.pkg+"."+n, "message %s.%s only in descriptor", pp.pkg, n)
	}
	cmpEnums(pp.pkg, pp.enums, fd.GetEnumType())
	dsv := map[string]*descriptorpb.ServiceDescriptorProto{}
	for _, s := range fd.GetService() {
		dsv[s.GetName()] = s
	}
	for _, ps := range pp.services {
		d := dsv[ps.name]
		key := "service:" + pp.pkg + "." + ps.name
		if d == nil {
			add(key, "service %s missing from descriptor", ps.name)
			continue
		}
		delete(dsv, ps.name)
		_, byNum := optionEntries(d.GetOptions())
		isMsg := d.GetOptions() != nil && len(byNum[11110000]) > 0
		if isMsg != ps.msgService {
			add(key, "cosmos.msg.v1.service is %v in .proto, %v in descriptor", ps.msgService, isMsg)
		}
		dr := map[string]*descriptorpb.MethodDescriptorProto{}
		for _, m := range d.GetMethod() {
			dr[m.GetName()] = m
		}
		for _, rpc := range ps.rpcs {
			m := dr[rpc.name]
			if m == nil {
				add("rpc:"+pp.pkg+"."+ps.name+"."+rpc.name, "rpc %s missing from descriptor", rpc.name)
				continue
			}
			delete(dr, rpc.name)
			if !typeMatches(rpc.in, m.GetInputType()) || !typeMatches(rpc.out, m.GetOutputType()) {
				add("rpc:"+pp.pkg+"."+ps.name+"."+rpc.name, "rpc %s(%s) returns (%s) in .proto, (%s)→(%s) in descriptor", rpc.name, rpc.in, rpc.out, m.GetInputType(), m.GetOutputType())
			}
		}
		for n := range dr {
			add("rpc:"+pp.pkg+"."+ps.name+"."+n, "rpc %s only in descriptor", n)
		}
	}
	for n := range dsv {
		add("service:"+pp.pkg+"."+n, "service %s only in descriptor", n)
	}
	sort.Slice(diffs, func(i, j int) bool { return diffs[i].key < diffs[j].key })
	return diffs
}
