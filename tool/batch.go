package main

// Deferred store writes.
//
//	type writeOp struct{ key, value []byte; remove bool }
//	func (b *writeBatch) set(key, value []byte) { b.ops = append(b.ops, writeOp{key: key, value: value}) }
//	func (b *writeBatch) flush(store KVStore)   { for _, op := range b.ops { … store.Set(op.key, op.value) } }
//
// A function gathers the (key, value) pairs it writes into a small batch and flushes them in
// queue order at the place where it used to write. For the rules the write is the queueing
// call: `b.set(k, v)` is a store.set of k and v (`b.del(k)` a store.delete), in the frame and
// under the facts of that call; the replaying loop of the flush is not an access of its own.
// (What this abstraction does not decide: that the batch is flushed on every successful path.)

import (
	"go/token"
	"go/types"

	"golang.org/x/tools/go/ssa"
)

type writeRec struct {
	keyField, valField, flagField int
}

// writeRecordTypes: struct types whose values are replayed into a store by a loop.
func (cx *Ctx) writeRecordTypes() map[*types.Named]*writeRec {
	if cx.writeRecs != nil {
		return cx.writeRecs
	}
	cx.writeRecs = map[*types.Named]*writeRec{}
	fieldOfRec := func(v ssa.Value) (*types.Named, int) {
		for d := 0; d < 3; d++ {
			switch x := v.(type) {
			case *ssa.Field:
				if n, ok := x.X.Type().(*types.Named); ok {
					return n, x.Field
				}
				return nil, -1
			case *ssa.UnOp:
				if x.Op != token.MUL {
					return nil, -1
				}
				if fa, ok := x.X.(*ssa.FieldAddr); ok {
					if p, ok := fa.X.Type().Underlying().(*types.Pointer); ok {
						if n, ok := p.Elem().(*types.Named); ok {
							return n, fa.Field
						}
					}
				}
				return nil, -1
			case *ssa.ChangeType:
				v = x.X
			default:
				return nil, -1
			}
		}
		return nil, -1
	}
	for _, f := range cx.P.AllFuncs {
		if f.Blocks == nil || !isIrismodFunc(f) {
			continue
		}
		for _, b := range f.Blocks {
			if !inLoop(b) {
				continue
			}
			for _, ins := range b.Instrs {
				c, ok := ins.(*ssa.Call)
				if !ok || !c.Common().IsInvoke() {
					continue
				}
				pkg, name := calleeName(c.Common())
				if pkg != storeTypesPath || !(name == "KVStore.Set" || name == "KVStore.Delete" || name == "BasicKVStore.Set" || name == "BasicKVStore.Delete") || len(c.Common().Args) == 0 {
					continue
				}
				n, kf := fieldOfRec(c.Common().Args[0])
				if n == nil || n.Obj().Pkg() == nil || !isIrismodPath(n.Obj().Pkg().Path()) || n.Obj().Exported() {
					continue
				}
				st, ok := n.Underlying().(*types.Struct)
				if !ok {
					continue
				}
				wr := cx.writeRecs[n]
				if wr == nil {
					wr = &writeRec{keyField: kf, valField: -1, flagField: -1}
					for i := 0; i < st.NumFields(); i++ {
						if bt, ok := st.Field(i).Type().Underlying().(*types.Basic); ok && bt.Kind() == types.Bool {
							wr.flagField = i
						}
					}
					cx.writeRecs[n] = wr
				}
				if c.Common().Method.Name() == "Set" && len(c.Common().Args) == 2 {
					if n2, vf := fieldOfRec(c.Common().Args[1]); n2 == n {
						wr.valField = vf
					}
				}
			}
		}
	}
	return cx.writeRecs
}

// isReplayCall: a raw store access whose key is a field of a write record (the flush loop).
func (cx *Ctx) isReplayCall(c *ssa.CallCommon) bool {
	if len(cx.writeRecordTypes()) == 0 || len(c.Args) == 0 {
		return false
	}
	v := c.Args[0]
	switch x := v.(type) {
	case *ssa.Field:
		n, _ := x.X.Type().(*types.Named)
		return n != nil && cx.writeRecs[n] != nil
	case *ssa.UnOp:
		if fa, ok := x.X.(*ssa.FieldAddr); ok && x.Op == token.MUL {
			if p, ok := fa.X.Type().Underlying().(*types.Pointer); ok {
				n, _ := p.Elem().(*types.Named)
				return n != nil && cx.writeRecs[n] != nil
			}
		}
	}
	return false
}

type queuer struct {
	kind           string
	keyIdx, valIdx int
}

// queuerOf: fn builds one write record from its parameters (and queues it): the parameter
// positions of key and value, and whether the record is a delete.
func (cx *Ctx) queuerOf(fn *ssa.Function) *queuer {
	if fn == nil || fn.Blocks == nil || !isIrismodFunc(fn) || len(fn.Blocks) > 4 {
		return nil
	}
	if cx.queuers == nil {
		cx.queuers = map[*ssa.Function]*queuer{}
	}
	if q, ok := cx.queuers[fn]; ok {
		return q
	}
	cx.queuers[fn] = nil
	recs := cx.writeRecordTypes()
	if len(recs) == 0 {
		return nil
	}
	paramIdx := func(v ssa.Value) int {
		for d := 0; d < 3; d++ {
			switch x := v.(type) {
			case *ssa.ChangeType:
				v = x.X
				continue
			case *ssa.Convert:
				v = x.X
				continue
			case *ssa.Parameter:
				for i, p := range fn.Params {
					if p == x {
						return i
					}
				}
			}
			break
		}
		return -1
	}
	var q *queuer
	nLit := 0
	bases := map[ssa.Value]bool{}
	for _, b := range fn.Blocks {
		for _, ins := range b.Instrs {
			if c, ok := ins.(ssa.CallInstruction); ok && cx.classifyCallRaw0(c) != "" {
				return nil // touches state itself
			}
			st, ok := ins.(*ssa.Store)
			if !ok {
				continue
			}
			fa, ok := st.Addr.(*ssa.FieldAddr)
			if !ok {
				continue
			}
			p, ok := fa.X.Type().Underlying().(*types.Pointer)
			if !ok {
				continue
			}
			n, _ := p.Elem().(*types.Named)
			wr := recs[n]
			if wr == nil {
				continue
			}
			if !bases[fa.X] {
				bases[fa.X] = true
				nLit++
			}
			if q == nil {
				q = &queuer{kind: "store.set", keyIdx: -1, valIdx: -1}
			}
			switch fa.Field {
			case wr.keyField:
				q.keyIdx = paramIdx(st.Val)
			case wr.valField:
				q.valIdx = paramIdx(st.Val)
			case wr.flagField:
				if c, ok := st.Val.(*ssa.Const); ok && c.Value != nil && c.Value.ExactString() == "true" {
					q.kind = "store.delete"
				}
			}
		}
	}
	if q == nil || nLit != 1 || q.keyIdx != 1 {
		return nil // (the key is the first argument after the batch, as with a store)
	}
	if q.kind == "store.set" && q.valIdx < 0 {
		return nil
	}
	cx.queuers[fn] = q
	return q
}

// queuerAt: the call queues a write.
func (cx *Ctx) queuerAt(ci ssa.CallInstruction) *queuer {
	c := ci.Common()
	if c.IsInvoke() {
		return nil
	}
	return cx.queuerOf(c.StaticCallee())
}
