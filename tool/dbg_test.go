package main

import (
	"fmt"
	"testing"

	"golang.org/x/tools/go/ssa"
)

func TestDbg(t *testing.T) {
	p, err := loadProgram("/repo", false, true)
	if err != nil {
		t.Fatal(err)
	}
	cx := &Ctx{Repo: "/repo", P: p}
	cx.init()
	for _, e := range cx.entriesOfModule("nft", "msg") {
		if e.Name != "MintNFT" && e.Name != "IssueDenom" {
			continue
		}
		w := newWalker(cx)
		w.Walk(e.Fn, func(fr *Frame) {
			for _, ev := range w.EventsOf(fr) {
				if ev.Kind == "nft.Mint" {
					fn := fr.Parent.Fn
					for _, b := range fn.Blocks {
						if ifi, ok := b.Instrs[len(b.Instrs)-1].(*ssa.If); ok {
							fmt.Println(b.Index, w.ts.Of(ifi.Cond, fr.Parent).LooseString(), b.Dominates(fr.Call.Block()))
						}
						last := b.Instrs[len(b.Instrs)-1]
						if r, ok := last.(*ssa.Return); ok {
							fmt.Println("  ret", b.Index, isFailureReturn(r), len(dominatingFacts(b)))
						}
					}
				}
				if ev.Kind == "nft.SaveClass" {
					fmt.Println(ev.Args[len(ev.Args)-1].LooseString())
				}
			}
		})
	}
}
