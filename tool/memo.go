package main

// Local memo tables.
//
//	v, ok := m[k]
//	if !ok {
//		v, err = f(k)          // a function of the key (and of values fixed for the loop)
//		if err != nil { … }
//		m[k] = v
//	}
//	use(v)
//
// m is a map made in the same function that nothing else touches. The value read on a
// hit is the value f produced for an equal key earlier in the same call, so for the
// analysis use(v) sees f(k) on both paths, and what was established about f(k) before
// it was put into the table (f succeeded, the record was found) holds for the value
// taken out of it. The shape is accepted only when the memoised value depends on the
// key and on loop-invariant values alone, and the loop does not write what f reads: a
// table keyed by LESS than what the value depends on (a number derived from the
// requester, cached per tx hash) hands one element's value to another, and is left
// alone - the rules then see the lookup for what it is.

import (
	"fmt"
	"go/token"
	"os"

	"golang.org/x/tools/go/ssa"
)

type memoInfo struct {
	lookup  *ssa.Lookup
	ifInstr *ssa.If // branch on the found flag
	hitSucc int     // successor index taken on a hit
	updates []*ssa.MapUpdate
}

// memoOf: the commaok lookup is the read side of a local memo table.
func (cx *Ctx) memoOf(l *ssa.Lookup) *memoInfo {
	mi := cx.memoOf0(l)
	if os.Getenv("DEBUG_MEMO") != "" && l.CommaOk {
		fmt.Fprintf(os.Stderr, "memo %s: %v (%s)\n", cx.P.Pos(l.Pos()), mi != nil, cx.memoWhy[l])
	}
	return mi
}

func (cx *Ctx) memoOf0(l *ssa.Lookup) *memoInfo {
	if cx.memoWhy == nil {
		cx.memoWhy = map[*ssa.Lookup]string{}
	}
	if cx.memos == nil {
		cx.memos = map[*ssa.Lookup]*memoInfo{}
	}
	if mi, ok := cx.memos[l]; ok {
		return mi
	}
	cx.memos[l] = nil
	if !l.CommaOk {
		cx.memoWhy[l] = "r1"
		return nil
	}
	mm, ok := l.X.(*ssa.MakeMap)
	if !ok || mm.Referrers() == nil {
		cx.memoWhy[l] = "r2"
		return nil
	}
	mi := &memoInfo{lookup: l}
	for _, r := range *mm.Referrers() {
		switch x := r.(type) {
		case *ssa.Lookup:
			if x != l {
				cx.memoWhy[l] = "r3"
				return nil
			}
		case *ssa.MapUpdate:
			if x.Map != mm || !sameKeyExpr(x.Key, l.Index, 0) {
				cx.memoWhy[l] = "r4"
				return nil
			}
			mi.updates = append(mi.updates, x)
		case *ssa.DebugRef:
		default:
			cx.memoWhy[l] = "r5"
			return nil
		}
	}
	if len(mi.updates) == 0 || l.Referrers() == nil {
		cx.memoWhy[l] = "r6"
		return nil
	}
	// the found flag decides a branch
	for _, r := range *l.Referrers() {
		ex, ok := r.(*ssa.Extract)
		if !ok || ex.Index != 1 || ex.Referrers() == nil {
			continue
		}
		for _, r2 := range *ex.Referrers() {
			switch y := r2.(type) {
			case *ssa.If:
				mi.ifInstr, mi.hitSucc = y, 0
			case *ssa.UnOp:
				if y.Op == token.NOT && y.Referrers() != nil {
					for _, r3 := range *y.Referrers() {
						if i3, ok := r3.(*ssa.If); ok {
							mi.ifInstr, mi.hitSucc = i3, 1
						}
					}
				}
			}
		}
	}
	if mi.ifInstr == nil {
		cx.memoWhy[l] = "r7"
		return nil
	}
	miss := mi.ifInstr.Block().Succs[1-mi.hitSucc]
	h := loopHeaderOf(l.Block())
	for _, u := range mi.updates {
		if !miss.Dominates(u.Block()) {
			cx.memoWhy[l] = "r8"
			return nil
		}
		if !cx.functionOfKey(u.Value, l.Index, h, 0, map[ssa.Value]bool{}) {
			cx.memoWhy[l] = "r9"
			return nil
		}
	}
	// the loop must not write what the memoised computation reads
	if h != nil {
		reads := map[string]bool{}
		for _, u := range mi.updates {
			cx.readPrefixesOfValue(u.Value, reads, 0, map[ssa.Value]bool{})
		}
		if len(reads) > 0 {
			fn := l.Parent()
			for _, b := range fn.Blocks {
				if !(b == h || h.Dominates(b)) {
					continue
				}
				for _, ins := range b.Instrs {
					ci, ok := ins.(ssa.CallInstruction)
					if !ok {
						continue
					}
					if k := cx.classifyCall(ci); k == "store.set" || k == "store.delete" {
						for _, px := range cx.storeKeyPrefix(ci, k) {
							if reads[px] {
								cx.memoWhy[l] = "r10"
								return nil
							}
						}
					}
					for _, e := range cx.calleesOf(ci) {
						if e.Kind == "dynamic" {
							continue
						}
						for _, g := range cx.Reachable([]*ssa.Function{e.Callee}, nil).Order {
							if g.Blocks == nil || !isIrismodFunc(g) {
								continue
							}
							for _, p := range cx.primsOf(g) {
								if p.Kind == "store.set" || p.Kind == "store.delete" {
									for _, px := range p.Prefix {
										if reads[px] {
											cx.memoWhy[l] = "r11"
											return nil
										}
									}
								}
							}
						}
					}
				}
			}
		}
	}
	cx.memos[l] = mi
	return mi
}

// functionOfKey: v is computed from the key and from values that do not change while
// the loop with header h runs (parameters, constants, values defined before the loop).
func (cx *Ctx) functionOfKey(v, key ssa.Value, h *ssa.BasicBlock, depth int, seen map[ssa.Value]bool) bool {
	if v == key || seen[v] || sameKeyExpr(v, key, 0) {
		return true
	}
	if depth > 14 {
		return false
	}
	seen[v] = true
	switch v.(type) {
	case *ssa.Const, *ssa.Global, *ssa.Parameter, *ssa.FreeVar, *ssa.Function, *ssa.Builtin:
		return true
	}
	ins, ok := v.(ssa.Instruction)
	if !ok {
		return false
	}
	if h == nil || !(ins.Block() == h || h.Dominates(ins.Block())) {
		return true // defined before the loop
	}
	if _, isPhi := v.(*ssa.Phi); isPhi {
		return false // loop-carried or merged inside the loop
	}
	if a, isAlloc := v.(*ssa.Alloc); isAlloc {
		// a local filled inside the loop (var t T; t, err = f(k)): what is stored into it
		if a.Referrers() == nil {
			return true
		}
		for _, r := range *a.Referrers() {
			switch y := r.(type) {
			case *ssa.Store:
				if y.Addr == a && !cx.functionOfKey(y.Val, key, h, depth+1, seen) {
					return false
				}
			case ssa.CallInstruction:
				return false // filled through its address (Unmarshal(bz, &x)): this element's data
			case *ssa.MakeInterface, *ssa.MakeClosure:
				return false
			}
		}
		return true
	}
	for _, op := range ins.Operands(nil) {
		if op != nil && *op != nil && !cx.functionOfKey(*op, key, h, depth+1, seen) {
			return false
		}
	}
	return true
}

// readPrefixesOfValue: store prefixes read by the calls that compute v.
func (cx *Ctx) readPrefixesOfValue(v ssa.Value, out map[string]bool, depth int, seen map[ssa.Value]bool) {
	if depth > 10 || seen[v] {
		return
	}
	seen[v] = true
	ins, ok := v.(ssa.Instruction)
	if !ok {
		return
	}
	if ci, ok := v.(ssa.CallInstruction); ok {
		for _, e := range cx.calleesOf(ci) {
			if e.Kind == "dynamic" {
				continue
			}
			for _, g := range cx.Reachable([]*ssa.Function{e.Callee}, nil).Order {
				if g.Blocks == nil || !isIrismodFunc(g) {
					continue
				}
				for _, p := range cx.primsOf(g) {
					if p.Kind == "store.get" || p.Kind == "store.has" || p.Kind == "store.iter" || p.Kind == "store.riter" {
						for _, px := range p.Prefix {
							out[px] = true
						}
					}
				}
			}
		}
	}
	for _, op := range ins.Operands(nil) {
		if op != nil && *op != nil {
			cx.readPrefixesOfValue(*op, out, depth+1, seen)
		}
	}
}

// memoPhi: φ(hit value, filled value) of a local memo table; returns the filled value.
func (cx *Ctx) memoPhi(p *ssa.Phi) ssa.Value {
	var hit *ssa.Extract
	var others []ssa.Value
	for _, e := range p.Edges {
		if ex, ok := e.(*ssa.Extract); ok && ex.Index == 0 {
			if l, ok := ex.Tuple.(*ssa.Lookup); ok && cx.memoOf(l) != nil {
				hit = ex
				continue
			}
		}
		others = append(others, e)
	}
	if hit == nil || len(others) != 1 {
		return nil
	}
	mi := cx.memoOf(hit.Tuple.(*ssa.Lookup))
	for _, u := range mi.updates {
		if sameStored(u.Value, others[0]) {
			return others[0]
		}
	}
	return nil
}

// sameStored: a is the value b, possibly loaded from / stored to the same local.
func sameStored(a, b ssa.Value) bool {
	if a == b {
		return true
	}
	la, oka := a.(*ssa.UnOp)
	lb, okb := b.(*ssa.UnOp)
	if oka && okb && la.Op == token.MUL && lb.Op == token.MUL && la.X == lb.X {
		return true
	}
	return false
}

// memoJoinFacts: for a block reached after the hit/miss diamond of a memo lookup has
// joined again, the blocks whose facts were established before the value was put into
// the table (the blocks of the updates).
func (cx *Ctx) memoJoinBlocks(b *ssa.BasicBlock) []*ssa.BasicBlock {
	var out []*ssa.BasicBlock
	if os.Getenv("DEBUG_MEMO") != "" && b.Parent().Name() == "PostTxProcessing" {
		fmt.Fprintf(os.Stderr, "joinblocks %s b%d\n", b.Parent().Name(), b.Index)
	}
	for d := b.Idom(); d != nil; d = d.Idom() {
		if len(d.Instrs) == 0 {
			continue
		}
		iff, ok := d.Instrs[len(d.Instrs)-1].(*ssa.If)
		if !ok {
			continue
		}
		// the condition is the found flag of a memo lookup
		var l *ssa.Lookup
		cond := iff.Cond
		if u, ok := cond.(*ssa.UnOp); ok && u.Op == token.NOT {
			cond = u.X
		}
		if ex, ok := cond.(*ssa.Extract); ok && ex.Index == 1 {
			l, _ = ex.Tuple.(*ssa.Lookup)
		}
		if l == nil {
			continue
		}
		mi := cx.memoOf(l)
		if mi == nil || mi.ifInstr != iff {
			continue
		}
		miss := d.Succs[1-mi.hitSucc]
		if miss.Dominates(b) {
			continue // still inside the filling arm: its facts dominate anyway
		}
		for _, u := range mi.updates {
			if blockReaches(u.Block(), b) {
				out = append(out, u.Block())
			}
		}
	}
	return out
}

// sameKeyExpr: two evaluations of one side-effect-free expression (log.Address read twice).
func sameKeyExpr(a, b ssa.Value, d int) bool {
	if a == b {
		return true
	}
	if d > 8 {
		return false
	}
	switch x := a.(type) {
	case *ssa.UnOp:
		y, ok := b.(*ssa.UnOp)
		return ok && x.Op == y.Op && sameKeyExpr(x.X, y.X, d+1)
	case *ssa.FieldAddr:
		y, ok := b.(*ssa.FieldAddr)
		return ok && x.Field == y.Field && sameKeyExpr(x.X, y.X, d+1)
	case *ssa.Field:
		y, ok := b.(*ssa.Field)
		return ok && x.Field == y.Field && sameKeyExpr(x.X, y.X, d+1)
	case *ssa.IndexAddr:
		y, ok := b.(*ssa.IndexAddr)
		return ok && sameKeyExpr(x.X, y.X, d+1) && sameKeyExpr(x.Index, y.Index, d+1)
	case *ssa.Convert:
		y, ok := b.(*ssa.Convert)
		return ok && sameKeyExpr(x.X, y.X, d+1)
	case *ssa.ChangeType:
		y, ok := b.(*ssa.ChangeType)
		return ok && sameKeyExpr(x.X, y.X, d+1)
	}
	return false
}
