package main

import (
	"flag"
	"fmt"
	"os"
	"runtime/debug"
	"strconv"
	"strings"
)

type propFunc func(cx *Ctx, r *Report)

type propDef struct {
	id      string
	needSSA bool
	needPkg bool // needs the type-checked program at all
	run     propFunc
	level   string
}

var props = map[string]*propDef{}

var footprintModules = map[string][]string{
	"C01": {"coinswap"}, "C02": {"coinswap"}, "C03": {"htlc"}, "C04": {"htlc"}, "C05": {"farm"}, "C06": {"farm"},
	"C07": {"service"}, "C08": {"service"}, "C09": {"token"}, "C10": {"token"}, "C13": {"htlc", "farm", "service", "random"},
	"C14": {"nft"}, "C15": {"mt"}, "C17": {"oracle"}, "C18": {"random"}, "C19": {"record"},
}

// theCtx: the one analysis context of the process (for helpers without a receiver)
var theCtx *Ctx

func register(id string, needPkg, needSSA bool, level string, f propFunc) {
	props[id] = &propDef{id: id, needPkg: needPkg, needSSA: needSSA, run: f, level: level}
}

func main() {
	repo := flag.String("repo", "/repo", "repository root")
	verif := flag.String("verif", "/verif", "verif root (evidence, known findings)")
	prop := flag.String("prop", "", "property id (C01..C20), comma separated, or all")
	tier := flag.String("tier", "quick", "quick|thorough")
	dump := flag.String("dump", "", "dump kind (development aid)")
	fixture := flag.String("fixture", "", "analyse a control fixture directory instead of /repo (development aid)")
	flag.Parse()
	_ = fixture
	seed := 0
	if s := os.Getenv("VERIF_SEED"); s != "" {
		seed, _ = strconv.Atoi(s)
	}
	var ids []string
	if *prop == "all" {
		for i := 1; i <= 20; i++ {
			id := fmt.Sprintf("C%02d", i)
			if props[id] != nil {
				ids = append(ids, id)
			}
		}
	} else if *prop != "" {
		ids = strings.Split(*prop, ",")
	}
	needPkg, needSSA := *dump != "", *dump != ""
	for _, id := range ids {
		d := props[id]
		if d == nil {
			fmt.Fprintf(os.Stderr, "unknown property %s\n", id)
			os.Exit(2)
		}
		needPkg = needPkg || d.needPkg
		needSSA = needSSA || d.needSSA
	}
	cx := &Ctx{Repo: *repo, Verif: *verif, Tier: *tier}
	theCtx = cx
	if needPkg {
		p, err := loadProgram(*repo, *tier == "thorough" && os.Getenv("IRISLINT_WHOLE") == "1", needSSA)
		if err != nil {
			fmt.Printf("TOOL-ERROR load: %v\n", err)
			os.Exit(2)
		}
		cx.P = p
		cx.init()
	}
	if *dump != "" {
		doDump(cx, *dump)
		return
	}
	exit := 0
	for _, id := range ids {
		d := props[id]
		r := newReport(id, *tier)
		r.Level = d.level
		func() {
			defer func() {
				if e := recover(); e != nil {
					r.toolErr("analysis panicked: %v\n%s", e, debug.Stack())
				}
			}()
			d.run(cx, r)
			// closed world for writers: the entries of the property's modules perform no store
			// write / delete or bank operation beyond the reviewed footprint (footprint.go)
			if mods := footprintModules[id]; len(mods) > 0 {
				cx.footprintRule(r, mods, "footprint")
				// and the error of every state-changing call on a message path decides the outcome
				if n := cx.effectErrorsPropagated(r, mods, "effect-error-propagated"); n == 0 && !(len(mods) == 1 && (mods[0] == "random" || mods[0] == "record")) {
					r.toolErr("effect-error-propagated: no state-changing call with an error result found on the message paths of %v", mods)
				}
			}
		}()
		if *tier == "thorough" && os.Getenv("IRISLINT_NO_VARIANTS") == "" {
			vr := runVariants(*repo, *verif, id)
			app, good := 0, 0
			var missed []string
			for _, v := range vr {
				if v.Applied {
					app++
					if v.Good {
						good++
					} else {
						missed = append(missed, v.ID)
					}
				}
			}
			r.Extra["variants"] = vr
			r.Extra["variants_total"] = len(vr)
			r.Extra["variants_applicable"] = app
			r.Extra["variants_as_expected"] = good
			fmt.Printf("thorough: %d seeded variants of %s applied to scratch copies, %d behaved as expected", app, id, good)
			if len(missed) > 0 {
				fmt.Printf(" (NOT as expected: %s)", strings.Join(missed, ", "))
			}
			fmt.Println()
		}
		np, nf := 0, 0
		if cx.P != nil {
			np, nf = len(cx.P.Pkgs), len(cx.P.AllFuncs)
		}
		if e := r.finish(*verif, np, nf, seed); e > exit {
			if exit != 1 {
				exit = e
			}
		}
	}
	os.Exit(exit)
}
