package main

// Row-wise evaluation of code that loops over a package-level table.
//
//	var msgServiceTypes = []msgType{request(&MsgIssueToken{}, "…"), response(&MsgIssueTokenResponse{}), …}
//	for _, t := range msgServiceTypes { registry.RegisterImplementations(t.iface(), t.msg) }
//
// The table is a constant of the program (assigned once, by its declaration). For a call in
// the body of a loop over it, the arguments are evaluated once per row by a small abstract
// interpreter over the SSA: constants, typed nil pointers, the concrete type behind an
// interface value, records built by constructor helpers, and branches of loop-free helpers
// decided by those constants. Anything else is "unknown" and the caller says so.

import (
	"go/constant"
	"go/token"
	"go/types"

	"golang.org/x/tools/go/ssa"
)

type aval struct {
	kind   string         // "const", "nilptr", "ptr", "iface", "struct", "unknown"
	c      constant.Value // const
	typ    types.Type     // nilptr / ptr: the pointer type; iface: the dynamic type
	fields map[int]*aval  // struct
}

var unknownVal = &aval{kind: "unknown"}

type rowEval struct {
	row   *aval
	table *ssa.Global
	env   map[ssa.Value]*aval
	prev  map[*ssa.Function]map[*ssa.BasicBlock]*ssa.BasicBlock // φ predecessor on the executed path
	steps int
}

// tableRows: the rows of a package-level slice table as abstract values (nil if g is not one).
func tableRows(g *ssa.Global) []*aval {
	if g == nil || g.Pkg == nil {
		return nil
	}
	in := g.Pkg.Func("init")
	if in == nil {
		return nil
	}
	var init *ssa.Store
	n := 0
	for _, f := range progFuncsForGlobals {
		if f == in {
			continue
		}
		for _, b := range f.Blocks {
			for _, ins := range b.Instrs {
				if st, ok := ins.(*ssa.Store); ok && st.Addr == ssa.Value(g) {
					n++
				}
			}
		}
	}
	for _, b := range in.Blocks {
		for _, ins := range b.Instrs {
			if st, ok := ins.(*ssa.Store); ok && st.Addr == ssa.Value(g) {
				init = st
				n++
			}
		}
	}
	if init == nil || n != 1 {
		return nil
	}
	sl, ok := init.Val.(*ssa.Slice)
	if !ok {
		return nil
	}
	al, ok := sl.X.(*ssa.Alloc)
	if !ok || al.Referrers() == nil {
		return nil
	}
	arr, ok := al.Type().(*types.Pointer).Elem().Underlying().(*types.Array)
	if !ok {
		return nil
	}
	rows := make([]*aval, arr.Len())
	ev := &rowEval{env: map[ssa.Value]*aval{}, prev: map[*ssa.Function]map[*ssa.BasicBlock]*ssa.BasicBlock{}}
	for _, ref := range *al.Referrers() {
		ia, ok := ref.(*ssa.IndexAddr)
		if !ok || ia.Referrers() == nil {
			continue
		}
		ic, ok := ia.Index.(*ssa.Const)
		if !ok {
			return nil
		}
		i := int(ic.Int64())
		if i < 0 || i >= len(rows) {
			return nil
		}
		for _, r2 := range *ia.Referrers() {
			switch y := r2.(type) {
			case *ssa.Store:
				if y.Addr == ssa.Value(ia) {
					rows[i] = ev.eval(y.Val, 0)
				}
			case *ssa.FieldAddr:
				// a row written as a struct literal, field by field
				if rows[i] == nil {
					rows[i] = &aval{kind: "struct", fields: map[int]*aval{}}
				}
				if y.Referrers() != nil {
					for _, r3 := range *y.Referrers() {
						if st, ok := r3.(*ssa.Store); ok && st.Addr == ssa.Value(y) && rows[i].kind == "struct" {
							rows[i].fields[y.Field] = ev.eval(st.Val, 0)
						}
					}
				}
			}
		}
	}
	for _, r := range rows {
		if r == nil {
			return nil
		}
	}
	return rows
}

func (ev *rowEval) eval(v ssa.Value, depth int) *aval {
	ev.steps++
	if depth > 40 || ev.steps > 20000 || v == nil {
		return unknownVal
	}
	if a, ok := ev.env[v]; ok {
		return a
	}
	switch x := v.(type) {
	case *ssa.Const:
		if x.Value == nil {
			if _, isPtr := x.Type().Underlying().(*types.Pointer); isPtr {
				return &aval{kind: "nilptr", typ: x.Type()}
			}
			if b, ok := x.Type().Underlying().(*types.Basic); ok {
				switch {
				case b.Info()&types.IsBoolean != 0:
					return &aval{kind: "const", c: constant.MakeBool(false)}
				case b.Info()&types.IsInteger != 0:
					return &aval{kind: "const", c: constant.MakeInt64(0)}
				case b.Info()&types.IsString != 0:
					return &aval{kind: "const", c: constant.MakeString("")}
				}
			}
			return unknownVal
		}
		return &aval{kind: "const", c: x.Value}
	case *ssa.Alloc:
		return &aval{kind: "ptr", typ: x.Type()}
	case *ssa.MakeInterface:
		in := ev.eval(x.X, depth+1)
		return &aval{kind: "iface", typ: x.X.Type(), fields: map[int]*aval{0: in}}
	case *ssa.ChangeType:
		return ev.eval(x.X, depth+1)
	case *ssa.ChangeInterface:
		return ev.eval(x.X, depth+1)
	case *ssa.Convert:
		return ev.eval(x.X, depth+1)
	case *ssa.Field:
		s := ev.eval(x.X, depth+1)
		if s.kind == "struct" {
			if f, ok := s.fields[x.Field]; ok {
				return f
			}
			return ev.zero(fieldTypeAt(x.X.Type(), x.Field))
		}
		return unknownVal
	case *ssa.UnOp:
		switch x.Op {
		case token.MUL:
			return ev.load(x.X, x, depth+1)
		case token.NOT:
			a := ev.eval(x.X, depth+1)
			if a.kind == "const" && a.c.Kind() == constant.Bool {
				return &aval{kind: "const", c: constant.MakeBool(!constant.BoolVal(a.c))}
			}
		}
		return unknownVal
	case *ssa.BinOp:
		a, b := ev.eval(x.X, depth+1), ev.eval(x.Y, depth+1)
		if a.kind != "const" || b.kind != "const" || a.c.Kind() != b.c.Kind() {
			return unknownVal
		}
		switch x.Op {
		case token.EQL, token.NEQ:
			return &aval{kind: "const", c: constant.MakeBool(constant.Compare(a.c, x.Op, b.c))}
		case token.LSS, token.LEQ, token.GTR, token.GEQ:
			if a.c.Kind() == constant.Bool {
				return unknownVal
			}
			return &aval{kind: "const", c: constant.MakeBool(constant.Compare(a.c, x.Op, b.c))}
		case token.AND, token.OR, token.XOR, token.ADD, token.SUB, token.MUL:
			if a.c.Kind() == constant.Int {
				return &aval{kind: "const", c: constant.BinaryOp(a.c, x.Op, b.c)}
			}
		}
		return unknownVal
	case *ssa.Phi:
		if pm := ev.prev[x.Parent()]; pm != nil {
			if p, ok := pm[x.Block()]; ok {
				for i, q := range x.Block().Preds {
					if q == p && i < len(x.Edges) {
						return ev.eval(x.Edges[i], depth+1)
					}
				}
			}
		}
		return unknownVal
	case *ssa.Call:
		rs := ev.call(x, depth+1)
		if len(rs) >= 1 {
			return rs[0]
		}
		return unknownVal
	case *ssa.Extract:
		if c, ok := x.Tuple.(*ssa.Call); ok {
			rs := ev.call(c, depth+1)
			if x.Index < len(rs) {
				return rs[x.Index]
			}
		}
		return unknownVal
	}
	return unknownVal
}

func fieldTypeAt(t types.Type, i int) types.Type {
	if p, ok := t.Underlying().(*types.Pointer); ok {
		t = p.Elem()
	}
	if st, ok := t.Underlying().(*types.Struct); ok && i < st.NumFields() {
		return st.Field(i).Type()
	}
	return nil
}

func (ev *rowEval) zero(t types.Type) *aval {
	if t == nil {
		return unknownVal
	}
	switch u := t.Underlying().(type) {
	case *types.Basic:
		switch {
		case u.Info()&types.IsBoolean != 0:
			return &aval{kind: "const", c: constant.MakeBool(false)}
		case u.Info()&types.IsInteger != 0:
			return &aval{kind: "const", c: constant.MakeInt64(0)}
		case u.Info()&types.IsString != 0:
			return &aval{kind: "const", c: constant.MakeString("")}
		}
	case *types.Pointer:
		return &aval{kind: "nilptr", typ: t}
	case *types.Struct:
		return &aval{kind: "struct", fields: map[int]*aval{}}
	}
	return unknownVal
}

// load: *addr at instruction `at`.
func (ev *rowEval) load(addr ssa.Value, at ssa.Instruction, depth int) *aval {
	switch a := addr.(type) {
	case *ssa.IndexAddr:
		// an element of the table the loop walks
		base := a.X
		if u, ok := base.(*ssa.UnOp); ok && u.Op == token.MUL {
			base = u.X
		}
		if g, ok := base.(*ssa.Global); ok && ev.row != nil && g == ev.table {
			return ev.row
		}
	case *ssa.FieldAddr:
		s := ev.loadStruct(a.X, at, depth+1)
		if s.kind == "struct" {
			if f, ok := s.fields[a.Field]; ok {
				return f
			}
			return ev.zero(fieldTypeAt(a.X.Type(), a.Field))
		}
	case *ssa.Alloc:
		return ev.loadStruct(a, at, depth+1)
	}
	return unknownVal
}

// loadStruct: the record a local holds: its (single) whole-value store refined by the
// field stores that precede the load in straight-line order.
func (ev *rowEval) loadStruct(addr ssa.Value, at ssa.Instruction, depth int) *aval {
	switch a := addr.(type) {
	case *ssa.Alloc:
		if a.Referrers() == nil {
			return unknownVal
		}
		out := &aval{kind: "struct", fields: map[int]*aval{}}
		for _, r := range *a.Referrers() {
			switch y := r.(type) {
			case *ssa.Store:
				if y.Addr == ssa.Value(a) {
					if at != nil && y.Parent() == at.Parent() && !instrDominates(y, at) {
						return unknownVal
					}
					w := ev.eval(y.Val, depth+1)
					if w.kind != "struct" {
						return w
					}
					for k, f := range w.fields {
						if _, has := out.fields[k]; !has {
							out.fields[k] = f
						}
					}
				}
			case *ssa.FieldAddr:
				if y.Referrers() == nil {
					continue
				}
				for _, r2 := range *y.Referrers() {
					if st, ok := r2.(*ssa.Store); ok && st.Addr == ssa.Value(y) {
						if at != nil && st.Parent() == at.Parent() && !instrDominates(st, at) {
							return unknownVal // a conditional assignment: not followed
						}
						out.fields[y.Field] = ev.eval(st.Val, depth+1)
					}
				}
			}
		}
		return out
	case *ssa.IndexAddr, *ssa.FieldAddr:
		return ev.load(addr, at, depth)
	}
	// a pointer value
	v := ev.eval(addr, depth+1)
	return v
}

// call: interpret a loop-free irismod helper on abstract arguments.
func (ev *rowEval) call(c *ssa.Call, depth int) []*aval {
	cc := c.Common()
	if cc.IsInvoke() {
		return nil
	}
	g := cc.StaticCallee()
	if g == nil || g.Blocks == nil || !isIrismodFunc(g) || len(g.Blocks) > 40 {
		return nil
	}
	saved := map[ssa.Value]*aval{}
	for i, p := range g.Params {
		if i < len(cc.Args) {
			saved[p] = ev.env[p]
			a := ev.eval(cc.Args[i], depth+1)
			defer func(p *ssa.Parameter) {
				if saved[p] == nil {
					delete(ev.env, p)
				} else {
					ev.env[p] = saved[p]
				}
			}(p)
			ev.env[p] = a
		}
	}
	oldPrev := ev.prev[g]
	ev.prev[g] = map[*ssa.BasicBlock]*ssa.BasicBlock{}
	defer func() { ev.prev[g] = oldPrev }()
	b := g.Blocks[0]
	for n := 0; n < 64; n++ {
		last := b.Instrs[len(b.Instrs)-1]
		switch t := last.(type) {
		case *ssa.Return:
			var out []*aval
			for _, r := range t.Results {
				out = append(out, ev.eval(r, depth+1))
			}
			return out
		case *ssa.Jump:
			ev.prev[g][b.Succs[0]] = b
			b = b.Succs[0]
		case *ssa.If:
			cv := ev.eval(t.Cond, depth+1)
			if cv.kind != "const" || cv.c.Kind() != constant.Bool {
				return nil
			}
			nb := b.Succs[1]
			if constant.BoolVal(cv.c) {
				nb = b.Succs[0]
			}
			ev.prev[g][nb] = b
			b = nb
		default:
			return nil
		}
	}
	return nil
}

// loopTableOf: the package-level table a call's arguments are drawn from (an element of the
// table is loaded in the function, and the call is in a loop).
func loopTableOf(ci ssa.CallInstruction) *ssa.Global {
	f := ci.Parent()
	if f == nil || !inLoop(ci.Block()) {
		return nil
	}
	var found *ssa.Global
	for _, b := range f.Blocks {
		for _, ins := range b.Instrs {
			ia, ok := ins.(*ssa.IndexAddr)
			if !ok {
				continue
			}
			base := ia.X
			if u, ok := base.(*ssa.UnOp); ok && u.Op == token.MUL {
				base = u.X
			}
			if g, ok := base.(*ssa.Global); ok {
				if found != nil && found != g {
					return nil
				}
				found = g
			}
		}
	}
	return found
}

// evalCallPerRow: the call's arguments (variadic tail expanded) evaluated for every row of
// the table its loop walks; nil when there is no such table.
func evalCallPerRow(ci ssa.CallInstruction) [][]*aval {
	g := loopTableOf(ci)
	rows := tableRows(g)
	if rows == nil {
		return nil
	}
	var out [][]*aval
	args := ci.Common().Args
	for _, row := range rows {
		ev := &rowEval{row: row, table: g, env: map[ssa.Value]*aval{}, prev: map[*ssa.Function]map[*ssa.BasicBlock]*ssa.BasicBlock{}}
		var vals []*aval
		for i, a := range args {
			if i == len(args)-1 {
				if els := variadicElems(a); els != nil {
					for _, e := range els {
						vals = append(vals, ev.eval(e, 0))
					}
					continue
				}
			}
			vals = append(vals, ev.eval(a, 0))
		}
		out = append(out, vals)
	}
	return out
}
