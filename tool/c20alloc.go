package main

import (
	"fmt"
	"go/token"
	"go/types"
	"strings"

	"golang.org/x/tools/go/ssa"
)

// gogoNestedAlloc: in a gogoproto Unmarshal, a nullable nested message field that is
// present on the wire - even with an empty payload - must come out non-nil: the
// decoder allocates it whenever it is nil, after the rejecting length checks and under
// no other condition. A decoder that skips the allocation for some payloads turns
// "present" into "absent": bytes written by the api/ family no longer decode to an
// equal message nor re-encode to the same bytes. Sibling rule over every generated
// decoder: the allocation `m.F = &T{}` sits directly under `m.F == nil`, and that
// test is reached from a guard whose other branch rejects (returns).
func (cx *Ctx) gogoNestedAlloc(r *Report) {
	n := 0
	for _, f := range cx.P.AllFuncs {
		if f.Name() != "Unmarshal" || f.Signature.Recv() == nil || f.Blocks == nil || len(f.Params) == 0 {
			continue
		}
		pos := cx.P.Pos(f.Pos())
		if !strings.Contains(pos, ".pb.go") || !strings.HasPrefix(funcPkgPath(f), modPrefix+"modules/") {
			continue
		}
		recv := f.Params[0]
		for _, b := range f.Blocks {
			for _, ins := range b.Instrs {
				st, ok := ins.(*ssa.Store)
				if !ok {
					continue
				}
				fa, ok := st.Addr.(*ssa.FieldAddr)
				if !ok || fa.X != recv {
					continue
				}
				al, ok := st.Val.(*ssa.Alloc)
				if !ok || !al.Heap {
					continue
				}
				if _, isStruct := al.Type().(*types.Pointer).Elem().Underlying().(*types.Struct); !isStruct {
					continue
				}
				n++
				fname := fa.X.Type().(*types.Pointer).Elem().Underlying().(*types.Struct).Field(fa.Field).Name()
				key := shortFn(f) + "|" + fname
				why := ""
				switch {
				case len(b.Preds) != 1:
					why = "the allocation is not directly under one test"
				default:
					p := b.Preds[0]
					ifi, ok := p.Instrs[len(p.Instrs)-1].(*ssa.If)
					if !ok || p.Succs[0] != b || !isNilTestOf(ifi.Cond, recv, fa.Field) {
						why = "the allocation is guarded by something else than `m." + fname + " == nil`"
					} else if len(p.Preds) != 1 {
						why = "the nil test is reached over more than one edge"
					} else {
						q := p.Preds[0]
						qi, ok := q.Instrs[len(q.Instrs)-1].(*ssa.If)
						if !ok {
							why = "the nil test does not follow the length checks"
						} else {
							for _, s := range q.Succs {
								if s == p {
									continue
								}
								if _, isRet := s.Instrs[len(s.Instrs)-1].(*ssa.Return); !isRet {
									why = "a condition before the nil test skips the allocation without rejecting the input"
								}
							}
							_ = qi
						}
					}
				}
				if why != "" {
					r.violate("gogo-nested-alloc", key, cx.P.Pos(st.Pos()), fmt.Sprintf("decoder of nested message field %s: %s - a field that is present on the wire (possibly empty) can decode as absent, so api/ bytes do not round-trip through the modules/ type", fname, why))
				} else {
					r.ok("gogo-nested-alloc", key, cx.P.Pos(st.Pos()), "a present nested message is allocated whenever nil, after the rejecting length checks")
				}
			}
		}
	}
	_ = n
}

func isNilTestOf(c ssa.Value, recv ssa.Value, field int) bool {
	bo, ok := c.(*ssa.BinOp)
	if !ok || bo.Op != token.EQL {
		return false
	}
	isLoad := func(v ssa.Value) bool {
		u, ok := v.(*ssa.UnOp)
		if !ok || u.Op != token.MUL {
			return false
		}
		fa, ok := u.X.(*ssa.FieldAddr)
		return ok && fa.X == recv && fa.Field == field
	}
	isNil := func(v ssa.Value) bool { k, ok := v.(*ssa.Const); return ok && k.IsNil() }
	return (isLoad(bo.X) && isNil(bo.Y)) || (isLoad(bo.Y) && isNil(bo.X))
}
