package main

// C14 — NFT: owner / creator / restriction guards dominate every call into the
// embedded SDK nft keeper's mutators on every message path.

import (
	"fmt"
	"go/types"
	"strings"

	"golang.org/x/tools/go/ssa"
)

func init() { register("C14", true, true, "other", runC14) }

var nftMutators = map[string]bool{"nft.Mint": true, "nft.Burn": true, "nft.Update": true, "nft.Transfer": true, "nft.SaveClass": true, "nft.UpdateClass": true}

func runC14(cx *Ctx, r *Report) {
	r.Explanation = "F3 guard dominance over every call chain from the six nft message handlers to the SDK nft keeper's mutators (Mint, Burn, Update, Transfer, SaveClass, UpdateClass). For each chain the branch facts that hold at the mutator call are collected symbolically (dominating conditions in every frame plus facts implied by helper calls that returned without error), with values expressed in the handler's request fields. Required: Transfer/Burn/Update are preceded by owner equality between the declared signer (cosmos.msg.v1.signer, read from the .proto) and GetOwner of the same class/id; Update additionally by the class's UpdateRestricted flag being false, or by a rejecting branch on it (transfer-with-changes); Mint by a rejecting branch on MintRestricted ∧ creator≠signer; UpdateClass by equality of the signer with the class creator; SaveClass stores the signer as creator; no assignment to Id/ClassId of a loaded token or class; nobody outside modules/nft calls the mutators. Decides the authorisation structure on every path, not the SDK keeper's own bookkeeping (owner index, supply), which is trusted."
	r.Assumptions = []string{"cosmossdk.io/x/nft keeper keeps owner/supply consistent for the calls it receives", "the SDK runs ValidateBasic / signature verification so that the declared signer field is the authenticated address"}
	entries := cx.entriesOfModule("nft", "msg")
	if len(entries) != 6 {
		r.toolErr("expected 6 nft message handlers, found %d", len(entries))
	}
	seenKind := map[string]int{}
	over := cx.forEachEvent(entries, nil, func(e *Entry, w *Walker, ev *Event) {
		if !nftMutators[ev.Kind] {
			return
		}
		_, signers := cx.signerTermsOf(e)
		if len(signers) != 1 {
			r.toolErr("%s: cannot resolve the declared signer", entryKey(e))
			return
		}
		signer := "addr(" + signers[0] + ")"
		facts := w.FactsAt(ev.Fr, ev.Site)
		pos := ev.Pos(cx)
		key := e.Name + "|" + ev.Kind
		seenKind[ev.Kind]++
		args := argsLoose(ev)
		switch ev.Kind {
		case "nft.Transfer", "nft.Burn", "nft.Update":
			var class, id string
			if ev.Kind == "nft.Update" {
				g := findSub(ev.Args[len(ev.Args)-1], func(t *Term) bool { return t.Op == "call" && t.Name == "sdknft.Keeper.GetNFT" })
				if g == nil || len(g.Args) < 3 {
					r.violate("owner-guard", key, pos, "the token passed to Update is not one loaded by GetNFT(class, id): "+args[len(args)-1])
					return
				}
				class, id = g.Args[1].LooseString(), g.Args[2].LooseString()
			} else {
				class, id = args[2], args[3]
			}
			want := fmt.Sprintf("sdk.AccAddress.Equals(%s, sdknft.Keeper.GetOwner(keeper.nk, %s, %s))", signer, class, id)
			_, ok := hasFact(facts, true, want)
			r.check(ok, "owner-guard", key, pos,
				"on chain "+ev.Fr.String()+": "+want+" holds before "+ev.Kind,
				"no dominating owner check for "+ev.Kind+"("+class+", "+id+") by the declared signer "+signer+" on chain "+ev.Fr.String())
			if ev.Kind == "nft.Update" {
				// update restriction
				if f, ok := hasFact(facts, false, ".UpdateRestricted"); ok && strings.Contains(f.Text, class) {
					r.ok("update-restriction", key, pos, "UpdateRestricted of class "+class+" is false on this path ("+f.String()+")")
				} else if why, ok := w.pathGuard(ev.Fr, ev.Site, false, ".UpdateRestricted", class); ok {
					r.ok("update-restriction", key, pos, "path-sensitive guard: "+why)
				} else {
					r.violate("update-restriction", key, pos, "metadata update reachable without a test of the class's UpdateRestricted flag on chain "+ev.Fr.String())
				}
			}
		case "nft.Mint":
			// FailGuard(MintRestricted true) with the creator comparison on the way to the failure exit
			why, ok := w.pathGuardAny(ev.Fr, ev.Site, guardAlt{Value: false, Subs: []string{".MintRestricted"}}, guardAlt{Value: false, Subs: []string{".Creator", "!=", signers[0]}}, guardAlt{Value: true, Subs: []string{".Creator", "==", signers[0]}})
			r.check(ok, "mint-restriction", key, pos, "path-sensitive guard: "+why,
				"Mint reachable without the MintRestricted ∧ creator≠signer rejection on chain "+ev.Fr.String())
			// the class of the restriction test is the minted class
			tok := ev.Args[len(ev.Args)-2]
			cls := findSub(tok, func(t *Term) bool { return t.Op == "const" && t.Name == "ClassId" })
			_ = cls
		case "nft.UpdateClass":
			f, ok := hasFact(facts, false, "!=", signers[0], ".Creator")
			if !ok {
				f, ok = hasFact(facts, true, "==", signers[0], ".Creator")
			}
			r.check(ok, "class-owner-guard", key, pos, "signer equals the recorded class creator before UpdateClass ("+f.String()+")",
				"UpdateClass reachable without comparing the declared signer with the class creator on chain "+ev.Fr.String())
			// a class update carries the restriction flags of the stored class over unchanged:
			// a flag that is dropped from the rebuilt metadata reads as false afterwards and
			// the restriction silently stops applying to the class's tokens
			st := findSub(ev.Args[len(ev.Args)-1], func(t *Term) bool { return t.Op == "struct" && t.Name == "DenomMetadata" })
			if st == nil {
				// the loaded class is updated in place: class.Data = pack(&DenomMetadata{…})
				for _, dt := range classDataStores(w, ev) {
					if x := findSub(dt, func(t *Term) bool { return t.Op == "struct" && t.Name == "DenomMetadata" }); x != nil {
						st = x
					}
				}
			}
			if st != nil {
				got := map[string]string{}
				for i := 0; i+1 < len(st.Args); i += 2 {
					got[st.Args[i].Name] = st.Args[i+1].LooseString()
				}
				var bad []string
				for _, fl := range []string{"MintRestricted", "UpdateRestricted"} {
					v, has := got[fl]
					if !has || !strings.HasSuffix(v, "."+fl) || strings.HasPrefix(v, "msg.") {
						bad = append(bad, fl+"="+map[bool]string{true: v, false: "(unset)"}[has])
					}
				}
				r.check(len(bad) == 0, "class-flags-kept", key, pos, "the updated class metadata copies MintRestricted and UpdateRestricted from the stored class", "UpdateClass writes class metadata whose restriction flags are not copied from the stored class ("+strings.Join(bad, ", ")+"): after this update the class is no longer restricted")
			} else {
				r.toolErr("UpdateClass at %s: class metadata literal not found in the argument", pos)
			}
		case "nft.SaveClass":
			cls := ev.Args[len(ev.Args)-1]
			st := findSub(cls, func(t *Term) bool { return t.Op == "struct" && t.Name == "DenomMetadata" })
			ok := false
			got := "?"
			if st != nil {
				for i := 0; i+1 < len(st.Args); i += 2 {
					if st.Args[i].Name == "Creator" {
						got = st.Args[i+1].LooseString()
						ok = got == signers[0]
					}
				}
			}
			r.check(ok, "creator-is-signer", key, pos, "new class records creator = "+got+" (the declared signer)", "new class records creator "+got+", not the declared signer "+signers[0])
		}
	})
	for _, o := range over {
		r.toolErr("frame budget exceeded for %s", o)
	}
	// class and token records keep each setting in its own field, through messages and through
	// a genesis round trip (rule shared with C12)
	{
		ents := append([]Entry{}, entries...)
		for _, e := range cx.entriesOfModule("nft", "genesis") {
			if e.Name == "InitGenesis" {
				ents = append(ents, e)
			}
		}
		if n := cx.crossedFieldsRule(r, ents, "fields-not-crossed"); n < 2 {
			r.toolErr("only %d nft records assembled on message / import paths inspected (≥2 confirmed)", n)
		}
	}
	for _, k := range []string{"nft.Mint", "nft.Burn", "nft.Update", "nft.Transfer", "nft.SaveClass", "nft.UpdateClass"} {
		if seenKind[k] == 0 {
			r.toolErr("no message path reaches %s (confirmed by hand that one exists)", k)
		}
	}
	// who may call the mutators
	n := 0
	for _, f := range cx.P.AllFuncs {
		if !isConsensusCode(cx, f) {
			continue
		}
		for _, p := range cx.primsOf(f) {
			if !nftMutators[p.Kind] {
				continue
			}
			n++
			mod := moduleOf(funcPkgPath(f))
			r.check(mod == "nft", "who-may-call", p.Kind+"|"+mod, cx.P.Pos(p.Site.Pos()), p.Kind+" called from modules/nft ("+shortFn(f)+")", p.Kind+" called from outside modules/nft: "+shortFn(f))
		}
	}
	// ids never assigned on loaded objects
	nst := 0
	for _, f := range cx.P.AllFuncs {
		if !isConsensusCode(cx, f) || moduleOf(funcPkgPath(f)) != "nft" {
			continue
		}
		for _, b := range f.Blocks {
			for _, ins := range b.Instrs {
				st, ok := ins.(*ssa.Store)
				if !ok {
					continue
				}
				fa, ok := st.Addr.(*ssa.FieldAddr)
				if !ok {
					continue
				}
				tn := namedOf(fa.X.Type())
				if tn == nil || tn.Obj().Pkg() == nil || tn.Obj().Pkg().Path() != "cosmossdk.io/x/nft" {
					continue
				}
				fname := fieldNameShort(fa.X.Type(), fa.Field)
				if fname != "Id" && fname != "ClassId" {
					continue
				}
				nst++
				// (the record may be a part of a larger literal under construction: an embedded
				// field of a draft struct)
				root := fa.X
				for d := 0; d < 4; d++ {
					in, ok := root.(*ssa.FieldAddr)
					if !ok {
						break
					}
					whole := false
					if in.Referrers() != nil {
						for _, ref := range *in.Referrers() {
							if s2, ok := ref.(*ssa.Store); ok && s2.Addr == ssa.Value(in) {
								whole = true
							}
						}
					}
					if whole {
						break
					}
					root = in.X
				}
				base, _ := root.(*ssa.Alloc)
				fresh := base != nil
				if base != nil {
					for _, ref := range *base.Referrers() {
						if s2, ok := ref.(*ssa.Store); ok && s2.Addr == base {
							fresh = false // a loaded value was copied in first
						}
					}
				}
				r.check(fresh, "id-immutable", tn.Obj().Name()+"."+fname+"|"+anchorOf(cx, f), cx.P.Pos(st.Pos()),
					"assignment to "+tn.Obj().Name()+"."+fname+" builds a fresh value (composite literal)",
					"assignment to "+tn.Obj().Name()+"."+fname+" of an existing (loaded) object in "+shortFn(f))
			}
		}
	}
	_ = types.Typ
	r.requireCount("owner-guard", 4)
	r.requireCount("who-may-call", 6)
	r.requireCount("id-immutable", 2)
}

// classDataStores: the values stored into field Data of the struct local that is passed
// (as a whole) to the class mutator at ev, by stores that can reach the call.
func classDataStores(w *Walker, ev *Event) []*Term {
	ci, ok := ev.Site.(ssa.CallInstruction)
	if !ok || len(ci.Common().Args) == 0 {
		return nil
	}
	arg := ci.Common().Args[len(ci.Common().Args)-1]
	u, ok := arg.(*ssa.UnOp)
	if !ok {
		return nil
	}
	a, ok := u.X.(*ssa.Alloc)
	if !ok || a.Referrers() == nil {
		return nil
	}
	var out []*Term
	for _, r := range *a.Referrers() {
		fa, ok := r.(*ssa.FieldAddr)
		if !ok || fieldNameShort(fa.X.Type(), fa.Field) != "Data" || fa.Referrers() == nil {
			continue
		}
		for _, r2 := range *fa.Referrers() {
			if st, ok := r2.(*ssa.Store); ok && st.Addr == fa && instrReaches(st, ev.Site) {
				out = append(out, w.ts.Of(st.Val, ev.Fr))
			}
		}
	}
	return out
}
