package main

// C17 — Oracle: feeds store exactly the aggregated answers, bounded,
// creator-controlled; the feed state index mirrors the service context.

import (
	"fmt"
	"go/token"
	"go/types"
	"golang.org/x/tools/go/ssa"
	"strings"
)

func init() { register("C17", true, true, "other", runC17) }

const (
	orcValue = "oracle:PrefixFeedValueKey=0x03"
	orcPause = "oracle:PrefixFeedPauseStateKey=0x05"
)

func runC17(cx *Ctx, r *Report) {
	r.Explanation = "F3/F4/F1 over every call chain of the four oracle handlers and the three service callbacks. (creator) every mutation of StartFeed, PauseFeed and EditFeed — including those inside the service keeper reached through the keeper interface — holds the fact signer == the feed's recorded creator; the new feed records the signer as creator. (state mirror) wherever the service context's State is assigned s on such a path, the feed state index is moved to s in the same handler (delete of the other state's key, set of s's key, all must-executed); the state callback moves the index to the context's current state; a new feed is indexed PAUSED and its context is created PAUSED. (one value per response) the response callback writes at most one feed value, keyed by (feed name, the context's batch counter), whose Timestamp is the block time and whose Data is the result of the feed's configured aggregate over the values extracted from the response outputs; the trim of old values precedes the write and deletes oldest-first; value lists are read newest-first (reverse iterator). (trim count) EditFeed removes exactly stored-count − msg.LatestHistory oldest values and only when the new history is smaller than the stored count; the response callback removes stored-count − LatestHistory + 1 before adding one. Decides structure; the aggregate's numeric result is not decided."
	r.Assumptions = []string{"the service module invokes the callbacks it registered (C08)", "store iteration is ordered by key; the value key ends in the big-endian batch counter"}
	per := collectEvents(cx, r, "oracle", "msg", "callback")
	// ---------------- creator guard
	for _, name := range []string{"StartFeed", "PauseFeed", "EditFeed"} {
		n, okAll := 0, true
		for _, x := range per[name] {
			if !htlcMutating(x.ev.Kind) && !strings.HasPrefix(x.ev.Kind, "ext.ServiceKeeper.Start") && !strings.HasPrefix(x.ev.Kind, "ext.ServiceKeeper.Pause") && !strings.HasPrefix(x.ev.Kind, "ext.ServiceKeeper.Update") {
				continue
			}
			n++
			if _, ok := x.fact(false, "(msg.Creator != oracle/keeper.Keeper.GetFeed(keeper, msg.FeedName)#0.Creator)"); !ok {
				okAll = false
				r.violate("creator-guard", name+"|"+x.ev.Kind+"|"+strings.Join(x.ev.Prefix, ","), x.ev.Pos(cx), x.ev.Kind+" reachable in "+name+" without the fact signer == feed creator on chain "+x.ev.Fr.String())
			}
		}
		if okAll && n > 0 {
			r.ok("creator-guard", name, "", fmt.Sprintf("all %d mutations of %s (including those inside the service keeper) are dominated by signer == the feed's recorded creator", n, name))
		}
		if n < 3 {
			r.toolErr("%s: only %d mutations found", name, n)
		}
	}
	{
		set := pick(per["CreateFeed"], "store.set", func(x hev) bool { return hasPrefix(x.ev, "oracle:PrefixFeedKey=0x01") })
		ok := len(set) == 1
		if ok {
			st := findSub(set[0].ev.Args[1], func(t *Term) bool { return t.Op == "struct" && t.Name == "Feed" })
			ok = false
			if st != nil {
				f := map[string]string{}
				for i := 0; i+1 < len(st.Args); i += 2 {
					f[st.Args[i].Name] = st.Args[i+1].LooseString()
				}
				dup := cx.absenceFact(set[0].w.FactsAt(set[0].ev.Fr, set[0].ev.Site), "oracle:PrefixFeedKey=0x01", "msg.FeedName")
				ok = f["Creator"] == "msg.Creator" && f["FeedName"] == "msg.FeedName" && f["AggregateFunc"] == "msg.AggregateFunc" && f["ValueJsonPath"] == "msg.ValueJsonPath" && f["LatestHistory"] == "msg.LatestHistory" && dup &&
					strings.Contains(f["RequestContextID"], "ServiceKeeper.CreateRequestContext(")
			}
		}
		r.check(ok, "create-feed", "CreateFeed", "", "a new feed (name not yet existing) records the signer as creator, the configured aggregate / path / history and the id of the context it created", "CreateFeed does not store a feed built from the message under the not-existing fact")
	}
	// ---------------- state mirror
	stateOf := func(x hev) string { return x.ev.Args[0].LooseString() }
	for _, name := range []string{"StartFeed", "PauseFeed"} {
		evs := per[name]
		as := pick(evs, "assign:RequestContext.State", nil)
		del := pick(evs, "store.delete", func(x hev) bool { return hasPrefix(x.ev, orcPause) })
		set := pick(evs, "store.set", func(x hev) bool { return hasPrefix(x.ev, orcPause) })
		ok := len(as) == 1 && len(del) == 1 && len(set) == 1
		pos := ""
		if ok {
			pos = set[0].ev.Pos(cx)
			s := stateOf(as[0])
			other := map[string]string{"0": "1", "1": "0"}[s]
			ok = set[0].ev.Args[0].LooseString() == "oracle/types.GetFeedStateKey(msg.FeedName, "+s+")" && del[0].ev.Args[0].LooseString() == "oracle/types.GetFeedStateKey(msg.FeedName, "+other+")" &&
				as[0].must() && del[0].must() && set[0].must() && orderedBefore(as[0].ev, set[0].ev)
			// the handler checks the context is in the other state before
			want := map[string]string{"0": "RUNNING", "1": "PAUSED"}[s]
			_ = want
		}
		r.check(ok, "state-mirror", name, pos, "the context's State := s is followed, must-executed, by delete(feed, other state) and set(feed, s) in the feed state index", name+": the feed state index is not moved to the state assigned to the service context")
	}
	{
		evs := per["RegisterStateCallback"]
		del := pick(evs, "store.delete", func(x hev) bool { return hasPrefix(x.ev, orcPause) })
		set := pick(evs, "store.set", func(x hev) bool { return hasPrefix(x.ev, orcPause) })
		ok := len(del) == 1 && len(set) == 1
		if ok {
			ok = strings.HasSuffix(set[0].ev.Args[0].LooseString(), ", oracle/types.ServiceKeeper.GetRequestContext(keeper.sk, requestContextID)#0.State)") && strings.HasSuffix(del[0].ev.Args[0].LooseString(), ", φ{0|1})")
		}
		r.check(ok, "state-mirror", "state callback", "", "the state callback sets the index entry of the context's current State and deletes the other state's entry", "the state callback does not move the feed index to the context's current state")
	}
	{
		evs := per["CreateFeed"]
		set := pick(evs, "store.set", func(x hev) bool { return hasPrefix(x.ev, orcPause) })
		cr := pick(evs, "ext.ServiceKeeper.CreateRequestContext", nil)
		ok := len(set) == 1 && len(cr) == 1 && set[0].ev.Args[0].LooseString() == "oracle/types.GetFeedStateKey(msg.FeedName, 1)" && len(cr[0].ev.Args) >= 12 && cr[0].ev.Args[10].LooseString() == "1" && cr[0].ev.Args[12].LooseString() == `"oracle"`
		r.check(ok, "state-mirror", "CreateFeed", "", "a new feed is indexed PAUSED and its context is created PAUSED for module oracle", "a new feed's index state and its context's initial state differ")
	}
	// ---------------- the state callback sees the stored state
	if n := cx.stateCallbackAfterPersist(r, "state-callback-after-persist"); n < 1 {
		r.toolErr("no invocation of a StateCallback value found in the service module (1 confirmed)")
	}
	// ---------------- every response counts once
	cx.c17AllResponsesCounted(r, per["RegisterResponseCallback"])
	// ---------------- one value per response
	{
		evs := per["RegisterResponseCallback"]
		set := pick(evs, "store.set", func(x hev) bool { return hasPrefix(x.ev, orcValue) })
		del := pick(evs, "store.delete", func(x hev) bool { return hasPrefix(x.ev, orcValue) })
		ok := len(set) == 1 && !set[0].ev.InLoop
		pos := ""
		if ok {
			pos = set[0].ev.Pos(cx)
			feed := "oracle/keeper.Keeper.GetFeedByReqCtxID(keeper, requestContextID)#0"
			key := set[0].ev.Args[0].LooseString()
			okKey := key == "oracle/types.GetFeedValueKey("+feed+".FeedName, oracle/types.ServiceKeeper.GetRequestContext(keeper.sk, requestContextID)#0.BatchCounter)"
			st := findSub(set[0].ev.Args[1], func(t *Term) bool { return t.Op == "struct" && t.Name == "FeedValue" })
			okVal := false
			if st != nil {
				f := map[string]string{}
				for i := 0; i+1 < len(st.Args); i += 2 {
					f[st.Args[i].Name] = st.Args[i+1].LooseString()
				}
				okVal = f["Timestamp"] == "sdk.Context.BlockTime()" && strings.HasPrefix(f["Data"], "call[oracle/types.GetAggregateFunc("+feed+".AggregateFunc)#0](") && strings.Contains(f["Data"], feed+".ValueJsonPath") && strings.Contains(f["Data"], "responseOutput")
			}
			// trim precedes the write, deletes through a forward iterator
			okTrim := len(del) == 1 && orderedBefore(del[0].ev, set[0].ev) && strings.Contains(del[0].ev.Args[0].LooseString(), "storetypes.KVStorePrefixIterator(") && !strings.Contains(del[0].ev.Args[0].LooseString(), "Reverse")
			if !okTrim && len(del) == 1 && orderedBefore(del[0].ev, set[0].ev) {
				_, okTrim = cx.keepTrimIdiom(del[0])
			}
			// guards: non-empty outputs and nil error
			_, g1 := set[0].fact(false, "(len(responseOutput) == 0)")
			_, g2 := set[0].fact(false, "(err != nil)")
			ok = okKey && okVal && okTrim && g1 && g2
			if !ok {
				r.violate("one-value-per-response", "response callback", pos, fmt.Sprintf("the response callback's value write is not {key (feed, batch counter): %v, value (aggregate of extracted data, block time): %v, trim before write oldest-first: %v, only on non-empty error-free outputs: %v}", okKey, okVal, okTrim, g1 && g2))
			}
		}
		if ok {
			r.ok("one-value-per-response", "response callback", pos, "the response callback writes exactly one value per invocation (not in a loop), keyed (feed name, context batch counter), Data = configured aggregate of the values extracted at the feed's JSON path, Timestamp = block time, after trimming oldest-first, only for non-empty error-free outputs")
		} else if len(set) != 1 {
			r.violate("one-value-per-response", "response callback", "", fmt.Sprintf("the response callback has %d feed-value writes (expected exactly one, outside any loop)", len(set)))
		}
	}
	// ---------------- newest-first reads
	{
		n, ok := 0, true
		for _, f := range cx.P.AllFuncs {
			if !isConsensusCode(cx, f) || moduleOf(funcPkgPath(f)) != "oracle" {
				continue
			}
			for _, p := range cx.primsOf(f) {
				if (p.Kind == "store.iter" || p.Kind == "store.riter") && len(p.Prefix) == 1 && p.Prefix[0] == orcValue {
					// the forward iterator is allowed only in functions that delete (trim)
					if p.Kind == "store.iter" {
						trims := false
						for _, q := range cx.primsOf(f) {
							if q.Kind == "store.delete" {
								trims = true
							}
						}
						readsValues := false
						for _, b := range f.Blocks {
							for _, ins := range b.Instrs {
								if ci, isCall := ins.(ssa.CallInstruction); isCall && ci.Common().IsInvoke() && ci.Common().Method.Name() == "Value" {
									readsValues = true
								}
							}
						}
						// (a scan that never looks at the values - it counts or collects keys - lists nothing)
						if !trims && readsValues && !strings.Contains(cx.P.File(f.Pos()), "genesis") {
							ok = false
							r.violate("newest-first", anchorOf(cx, f), cx.P.Pos(p.Site.Pos()), "feed values are listed with a forward (oldest-first) iterator in "+shortFn(f))
						}
					}
					n++
				}
			}
		}
		if ok {
			r.ok("newest-first", "scan", "", fmt.Sprintf("%d iterations over the feed-value prefix: lists use the reverse iterator, the forward iterator is used only to trim oldest entries", n))
		}
	}
	// ---------------- trimming counts
	cx.oracleTrimRule(r, per, "trim-count")
	cx.lostUpdateRule(r, []string{"oracle"}, 8)
	cx.scanPrefixClosedRule(r, []string{"oracle"}, "scan-prefix-closed")
	cx.keyEncodingUniformRule(r, []string{"oracle"}, "key-encoding-uniform")
	// the stored aggregate is the float64 result printed with 8 decimals: every FormatFloat
	// reachable from the aggregate functions is ('f', 8, 64) and no value is narrowed to
	// float32 on the way (7 significant digits would then be all that is correct)
	{
		var roots []*ssa.Function
		for _, f := range cx.P.AllFuncs {
			if f.Blocks == nil || f.Parent() != nil || funcPkgPath(f) != modPrefix+"modules/oracle/types" || f.Signature.Recv() != nil {
				continue
			}
			ps, rs := f.Signature.Params(), f.Signature.Results()
			if ps.Len() != 1 || rs.Len() != 1 {
				continue
			}
			if _, isSl := ps.At(0).Type().Underlying().(*types.Slice); !isSl {
				continue
			}
			if b, ok := rs.At(0).Type().Underlying().(*types.Basic); !ok || b.Kind() != types.String {
				continue
			}
			roots = append(roots, f)
		}
		n := 0
		var bad []string
		for _, g := range cx.Reachable(roots, nil).Order {
			if g.Blocks == nil || !isIrismodFunc(g) {
				continue
			}
			for _, b := range g.Blocks {
				for _, ins := range b.Instrs {
					if cv, ok := ins.(*ssa.Convert); ok {
						if bt, ok := cv.Type().Underlying().(*types.Basic); ok && bt.Kind() == types.Float32 {
							bad = append(bad, "conversion to float32 at "+cx.P.Pos(cv.Pos()))
						}
					}
					c, ok := ins.(*ssa.Call)
					if !ok || !calleeIs(c, "strconv", "FormatFloat") {
						continue
					}
					n++
					args := c.Common().Args
					cs := func(i int) string {
						if k, ok := args[i].(*ssa.Const); ok && k.Value != nil {
							return k.Value.ExactString()
						}
						return "?"
					}
					if len(args) != 4 || cs(1) != "102" || cs(2) != "8" || cs(3) != "64" {
						bad = append(bad, fmt.Sprintf("FormatFloat(·, %s, %s, %s) at %s", cs(1), cs(2), cs(3), cx.P.Pos(c.Pos())))
					}
				}
			}
		}
		if len(roots) < 3 || n == 0 {
			r.toolErr("aggregate functions / FormatFloat calls not found (%d functions, %d calls)", len(roots), n)
		}
		r.check(len(bad) == 0, "aggregate-format", "oracle/types", "", fmt.Sprintf("all %d FormatFloat calls of the aggregate functions are ('f', 8, 64), no float32 narrowing", n), "the aggregate is not rendered as the float64 value with 8 decimals: "+strings.Join(bad, "; ")+" - the stored feed value is only correct to float32 precision / a different number of decimals")
	}
	// per-feed isolation of the value history: the feed name is delimited in the value keys
	if n := cx.nameDelimitedRule(r, "oracle", "key-name-delimited"); n < 1 {
		r.toolErr("no oracle key constructor with a name followed by further components found (GetFeedValueKey confirmed)")
	}
	r.requireCount("trim-count", 2)
	r.requireCount("creator-guard", 3)
	r.requireCount("state-mirror", 4)
}

// oracleTrimRule (C17 trim-count; C12 shares it): the number of oldest feed values an
// edit or a response removes is computed from the stored count and the window that
// will be in force, so that the store never holds more values than the feed's
// LatestHistory. Genesis import replays the exported values through the trimming
// writer: a store that holds more than the window exports values the import drops,
// and the re-imported chain answers value queries differently.
func (cx *Ctx) oracleTrimRule(r *Report, per map[string][]hev, rule string) {
	// the number of oldest values removed is (stored count − allowed history), where the
	// stored count is computed by iterating the feed's own value prefix
	counters := map[string]bool{}
	for _, f := range cx.P.AllFuncs {
		if !isConsensusCode(cx, f) || moduleOf(funcPkgPath(f)) != "oracle" || f.Parent() != nil {
			continue
		}
		res := f.Signature.Results()
		if res.Len() != 1 {
			continue
		}
		if b, ok := res.At(0).Type().Underlying().(*types.Basic); !ok || b.Info()&types.IsInteger == 0 {
			continue
		}
		for _, p := range cx.primsOf(f) {
			if (p.Kind == "store.iter" || p.Kind == "store.riter") && len(p.Prefix) == 1 && p.Prefix[0] == orcValue {
				counters[callNameOfFn(f)] = true
			}
		}
	}
	trimArg := func(x hev) string {
		fr := x.ev.Fr
		ps := fr.Fn.Params
		if len(ps) == 0 {
			return ""
		}
		return x.w.ts.Of(ps[len(ps)-1], fr).LooseString()
	}
	hasCounter := func(s string) bool {
		for c := range counters {
			if strings.Contains(s, c+"(") {
				return true
			}
		}
		return false
	}
	for _, name := range []string{"EditFeed", "RegisterResponseCallback"} {
		del := pick(per[name], "store.delete", func(x hev) bool { return hasPrefix(x.ev, orcValue) })
		if len(del) == 0 {
			r.violate(rule, name, "", name+" no longer trims old feed values")
			continue
		}
		for _, d := range del {
			a := trimArg(d)
			var ok bool
			var want string
			if keep, isKeep := cx.keepTrimIdiom(d); isKeep {
				// second recognised form: delete keys[:len(keys)-keep] of the feed's keys in
				// ascending order - "keep the newest `keep`"
				if name == "EditFeed" {
					want = "all but the newest msg.LatestHistory"
					ok = keep == "msg.LatestHistory"
				} else {
					want = "all but the newest (feed.LatestHistory − 1) before adding one value"
					ok = strings.HasSuffix(keep, ".LatestHistory - 1)") && strings.HasPrefix(keep, "(") && !strings.Contains(keep, "msg.")
				}
				r.check(ok, rule, name, d.ev.Pos(cx), "the trim keeps "+want+" (oldest keys deleted first)", name+": the trim keeps the newest "+trunc(keep, 160)+" values; expected "+want+": the feed would keep fewer (or more) than the newest latest-history values")
				continue
			}
			if name == "EditFeed" {
				want = "(stored count − msg.LatestHistory), only when msg.LatestHistory < stored count"
				_, g := d.factOrdered(true, "msg.LatestHistory", " < ")
				if !g {
					// the same condition on the difference itself: surplus := count − n; if surplus > 0
					_, g = d.fact(true, "("+a+" > 0)")
				}
				if !g {
					_, g = d.fact(false, "("+a+" <= 0)")
				}
				ok = hasCounter(a) && strings.HasPrefix(a, "(") && strings.HasSuffix(a, " - msg.LatestHistory)") && g
			} else {
				want = "((stored count − feed.LatestHistory) + 1) before adding one value"
				ok = hasCounter(a) && strings.Contains(a, ".LatestHistory) + 1)") && !strings.Contains(a, "msg.")
			}
			r.check(ok, rule, name, d.ev.Pos(cx), "the number of oldest values removed is "+want, name+": removes "+trunc(a, 160)+" oldest values; expected "+want+": the feed would keep fewer (or more) than the newest latest-history values")
		}
	}
}

// c17AllResponsesCounted: the list handed to the aggregate function gets one element per
// response output. The loop over the outputs appends on every iteration, or skips an
// output only for a reason found in that output itself; an append that depends on what
// EARLIER iterations did (a "seen" / memo map filled by the same loop) drops or merges
// responses - byte-identical answers of two providers then count once in the average.
func (cx *Ctx) c17AllResponsesCounted(r *Report, evs []hev) {
	if len(evs) == 0 {
		r.toolErr("no event on the oracle response callback chain")
		return
	}
	root := rootFrame(evs[0].ev.Fr).Fn
	var fns []*ssa.Function
	for _, g := range cx.Reachable([]*ssa.Function{root}, nil).Order {
		if g.Blocks != nil && isIrismodFunc(g) && moduleOf(funcPkgPath(g)) == "oracle" {
			fns = append(fns, g)
		}
	}
	n := 0
	for _, f := range fns {
		// loops that walk a []string parameter
		headers := map[*ssa.BasicBlock]bool{}
		for _, b := range f.Blocks {
			for _, ins := range b.Instrs {
				ia, ok := ins.(*ssa.IndexAddr)
				if !ok {
					continue
				}
				base := ia.X
				if u, ok := base.(*ssa.UnOp); ok {
					if a, ok := u.X.(*ssa.Alloc); ok && a.Referrers() != nil {
						for _, rf := range *a.Referrers() {
							if st, ok := rf.(*ssa.Store); ok && st.Addr == a {
								base = st.Val
							}
						}
					}
				}
				p, ok := base.(*ssa.Parameter)
				if !ok {
					continue
				}
				sl, ok := p.Type().Underlying().(*types.Slice)
				if !ok {
					continue
				}
				if bt, ok := sl.Elem().Underlying().(*types.Basic); !ok || bt.Kind() != types.String {
					continue
				}
				if h := loopHeaderOf(b); h != nil {
					headers[h] = true
				}
			}
		}
		for h := range headers {
			inL := func(b *ssa.BasicBlock) bool {
				for x := loopHeaderOf(b); x != nil; {
					if x == h {
						return true
					}
					if x.Idom() == nil {
						break
					}
					x = loopHeaderOf(x.Idom())
				}
				return b == h
			}
			var apps []ssa.Instruction
			updated := map[ssa.Value]bool{}
			var lookups []*ssa.Lookup
			for _, b := range f.Blocks {
				if !inL(b) {
					continue
				}
				for _, ins := range b.Instrs {
					switch x := ins.(type) {
					case *ssa.Call:
						if bi, ok := x.Common().Value.(*ssa.Builtin); ok && bi.Name() == "append" {
							apps = append(apps, x)
						}
					case *ssa.Store:
						// out := make([]T, len(in)); out[i] = f(in[i]) fills the input as well
						if ia, ok := x.Addr.(*ssa.IndexAddr); ok {
							if _, isMS := ia.X.(*ssa.MakeSlice); isMS {
								apps = append(apps, x)
							}
						}
					case *ssa.MapUpdate:
						updated[x.Map] = true
					case *ssa.Lookup:
						lookups = append(lookups, x)
					}
				}
			}
			if len(apps) == 0 {
				continue
			}
			n++
			pos := cx.P.Pos(apps[0].Pos())
			if perIterationMust(apps) {
				r.ok("all-responses-counted", shortFn(f), pos, "the loop over the response outputs appends one element to the aggregate's input on every iteration")
				continue
			}
			memo := ""
			for _, l := range lookups {
				if updated[l.X] {
					memo = cx.P.Pos(l.Pos())
				}
			}
			r.check(memo == "", "all-responses-counted", shortFn(f), pos, "an output is skipped only for a reason found in that output itself (no state carried between iterations decides it)", "in the loop over the response outputs the append to the aggregate's input is skipped depending on a map the same loop fills (lookup at "+memo+"): outputs that repeat an earlier one are dropped, so the aggregate (the average in particular) is not taken over every valid response")
		}
	}
	if n == 0 {
		r.toolErr("no loop over the response outputs that fills the aggregate's input was found on the callback chain (1 confirmed)")
	}
}

// keepTrimIdiom: the delete at d removes, oldest first, all but the newest K values of a
// feed:  keys := <all keys under the feed's value prefix, ascending>;
//
//	for _, key := range keys[:len(keys)-K] { store.Delete(key) }
//
// with K the last parameter of the deleting function (possibly clamped at zero). Returns
// K's term on this call chain.
func (cx *Ctx) keepTrimIdiom(d hev) (string, bool) {
	ci, ok := d.ev.Site.(ssa.CallInstruction)
	if !ok || len(ci.Common().Args) == 0 {
		return "", false
	}
	ld, ok := ci.Common().Args[0].(*ssa.UnOp)
	if !ok {
		return "", false
	}
	ia, ok := ld.X.(*ssa.IndexAddr)
	if !ok {
		return "", false
	}
	sl, ok := ia.X.(*ssa.Slice)
	if ok && sl.Low != nil && sl.High == nil {
		return cx.keepTrimDescending(d, ci, sl)
	}
	if !ok || sl.Low != nil || sl.High == nil {
		return "", false
	}
	sub, ok := sl.High.(*ssa.BinOp)
	if !ok || sub.Op != token.SUB {
		return "", false
	}
	// len(S) − K over the very slice S that is cut
	lc, ok := sub.X.(*ssa.Call)
	if !ok || len(lc.Common().Args) != 1 || lc.Common().Args[0] != sl.X {
		return "", false
	}
	if b, isB := lc.Common().Value.(*ssa.Builtin); !isB || b.Name() != "len" {
		return "", false
	}
	// S: the snapshot of all keys of the value prefix, taken with a forward iterator
	sc, ok := sl.X.(*ssa.Call)
	if !ok {
		return "", false
	}
	g := sc.Common().StaticCallee()
	if g == nil || !cx.snapshotCollector(g) {
		return "", false
	}
	fwd := false
	for _, p := range cx.primsOf(g) {
		if p.Kind == "store.riter" {
			return "", false
		}
		if p.Kind == "store.iter" && len(p.Prefix) == 1 && p.Prefix[0] == orcValue {
			fwd = true
		}
	}
	if !fwd {
		return "", false
	}
	// K: the function's last parameter, possibly through φ(param, 0) and conversions
	fn := ci.Parent()
	if len(fn.Params) == 0 {
		return "", false
	}
	last := fn.Params[len(fn.Params)-1]
	var isK func(v ssa.Value, depth int) bool
	isK = func(v ssa.Value, depth int) bool {
		if depth > 4 {
			return false
		}
		switch x := v.(type) {
		case *ssa.Parameter:
			return x == last
		case *ssa.Convert:
			return isK(x.X, depth+1)
		case *ssa.Phi:
			sawP := false
			for _, e := range x.Edges {
				if c, isC := e.(*ssa.Const); isC && c.Value != nil && c.Int64() == 0 {
					continue
				}
				if !isK(e, depth+1) {
					return false
				}
				sawP = true
			}
			return sawP
		}
		return false
	}
	if !isK(sub.Y, 0) {
		return "", false
	}
	return d.w.ts.Of(last, d.ev.Fr).LooseString(), true
}

// stateCallbackAfterPersist (C17, C08): the module state callback is told nothing but the
// context id - the oracle's handler re-reads the request context from the service store to
// learn the new state. It must therefore be invoked AFTER the changed context has been
// stored; called before the write it still sees the old state and moves the feed to the
// wrong side of the running / paused index.
func (cx *Ctx) stateCallbackAfterPersist(r *Report, rule string) int {
	n := 0
	for _, f := range cx.P.AllFuncs {
		if f.Blocks == nil || !isConsensusCode(cx, f) || moduleOf(funcPkgPath(f)) != "service" {
			continue
		}
		var persists []ssa.Instruction
		var calls []ssa.CallInstruction
		for _, b := range f.Blocks {
			for _, ins := range b.Instrs {
				ci, ok := ins.(ssa.CallInstruction)
				if !ok {
					continue
				}
				if !ci.Common().IsInvoke() && ci.Common().StaticCallee() == nil {
					if nt, ok := ci.Common().Value.Type().(*types.Named); ok && nt.Obj().Name() == "StateCallback" {
						calls = append(calls, ci)
						continue
					}
				}
				for _, e := range cx.calleesOf(ci) {
					if e.Kind == "dynamic" || e.Callee.Blocks == nil {
						continue
					}
					for _, g := range cx.reachableCS([]*ssa.Function{e.Callee}).Order {
						if g.Blocks == nil || !isIrismodFunc(g) {
							continue
						}
						for _, p := range cx.primsOf(g) {
							if p.Kind == "store.set" && len(p.Prefix) == 1 && p.Prefix[0] == "service:RequestContextKey=0x08" {
								persists = append(persists, ins)
							}
						}
					}
				}
			}
		}
		for _, c := range calls {
			n++
			ok := false
			for _, p := range persists {
				if p.Block() == c.Block() && instrIndex(p) < instrIndex(c) || p.Block() != c.Block() && p.Block().Dominates(c.Block()) {
					ok = true
				}
			}
			r.check(ok, rule, shortFn(f), cx.P.Pos(c.Pos()), "the state callback is invoked after the changed request context has been stored", "in "+shortFn(f)+" the module state callback is invoked before the changed request context is stored: the callback (the oracle's) re-reads the context from the store, still sees the old state and leaves the feed indexed under it - feed state and context state disagree from then on")
		}
	}
	return n
}

// keepTrimDescending: the mirrored form of the keep-trim idiom - the keys are collected
// newest first (reverse iterator) and the TAIL is deleted:
//
//	keys := <all keys, descending>; excess := len(keys) − keep   (possibly min(·, len(keys)))
//	for _, key := range keys[len(keys)-excess:] { store.Delete(key) }
//
// which keeps the newest `keep`. Deleting keys[:excess] of a descending list (or the tail
// of an ascending one) removes the newest values and is not this idiom.
func (cx *Ctx) keepTrimDescending(d hev, ci ssa.CallInstruction, sl *ssa.Slice) (string, bool) {
	lenOf := func(v ssa.Value, of ssa.Value) bool {
		lc, ok := v.(*ssa.Call)
		if !ok || len(lc.Common().Args) != 1 || lc.Common().Args[0] != of {
			return false
		}
		b, isB := lc.Common().Value.(*ssa.Builtin)
		return isB && b.Name() == "len"
	}
	// Low = len(S) − E
	low, ok := sl.Low.(*ssa.BinOp)
	if !ok || low.Op != token.SUB || !lenOf(low.X, sl.X) {
		return "", false
	}
	// S: snapshot taken with a reverse iterator
	sc, ok := sl.X.(*ssa.Call)
	if !ok {
		return "", false
	}
	g := sc.Common().StaticCallee()
	if g == nil || !cx.snapshotCollector(g) {
		return "", false
	}
	rev := false
	for _, p := range cx.primsOf(g) {
		if p.Kind == "store.iter" {
			return "", false
		}
		if p.Kind == "store.riter" {
			rev = true
		}
	}
	if !rev {
		return "", false
	}
	fn := ci.Parent()
	if len(fn.Params) == 0 {
		return "", false
	}
	last := fn.Params[len(fn.Params)-1]
	isK := func(v ssa.Value) bool {
		for {
			if cv, ok := v.(*ssa.Convert); ok {
				v = cv.X
				continue
			}
			break
		}
		return v == ssa.Value(last)
	}
	// E = len(S) − K, or min(len(S) − K, len(S)) in either order
	isLenMinusK := func(v ssa.Value) bool {
		bo, ok := v.(*ssa.BinOp)
		return ok && bo.Op == token.SUB && lenOf(bo.X, sl.X) && isK(bo.Y)
	}
	e := low.Y
	okE := isLenMinusK(e)
	if mc, ok := e.(*ssa.Call); ok && !okE {
		if b, isB := mc.Common().Value.(*ssa.Builtin); isB && b.Name() == "min" && len(mc.Common().Args) == 2 {
			a0, a1 := mc.Common().Args[0], mc.Common().Args[1]
			okE = isLenMinusK(a0) && lenOf(a1, sl.X) || isLenMinusK(a1) && lenOf(a0, sl.X)
		}
	}
	if !okE {
		return "", false
	}
	return d.w.ts.Of(last, d.ev.Fr).LooseString(), true
}
