package main

import (
	"fmt"
	"go/types"
	"sort"
	"strings"

	"golang.org/x/tools/go/ssa"
)

// Ctx carries the loaded program plus the derived call graph and entry points.
type Ctx struct {
	wrappers          map[*ssa.Function]*storeWrap
	writeRecs         map[*types.Named]*writeRec
	queuers           map[*ssa.Function]*queuer
	keyPats           []keyPattern
	readers           map[string][]readerInfo
	narrow            map[*types.TypeName]string
	entryRoles        map[*ssa.Function]map[string]bool
	initOnce          map[*ssa.Global]ssa.Value
	transp            map[*ssa.Function]bool
	narrowSrc         map[*types.TypeName]*types.Named
	noReadCanon       int
	memoWhy           map[*ssa.Lookup]string
	memos             map[*ssa.Lookup]*memoInfo
	expReads          map[string]map[string][]prefixUse
	Repo, Verif, Tier string
	tables            map[ssa.CallInstruction]*tableInfo
	constTables       map[*ssa.Global]*[]tableEntry
	maxDepthSeen      int
	c01Clean          *bool
	P                 *Program

	edges      map[*ssa.Function][]Edge
	addrTaken  map[string][]*ssa.Function // signature string -> irismod functions whose value is taken
	concrete   []types.Type               // irismod named types (T and *T) with methods
	implCache  map[string][]*ssa.Function
	Entries    []Entry
	doubles    map[*types.TypeName]bool // test-double types compiled into consensus packages
	tpk        map[*ssa.Function]map[string]bool
	gpn        map[*ssa.Global]string
	cReach     *Reach
	entryReach map[string]*Reach
	signers    map[string][]string
	passed     map[*ssa.Function]bool
	callers    map[*ssa.Function][]CallSite
	byTermName map[string]*ssa.Function
}

type Edge struct {
	Site   ssa.Instruction // call / closure creation
	Callee *ssa.Function
	Kind   string // static | invoke | dynamic | closure
}

type Entry struct {
	Role   string // msg | query | abci | genesis | callback | ante | upgrade | hook
	Name   string // anchored name: rpc method, BeginBlock, ...
	Module string
	Fn     *ssa.Function
}

func (cx *Ctx) init() {
	if cx.P.SSA == nil {
		return
	}
	cx.edges = map[*ssa.Function][]Edge{}
	cx.addrTaken = map[string][]*ssa.Function{}
	cx.implCache = map[string][]*ssa.Function{}
	cx.doubles = map[*types.TypeName]bool{}
	cx.findDoubles()
	// concrete irismod types
	for _, pk := range cx.P.Pkgs {
		sc := pk.Types.Scope()
		for _, n := range sc.Names() {
			tn, ok := sc.Lookup(n).(*types.TypeName)
			if !ok || tn.IsAlias() {
				continue
			}
			if _, isIface := tn.Type().Underlying().(*types.Interface); isIface {
				continue
			}
			if cx.doubles[tn] {
				continue
			}
			if named, ok := tn.Type().(*types.Named); ok && named.TypeParams().Len() > 0 {
				continue
			}
			cx.concrete = append(cx.concrete, tn.Type(), types.NewPointer(tn.Type()))
		}
	}
	// address-taken functions
	for _, f := range cx.P.AllFuncs {
		for _, b := range f.Blocks {
			for _, ins := range b.Instrs {
				ops := ins.Operands(nil)
				for i, op := range ops {
					if op == nil || *op == nil {
						continue
					}
					// the callee position of a call is not "address taken"
					if ci, ok := ins.(ssa.CallInstruction); ok && i == 0 && !ci.Common().IsInvoke() {
						if _, isFn := (*op).(*ssa.Function); isFn {
							continue
						}
					}
					switch v := (*op).(type) {
					case *ssa.Function:
						cx.takeAddr(v)
					case *ssa.MakeClosure:
						_ = v
					}
				}
				if mc, ok := ins.(*ssa.MakeClosure); ok {
					if fn, ok := mc.Fn.(*ssa.Function); ok {
						cx.takeAddr(fn)
					}
				}
			}
		}
	}
	cx.findEntries()
}

func (cx *Ctx) takeAddr(fn *ssa.Function) {
	if !isIrismodFunc(fn) && fn.Synthetic == "" {
		return
	}
	if cx.isDoubleFunc(fn) {
		return
	}
	key := sigKey(fn.Signature)
	for _, g := range cx.addrTaken[key] {
		if g == fn {
			return
		}
	}
	cx.addrTaken[key] = append(cx.addrTaken[key], fn)
}

func sigKey(s *types.Signature) string {
	// signature without receiver and without parameter names (func(k Keeper) and
	// func(Keeper) are the same function type)
	anon := func(t *types.Tuple) *types.Tuple {
		if t == nil {
			return nil
		}
		vs := make([]*types.Var, t.Len())
		for i := 0; i < t.Len(); i++ {
			vs[i] = types.NewVar(0, nil, "", t.At(i).Type())
		}
		return types.NewTuple(vs...)
	}
	return types.TypeString(types.NewSignatureType(nil, nil, nil, anon(s.Params()), anon(s.Results()), s.Variadic()), nil)
}

// findDoubles: the in-memory stand-ins for external keepers in
// token/keeper/mock.go. Side condition re-checked on each run: their
// constructors are referenced only from tests / e2e / simapp (never from a
// consensus package).
func (cx *Ctx) findDoubles() {
	for _, pk := range cx.P.Pkgs {
		if pkgRole(pk.PkgPath) != RoleConsensus {
			continue
		}
		for _, f := range pk.Syntax {
			fname := cx.P.Fset.Position(f.Pos()).Filename
			if !strings.HasSuffix(fname, "/mock.go") {
				continue
			}
			sc := pk.Types.Scope()
			for _, n := range sc.Names() {
				obj := sc.Lookup(n)
				if cx.P.Fset.Position(obj.Pos()).Filename != fname {
					continue
				}
				if tn, ok := obj.(*types.TypeName); ok {
					cx.doubles[tn] = true
				}
			}
		}
	}
}

func (cx *Ctx) isDoubleFunc(fn *ssa.Function) bool {
	for fn.Parent() != nil {
		fn = fn.Parent()
	}
	if fn.Signature.Recv() != nil {
		t := fn.Signature.Recv().Type()
		if p, ok := t.(*types.Pointer); ok {
			t = p.Elem()
		}
		if n, ok := t.(*types.Named); ok && cx.doubles[n.Obj()] {
			return true
		}
	}
	if fn.Pos().IsValid() && strings.HasSuffix(cx.P.Fset.Position(fn.Pos()).Filename, "/keeper/mock.go") {
		return true
	}
	return false
}

// implementers of an interface method among irismod concrete types.
func (cx *Ctx) implementers(iface *types.Interface, recvT types.Type, method *types.Func) []*ssa.Function {
	key := types.TypeString(recvT, nil) + "." + method.Name()
	if r, ok := cx.implCache[key]; ok {
		return r
	}
	var out []*ssa.Function
	seen := map[*ssa.Function]bool{}
	for _, t := range cx.concrete {
		if !types.Implements(t, iface) {
			continue
		}
		// *T whose T also implements: the value method is reached either way
		if p, ok := t.(*types.Pointer); ok && types.Implements(p.Elem(), iface) {
			continue
		}
		ms := cx.P.SSA.MethodSets.MethodSet(t)
		sel := ms.Lookup(method.Pkg(), method.Name())
		if sel == nil {
			continue
		}
		fn := cx.P.SSA.MethodValue(sel)
		if fn == nil || seen[fn] {
			continue
		}
		// a *T wrapper of a T method: go to the declared method
		seen[fn] = true
		out = append(out, fn)
	}
	sort.Slice(out, func(i, j int) bool { return out[i].String() < out[j].String() })
	cx.implCache[key] = out
	return out
}

// Callees of one call instruction (irismod-resolvable ones plus static leaves).
func (cx *Ctx) calleesOf(ci ssa.CallInstruction) []Edge {
	c := ci.Common()
	if c.IsInvoke() {
		iface, _ := c.Value.Type().Underlying().(*types.Interface)
		if iface == nil {
			return nil
		}
		var out []Edge
		for _, fn := range cx.implementers(iface, c.Value.Type(), c.Method) {
			out = append(out, Edge{ci, fn, "invoke"})
		}
		return out
	}
	if fn := c.StaticCallee(); fn != nil {
		return []Edge{{ci, fn, "static"}}
	}
	// dynamic call of a function value
	switch v := c.Value.(type) {
	case *ssa.MakeClosure:
		if fn, ok := v.Fn.(*ssa.Function); ok {
			return []Edge{{ci, fn, "static"}}
		}
	case *ssa.Builtin:
		return nil
	}
	sig, _ := c.Value.Type().Underlying().(*types.Signature)
	if sig == nil {
		return nil
	}
	var out []Edge
	for _, fn := range cx.addrTaken[sigKey(sig)] {
		out = append(out, Edge{ci, fn, "dynamic"})
	}
	return out
}

// Edges of a function: calls plus closure creations (a closure created in f is
// assumed callable on f's behalf: store iterators, sort callbacks, deferred funcs).
func (cx *Ctx) Edges(f *ssa.Function) []Edge {
	if e, ok := cx.edges[f]; ok {
		return e
	}
	var out []Edge
	for _, b := range f.Blocks {
		for _, ins := range b.Instrs {
			switch v := ins.(type) {
			case ssa.CallInstruction:
				out = append(out, cx.calleesOf(v)...)
			case *ssa.MakeClosure:
				if fn, ok := v.Fn.(*ssa.Function); ok {
					out = append(out, Edge{ins, fn, "closure"})
				}
			}
		}
	}
	cx.edges[f] = out
	return out
}

// Reach computes the functions reachable from roots, with one predecessor edge
// each for path reporting. stop(fn) prunes traversal below fn.
type Reach struct {
	Pred  map[*ssa.Function]*reachPred
	Order []*ssa.Function
}
type reachPred struct {
	From *ssa.Function
	Site ssa.Instruction
}

func (cx *Ctx) Reachable(roots []*ssa.Function, stop func(*ssa.Function) bool) *Reach {
	r := &Reach{Pred: map[*ssa.Function]*reachPred{}}
	var q []*ssa.Function
	for _, f := range roots {
		if _, ok := r.Pred[f]; !ok {
			r.Pred[f] = &reachPred{}
			q = append(q, f)
		}
	}
	for len(q) > 0 {
		f := q[0]
		q = q[1:]
		r.Order = append(r.Order, f)
		if stop != nil && stop(f) {
			continue
		}
		if f.Blocks == nil {
			continue
		}
		for _, e := range cx.Edges(f) {
			if _, ok := r.Pred[e.Callee]; ok {
				continue
			}
			r.Pred[e.Callee] = &reachPred{f, e.Site}
			q = append(q, e.Callee)
		}
	}
	return r
}

func (r *Reach) Has(f *ssa.Function) bool { _, ok := r.Pred[f]; return ok }

func (r *Reach) Path(f *ssa.Function) string {
	var parts []string
	for f != nil {
		parts = append(parts, shortFn(f))
		p := r.Pred[f]
		if p == nil {
			break
		}
		f = p.From
	}
	for i, j := 0, len(parts)-1; i < j; i, j = i+1, j-1 {
		parts[i], parts[j] = parts[j], parts[i]
	}
	if len(parts) > 8 {
		parts = append(parts[:4], append([]string{"…"}, parts[len(parts)-3:]...)...)
	}
	return strings.Join(parts, " → ")
}

func shortFn(f *ssa.Function) string {
	s := f.String()
	s = strings.ReplaceAll(s, modPrefix+"modules/", "")
	s = strings.ReplaceAll(s, modPrefix, "")
	return s
}

// ---------------------------------------------------------------- entry points

func (cx *Ctx) namedIfaces(name string) []*types.Named {
	var out []*types.Named
	for _, pk := range cx.P.Pkgs {
		if obj, ok := pk.Types.Scope().Lookup(name).(*types.TypeName); ok {
			if _, isI := obj.Type().Underlying().(*types.Interface); isI {
				out = append(out, obj.Type().(*types.Named))
			}
		}
	}
	return out
}

func (cx *Ctx) methodsImplementing(ifn *types.Named, role string) {
	iface := ifn.Underlying().(*types.Interface)
	if iface.NumMethods() == 0 {
		return
	}
	for _, t := range cx.concrete {
		if !types.Implements(t, iface) {
			continue
		}
		// prefer the value type when both implement; skip *T duplicates
		if p, ok := t.(*types.Pointer); ok && types.Implements(p.Elem(), iface) {
			continue
		}
		base := t
		if p, ok := t.(*types.Pointer); ok {
			base = p.Elem()
		}
		tn := base.(*types.Named).Obj()
		if strings.HasPrefix(tn.Name(), "Unimplemented") || isGeneratedFile(cx.P.Fset.Position(tn.Pos()).Filename) {
			continue
		}
		if pkgRole(tn.Pkg().Path()) == RoleNonConsensus {
			continue
		}
		ms := cx.P.SSA.MethodSets.MethodSet(t)
		for i := 0; i < iface.NumMethods(); i++ {
			m := iface.Method(i)
			sel := ms.Lookup(m.Pkg(), m.Name())
			if sel == nil {
				continue
			}
			fn := cx.P.SSA.FuncValue(sel.Obj().(*types.Func))
			if fn == nil {
				continue
			}
			cx.Entries = append(cx.Entries, Entry{Role: role, Name: m.Name(), Module: moduleOf(ifn.Obj().Pkg().Path()) + ifaceVersion(ifn.Obj().Pkg().Path()), Fn: fn})
		}
	}
}

func ifaceVersion(path string) string {
	if strings.HasSuffix(path, "/v1") || strings.HasSuffix(path, "/v1beta1") {
		return path[strings.LastIndex(path, "/"):]
	}
	return ""
}

func (cx *Ctx) findEntries() {
	for _, in := range cx.namedIfaces("MsgServer") {
		cx.methodsImplementing(in, "msg")
	}
	for _, in := range cx.namedIfaces("QueryServer") {
		cx.methodsImplementing(in, "query")
	}
	// AppModule methods
	for _, pk := range cx.P.Pkgs {
		if pkgRole(pk.PkgPath) != RoleConsensus {
			continue
		}
		mod := moduleOf(pk.PkgPath)
		for _, tname := range []string{"AppModule", "AppModuleBasic"} {
			tn, ok := pk.Types.Scope().Lookup(tname).(*types.TypeName)
			if !ok {
				continue
			}
			for _, t := range []types.Type{tn.Type(), types.NewPointer(tn.Type())} {
				ms := cx.P.SSA.MethodSets.MethodSet(t)
				for i := 0; i < ms.Len(); i++ {
					sel := ms.At(i)
					name := sel.Obj().Name()
					role := ""
					switch name {
					case "BeginBlock", "EndBlock":
						role = "abci"
					case "InitGenesis", "ExportGenesis", "DefaultGenesis", "ValidateGenesis":
						role = "genesis"
					}
					if role == "" {
						continue
					}
					fn := cx.P.SSA.MethodValue(sel)
					if fn == nil || fn.Synthetic != "" && !strings.Contains(fn.Synthetic, "wrapper") {
						continue
					}
					// dedupe: declared on T only
					if _, isPtr := t.(*types.Pointer); isPtr {
						if cx.P.SSA.MethodSets.MethodSet(tn.Type()).Lookup(sel.Obj().Pkg(), name) != nil {
							continue
						}
					}
					// AppModule embeds AppModuleBasic: skip promoted duplicates
					if len(sel.Index()) > 1 {
						continue
					}
					cx.Entries = append(cx.Entries, Entry{Role: role, Name: name, Module: mod, Fn: fn})
				}
			}
		}
		// Migrator methods
		if tn, ok := pk.Types.Scope().Lookup("Migrator").(*types.TypeName); ok {
			for _, t := range []types.Type{tn.Type(), types.NewPointer(tn.Type())} {
				ms := cx.P.SSA.MethodSets.MethodSet(t)
				for i := 0; i < ms.Len(); i++ {
					fn := cx.P.SSA.MethodValue(ms.At(i))
					if fn != nil && fn.Synthetic == "" {
						cx.Entries = append(cx.Entries, Entry{Role: "upgrade", Name: ms.At(i).Obj().Name(), Module: mod, Fn: fn})
					}
				}
			}
		}
	}
	// callbacks: function values passed to Register*Callback / RegisterModuleService,
	// ante handlers, hooks
	for _, f := range cx.P.AllFuncs {
		if pkgRole(funcPkgPath(f)) == RoleNonConsensus {
			continue
		}
		name := f.Name()
		if f.Signature.Recv() != nil && f.Parent() == nil && f.Synthetic == "" {
			switch name {
			case "AnteHandle":
				cx.Entries = append(cx.Entries, Entry{Role: "ante", Name: recvName(f) + ".AnteHandle", Module: moduleOf(funcPkgPath(f)), Fn: f})
			case "PostTxProcessing":
				cx.Entries = append(cx.Entries, Entry{Role: "hook", Name: recvName(f) + ".PostTxProcessing", Module: moduleOf(funcPkgPath(f)), Fn: f})
			}
		}
		for _, b := range f.Blocks {
			for _, ins := range b.Instrs {
				ci, ok := ins.(ssa.CallInstruction)
				if !ok {
					continue
				}
				c := ci.Common()
				mname := ""
				if c.IsInvoke() {
					mname = c.Method.Name()
				} else if sc := c.StaticCallee(); sc != nil {
					mname = sc.Name()
				}
				switch mname {
				case "RegisterResponseCallback", "RegisterStateCallback":
					for _, a := range c.Args {
						if fn := funcValueOf(a); fn != nil {
							cx.Entries = append(cx.Entries, Entry{Role: "callback", Name: mname, Module: moduleOf(funcPkgPath(f)), Fn: fn})
						}
					}
				case "RegisterModuleService":
					// &ModuleService{ReuquestService: fn}
					for _, a := range c.Args {
						for _, fn := range funcsStoredInto(a) {
							cx.Entries = append(cx.Entries, Entry{Role: "callback", Name: mname, Module: moduleOf(funcPkgPath(f)), Fn: fn})
						}
					}
				}
			}
		}
	}
	// gov hooks implementers & proposal handlers
	for _, f := range cx.P.AllFuncs {
		if pkgRole(funcPkgPath(f)) == RoleNonConsensus || f.Parent() != nil || f.Synthetic != "" {
			continue
		}
		if f.Signature.Recv() != nil && strings.HasPrefix(f.Name(), "AfterProposal") {
			cx.Entries = append(cx.Entries, Entry{Role: "hook", Name: recvName(f) + "." + f.Name(), Module: moduleOf(funcPkgPath(f)), Fn: f})
		}
	}
	sort.SliceStable(cx.Entries, func(i, j int) bool {
		a, b := cx.Entries[i], cx.Entries[j]
		if a.Role != b.Role {
			return a.Role < b.Role
		}
		if a.Module != b.Module {
			return a.Module < b.Module
		}
		return a.Name < b.Name
	})
	// dedupe
	var out []Entry
	seen := map[string]bool{}
	for _, e := range cx.Entries {
		k := e.Role + "|" + e.Fn.String()
		if seen[k] {
			continue
		}
		seen[k] = true
		out = append(out, e)
	}
	cx.Entries = out
}

func recvName(f *ssa.Function) string {
	if f.Signature.Recv() == nil {
		return ""
	}
	t := f.Signature.Recv().Type()
	if p, ok := t.(*types.Pointer); ok {
		t = p.Elem()
	}
	if n, ok := t.(*types.Named); ok {
		return n.Obj().Name()
	}
	return t.String()
}

// funcValueOf resolves a value to the function it denotes (closure, bound
// method, plain function), seeing through interface/changetype wrappers.
func funcValueOf(v ssa.Value) *ssa.Function {
	switch x := v.(type) {
	case *ssa.Function:
		return x
	case *ssa.MakeClosure:
		fn, _ := x.Fn.(*ssa.Function)
		return fn
	case *ssa.ChangeType:
		return funcValueOf(x.X)
	case *ssa.MakeInterface:
		return funcValueOf(x.X)
	}
	return nil
}

// funcsStoredInto: function values stored into fields of the struct that v
// points to (composite literal &T{F: fn}).
func funcsStoredInto(v ssa.Value) []*ssa.Function {
	alloc, ok := v.(*ssa.Alloc)
	if !ok {
		return nil
	}
	var out []*ssa.Function
	for _, ref := range *alloc.Referrers() {
		fa, ok := ref.(*ssa.FieldAddr)
		if !ok {
			continue
		}
		for _, r2 := range *fa.Referrers() {
			if st, ok := r2.(*ssa.Store); ok && st.Addr == fa {
				if fn := funcValueOf(st.Val); fn != nil {
					out = append(out, fn)
				}
			}
		}
	}
	return out
}

func (cx *Ctx) EntriesOf(roles ...string) []Entry {
	var out []Entry
	for _, e := range cx.Entries {
		for _, r := range roles {
			if e.Role == r {
				out = append(out, e)
			}
		}
	}
	return out
}

func (cx *Ctx) entryFns(es []Entry) []*ssa.Function {
	var out []*ssa.Function
	for _, e := range es {
		out = append(out, e.Fn)
	}
	return out
}

func (cx *Ctx) findEntry(role, module, name string) *Entry {
	for i := range cx.Entries {
		e := &cx.Entries[i]
		if e.Role == role && e.Module == module && e.Name == name {
			return e
		}
	}
	return nil
}

func doDump(cx *Ctx, kind string) {
	switch kind {
	case "entries":
		for _, e := range cx.Entries {
			fmt.Printf("%-9s %-14s %-34s %s  %s\n", e.Role, e.Module, e.Name, shortFn(e.Fn), cx.P.Pos(e.Fn.Pos()))
		}
		fmt.Printf("%d entries; %d packages; %d functions\n", len(cx.Entries), len(cx.P.Pkgs), len(cx.P.AllFuncs))
	default:
		if f, ok := dumps[kind]; ok {
			f(cx)
			return
		}
		fmt.Println("unknown dump kind")
	}
}

var dumps = map[string]func(cx *Ctx){}

// termNameOf: the name a call to f carries in terms and facts (callName's format).
func termNameOf(f *ssa.Function) string {
	o := f
	if f.Origin() != nil {
		o = f.Origin()
	}
	pkg := funcPkgPath(o)
	name := o.Name()
	if o.Signature.Recv() != nil {
		name = recvName(o) + "." + o.Name()
	}
	if s, ok := pkgShort[pkg]; ok {
		return s + "." + name
	}
	if strings.HasPrefix(pkg, modPrefix) {
		pkg = strings.TrimPrefix(pkg, modPrefix+"modules/")
		pkg = strings.TrimPrefix(pkg, modPrefix)
	} else if i := strings.LastIndex(pkg, "/"); i >= 0 {
		pkg = pkg[i+1:]
	}
	if pkg == "" {
		return name
	}
	return pkg + "." + name
}

// funcByTermName resolves the leading call name of a fact / term text to the irismod
// function it denotes (nil when unknown or ambiguous).
func (cx *Ctx) funcByTermName(name string) *ssa.Function {
	if cx.byTermName == nil {
		cx.byTermName = map[string]*ssa.Function{}
		amb := map[string]bool{}
		for _, f := range cx.P.AllFuncs {
			if f.Blocks == nil || f.Parent() != nil || !isIrismodFunc(f) || f.Synthetic != "" {
				continue
			}
			n := termNameOf(f)
			if g, ok := cx.byTermName[n]; ok && g != f {
				amb[n] = true
			}
			cx.byTermName[n] = f
		}
		for n := range amb {
			delete(cx.byTermName, n)
		}
	}
	return cx.byTermName[name]
}

// readsOnlyPrefix: everything f reaches is a store read, each of exactly the one prefix.
func (cx *Ctx) readsOnlyPrefix(f *ssa.Function, prefix string) bool {
	n := 0
	for _, g := range cx.Reachable([]*ssa.Function{f}, nil).Order {
		if g.Blocks == nil {
			continue
		}
		for _, p := range cx.primsOf(g) {
			switch p.Kind {
			case "store.get", "store.has":
				if len(p.Prefix) != 1 || p.Prefix[0] != prefix {
					return false
				}
				n++
			default:
				return false
			}
		}
	}
	return n > 0
}

// readOnlyOver: f (with everything it reaches) only reads, and its store reads include
// the prefix: a getter - however it is called and whatever else it looks up - of the
// records kept under that prefix.
func (cx *Ctx) readOnlyOver(f *ssa.Function, prefix string) bool {
	hit := false
	for _, g := range cx.Reachable([]*ssa.Function{f}, nil).Order {
		if g.Blocks == nil {
			continue
		}
		for _, p := range cx.primsOf(g) {
			if isMutatingKind(p.Kind) {
				return false
			}
			if p.Kind == "store.get" || p.Kind == "store.has" {
				for _, px := range p.Prefix {
					if px == prefix {
						hit = true
					}
				}
			}
		}
	}
	return hit
}

// keyedRecordFact: among facts there is one (with the given truth value) of the shape
// head + T + tail where T is the result of a read-only getter over prefix whose
// arguments contain key - "the record stored under prefix for this key".
func (cx *Ctx) keyedRecordFact(facts []FactT, holds bool, head, tail, prefix, key string) (FactT, bool) {
	for _, ft := range facts {
		if ft.Holds != holds || isOutcomeFact(ft.Text) {
			continue
		}
		i := strings.Index(ft.Text, head)
		if i < 0 {
			continue
		}
		rest := ft.Text[i+len(head):]
		j := strings.LastIndex(rest, tail)
		if j < 0 {
			continue
		}
		T := rest[:j]
		p := strings.Index(T, "(")
		if p <= 0 || !strings.Contains(T, key) {
			continue
		}
		f := cx.funcByTermName(T[:p])
		if f != nil && cx.readOnlyOver(f, prefix) {
			return ft, true
		}
	}
	return FactT{}, false
}

// absenceFact: among facts there is "no record under prefix for key argument arg":
// a false boolean answer (or false found-flag) of a function that does nothing but
// look the prefix up by that argument - GetX(k, arg)#1, HasX(k, arg).
func (cx *Ctx) absenceFact(facts []FactT, prefix, arg string) bool {
	for _, ft := range facts {
		if ft.Holds || isOutcomeFact(ft.Text) || strings.HasPrefix(ft.Text, "(") {
			continue
		}
		i := strings.Index(ft.Text, "(")
		if i <= 0 {
			continue
		}
		rest := ft.Text[i:]
		if !(strings.HasSuffix(rest, ")") || strings.HasSuffix(rest, ")#1")) {
			continue
		}
		inner := strings.TrimSuffix(strings.TrimSuffix(rest, "#1"), ")")[1:]
		hasArg := false
		for _, a := range splitTopLevel(inner) {
			if strings.TrimSpace(a) == arg {
				hasArg = true
			}
		}
		if !hasArg {
			continue
		}
		f := cx.funcByTermName(ft.Text[:i])
		if f == nil {
			continue
		}
		res := f.Signature.Results()
		boolAt := func(k int) bool {
			b, ok := res.At(k).Type().Underlying().(*types.Basic)
			return ok && b.Kind() == types.Bool
		}
		okShape := (strings.HasSuffix(rest, ")#1") && res.Len() == 2 && boolAt(1)) || (strings.HasSuffix(rest, ")") && res.Len() == 1 && boolAt(0))
		if okShape && cx.readsOnlyPrefix(f, prefix) {
			return true
		}
	}
	return false
}

// splitTopLevel splits a comma-separated argument text at depth 0.
func splitTopLevel(s string) []string {
	var out []string
	depth, start := 0, 0
	for i, r := range s {
		switch r {
		case '(', '[', '{':
			depth++
		case ')', ']', '}':
			depth--
		case ',':
			if depth == 0 {
				out = append(out, s[start:i])
				start = i + 1
			}
		}
	}
	return append(out, s[start:])
}
