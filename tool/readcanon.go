package main

// Canonical spelling of state reads.
//
// The rules name a stored value by the module's exported getter - GetBalance(keeper, denom,
// id, owner), GetToken(keeper, symbol) - because that is the vocabulary of the code they
// were confirmed against. A keeper that routes its reads through an unexported helper,
//
//	func (k Keeper) loadBalance(store storetypes.KVStore, key []byte) uint64
//	balance := k.loadBalance(k.balanceStore(ctx), balanceKey(addr, denomID, mtID))
//
// reads the very same key. A call of such a helper - read-only, exactly one Get/Has on the
// chain below the call - is therefore spelled as a call of the exported getter that reads
// the same (canonical, absolute) key and returns the same types, with the getter's
// parameters bound by unifying its key with the key of this call.

import (
	"go/types"
	"sort"
	"strings"

	"golang.org/x/tools/go/ssa"
)

type readerInfo struct {
	fn     *ssa.Function
	kind   string
	prefix string
	key    *Term
	params []string
}

func readOnlySingle(cx *Ctx, f *ssa.Function) bool {
	kinds := cx.transPrimKinds(f)
	if len(kinds) == 0 {
		return false
	}
	for k := range kinds {
		if k != "store.get" && k != "store.has" {
			return false
		}
	}
	return true
}

// singleRead: the one store read on the chains below fr (nil when there are none or several).
func (cx *Ctx) singleRead(fr *Frame) *Event {
	w := newWalker(cx)
	var evs []*Event
	w.walk(fr, func(f *Frame) {
		for _, ev := range w.EventsOf(f) {
			if ev.Kind == "store.get" || ev.Kind == "store.has" {
				evs = append(evs, ev)
			}
		}
	})
	if len(evs) != 1 || w.over || w.cut > 0 || len(evs[0].Prefix) != 1 || len(evs[0].Args) < 1 {
		return nil
	}
	return evs[0]
}

// exportedReaders: the exported keeper methods of a module that read exactly one key.
func (cx *Ctx) exportedReaders(m string) []readerInfo {
	if cx.readers == nil {
		cx.readers = map[string][]readerInfo{}
	}
	if r, ok := cx.readers[m]; ok {
		return r
	}
	cx.readers[m] = nil // (cycle guard)
	var out []readerInfo
	for _, f := range cx.P.AllFuncs {
		if f.Blocks == nil || f.Parent() != nil || moduleOf(funcPkgPath(f)) != m || !isConsensusCode(cx, f) || !strings.HasSuffix(funcPkgPath(f), "/keeper") {
			continue
		}
		if f.Signature.Recv() == nil || !isKeeperStruct(f.Signature.Recv().Type()) || !takesCtx(f) {
			continue
		}
		if f.Origin() != nil || !readOnlySingle(cx, f) {
			continue
		}
		ev := cx.singleRead(&Frame{Fn: f})
		if ev == nil {
			continue
		}
		ri := readerInfo{fn: f, kind: ev.Kind, prefix: ev.Prefix[0], key: ev.Args[0]}
		for i, p := range f.Params {
			if i == 0 || isCtxType(p.Type()) {
				continue
			}
			ri.params = append(ri.params, p.Name())
		}
		out = append(out, ri)
	}
	sort.Slice(out, func(i, j int) bool { return out[i].fn.String() < out[j].fn.String() })
	cx.readers[m] = out
	return out
}

func (ts *Terms) readCanon(x *ssa.Call, fr *Frame) *Term {
	cx := ts.cx
	if cx.noReadCanon > 0 {
		return nil
	}
	c := x.Common()
	h := c.StaticCallee()
	if h == nil || c.IsInvoke() || h.Blocks == nil || h.Parent() != nil || !isIrismodFunc(h) || frameDepth(fr) >= 12 || onChain(fr, h) {
		return nil
	}
	if !strings.HasSuffix(funcPkgPath(h), "/keeper") {
		return nil
	}
	if takesCtx(h) {
		return nil // a reader that finds its own store keeps its name
	}
	if !readOnlySingle(cx, h) {
		return nil
	}
	cx.noReadCanon++
	defer func() { cx.noReadCanon-- }()
	d := 0
	if fr != nil {
		d = fr.Depth + 1
	}
	ev := cx.singleRead(&Frame{Fn: h, Parent: fr, Call: x, Depth: d})
	if ev == nil {
		return nil
	}
	var found *Term
	var foundFn *ssa.Function
	for _, g := range cx.exportedReaders(moduleOf(funcPkgPath(h))) {
		if g.kind != ev.Kind || g.prefix != ev.Prefix[0] || !types.Identical(g.fn.Signature.Results(), h.Signature.Results()) {
			continue
		}
		params := map[string]bool{}
		for _, p := range g.params {
			params[p] = true
		}
		bind := map[string]*Term{}
		if !unifyKey(g.key, ev.Args[0], params, bind) || len(bind) != len(g.params) {
			continue
		}
		if found != nil && !(exportedName(g.fn.Name()) && !exportedName(foundFn.Name())) {
			continue // (the first in name order; an exported getter before an unexported one)
		}
		foundFn = g.fn
		t := &Term{Op: "call", Name: termNameOf(g.fn), Site: x.Pos(), src: x, fr: fr}
		t.Args = append(t.Args, mk("keeper", ""))
		for _, p := range g.params {
			t.Args = append(t.Args, bind[p])
		}
		found = t
	}
	return found
}

func takesCtx(f *ssa.Function) bool {
	for _, p := range f.Params {
		if isCtxType(p.Type()) {
			return true
		}
	}
	return false
}

func exportedName(n string) bool { return n != "" && n[0] >= 'A' && n[0] <= 'Z' }
