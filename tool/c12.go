package main

// C12 — Genesis export / import: prefix coverage tables (G1), import-loop
// clobbering (G3), import key provenance (G6), validator agreement (G2).

import (
	"fmt"
	"go/token"
	"go/types"
	"os"
	"sort"
	"strings"

	"golang.org/x/tools/go/ssa"
)

func init() { register("C12", true, true, "other", runC12) }

type prefixUse struct {
	prefix string
	kind   string
	fn     *ssa.Function
	site   ssa.CallInstruction
}

type roleTable map[string]map[string][]prefixUse // write|read|delete -> prefix -> uses

func (cx *Ctx) roleUses(roots []*ssa.Function) roleTable {
	return cx.roleUsesIn(cx.Reachable(roots, nil))
}

// reachableCS: reachability in which a callback is entered only from the function that
// creates or passes it (closure creation, function-valued argument), never through the
// context-free "any function of this type" edge of the call inside a shared iterator.
// Used for the genesis export and import paths, whose read / write sets must not be
// polluted by the closures that OTHER callers hand to the same iterator helper.
func (cx *Ctx) reachableCS(roots []*ssa.Function) *Reach {
	r := &Reach{Pred: map[*ssa.Function]*reachPred{}}
	var q []*ssa.Function
	add := func(from *ssa.Function, site ssa.Instruction, g *ssa.Function) {
		if g == nil {
			return
		}
		if _, ok := r.Pred[g]; ok {
			return
		}
		r.Pred[g] = &reachPred{from, site}
		q = append(q, g)
	}
	for _, f := range roots {
		if _, ok := r.Pred[f]; !ok {
			r.Pred[f] = &reachPred{}
			q = append(q, f)
		}
	}
	for len(q) > 0 {
		f := q[0]
		q = q[1:]
		r.Order = append(r.Order, f)
		if f.Blocks == nil {
			continue
		}
		for _, e := range cx.Edges(f) {
			if e.Kind == "dynamic" {
				continue
			}
			add(f, e.Site, e.Callee)
		}
		for _, b := range f.Blocks {
			for _, ins := range b.Instrs {
				ci, ok := ins.(ssa.CallInstruction)
				if !ok {
					continue
				}
				for _, a := range ci.Common().Args {
					if g, ok := a.(*ssa.Function); ok {
						add(f, ins, g)
					}
				}
			}
		}
	}
	return r
}

func (cx *Ctx) roleUsesIn(reach *Reach) roleTable {
	t := roleTable{"write": {}, "read": {}, "delete": {}}
	for _, f := range reach.Order {
		if f.Blocks == nil || !isIrismodFunc(f) || cx.isDoubleFunc(f) {
			continue
		}
		for _, p := range cx.primsOf(f) {
			if !strings.HasPrefix(p.Kind, "store.") {
				continue
			}
			cls := map[string]string{"store.set": "write", "store.delete": "delete", "store.get": "read", "store.has": "read", "store.iter": "read", "store.riter": "read"}[p.Kind]
			for _, px := range p.Prefix {
				t[cls][px] = append(t[cls][px], prefixUse{px, p.Kind, f, p.Site})
			}
		}
	}
	return t
}

// rebuiltFromImported: no import write under px stores a constant under a constant key
// (a counter reset to zero rebuilds nothing): the key or the value of every such write is
// computed from something - the restored record, a count, a loop variable.
func (cx *Ctx) rebuiltFromImported(it roleTable, px string) bool {
	var constLike func(v ssa.Value, d int) bool
	constLike = func(v ssa.Value, d int) bool {
		if d > 8 {
			return false
		}
		switch x := v.(type) {
		case *ssa.Const, *ssa.Global:
			return true
		case *ssa.UnOp:
			return constLike(x.X, d+1)
		case *ssa.Convert:
			return constLike(x.X, d+1)
		case *ssa.ChangeType:
			return constLike(x.X, d+1)
		case *ssa.MakeInterface:
			return constLike(x.X, d+1)
		case *ssa.Slice:
			return constLike(x.X, d+1)
		case *ssa.Call:
			if x.Common().IsInvoke() {
				return false
			}
			for _, a := range x.Common().Args {
				if !constLike(a, d+1) {
					return false
				}
			}
			return true
		}
		return false
	}
	for _, u := range it["write"][px] {
		args := storeArgs(u.site)
		if len(args) < 2 {
			return false
		}
		if constLike(args[0], 0) && constLike(args[1], 0) {
			return false
		}
	}
	return true
}

// anchoredToExported: every import write under px (a prefix of no table, not exported) is
// tied to exported data: it sits next to the restoration of an exported record (same
// function, same innermost loop), or in a function that scans an exported prefix and
// rebuilds from what it finds. A loop of its own over a genesis list that ExportGenesis
// never fills restores nothing.
func (cx *Ctx) anchoredToExported(imp *Reach, it, et roleTable, px string) bool {
	exported := func(p string) bool { return p != px && coveredBy(p, et["read"]) }
	sub := map[*ssa.Function]*Reach{}
	subOf := func(f *ssa.Function) *Reach {
		if sub[f] == nil {
			sub[f] = cx.reachableCS([]*ssa.Function{f})
		}
		return sub[f]
	}
	touches := func(f *ssa.Function, kinds map[string]bool) bool {
		for _, g := range subOf(f).Order {
			if g.Blocks == nil || !isIrismodFunc(g) {
				continue
			}
			for _, p := range cx.primsOf(g) {
				if !kinds[p.Kind] {
					continue
				}
				for _, q := range p.Prefix {
					if exported(q) {
						return true
					}
				}
			}
		}
		return false
	}
	writes := map[string]bool{"store.set": true}
	reads := map[string]bool{"store.get": true, "store.iter": true, "store.riter": true}
	for _, u := range it["write"][px] {
		anchored := false
		for _, G := range imp.Order {
			if G.Blocks == nil || !isIrismodFunc(G) || anchored {
				continue
			}
			// the instructions of G that lead to this write: the store call itself, or calls
			// whose callee subtree contains the writing function
			var leads, others []ssa.Instruction
			for _, b := range G.Blocks {
				for _, ins := range b.Instrs {
					ci, ok := ins.(ssa.CallInstruction)
					if !ok {
						continue
					}
					if G == u.fn && ins == u.site.(ssa.Instruction) {
						leads = append(leads, ins)
						continue
					}
					hit := false
					for _, e := range cx.calleesOf(ci) {
						if e.Kind != "dynamic" && subOf(e.Callee).Has(u.fn) {
							hit = true
						}
					}
					if hit {
						leads = append(leads, ins)
					} else {
						others = append(others, ins)
					}
				}
			}
			for _, l := range leads {
				lh := loopHeaderOf(l.Block())
				// (b) the leading call's own subtree scans exported data
				if ci, ok := l.(ssa.CallInstruction); ok && !(G == u.fn && l == u.site.(ssa.Instruction)) {
					for _, e := range cx.calleesOf(ci) {
						// a dedicated rebuild step: scans exported data, restores none itself
						if e.Kind != "dynamic" && touches(e.Callee, reads) && !touches(e.Callee, writes) {
							anchored = true
						}
					}
				}
				// (a) a sibling in the same innermost loop restores an exported record
				for _, o := range others {
					if loopHeaderOf(o.Block()) != lh {
						continue
					}
					oc := o.(ssa.CallInstruction)
					if k := cx.classifyCall(oc); k == "store.set" {
						for _, q := range cx.storeKeyPrefix(oc, k) {
							if exported(q) {
								anchored = true
							}
						}
					}
					for _, e := range cx.calleesOf(oc) {
						if e.Kind != "dynamic" && (touches(e.Callee, writes) || (lh == nil && touches(e.Callee, reads))) {
							anchored = true
						}
					}
				}
			}
		}
		if !anchored {
			return false
		}
	}
	return true
}

// exportReads: prefixes read on the ExportGenesis path of module m (context-sensitive reach).
func (cx *Ctx) exportReads(m string) map[string][]prefixUse {
	if cx.expReads == nil {
		cx.expReads = map[string]map[string][]prefixUse{}
	}
	if t, ok := cx.expReads[m]; ok {
		return t
	}
	var ex []*ssa.Function
	for _, e := range cx.entriesOfModule(m, "genesis") {
		if e.Name == "ExportGenesis" {
			ex = append(ex, e.Fn)
		}
	}
	t := cx.roleUsesIn(cx.reachableCS(ex))["read"]
	cx.expReads[m] = t
	return t
}

// ownPrefix: the prefix belongs to module m (prefix variables carry their module;
// string keys are attributed by the package of the accessing function).
func ownPrefix(px string, uses []prefixUse, m string) bool {
	if i := strings.Index(px, ":"); i > 0 && px[:i] != "str" && px[:i] != "bytes" {
		return px[:i] == m
	}
	for _, u := range uses {
		if moduleOf(funcPkgPath(u.fn)) == m {
			return true
		}
	}
	return false
}

// covers: an access under prefix a touches keys written under prefix b.
func covers(a, b string) bool {
	if a == b {
		return true
	}
	if strings.HasPrefix(a, "str:") && strings.HasPrefix(b, "str:") {
		return strings.HasPrefix(b, a)
	}
	return false
}

func coveredBy(px string, set map[string][]prefixUse) bool {
	for k := range set {
		if covers(k, px) {
			return true
		}
	}
	return false
}

// c12Tables: the hand-confirmed part of G1 (DESIGN §4.C12): prefixes that are
// rebuilt by import from other exported data (derived) and prefixes whose
// contents are in-flight items a module documents as not exported (dropped).
var c12Derived = map[string][]string{
	"coinswap": {"str:lptDenom/"},
	"farm":     {"farm:ActiveFarmPoolKey=0x04"},
	"htlc":     {"htlc:HTLCExpiredQueueKey=0x02"},
	"mt":       {"str:nextDenomSequence", "str:nextMTSequence"},
	"oracle":   {"oracle:PrefixReqCtxIdKey=0x02", "oracle:PrefixFeedRunningStateKey=0x04", "oracle:PrefixFeedPauseStateKey=0x05"},
	"record":   {"record:IntraTxCounterKey=0x02"},
	"service":  {"service:OwnerServiceBindingKey=0x03", "service:OwnerKey=0x04", "service:OwnerProviderKey=0x05", "service:PricingKey=0x06"},
	"token":    {"token:PrefixTokenForMinUint=0x02", "token:PrefixTokenForContract=0x06"},
}
var c12Dropped = map[string][]string{
	"random": {"random:RandomKey=0x01", "random:OracleRandomRequestKey=0x03"},
	"service": {"service:ExpiredRequestBatchKey=0x09", "service:NewRequestBatchKey=0x10", "service:ExpiredRequestBatchHeightKey=0x11", "service:NewRequestBatchHeightKey=0x12",
		"service:RequestKey=0x13", "service:ActiveRequestKey=0x14", "service:ActiveRequestByIDKey=0x15", "service:ResponseKey=0x16", "service:RequestVolumeKey=0x17",
		"service:EarnedFeesKey=0x18", "service:OwnerEarnedFeesKey=0x19", "service:InternalCounterKey=0x20"},
}

func contains(xs []string, s string) bool {
	for _, x := range xs {
		if x == s {
			return true
		}
	}
	return false
}

func runC12(cx *Ctx, r *Report) {
	r.Explanation = "F2/F8 over the store-access map (every Get/Has/Set/Delete/iterator with its key prefix resolved to a prefix variable's byte value or a constant string). G1 prefix coverage per module: every prefix written on a message / block / callback path is read by ExportGenesis, or is in the confirmed table of prefixes rebuilt by import (derived) or of in-flight items documented as not exported (dropped); every exported and every derived prefix is written by InitGenesis. G3: inside an import loop, the key of a Set depends on that loop's variable (otherwise all elements land on one key). G6: the key of an import Set does not depend on module state that is itself only derived (a counter read back from the store), otherwise ids depend on import order. G2 validator agreement (constant and unguarded cases only): a rejecting atom field⋈constant of the genesis validator must be matched by an export filter, or no message/block path may store that constant, or copy an unchecked message field, into the field. Order-determinism of exports is C11's ND3. Decides structural agreement of writer/exporter/importer tables; equality of query answers after re-import is not decided."
	r.Assumptions = []string{"the tables of derived/dropped prefixes were confirmed by reading each InitGenesis (DESIGN §4.C12)", "the embedded SDK nft keeper exports and imports its own state (module nft has no direct store access)"}
	mods := []string{"coinswap", "farm", "htlc", "mt", "oracle", "random", "record", "service", "token"}
	for _, m := range mods {
		rt := cx.roleUses(cx.entryFns(cx.entriesOfModule(m, "msg", "abci", "callback", "hook", "ante")))
		var ex, im []*ssa.Function
		for _, e := range cx.entriesOfModule(m, "genesis") {
			if e.Name == "ExportGenesis" {
				ex = append(ex, e.Fn)
			}
			if e.Name == "InitGenesis" {
				im = append(im, e.Fn)
			}
		}
		if len(ex) != 1 || len(im) != 1 {
			r.toolErr("module %s: %d ExportGenesis / %d InitGenesis entries", m, len(ex), len(im))
			continue
		}
		et, it := cx.roleUsesIn(cx.reachableCS(ex)), cx.roleUsesIn(cx.reachableCS(im))
		for _, cls := range []string{"write", "read", "delete"} {
			for _, tab := range []roleTable{rt, et, it} {
				for px, us := range tab[cls] {
					if strings.Contains(px, "?") || strings.HasPrefix(px, "param:") {
						r.toolErr("module %s: unresolved key prefix %s at %s", m, px, cx.P.Pos(us[0].site.Pos()))
					}
				}
			}
		}
		var ws []string
		for px, us := range rt["write"] {
			if ownPrefix(px, us, m) {
				ws = append(ws, px)
			}
		}
		sort.Strings(ws)
		for _, px := range ws {
			u := rt["write"][px][0]
			if os.Getenv("DEBUG_G1") != "" {
				fmt.Fprintf(os.Stderr, "G1 %s %s exported=%v\n", m, px, coveredBy(px, et["read"]))
				if us := et["read"][px]; len(us) > 0 {
					fmt.Fprintf(os.Stderr, "   via %s\n", cx.reachableCS(ex).Path(us[0].fn))
				}
			}
			pos := cx.P.Pos(u.site.Pos())
			switch {
			case coveredBy(px, et["read"]):
				r.ok("G1-runtime-exported", m+"|"+px, pos, "written at run time and read by ExportGenesis")
			case contains(c12Derived[m], px):
				r.ok("G1-runtime-exported", m+"|"+px, pos, "written at run time; rebuilt by InitGenesis from exported data (derived)")
			case contains(c12Dropped[m], px):
				r.ok("G1-runtime-exported", m+"|"+px, pos, "written at run time; in-flight data documented as dropped on export")
			case len(it["write"][px]) > 0 && cx.rebuiltFromImported(it, px) && cx.anchoredToExported(cx.reachableCS(im), it, et, px):
				// a prefix of no table (a secondary index or counter added later): it is not part
				// of the genesis format, and InitGenesis rebuilds it from the records it restores
				r.ok("G1-runtime-exported", m+"|"+px, pos, "written at run time; not exported, rebuilt by InitGenesis from the records it restores (derived index)")
			default:
				r.violate("G1-runtime-exported", m+"|"+px, pos, "prefix "+px+" is written on a message/block path ("+shortFn(u.fn)+") but neither read by ExportGenesis nor listed as derived/dropped: this state is lost on export")
			}
		}
		var es []string
		for px, us := range et["read"] {
			if ownPrefix(px, us, m) {
				es = append(es, px)
			}
		}
		sort.Strings(es)
		for _, px := range es {
			u := et["read"][px][0]
			okW := false
			for k := range it["write"] {
				if covers(px, k) || covers(k, px) {
					okW = true
				}
			}
			r.check(okW, "G1-export-imported", m+"|"+px, cx.P.Pos(u.site.Pos()), "exported prefix is written by InitGenesis", "prefix "+px+" is read by ExportGenesis but never written by InitGenesis: exported data is not restored")
		}
		// G9: a validator that compares the NUMBER of distinct records of two kinds
		// (len(mapA) != len(mapB) → reject) accepts an export only while every record of the
		// one kind still has its counterpart of the other kind in the store; a run-time
		// Delete under an exported prefix of that module removes such a counterpart (a fully
		// spent balance entry) and the chain's own export is then rejected on import.
		if cmp := cx.presenceCountComparison(m); cmp != "" {
			var dels []string
			for px, us := range rt["delete"] {
				if !ownPrefix(px, us, m) || !coveredBy(px, et["read"]) {
					continue
				}
				for _, u := range us {
					dels = append(dels, px+" at "+cx.P.Pos(u.site.Pos())+" ("+shortFn(u.fn)+")")
				}
			}
			sort.Strings(dels)
			r.check(len(dels) == 0, "G9-presence-counted-delete", m, cmp, "the validator counts distinct records ("+cmp+") and no exported prefix of the module is deleted at run time", "the genesis validator compares record counts ("+cmp+") but exported records are deleted at run time: "+strings.Join(dels, "; ")+" - after such a delete the exported state fails its own validation on import")
		}
		for _, px := range c12Derived[m] {
			_, okW := it["write"][px]
			r.check(okW, "G1-derived-rebuilt", m+"|"+px, "", "derived prefix is rebuilt by InitGenesis", "derived prefix "+px+" (index / queue rebuilt from exported data) is not written by InitGenesis")
		}
		// table hygiene: a derived/dropped entry that is now exported, or no longer written, is stale
		for _, px := range append(append([]string{}, c12Derived[m]...), c12Dropped[m]...) {
			if _, ok := rt["write"][px]; !ok {
				if _, ok2 := it["write"][px]; !ok2 {
					r.toolErr("table entry %s|%s matches no write site any more (table is stale)", m, px)
				}
			}
		}
	}
	cx.c12ImportLoops(r)
	cx.c12Validators(r)
	cx.c12ValidatorAccumulators(r)
	cx.c12MapWriteBack(r)
	// G10: the oracle import replays values through the trimming writer, so the run-time
	// trims must keep the store within the feed's window (rule shared with C17)
	cx.oracleTrimRule(r, collectEvents(cx, r, "oracle", "msg", "callback"), "G10-window-kept-at-run-time")
	// (token only: in the other modules a derived entry is legitimately conditional on the
	// record's state - only running pools and open contracts are queued)
	cx.derivedWriteGuards(r, []string{"token"}, "G13-derived-write-guard")
	cx.exportFilterRule(r, mods, "G15-export-filter")
	{
		var ents []Entry
		for _, e := range cx.EntriesOf("genesis") {
			if e.Name == "InitGenesis" {
				ents = append(ents, e)
			}
		}
		if n := cx.keyArgsCrossedRule(r, ents, "G16-import-key-args-not-crossed"); n < 20 {
			r.toolErr("G16: only %d constructor-built keys seen on the genesis import paths (≥20 confirmed)", n)
		} else {
			r.ok("G16-import-key-args-not-crossed", "scan", "", fmt.Sprintf("%d constructor-built keys on the import paths: no two same-typed parameters take each other's namesake field", n))
		}
		// G17: an import refuses a state only when it is inadmissible: a supply AT its limit is
		// within the limit (the handlers admit it), so the import may abort only for amount > limit
		{
			var he []Entry
			for _, e := range ents {
				if e.Module == "htlc" {
					he = append(he, e)
				}
			}
			n := cx.strictRejectRule(r, "G17-import-limit-strict", "the import aborts over a supply limit", he,
				func(w *Walker, fr *Frame, ins ssa.Instruction) bool {
					if _, isPanic := ins.(*ssa.Panic); isPanic {
						return true
					}
					// (or the refusal is handed up as an error that the import then aborts with)
					ret, isRet := ins.(*ssa.Return)
					return isRet && fr.Parent != nil && isFailureReturn(ret)
				},
				func(a, b string) bool {
					return (strings.Contains(a, "Limit") && strings.Contains(b, "Supply")) || (strings.Contains(b, "Limit") && strings.Contains(a, "Supply"))
				})
			// (no floor: a table-driven import has one abort site for all limits, and a test
			// hidden in a table row is not decided - the rule then says nothing)
			r.ok("G17-import-limit-strict", "scan", "", fmt.Sprintf("%d supply-limit refusals decided on the htlc import path", n))
		}
		if n := cx.crossedFieldsRule(r, ents, "G14-import-fields-not-crossed"); n < 5 {
			r.toolErr("only %d records assembled on import paths were inspected for crossed fields (≥5 confirmed)", n)
		}
	}
	if n := cx.importChecksSelfKeyed(r, mods, "G12-import-check-self-keyed"); n < 2 {
		r.toolErr("only %d existence checks keyed by a field of the restored record found on import paths (token symbol / min unit confirmed)", n)
	}
	if n := cx.importCountersRule(r, mods, "G11-import-counter-counts-all"); n == 0 {
		// (the counters may equally be restored from list lengths; then there is nothing to count)
		r.ok("G11-import-counter-counts-all", "scan", "", "no id counter is rebuilt by counting inside an import loop")
	}
	if n := cx.importRebuildRule(r, mods, "G8-derived-coexecuted"); n < 4 {
		r.toolErr("only %d record/derived pairs found in import loops (≥4 confirmed)", n)
	}
	r.requireCount("G1-runtime-exported", 55)
	r.requireCount("G1-export-imported", 30)
	r.requireCount("G1-derived-rebuilt", 15)
}

// ------------------------------------------------------------- G3 / G6

// keyFeeds: SSA values of frame `top` that the key argument of ev's store
// call depends on (through parameters of the intermediate frames).
func keyFeeds(ev *Event, top *Frame) []ssa.Value {
	v, _ := keyDeps(ev, top)
	return v
}

// keyDeps additionally returns the functions whose results flow into the key.
func keyDeps(ev *Event, top *Frame) ([]ssa.Value, map[*ssa.Function]bool) {
	callees := map[*ssa.Function]bool{}
	// a value, and - when the key is one field of a struct that travels as a whole
	// (idx.key of a parameter idx) - the field still to be projected out of it
	type fv struct {
		v     ssa.Value
		field int
	}
	cur := []fv{{storeArgs(ev.Site.(ssa.CallInstruction))[0], -1}}
	for f := ev.Fr; f != nil && f != top; f = f.Parent {
		if f.Call == nil {
			return nil, callees
		}
		// parameters of f.Fn reached from cur
		type pf struct{ idx, field int }
		params := map[pf]bool{}
		type sk struct {
			v     ssa.Value
			field int
		}
		seen := map[sk]bool{}
		var walk func(v ssa.Value, field, d int)
		walk = func(v ssa.Value, field, d int) {
			if v == nil || seen[sk{v, field}] || d > 40 {
				return
			}
			seen[sk{v, field}] = true
			if p, ok := v.(*ssa.Parameter); ok {
				for i, q := range f.Fn.Params {
					if q == p {
						params[pf{i, field}] = true
					}
				}
				return
			}
			if u, ok := v.(*ssa.UnOp); ok && u.Op == token.MUL {
				want := field
				if fa, isFA := u.X.(*ssa.FieldAddr); isFA && field < 0 {
					if _, isStruct := fa.X.Type().Underlying().(*types.Pointer).Elem().Underlying().(*types.Struct); isStruct {
						want = fa.Field
					}
				}
				if base := allocBase(u.X); base != nil {
					for _, r := range *base.Referrers() {
						switch y := r.(type) {
						case *ssa.Store:
							if y.Addr == base {
								walk(y.Val, want, d+1) // the whole value; the field is projected later
							}
						case *ssa.FieldAddr:
							if want >= 0 && y.Field != want {
								continue
							}
							if y.Referrers() == nil {
								continue
							}
							for _, r2 := range *y.Referrers() {
								if st, ok := r2.(*ssa.Store); ok && st.Addr == y {
									walk(st.Val, -1, d+1)
								}
							}
						}
					}
					return
				}
			}
			if a, ok := v.(*ssa.Alloc); ok {
				for _, r := range *a.Referrers() {
					if st, ok := r.(*ssa.Store); ok && st.Addr == a {
						walk(st.Val, field, d+1)
					}
				}
			}
			if c, ok := v.(*ssa.Call); ok {
				if g := c.Common().StaticCallee(); g != nil {
					callees[g] = true
				}
			}
			if _, ok := v.(*ssa.MakeSlice); ok {
				// a buffer filled through copy(buf, src) / PutUintNN(buf[i:], x)
				var fills func(b ssa.Value, dd int)
				fills = func(b ssa.Value, dd int) {
					if b.Referrers() == nil || dd > 2 {
						return
					}
					for _, r := range *b.Referrers() {
						switch x := r.(type) {
						case *ssa.Slice:
							fills(x, dd+1)
						case ssa.CallInstruction:
							for _, a := range x.Common().Args {
								if a != b {
									walk(a, -1, d+1)
								}
							}
						}
					}
				}
				fills(v, 0)
			}
			if ins, ok := v.(ssa.Instruction); ok {
				for _, op := range ins.Operands(nil) {
					if op != nil && *op != nil {
						walk(*op, -1, d+1)
					}
				}
			}
		}
		for _, x := range cur {
			walk(x.v, x.field, 0)
		}
		var next []fv
		c := f.Call.Common()
		for p := range params {
			j := p.idx
			if c.IsInvoke() {
				j--
			}
			if j >= 0 && j < len(c.Args) {
				next = append(next, fv{c.Args[j], p.field})
			}
		}
		sort.Slice(next, func(i, j int) bool { return next[i].field < next[j].field })
		cur = next
	}
	// project the pending fields at the top frame
	var out []ssa.Value
	for _, x := range cur {
		if x.field < 0 {
			out = append(out, x.v)
			continue
		}
		vals := projectField(x.v, x.field, 0)
		if vals == nil {
			out = append(out, x.v)
			continue
		}
		out = append(out, vals...)
	}
	return out, callees
}

// projectField: the values stored into field #field of the struct value v where it is
// assembled in this function (nil if v is not a load of a local).
func projectField(v ssa.Value, field, depth int) []ssa.Value {
	if depth > 4 {
		return nil
	}
	u, ok := v.(*ssa.UnOp)
	if !ok || u.Op != token.MUL {
		return nil
	}
	a, ok := u.X.(*ssa.Alloc)
	if !ok || a.Referrers() == nil {
		return nil
	}
	var out []ssa.Value
	for _, r := range *a.Referrers() {
		switch y := r.(type) {
		case *ssa.FieldAddr:
			if y.Field != field || y.Referrers() == nil {
				continue
			}
			for _, r2 := range *y.Referrers() {
				if st, ok := r2.(*ssa.Store); ok && st.Addr == y {
					out = append(out, st.Val)
				}
			}
		case *ssa.Store:
			if y.Addr == a {
				if vs := projectField(y.Val, field, depth+1); vs != nil {
					out = append(out, vs...)
				} else {
					out = append(out, y.Val)
				}
			}
		}
	}
	return out
}

func loopInduction(h *ssa.BasicBlock) map[ssa.Value]bool {
	out := map[ssa.Value]bool{}
	for _, ins := range h.Instrs {
		switch x := ins.(type) {
		case *ssa.Phi:
			out[x] = true
		case *ssa.Next:
			out[x] = true
		}
	}
	// range-over-slice loops keep the induction phi in the header; range-over-map: Next in header
	return out
}

func (cx *Ctx) c12ImportLoops(r *Report) {
	mods := []string{"coinswap", "farm", "htlc", "mt", "oracle", "random", "record", "service", "token"}
	nLoopSets := 0
	for _, m := range mods {
		var entries []Entry
		for _, e := range cx.entriesOfModule(m, "genesis") {
			if e.Name == "InitGenesis" {
				entries = append(entries, e)
			}
		}
		kc := keyCounter{}
		cx.forEachEvent(entries, nil, func(e *Entry, w *Walker, ev *Event) {
			if ev.Kind != "store.set" {
				return
			}
			own := false
			for _, px := range ev.Prefix {
				if ownPrefix(px, nil, m) || strings.HasPrefix(px, "str:") {
					own = true
				}
			}
			if !own {
				return
			}
			pfx := strings.Join(ev.Prefix, ",")
			// G6: key depends on derived module state
			keyS := ev.Args[0].LooseString()
			_, keyCallees := keyDeps(ev, nil)
			// (a secondary index that is not part of the genesis format inherits the key of the
			// record it points to; the provenance of that key is judged at the record's own write)
			g6applies := false
			for _, px := range ev.Prefix {
				if coveredBy(px, cx.exportReads(m)) || contains(c12Derived[m], px) {
					g6applies = true
				}
			}
			for _, d := range c12Derived[m] {
				if !g6applies {
					break
				}
				// the result of a getter of the derived prefix flows into the key
				for _, f := range cx.gettersOf(m, []string{d}) {
					if strings.Contains(keyS, callNameOfFn(f)+"(") || keyCallees[f] {
						r.violate("G6-import-key-provenance", m+"|"+pfx, ev.Pos(cx), "the key of an import write under "+pfx+" depends on "+d+" read back from the store ("+callNameOfFn(f)+"), which is not genesis data: the ids assigned on import depend on the import order, so ids exported from a live chain are not preserved")
					}
				}
			}
			// G3: innermost enclosing loop (in any frame of the chain) must feed the key
			for f := ev.Fr; f != nil; f = f.Parent {
				site := liftTo(ev, f)
				if site == nil {
					break
				}
				if !inLoop(site.Block()) {
					continue
				}
				h := loopHeaderOf(site.Block())
				if h == nil {
					continue
				}
				nLoopSets++
				feeds := keyFeeds(ev, f)
				ind := loopInduction(h)
				dep := false
				for _, v := range feeds {
					if dependsOnLoop(v, ind) {
						dep = true
					}
				}
				key := kc.next(m + "|" + pfx)
				if !dep {
					// read-modify-write of one key (a counter / running total): the
					// value written derives from a read of the same prefix
					valS := w.expandCalls(ev.Fr, ev.Args[1], 3).LooseString()
					if os.Getenv("DEBUG_G3") != "" {
						fmt.Fprintf(os.Stderr, "G3 %s valS=%s getters=%d\n", pfx, trunc(valS, 300), len(cx.gettersOf(m, ev.Prefix)))
					}
					getters := cx.gettersOf(m, ev.Prefix)
					for _, rd := range cx.exportedReaders(m) {
						if contains(ev.Prefix, rd.prefix) {
							getters = append(getters, rd.fn) // (a getter that reads through a shared helper)
						}
					}
					for _, g := range getters {
						if strings.Contains(valS, callNameOfFn(g)+"(") {
							r.ok("G3-import-loop-key", key, ev.Pos(cx), "loop-invariant key, but the value written is computed from the value read back from the same key ("+callNameOfFn(g)+"): an accumulator, nothing is lost")
							dep = true
						}
					}
					if !dep && strings.Contains(valS, ".Get(") && strings.Contains(valS, keyS) {
						// (the getter seen through: a store read of the very key that is written)
						r.ok("G3-import-loop-key", key, ev.Pos(cx), "loop-invariant key, but the value written is computed from the value read back from the same key: an accumulator, nothing is lost")
						dep = true
					}
					if dep {
						break
					}
				}
				r.check(dep, "G3-import-loop-key", key, ev.Pos(cx), "the key written inside the import loop at "+cx.P.Pos(h.Instrs[0].Pos())+" depends on that loop's variable", "inside the import loop in "+shortFn(f.Fn)+" every iteration writes the same key under "+pfx+" (the key "+trunc(keyS, 140)+" does not depend on the loop variable): all but the last element are overwritten")
				break // innermost loop only
			}
		})
	}
	if nLoopSets < 15 {
		r.toolErr("only %d import-loop writes analysed (≥15 confirmed)", nLoopSets)
	}
}

// dependsOnLoop: v (or, for a pointer to a local, anything stored into it)
// derives from one of the loop's induction values.
func dependsOnLoop(v ssa.Value, ind map[ssa.Value]bool) bool {
	if derivesFrom(v, ind, 0, map[ssa.Value]bool{}) {
		return true
	}
	if base := allocBase(v); base != nil {
		var stores func(a ssa.Value, d int) bool
		stores = func(a ssa.Value, d int) bool {
			refs := a.Referrers()
			if refs == nil || d > 3 {
				return false
			}
			for _, r := range *refs {
				switch x := r.(type) {
				case *ssa.Store:
					if x.Addr == a && derivesFrom(x.Val, ind, 0, map[ssa.Value]bool{}) {
						return true
					}
				case *ssa.FieldAddr:
					if stores(x, d+1) {
						return true
					}
				case *ssa.IndexAddr:
					if stores(x, d+1) {
						return true
					}
				}
			}
			return false
		}
		return stores(base, 0)
	}
	return false
}

// gettersOf: functions of module m that read (Get) one of the prefixes.
func (cx *Ctx) gettersOf(m string, prefixes []string) []*ssa.Function {
	var out []*ssa.Function
	for _, f := range cx.P.AllFuncs {
		if moduleOf(funcPkgPath(f)) != m || f.Parent() != nil || !isConsensusCode(cx, f) {
			continue
		}
		for _, p := range cx.primsOf(f) {
			if p.Kind == "store.get" && len(p.Prefix) == 1 && contains(prefixes, p.Prefix[0]) {
				out = append(out, f)
				break
			}
		}
	}
	return out
}

func callNameOfFn(f *ssa.Function) string {
	p := shortPkg(funcPkgPath(f))
	if f.Signature.Recv() != nil {
		return p + "." + recvName(f) + "." + f.Name()
	}
	return p + "." + f.Name()
}

// ------------------------------------------------------------- G2

type rejectAtom struct {
	typ, field string
	op         string // the relation that is REJECTED: "==" or "!="
	c          string // constant (exact string)
	pos        token.Pos
}

func (cx *Ctx) c12Validators(r *Report) {
	mods := []string{"coinswap", "farm", "htlc", "mt", "oracle", "random", "record", "service", "token"}
	for _, m := range mods {
		var val, ex *ssa.Function
		for _, e := range cx.entriesOfModule(m, "genesis") {
			switch e.Name {
			case "ValidateGenesis":
				val = e.Fn
			case "ExportGenesis":
				ex = e.Fn
			}
		}
		if val == nil || ex == nil {
			continue
		}
		atoms := cx.rejectingAtoms(val)
		if len(atoms) == 0 {
			continue
		}
		exReach := cx.Reachable([]*ssa.Function{ex}, nil)
		rtEntries := cx.entriesOfModule(m, "msg", "abci", "callback", "hook")
		// run-time constants assigned to / constructed into T.F
		type stored struct {
			c      string
			pos    string
			msg    string // message field copied in (for non-constant values)
			zeroEv *Event
			ev     *Event
			w      *Walker
			e      *Entry
		}
		values := map[string][]stored{}
		updates := map[string][]*Event{} // entry|T.F -> field updates
		cx.forEachEvent(rtEntries, nil, func(e *Entry, w *Walker, ev *Event) {
			if strings.HasPrefix(ev.Kind, "assign:") || strings.HasPrefix(ev.Kind, "delta:") {
				tf := strings.TrimPrefix(strings.TrimPrefix(ev.Kind, "assign:"), "delta:")
				if i := strings.Index(tf, ":"); i > 0 {
					tf = tf[:i]
				}
				updates[entryKey(e)+"|"+tf] = append(updates[entryKey(e)+"|"+tf], ev)
			}
			if strings.HasPrefix(ev.Kind, "assign:") {
				tf := strings.TrimPrefix(ev.Kind, "assign:")
				v := ev.Args[0]
				s := stored{pos: ev.Pos(cx), ev: ev, w: w, e: e}
				if v.Op == "const" {
					s.c = v.Name
				} else if strings.HasPrefix(v.LooseString(), "msg.") {
					s.msg = v.LooseString()
				} else if vs := v.LooseString(); vs == "math.ZeroInt()" || vs == "math.LegacyZeroDec()" {
					// a stored zero (checked below: only if no later update of the same field follows it)
					s.c = "zero"
					s.zeroEv = ev
				}
				values[tf] = append(values[tf], s)
			}
			if ev.Kind == "store.set" {
				val := w.expandCalls(ev.Fr, ev.Args[1], 3)
				var visit func(t *Term)
				visit = func(t *Term) {
					if t == nil {
						return
					}
					if t.Op == "struct" {
						for i := 0; i+1 < len(t.Args); i += 2 {
							s := stored{pos: ev.Pos(cx), ev: ev, w: w, e: e}
							v := t.Args[i+1]
							if v.Op == "const" {
								s.c = v.Name
							} else if strings.HasPrefix(v.LooseString(), "msg.") {
								s.msg = v.LooseString()
							} else {
								continue
							}
							values[t.Name+"."+t.Args[i].Name] = append(values[t.Name+"."+t.Args[i].Name], s)
						}
					}
					for _, a := range t.Args {
						visit(a)
					}
				}
				visit(val)
			}
		})
		// drop stored zeros that are overwritten / added to before the record is stored
		for tf, ss := range values {
			var keep []stored
			for _, st := range ss {
				if st.zeroEv != nil {
					later := false
					for _, u := range updates[entryKey(st.e)+"|"+tf] {
						if u != st.zeroEv && (orderedBefore(st.zeroEv, u) || followedBy(st.zeroEv, u)) {
							later = true
						}
					}
					if later {
						continue
					}
				}
				keep = append(keep, st)
			}
			values[tf] = keep
		}
		seen := map[string]bool{}
		for _, a := range atoms {
			tf := a.typ + "." + a.field
			key := m + "|" + tf + a.op + a.c
			if seen[key] {
				continue
			}
			seen[key] = true
			pos := cx.P.Pos(a.pos)
			if cx.exportFilters(exReach, a) {
				r.ok("G2-validator-agreement", key, pos, "import rejects "+tf+" "+a.op+" "+a.c+"; ExportGenesis collects such records only under the opposite condition")
				continue
			}
			bad := ""
			for _, s := range values[tf] {
				if s.c != "" {
					rej := (a.op == "==" && s.c == a.c) || (a.op == "!=" && s.c != a.c && s.c != "zero" && !strings.HasPrefix(s.c, "zero:"))
					if rej {
						bad = fmt.Sprintf("%s.%s stores the constant %s at %s", s.e.Module, s.e.Name, s.c, s.pos)
						break
					}
				} else if s.msg != "" && a.op == "==" {
					// a message field copied in: is it compared with anything on the path or in ValidateBasic?
					guarded := false
					for _, ft := range s.w.FactsAt(s.ev.Fr, s.ev.Site) {
						if strings.Contains(ft.Text, s.msg+" ") || strings.Contains(ft.Text, s.msg+")") || strings.Contains(ft.Text, s.msg+",") {
							guarded = true
						}
					}
					if !guarded && !cx.validateBasicMentions(s.e, strings.TrimPrefix(s.msg, "msg.")) {
						bad = fmt.Sprintf("%s.%s copies %s into the field without any check (neither in the handler nor in ValidateBasic) at %s", s.e.Module, s.e.Name, s.msg, s.pos)
						break
					}
				}
			}
			if bad != "" {
				r.violate("G2-validator-agreement", key, pos, "the genesis validator rejects "+tf+" "+a.op+" "+a.c+", ExportGenesis does not filter on it, and "+bad+": a state reachable through valid transactions is exported but refused by import")
			} else {
				r.ok("G2-validator-agreement", key, pos, "import rejects "+tf+" "+a.op+" "+a.c+"; no message/block path stores such a constant or an unchecked message field into it")
			}
		}
	}
}

// rejectingAtoms: failure exits of the validator closure whose deciding branch
// compares a field of an irismod record with a constant.
func (cx *Ctx) rejectingAtoms(val *ssa.Function) []rejectAtom {
	var out []rejectAtom
	reach := cx.Reachable([]*ssa.Function{val}, nil)
	for _, f := range reach.Order {
		if f.Blocks == nil || !isIrismodFunc(f) {
			continue
		}
		for _, b := range f.Blocks {
			last := b.Instrs[len(b.Instrs)-1]
			fail := false
			if ret, ok := last.(*ssa.Return); ok && isFailureReturn(ret) {
				fail = true
			}
			if _, ok := last.(*ssa.Panic); ok {
				fail = true
			}
			if !fail {
				continue
			}
			fs := dominatingFacts(b)
			if len(fs) == 0 {
				continue
			}
			df := fs[0] // nearest deciding branch
			if len(fs) > 1 && shortCircuit(fs[1], df, b) {
				continue // conjunctive rejection (A && B): not an atom
			}
			if mc, isCall := df.Cond.(*ssa.Call); isCall && !mc.Common().IsInvoke() && len(mc.Common().Args) == 1 {
				// sign tests of a numeric field: !F.IsPositive() rejects zero, F.IsZero() rejects zero
				_, name := calleeName(mc.Common())
				m := name[strings.LastIndex(name, ".")+1:]
				tn, fn := recordField(mc.Common().Args[0])
				if tn != "" && ((m == "IsPositive" && !df.Holds) || (m == "IsZero" && df.Holds)) {
					out = append(out, rejectAtom{tn, fn, "==", "zero", mc.Pos()})
				}
				continue
			}
			bo, ok := df.Cond.(*ssa.BinOp)
			if !ok || (bo.Op != token.EQL && bo.Op != token.NEQ) {
				continue
			}
			var fieldSide ssa.Value
			var c *ssa.Const
			if k, ok := bo.Y.(*ssa.Const); ok {
				fieldSide, c = bo.X, k
			} else if k, ok := bo.X.(*ssa.Const); ok {
				fieldSide, c = bo.Y, k
			}
			if c == nil || c.Value == nil {
				continue
			}
			tn, fn := recordField(fieldSide)
			if tn == "" {
				continue
			}
			op := bo.Op.String()
			if !df.Holds {
				op = map[string]string{"==": "!=", "!=": "=="}[op]
			}
			out = append(out, rejectAtom{tn, fn, op, c.Value.ExactString(), bo.Pos()})
		}
	}
	return out
}

// recordField: v is a load of field F of a struct of irismod record type T.
func recordField(v ssa.Value) (string, string) {
	var xt types.Type
	var idx int
	switch x := v.(type) {
	case *ssa.UnOp:
		if x.Op != token.MUL {
			return "", ""
		}
		fa, ok := x.X.(*ssa.FieldAddr)
		if !ok {
			return "", ""
		}
		xt, idx = fa.X.Type(), fa.Field
	case *ssa.Field:
		xt, idx = x.X.Type(), x.Field
	default:
		return "", ""
	}
	n := namedOf(xt)
	if n == nil || n.Obj().Pkg() == nil || !strings.HasPrefix(n.Obj().Pkg().Path(), modPrefix) {
		return "", ""
	}
	if n.Obj().Name() == "GenesisState" || strings.HasPrefix(n.Obj().Name(), "Msg") || n.Obj().Name() == "Params" {
		return "", ""
	}
	return n.Obj().Name(), fieldNameShort(xt, idx)
}

// exportFilters: some function reachable from ExportGenesis appends records of
// type T only under the negation of the rejected relation.
func (cx *Ctx) exportFilters(reach *Reach, a rejectAtom) bool {
	for _, f := range reach.Order {
		if f.Blocks == nil || !isIrismodFunc(f) {
			continue
		}
		for _, b := range f.Blocks {
			for _, ins := range b.Instrs {
				c, ok := ins.(*ssa.Call)
				if !ok {
					continue
				}
				if bi, ok := c.Common().Value.(*ssa.Builtin); !ok || bi.Name() != "append" {
					continue
				}
				sl, ok := c.Type().Underlying().(*types.Slice)
				if !ok {
					continue
				}
				if n := namedOf(sl.Elem()); n == nil || n.Obj().Name() != a.typ {
					// (or a small carrier record that embeds / holds the exported record:
					// openHTLC{types.HTLC; id})
					holds := false
					if n != nil {
						if st, ok := n.Underlying().(*types.Struct); ok {
							for i := 0; i < st.NumFields(); i++ {
								if fn := namedOf(st.Field(i).Type()); fn != nil && fn.Obj().Name() == a.typ {
									holds = true
								}
							}
						}
					}
					if !holds {
						continue
					}
				}
				for _, df := range dominatingFacts(b) {
					bo, ok := df.Cond.(*ssa.BinOp)
					if !ok || (bo.Op != token.EQL && bo.Op != token.NEQ) {
						continue
					}
					var side ssa.Value
					var k *ssa.Const
					if x, ok := bo.Y.(*ssa.Const); ok {
						side, k = bo.X, x
					} else if x, ok := bo.X.(*ssa.Const); ok {
						side, k = bo.Y, x
					}
					if k == nil || k.Value == nil || k.Value.ExactString() != a.c {
						continue
					}
					tn, fn := recordField(side)
					if tn != a.typ || fn != a.field {
						continue
					}
					op := bo.Op.String()
					if !df.Holds {
						op = map[string]string{"==": "!=", "!=": "=="}[op]
					}
					if op != a.op { // kept under the opposite of the rejected relation
						return true
					}
				}
			}
		}
	}
	return false
}

// validateBasicMentions: the request type's ValidateBasic reads the given field.
func (cx *Ctx) validateBasicMentions(e *Entry, field string) bool {
	sig := e.Fn.Signature
	if sig.Params().Len() < 2 {
		return true
	}
	n := namedOf(sig.Params().At(sig.Params().Len() - 1).Type())
	if n == nil {
		return true
	}
	var vb *ssa.Function
	for _, t := range []types.Type{n, types.NewPointer(n)} {
		if sel := cx.P.SSA.MethodSets.MethodSet(t).Lookup(n.Obj().Pkg(), "ValidateBasic"); sel != nil {
			vb = cx.P.SSA.FuncValue(sel.Obj().(*types.Func))
		}
	}
	if vb == nil {
		return false
	}
	first := field
	if i := strings.Index(field, "."); i >= 0 {
		first = field[:i]
	}
	reach := cx.Reachable([]*ssa.Function{vb}, nil)
	for _, f := range reach.Order {
		if f.Blocks == nil {
			continue
		}
		for _, b := range f.Blocks {
			for _, ins := range b.Instrs {
				switch x := ins.(type) {
				case *ssa.FieldAddr:
					if namedOf(x.X.Type()) == n && fieldNameShort(x.X.Type(), x.Field) == first {
						return true
					}
				case *ssa.Field:
					if namedOf(x.X.Type()) == n && fieldNameShort(x.X.Type(), x.Field) == first {
						return true
					}
				}
			}
		}
	}
	return false
}

// shortCircuit: outer and inner are the two branches of `if A && B { fail }`:
// the inner branch's block is a successor of the outer branch and both
// branches' other successor is the same continuation block.
func shortCircuit(outer, inner Fact, fail *ssa.BasicBlock) bool {
	ob, ib := outer.If.Block(), inner.If.Block()
	if len(ib.Preds) != 1 || ib.Preds[0] != ob {
		return false
	}
	other := func(b, not *ssa.BasicBlock) *ssa.BasicBlock {
		for _, s := range b.Succs {
			if s != not {
				return s
			}
		}
		return nil
	}
	// inner's successor towards fail
	var toward *ssa.BasicBlock
	for _, s := range ib.Succs {
		if s == fail || s.Dominates(fail) {
			toward = s
		}
	}
	if toward == nil {
		return false
	}
	return other(ib, toward) == other(ob, ib)
}

// ------------------------------------------------------------- G5: order-insensitive validators

// c12ValidatorAccumulators: exports list records in store-key order, which is
// not creation order. A genesis validator therefore must not depend on the
// order of the lists it walks: every value carried from one loop iteration to
// the next (a loop-header phi) must be updated commutatively - max/min idiom
// (assignment guarded by a comparison with the carried value), sum/append of
// the carried value, or the loop counter. "Last element wins" is reported.
func (cx *Ctx) c12ValidatorAccumulators(r *Report) {
	n := 0
	for _, m := range []string{"coinswap", "farm", "htlc", "mt", "nft", "oracle", "random", "record", "service", "token"} {
		var val *ssa.Function
		for _, e := range cx.entriesOfModule(m, "genesis") {
			if e.Name == "ValidateGenesis" {
				val = e.Fn
			}
		}
		if val == nil {
			continue
		}
		reach := cx.Reachable([]*ssa.Function{val}, nil)
		for _, f := range reach.Order {
			if f.Blocks == nil || !isIrismodFunc(f) {
				continue
			}
			for _, h := range f.Blocks {
				// loop header: has a predecessor it dominates
				isHeader := false
				for _, p := range h.Preds {
					if h.Dominates(p) {
						isHeader = true
					}
				}
				if !isHeader {
					continue
				}
				for _, ins := range h.Instrs {
					phi, ok := ins.(*ssa.Phi)
					if !ok {
						break
					}
					// back-edge values
					var ups []ssa.Value
					for i, p := range h.Preds {
						if h.Dominates(p) && i < len(phi.Edges) {
							ups = append(ups, phi.Edges[i])
						}
					}
					used := false
					for _, ref := range *phi.Referrers() {
						if _, isPhi := ref.(*ssa.Phi); !isPhi {
							used = true
						}
					}
					if !used || len(ups) == 0 {
						continue
					}
					n++
					key := m + "|" + anchorOf(cx, f) + "|" + phi.Comment
					bad := ""
					for _, u := range ups {
						if why := orderSensitiveUpdate(phi, u, 0); why != "" {
							bad = why
						}
					}
					pos := cx.P.Pos(phi.Pos())
					if bad == "" {
						r.ok("G5-validator-order", key, pos, "value carried across iterations of a validator loop is updated commutatively (counter, sum/append, or max/min guarded by a comparison with itself)")
					} else {
						r.violate("G5-validator-order", key, pos, "genesis validation in "+shortFn(f)+" carries `"+phi.Comment+"` from one list element to the next and "+bad+": acceptance depends on the order of the list, but exports list records in store-key order, not creation order, so the export of a reachable state can be refused")
					}
				}
			}
		}
	}
	if n < 4 {
		r.toolErr("only %d validator loop accumulators found (≥4 confirmed)", n)
	}
}

// orderSensitiveUpdate: "" when the back-edge value u updates the carried phi p
// commutatively; otherwise a description of the problem.
func orderSensitiveUpdate(p *ssa.Phi, u ssa.Value, depth int) string {
	if depth > 6 {
		return "updates it in a way that could not be classified"
	}
	if u == p {
		return ""
	}
	switch x := u.(type) {
	case *ssa.Phi:
		// a join inside the loop body: each incoming value must itself be fine, and
		// an incoming value that does not mention p must be selected by a comparison with p
		for i, e := range x.Edges {
			if e == p {
				continue
			}
			if derivesFrom(e, map[ssa.Value]bool{p: true}, 0, map[ssa.Value]bool{}) {
				if why := orderSensitiveUpdate(p, e, depth+1); why != "" {
					return why
				}
				continue
			}
			// e replaces p: the branch leading here must compare with p
			guarded := false
			if i < len(x.Block().Preds) {
				for _, df := range dominatingFacts(x.Block().Preds[i]) {
					if derivesFrom(df.Cond, map[ssa.Value]bool{p: true}, 0, map[ssa.Value]bool{}) {
						guarded = true
					}
				}
				// the predecessor may itself be the branching block
				if ifi, ok := x.Block().Preds[i].Instrs[len(x.Block().Preds[i].Instrs)-1].(*ssa.If); ok {
					if derivesFrom(ifi.Cond, map[ssa.Value]bool{p: true}, 0, map[ssa.Value]bool{}) {
						guarded = true
					}
				}
			}
			if !guarded {
				return "overwrites it with a per-element value without comparing the two (the last element wins)"
			}
		}
		return ""
	case *ssa.BinOp:
		if (x.Op == token.ADD || x.Op == token.MUL || x.Op == token.OR || x.Op == token.AND || x.Op == token.LOR || x.Op == token.LAND) && (x.X == p || x.Y == p) {
			return ""
		}
	case *ssa.Call:
		args := x.Common().Args
		if b, ok := x.Common().Value.(*ssa.Builtin); ok && b.Name() == "append" && len(args) > 0 && args[0] == p {
			return ""
		}
		_, name := calleeName(x.Common())
		mname := name[strings.LastIndex(name, ".")+1:]
		if (mname == "Add" || mname == "Mul" || mname == "Union") && len(args) > 0 && args[0] == p {
			return ""
		}
	case *ssa.Next:
		return "" // iterator state
	case *ssa.Extract:
		if _, ok := x.Tuple.(*ssa.Next); ok {
			return "" // iterator state
		}
	}
	if !derivesFrom(u, map[ssa.Value]bool{p: true}, 0, map[ssa.Value]bool{}) {
		return "overwrites it with a per-element value without comparing the two (the last element wins)"
	}
	return "updates it non-commutatively"
}

// ------------------------------------------------------------- G7: map values written back in exports

// c12MapWriteBack: Go map values are copies. In the export closure, a struct
// read from a map into a local and then modified (a field store) must be stored
// back into the same map on every path afterwards; otherwise the modification
// (typically an appended list element) is silently lost from the export.
func (cx *Ctx) c12MapWriteBack(r *Report) {
	n := 0
	for _, m := range []string{"coinswap", "farm", "htlc", "mt", "nft", "oracle", "random", "record", "service", "token"} {
		var roots []*ssa.Function
		for _, e := range cx.entriesOfModule(m, "genesis") {
			if e.Name == "ExportGenesis" {
				roots = append(roots, e.Fn)
			}
		}
		reach := cx.Reachable(roots, nil)
		for _, f := range reach.Order {
			if f.Blocks == nil || !isIrismodFunc(f) {
				continue
			}
			for _, b := range f.Blocks {
				for _, ins := range b.Instrs {
					lk, ok := ins.(*ssa.Lookup)
					if !ok {
						continue
					}
					if _, isMap := lk.X.Type().Underlying().(*types.Map); !isMap {
						continue
					}
					// the looked-up value (or its first component) stored into a local
					var vals []ssa.Value
					if lk.CommaOk {
						for _, ref := range *lk.Referrers() {
							if ex, ok := ref.(*ssa.Extract); ok && ex.Index == 0 {
								vals = append(vals, ex)
							}
						}
					} else {
						vals = append(vals, lk)
					}
					for _, v := range vals {
						if _, isStruct := v.Type().Underlying().(*types.Struct); !isStruct {
							continue
						}
						for _, ref := range *v.Referrers() {
							st, ok := ref.(*ssa.Store)
							if !ok || st.Val != v {
								continue
							}
							local, ok := st.Addr.(*ssa.Alloc)
							if !ok {
								continue
							}
							// modifications of the local after the lookup
							for _, lr := range *local.Referrers() {
								fa, ok := lr.(*ssa.FieldAddr)
								if !ok {
									continue
								}
								for _, fr := range *fa.Referrers() {
									mod, ok := fr.(*ssa.Store)
									if !ok || mod.Addr != fa {
										continue
									}
									if !blockReaches(st.Block(), mod.Block()) {
										continue
									}
									n++
									isBack := func(i ssa.Instruction) bool {
										mu, ok := i.(*ssa.MapUpdate)
										if !ok || pureExpr(mu.Map, 0) != pureExpr(lk.X, 0) {
											return false
										}
										ld, ok := mu.Value.(*ssa.UnOp)
										return ok && ld.X == local
									}
									okBack := false
									// same block: a write-back after the modification
									seenMod := false
									for _, i2 := range mod.Block().Instrs {
										if i2 == mod {
											seenMod = true
										} else if seenMod && isBack(i2) {
											okBack = true
										}
									}
									if !okBack {
										okBack = len(mod.Block().Succs) > 0
										for _, s := range mod.Block().Succs {
											if !mustReachPSPred(f, s, mod.Block(), isBack) {
												okBack = false
											}
										}
									}
									key := m + "|" + anchorOf(cx, f) + "|" + local.Comment
									r.check(okBack, "G7-export-map-writeback", key, cx.P.Pos(mod.Pos()), "a map value copied into `"+local.Comment+"` and modified is stored back into the map on every path", "in "+shortFn(f)+" (export closure) the struct `"+local.Comment+"` is read from a map, modified, and not stored back into the map on every path: map values are copies, so the modification (e.g. an appended element) is lost from the exported genesis")
								}
							}
						}
					}
				}
			}
		}
	}
	if n < 1 {
		r.toolErr("no modified map value found in any export closure (≥1 confirmed: random pending requests)")
	}
}

// ------------------------------------------------------------- G8
//
// importRebuildRule: a derived index or queue is rebuilt by InitGenesis *for every
// record it restores*. In the import loop, each Set of a record under an exported
// prefix that shares the loop with the Set of the derived prefix must be
// co-executed with it. A derived write that is reached only under extra
// conditions is accepted when each such condition either aborts the import on
// its other side (panic) or is a test of the derived state itself (a pool that
// has already ended is not put back on the queue: `!k.Expired(ctx, pool)`).
// A condition on a plain field of the record (`if !htlc.Transfer { continue }`)
// silently drops the entry for part of the records: those contracts are then
// never visited by the block handler after a restart from exported state.
func (cx *Ctx) importRebuildRule(r *Report, mods []string, rule string) int {
	n := 0
	for _, m := range mods {
		if len(c12Derived[m]) == 0 {
			continue
		}
		var entries []Entry
		for _, e := range cx.entriesOfModule(m, "genesis") {
			if e.Name == "InitGenesis" {
				entries = append(entries, e)
			}
		}
		type sev struct {
			ev   *Event
			w    *Walker
			site ssa.Instruction // lifted into the frame that holds the loop
			fr   *Frame
			h    *ssa.BasicBlock
		}
		var sets []sev
		cx.forEachEvent(entries, nil, func(e *Entry, w *Walker, ev *Event) {
			if ev.Kind != "store.set" {
				return
			}
			for f := ev.Fr; f != nil; f = f.Parent {
				site := liftTo(ev, f)
				if site == nil {
					break
				}
				if !inLoop(site.Block()) {
					continue
				}
				if h := loopHeaderOf(site.Block()); h != nil {
					sets = append(sets, sev{ev, w, site, f, h})
					break
				}
			}
		})
		readsPrefix := func(f *ssa.Function, d string) bool {
			if f == nil || f.Blocks == nil {
				return false
			}
			for _, g := range cx.Reachable([]*ssa.Function{f}, nil).Order {
				if g.Blocks == nil {
					continue
				}
				for _, p := range cx.primsOf(g) {
					if (p.Kind == "store.has" || p.Kind == "store.get" || p.Kind == "store.iter") && contains(p.Prefix, d) {
						return true
					}
				}
			}
			return false
		}
		for _, d := range c12Derived[m] {
			var ws, ps []sev
			for _, s := range sets {
				switch {
				case hasPrefix(s.ev, d):
					ws = append(ws, s)
				default:
					derived := false
					for _, px := range s.ev.Prefix {
						if contains(c12Derived[m], px) {
							derived = true
						}
					}
					if !derived {
						ps = append(ps, s)
					}
				}
			}
			kc := keyCounter{}
			for _, p := range ps {
				// only records restored in a loop that also rebuilds this derived prefix
				var same []sev
				for _, w := range ws {
					if w.h == p.h && w.fr == p.fr {
						same = append(same, w)
					}
				}
				if len(same) == 0 {
					continue
				}
				n++
				key := kc.next(m + "|" + d + "|" + strings.Join(p.ev.Prefix, ","))
				ok, why := false, ""
				for _, w := range same {
					if coExecuted(p.ev, w.ev) {
						ok, why = true, "co-executed with the record's Set"
						break
					}
				}
				bad := ""
				if !ok {
					for _, w := range same {
						if !blockReaches(p.site.Block(), w.site.Block()) && p.site.Block() != w.site.Block() {
							continue
						}
						have := map[*ssa.If]bool{}
						for _, f := range dominatingFacts(p.site.Block()) {
							have[f.If] = true
						}
						allOK := true
						for _, f := range dominatingFacts(w.site.Block()) {
							if have[f.If] || f.If == nil {
								continue
							}
							// the side that does not lead to the derived write
							var other *ssa.BasicBlock
							for i, s := range f.If.Block().Succs {
								if (i == 0) != f.Holds {
									other = s
								}
							}
							c := f.Cond
							for {
								if u, isU := c.(*ssa.UnOp); isU && u.Op == token.NOT {
									c = u.X
									continue
								}
								if ex, isE := c.(*ssa.Extract); isE {
									c = ex.Tuple
									continue
								}
								break
							}
							selfTest := false
							if call, isC := c.(*ssa.Call); isC {
								for _, e := range cx.calleesOf(call) {
									if readsPrefix(e.Callee, d) {
										selfTest = true
									}
								}
							}
							if selfTest || (other != nil && alwaysAborts(other, w.h)) {
								continue
							}
							allOK = false
							bad = "the rebuild at " + w.ev.Pos(cx) + " is skipped under the condition tested at " + cx.P.Pos(condPos(f.Cond, f.If.Block()))
						}
						if allOK {
							ok, why = true, "guarded only by aborting checks or by tests of the derived state itself"
							break
						}
					}
				}
				if bad == "" {
					bad = "no rebuild of " + d + " follows the record's Set in the same iteration"
				}
				r.check(ok, rule, key, p.ev.Pos(cx), "every record restored under "+strings.Join(p.ev.Prefix, ",")+" gets its "+d+" entry in the same iteration ("+why+")",
					"InitGenesis restores records under "+strings.Join(p.ev.Prefix, ",")+" without rebuilding their "+d+" entry on every path ("+bad+"): after a restart from exported state those records have no index / queue entry")
			}
		}
	}
	return n
}

// alwaysAborts: every path from b ends in a panic before returning or reaching
// the loop header h again.
func alwaysAborts(b, h *ssa.BasicBlock) bool {
	seen := map[*ssa.BasicBlock]bool{}
	var walk func(x *ssa.BasicBlock) bool
	walk = func(x *ssa.BasicBlock) bool {
		if x == h {
			return false
		}
		if seen[x] {
			return true
		}
		seen[x] = true
		switch x.Instrs[len(x.Instrs)-1].(type) {
		case *ssa.Panic:
			return true
		case *ssa.Return:
			return false
		}
		if len(x.Succs) == 0 {
			return false
		}
		for _, s := range x.Succs {
			if !walk(s) {
				return false
			}
		}
		return true
	}
	return walk(b)
}

// condPos: a source position for a branch condition (ssa.If itself has none).
func condPos(c ssa.Value, b *ssa.BasicBlock) token.Pos {
	if c != nil && c.Pos().IsValid() {
		return c.Pos()
	}
	for i := len(b.Instrs) - 1; i >= 0; i-- {
		if p := b.Instrs[i].Pos(); p.IsValid() {
			return p
		}
	}
	return token.NoPos
}

// presenceCountComparison: position of a comparison len(mapA) ⋈ len(mapB) of two
// maps in the module's ValidateGenesis ("" if there is none).
func (cx *Ctx) presenceCountComparison(m string) string {
	isLenOfMap := func(v ssa.Value) bool {
		c, ok := v.(*ssa.Call)
		if !ok {
			return false
		}
		b, isB := c.Common().Value.(*ssa.Builtin)
		if !isB || b.Name() != "len" || len(c.Common().Args) != 1 {
			return false
		}
		_, isMap := c.Common().Args[0].Type().Underlying().(*types.Map)
		return isMap
	}
	for _, e := range cx.entriesOfModule(m, "genesis") {
		if e.Name != "ValidateGenesis" || e.Fn == nil {
			continue
		}
		for _, g := range cx.Reachable([]*ssa.Function{e.Fn}, nil).Order {
			if g.Blocks == nil || !isIrismodFunc(g) {
				continue
			}
			for _, b := range g.Blocks {
				for _, ins := range b.Instrs {
					bo, ok := ins.(*ssa.BinOp)
					if !ok || (bo.Op != token.EQL && bo.Op != token.NEQ) {
						continue
					}
					if isLenOfMap(bo.X) && isLenOfMap(bo.Y) {
						return cx.P.Pos(bo.Pos())
					}
				}
			}
		}
	}
	return ""
}

// importCountersRule (C12 G11, C15): an id counter that InitGenesis rebuilds by counting
// (n := 1; for … { …; n++ }; SetSequence(n)) is advanced on EVERY iteration of the loop
// that restores the records. An increment that a `continue` can skip (a class without
// tokens, a record of some kind) leaves the counter at or below an id already in use:
// the next generated id collides with an existing record and overwrites it.
func (cx *Ctx) importCountersRule(r *Report, mods []string, rule string) int {
	n := 0
	for _, m := range mods {
		var entries []Entry
		for _, e := range cx.entriesOfModule(m, "genesis") {
			if e.Name == "InitGenesis" {
				entries = append(entries, e)
			}
		}
		seen := map[ssa.Instruction]bool{}
		cx.forEachEvent(entries, nil, func(e *Entry, w *Walker, ev *Event) {
			if ev.Kind != "store.set" {
				return
			}
			for f := ev.Fr; f != nil; f = f.Parent {
				site := liftTo(ev, f)
				ci, ok := site.(ssa.CallInstruction)
				if !ok || seen[site] {
					continue
				}
				for _, a := range ci.Common().Args {
					bt, isB := a.Type().Underlying().(*types.Basic)
					if !isB || bt.Info()&types.IsInteger == 0 {
						continue
					}
					incs := constIncrementsOf(a)
					if len(incs) == 0 {
						continue
					}
					seen[site] = true
					for _, inc := range incs {
						if !inLoop(inc.Block()) {
							continue
						}
						n++
						key := m + "|" + strings.Join(ev.Prefix, ",") + "|" + fmt.Sprint(n)
						r.check(perIterationMust([]ssa.Instruction{inc}), rule, key, cx.P.Pos(inc.Pos()), "the counter written under "+strings.Join(ev.Prefix, ",")+" is advanced on every iteration of the import loop", "the counter that InitGenesis writes under "+strings.Join(ev.Prefix, ",")+" is advanced at "+cx.P.Pos(inc.Pos())+" only on some iterations of its loop (a `continue` or branch skips the increment): records restored on the skipped iterations are not counted, the restored sequence is too low and the next generated id collides with an existing record")
					}
				}
			}
		})
	}
	return n
}

// constIncrementsOf: v is a loop-carried counter (φ over x+const); the add instructions.
func constIncrementsOf(v ssa.Value) []*ssa.BinOp {
	var out []*ssa.BinOp
	seen := map[ssa.Value]bool{}
	var walk func(x ssa.Value, d int)
	walk = func(x ssa.Value, d int) {
		if d > 12 || seen[x] {
			return
		}
		seen[x] = true
		switch y := x.(type) {
		case *ssa.Phi:
			for _, e := range y.Edges {
				walk(e, d+1)
			}
		case *ssa.BinOp:
			if y.Op == token.ADD {
				if _, isC := y.Y.(*ssa.Const); isC {
					out = append(out, y)
					walk(y.X, d+1)
				} else if _, isC := y.X.(*ssa.Const); isC {
					out = append(out, y)
					walk(y.Y, d+1)
				}
			}
		case *ssa.Convert:
			walk(y.X, d+1)
		case *ssa.UnOp:
			if a, ok := y.X.(*ssa.Alloc); ok && a.Referrers() != nil {
				for _, rf := range *a.Referrers() {
					if st, ok := rf.(*ssa.Store); ok && st.Addr == a {
						walk(st.Val, d+1)
					}
				}
			}
		}
	}
	walk(v, 0)
	// keep only increments that are part of a cycle through a φ (a running counter)
	var loopy []*ssa.BinOp
	for _, b := range out {
		if inLoop(b.Block()) {
			loopy = append(loopy, b)
		}
	}
	return loopy
}

// importChecksSelfKeyed (G12): while InitGenesis restores a record X it may refuse it
// because "something is already there" (Has / Get under some prefix P). When restoring X
// also WRITES under P, the check must look at the very key X is going to occupy
// (P keyed by the same field of X). A check keyed by another field of X (is X's symbol
// already in use as somebody's min unit?) makes acceptance depend on which record was
// restored first: the exporter lists records in store order, so a state that was reached
// in one order at run time is refused when replayed in another.
func (cx *Ctx) importChecksSelfKeyed(r *Report, mods []string, rule string) int {
	n := 0
	fieldBases := func(t *Term) map[string]string { // base term -> field
		out := map[string]string{}
		var walk func(x *Term)
		walk = func(x *Term) {
			if x == nil {
				return
			}
			if x.Op == "field" && len(x.Args) == 1 {
				// the outermost selection only: (data.Tokens[i]).Symbol names field Symbol of the
				// record data.Tokens[i], not field Tokens of the genesis state
				out[x.Args[0].LooseString()] = x.Name
				return
			}
			for _, a := range x.Args {
				walk(a)
			}
		}
		walk(t)
		return out
	}
	for _, m := range mods {
		var entries []Entry
		for _, e := range cx.entriesOfModule(m, "genesis") {
			if e.Name == "InitGenesis" {
				entries = append(entries, e)
			}
		}
		type acc struct {
			ev   *Event
			w    *Walker
			base map[string]string
		}
		var reads, writes []acc
		cx.forEachEvent(entries, nil, func(e *Entry, w *Walker, ev *Event) {
			if len(ev.Prefix) != 1 || len(ev.Args) == 0 {
				return
			}
			switch ev.Kind {
			case "store.has", "store.get":
				reads = append(reads, acc{ev, w, fieldBases(ev.Args[0])})
			case "store.set":
				writes = append(writes, acc{ev, w, fieldBases(ev.Args[0])})
			}
		})
		seen := map[string]bool{}
		for _, rd := range reads {
			for base, rf := range rd.base {
				var same, other []string
				for _, wr := range writes {
					if wr.ev.Prefix[0] != rd.ev.Prefix[0] {
						continue
					}
					if wf, ok := wr.base[base]; ok {
						if wf == rf {
							same = append(same, wf)
						} else {
							other = append(other, wf)
						}
					}
				}
				if len(same) == 0 && len(other) == 0 {
					continue // restoring this record does not write under the prefix: a reference check
				}
				key := m + "|" + rd.ev.Prefix[0] + "|" + rf
				if seen[key] {
					continue
				}
				seen[key] = true
				n++
				r.check(len(same) > 0, rule, key, rd.ev.Pos(cx), "the existence check under "+rd.ev.Prefix[0]+" looks at the key (field "+rf+") the restored record itself occupies", "while restoring a record InitGenesis checks "+rd.ev.Prefix[0]+" under the record's field "+rf+", but the record itself is stored there under its field "+strings.Join(uniq(other), "/")+": whether an exported record is accepted depends on which other record was restored before it, and the store-ordered export of a reachable state can be refused (chain "+rd.ev.Fr.String()+")")
			}
		}
	}
	return n
}

// derivedWriteGuards (G13; C10 for the token module): in the function that stores a record
// and maintains its derived index entries side by side, an index entry may be skipped only
// for a reason found in ITS OWN key material (no contract: no contract index entry). An
// early return or branch on something else (no owner) that also skips the entry of another
// index leaves the record without that entry: lookups through the index (the EVM hook's
// contract -> token resolution) then miss an existing record.
func (cx *Ctx) derivedWriteGuards(r *Report, mods []string, rule string) int {
	n := 0
	for _, F := range cx.P.AllFuncs {
		if F.Blocks == nil || !isIrismodFunc(F) || !isConsensusCode(cx, F) || cx.isDoubleFunc(F) {
			continue
		}
		m := moduleOf(funcPkgPath(F))
		if !contains(mods, m) || len(c12Derived[m]) == 0 {
			continue
		}
		// the sibling call sites of F and the prefixes each one's callee subtree sets
		type sib struct {
			ci  ssa.CallInstruction
			pxs map[string]bool
		}
		var sibs []sib
		for _, b := range F.Blocks {
			for _, ins := range b.Instrs {
				ci, ok := ins.(ssa.CallInstruction)
				if !ok {
					continue
				}
				pxs := map[string]bool{}
				if k := cx.classifyCall(ci); k == "store.set" {
					for _, px := range cx.storeKeyPrefix(ci, k) {
						pxs[px] = true
					}
				}
				for _, e := range cx.calleesOf(ci) {
					if e.Kind == "dynamic" || e.Kind == "invoke" {
						continue
					}
					for _, g := range cx.reachableCS([]*ssa.Function{e.Callee}).Order {
						if g.Blocks == nil || !isIrismodFunc(g) {
							continue
						}
						for _, p := range cx.primsOf(g) {
							if p.Kind == "store.set" {
								for _, px := range p.Prefix {
									pxs[px] = true
								}
							}
						}
					}
				}
				if len(pxs) > 0 {
					sibs = append(sibs, sib{ci, pxs})
				}
			}
		}
		if len(sibs) < 2 {
			continue
		}
		// a sibling that writes a non-derived (primary) prefix of the module must exist
		primary := false
		for _, s := range sibs {
			for px := range s.pxs {
				if ownPrefix(px, nil, m) && !contains(c12Derived[m], px) && !isParamsPrefix(px) {
					primary = true
				}
			}
		}
		if !primary {
			continue
		}
		for _, s := range sibs {
			onlyDerived := len(s.pxs) > 0
			var dpx string
			for px := range s.pxs {
				if !contains(c12Derived[m], px) {
					onlyDerived = false
				}
				dpx = px
			}
			if !onlyDerived || len(s.pxs) != 1 {
				continue
			}
			args := map[string]bool{}
			var addArg func(a ssa.Value, d int)
			addArg = func(a ssa.Value, d int) {
				if e := pureExpr(a, 0); e != "" {
					args[e] = true
				}
				// the key handed over ready-made: KeyContract(token.Contract) is made of token.Contract
				if d < 3 {
					switch x := a.(type) {
					case *ssa.Call:
						if !x.Common().IsInvoke() && len(cx.transPrimKindsOfCall(x)) == 0 {
							for _, b := range x.Common().Args {
								addArg(b, d+1)
							}
						}
					case *ssa.Convert:
						addArg(x.X, d+1)
					}
				}
			}
			for _, a := range s.ci.Common().Args {
				addArg(a, 0)
			}
			var ownKey func(v ssa.Value, d int) bool
			ownKey = func(v ssa.Value, d int) bool {
				if d > 6 {
					return false
				}
				if _, isC := v.(*ssa.Const); isC {
					return true
				}
				if e := pureExpr(v, 0); e != "" && args[e] && !strings.HasPrefix(e, "call@") {
					return true
				}
				switch x := v.(type) {
				case *ssa.BinOp:
					return ownKey(x.X, d+1) && ownKey(x.Y, d+1)
				case *ssa.UnOp:
					if x.Op != token.MUL {
						return ownKey(x.X, d+1)
					}
				case *ssa.Call:
					all := len(x.Common().Args) > 0
					for _, a := range x.Common().Args {
						if !ownKey(a, d+1) {
							all = false
						}
					}
					return all
				case *ssa.Convert:
					return ownKey(x.X, d+1)
				}
				return false
			}
			n++
			bad := ""
			succ := map[*ssa.BasicBlock]bool{}
			for _, b := range successExitBlocks(F) {
				succ[b] = true
			}
			for _, df := range dominatingFacts(s.ci.Block()) {
				if ownKey(df.Cond, 0) || df.If == nil {
					continue
				}
				// only a branch whose OTHER side can still end successfully skips the entry; a
				// side that can only fail (validation, error propagation) stores nothing at all
				ib := df.If.Block()
				skips := false
				for i, sc := range ib.Succs {
					if (i == 0) == df.Holds {
						continue // the side the write is on
					}
					seen := map[*ssa.BasicBlock]bool{}
					q := []*ssa.BasicBlock{sc}
					for len(q) > 0 {
						x := q[0]
						q = q[1:]
						if seen[x] || x == s.ci.Block() {
							continue
						}
						seen[x] = true
						if succ[x] {
							skips = true
							break
						}
						q = append(q, x.Succs...)
					}
				}
				if skips {
					bad = cx.P.Pos(ib.Instrs[len(ib.Instrs)-1].Pos())
					if bad == "" || strings.HasPrefix(bad, "-") || strings.HasPrefix(bad, "?") {
						bad = cx.P.Pos(s.ci.Pos()) + " (enclosing branch)"
					}
				}
			}
			key := m + "|" + dpx + "|" + shortFn(F)
			r.check(bad == "", rule, key, cx.P.Pos(s.ci.Pos()), "the entry under "+dpx+" is written unless its own key material is missing", "in "+shortFn(F)+" the derived entry under "+dpx+" is written only under the condition at "+bad+", which is not about that entry's own key: a record stored on the other path has no entry in this index, and lookups through the index miss it")
		}
	}
	return n
}

// crossedFieldsRule (G14; C14 for nft): in a record assembled from another record X, two
// fields that take each other's namesake (MintRestricted: X.UpdateRestricted,
// UpdateRestricted: X.MintRestricted) are crossed - positional arguments of the same type
// passed in the wrong order. After an export/import round trip (or the message that builds
// the record) the two settings have traded places.
func (cx *Ctx) crossedFieldsRule(r *Report, entries []Entry, rule string) int {
	n := 0
	seen := map[string]bool{}
	cx.forEachEvent(entries, nil, func(e *Entry, w *Walker, ev *Event) {
		if !(ev.Kind == "store.set" || strings.HasPrefix(ev.Kind, "nft.")) {
			return
		}
		for _, a := range ev.Args {
			var walk func(t *Term)
			walk = func(t *Term) {
				if t == nil {
					return
				}
				if t.Op == "struct" {
					type src struct{ base, field string }
					from := map[string]src{}
					for i := 0; i+1 < len(t.Args); i += 2 {
						v := t.Args[i+1]
						if v.Op == "field" && len(v.Args) == 1 {
							from[t.Args[i].Name] = src{v.Args[0].LooseString(), v.Name}
						}
					}
					key := entryKey(e) + "|" + t.Name
					if !seen[key] {
						seen[key] = true
						n++
						var crossed []string
						for f, s := range from {
							if s.field == f {
								continue
							}
							if o, ok := from[s.field]; ok && o.base == s.base && o.field == f && f < s.field {
								crossed = append(crossed, f+" ⇄ "+s.field)
							}
						}
						sort.Strings(crossed)
						r.check(len(crossed) == 0, rule, key, ev.Pos(cx), "no two fields of the assembled "+t.Name+" take each other's namesake from the source record", "the "+t.Name+" assembled on chain "+ev.Fr.String()+" takes "+strings.Join(crossed, ", ")+" from each other's namesake in the source record: same-typed positional arguments were passed in the wrong order, so the two settings trade places")
					}
				}
				for _, x := range t.Args {
					walk(x)
				}
			}
			walk(a)
		}
	})
	return n
}

// exportFilters (G15): the conditions under which ExportGenesis adds a record to the
// exported lists. Every such condition drops durable objects from the export, so the set
// is closed: the conditions found on the unchanged tree were confirmed against what each
// module documents as dropped (closed HTLCs), and a new one is reported.
var c12ExportFilters = map[string][]string{
	"htlc": {"(‹HTLC›.State == 0)"}, // only open contracts are durable (completed / refunded ones are history)
}

func (cx *Ctx) exportFilterRule(r *Report, mods []string, rule string) int {
	n := 0
	for _, m := range mods {
		var ex []*ssa.Function
		for _, e := range cx.entriesOfModule(m, "genesis") {
			if e.Name == "ExportGenesis" {
				ex = append(ex, e.Fn)
			}
		}
		for _, G := range cx.reachableCS(ex).Order {
			if G.Blocks == nil || !isIrismodFunc(G) || moduleOf(funcPkgPath(G)) != m {
				continue
			}
			for _, b := range G.Blocks {
				for _, ins := range b.Instrs {
					c, ok := ins.(*ssa.Call)
					if !ok {
						continue
					}
					if bi, isB := c.Common().Value.(*ssa.Builtin); !isB || bi.Name() != "append" {
						continue
					}
					// appends of records (not of bytes) inside a loop or an iteration callback
					if sl, ok := c.Type().Underlying().(*types.Slice); ok {
						if bt, isB := sl.Elem().Underlying().(*types.Basic); isB && bt.Kind() == types.Byte {
							continue
						}
					}
					if !inLoop(b) && G.Parent() == nil {
						continue
					}
					for _, df := range dominatingFacts(b) {
						// loop control (index < len) is not a filter
						if bo, isBin := df.Cond.(*ssa.BinOp); isBin {
							if _, isPhi := bo.X.(*ssa.Phi); isPhi {
								continue
							}
						}
						if cl, isCall := df.Cond.(*ssa.Call); isCall && cl.Common().IsInvoke() && cl.Common().Method.Name() == "Valid" {
							continue
						}
						if _, isNext := df.Cond.(*ssa.Extract); isNext {
							continue
						}
						if bo, isBin := df.Cond.(*ssa.BinOp); isBin && (isNilConst(bo.X) || isNilConst(bo.Y)) {
							if isErrorType(bo.X.Type()) || isErrorType(bo.Y.Type()) {
								continue // an index entry whose record cannot be loaded is skipped: not a filter on records
							}
						}
						ct := newTerms(cx).Of(df.Cond, &Frame{Fn: G})
						// a filter looks at the record: the condition selects a field of a value that
						// is not the keeper / context / a plain parameter flag
						if findSub(ct, func(t *Term) bool {
							return t.Op == "field" && len(t.Args) == 1 && t.Args[0].Op != "keeper" && t.Args[0].Op != "ctx" && !strings.HasPrefix(t.Args[0].LooseString(), "keeper")
						}) == nil {
							continue
						}
						cs := ct.LooseString()
						if strings.Contains(cs, "len(") {
							continue // loop control
						}
						pol := ""
						if !df.Holds {
							pol = "¬"
						}
						desc := pol + cs
						// one spelling per meaning: ¬(a != b) ≡ (a == b), ¬(a == b) ≡ (a != b)
						if pol != "" && strings.Contains(cs, " != ") {
							desc = strings.Replace(cs, " != ", " == ", 1)
						} else if pol != "" && strings.Contains(cs, " == ") {
							desc = strings.Replace(cs, " == ", " != ", 1)
						}
						n++
						key := m + "|" + shortFn(G) + "|" + desc
						if contains(c12ExportFilters[m], desc) {
							r.ok(rule, key, cx.P.Pos(c.Pos()), "export filter "+desc+" is the documented one")
						} else {
							r.violate(rule, key, cx.P.Pos(c.Pos()), "ExportGenesis of module "+m+" adds a record to the export only under "+desc+" (in "+shortFn(G)+"): objects for which the condition fails are silently dropped from the exported state - they, and everything that refers to them (escrowed coins, supply counters), do not survive the export/import round trip")
						}
					}
				}
			}
		}
	}
	return n
}

// transPrimKindsOfCall: the primitive kinds below a static call (empty for a pure function).
func (cx *Ctx) transPrimKindsOfCall(c *ssa.Call) map[string]bool {
	f := c.Common().StaticCallee()
	if f == nil {
		if _, isB := c.Common().Value.(*ssa.Builtin); isB {
			return nil
		}
		return map[string]bool{"?": true}
	}
	if f.Blocks == nil {
		return nil
	}
	return cx.transPrimKinds(f)
}

// keyArgsCrossedRule (G16): a key built by the module's constructor K(p1, …, pn) from the
// fields of a record - GetOwnerServiceBindingKey(owner, serviceName, provider) from
// binding.Owner, binding.ServiceName, binding.Provider - does not hand the field that is
// the namesake of one parameter to another parameter while that one receives this
// parameter's namesake (owner ← .Provider, provider ← .Owner): two same-typed positional
// arguments in the wrong order. The entry is then written under (or looked up by) the
// other party's key; a twin path (message handler vs. genesis import) that builds the
// same key correctly makes the two chains answer index queries differently.
func (cx *Ctx) keyArgsCrossedRule(r *Report, entries []Entry, rule string) int {
	n := 0
	seen := map[string]bool{}
	tail := func(t *Term) string {
		for t != nil {
			switch {
			case t.Op == "field":
				return strings.ToLower(t.Name)
			case t.Op == "call" && (t.Name == "addr" || t.Name == "str") && len(t.Args) == 1:
				t = t.Args[0]
			case t.Op == "extract" && len(t.Args) == 1:
				t = t.Args[0]
			default:
				return ""
			}
		}
		return ""
	}
	cx.forEachEvent(entries, nil, func(e *Entry, w *Walker, ev *Event) {
		if !strings.HasPrefix(ev.Kind, "store.") || len(ev.Args) == 0 {
			return
		}
		for _, a := range ev.Args {
			k := findSub(a, func(t *Term) bool {
				if t.Op != "call" || len(t.Args) < 2 {
					return false
				}
				f := cx.fnByTermName(t.Name)
				return f != nil && strings.Contains(funcPkgPath(f), "/types") && len(f.Params) == len(t.Args)
			})
			if k == nil {
				continue
			}
			f := cx.fnByTermName(k.Name)
			key := entryKey(e) + "|" + ev.Kind + "|" + k.Name + "|" + cx.P.Pos(ev.Site.Pos())
			if seen[key] {
				continue
			}
			seen[key] = true
			n++
			var crossed []string
			for i := range k.Args {
				for j := i + 1; j < len(k.Args); j++ {
					pi, pj := strings.ToLower(f.Params[i].Name()), strings.ToLower(f.Params[j].Name())
					ti, tj := tail(k.Args[i]), tail(k.Args[j])
					if ti == "" || tj == "" || pi == pj || !types.Identical(f.Params[i].Type(), f.Params[j].Type()) {
						continue
					}
					if ti == pj && tj == pi {
						crossed = append(crossed, f.Params[i].Name()+" ← ."+k.Args[i].LooseString()[strings.LastIndex(k.Args[i].LooseString(), ".")+1:]+", "+f.Params[j].Name()+" ← ."+k.Args[j].LooseString()[strings.LastIndex(k.Args[j].LooseString(), ".")+1:])
					}
				}
			}
			if len(crossed) > 0 {
				r.violate(rule, entryKey(e)+"|"+k.Name, ev.Pos(cx), "the key "+trunc(k.LooseString(), 200)+" of a "+ev.Kind+" on chain "+ev.Fr.String()+" gives each of two parameters of "+k.Name+" the other one's namesake field ("+strings.Join(crossed, "; ")+"): the entry lands under the other party's key, and lookups through this index - on this path only - answer for the wrong party")
			}
		}
	})
	return n
}

func (cx *Ctx) fnByTermName(name string) *ssa.Function { return cx.funcByTermName(name) }
