package main

// C07 — Service: deposits and fees are conserved across escrow, providers and consumers.

import (
	"fmt"
	"go/token"
	"go/types"
	"golang.org/x/tools/go/ssa"
	"os"
	"strings"
)

func init() { register("C07", true, true, "other", runC07) }

func trunc(s string, n int) string {
	if len(s) > n {
		return s[:n] + "…"
	}
	return s
}

// producer: the callee that produces a term (through field projections and indexes).
func producer(t *Term) string {
	for t != nil {
		switch t.Op {
		case "call":
			if t.Name == "varargs" || t.Name == "coins" {
				if len(t.Args) > 0 {
					t = t.Args[0]
					continue
				}
			}
			return t.Name
		case "field", "extract", "index":
			if len(t.Args) > 0 {
				t = t.Args[0]
				continue
			}
		}
		break
	}
	if t == nil {
		return "?"
	}
	return t.LooseString()
}

// persistedAfter: whenever the field change x executes, a store write under
// prefix follows on every path to a successful return (the change is not lost).
func persistedAfter(x hev, evs []hev, prefix string) bool {
	for _, y := range evs {
		// (followedByCall: a write-back helper that loops over the collection it stores - the
		// call is a must of the caller, the loop body is not a must of the helper)
		if y.ev.Kind == "store.set" && hasPrefix(y.ev, prefix) && (followedBy(x.ev, y.ev) || followedByCall(x.ev, y.ev)) {
			return true
		}
		// (the write-back is under a flag that is raised under the very condition of the
		// change - `if !deposit.Empty() { updated = true } … if updated { store }`: implied
		// by the facts of the change)
		if y.ev.Kind == "store.set" && hasPrefix(y.ev, prefix) && x.w != nil && reachesBefore(x.ev, y.ev) && impliedByFacts(x.w, x.ev, y.ev) {
			return true
		}
	}
	return false
}

func runC07(cx *Ctx, r *Report) {
	r.Explanation = "F4 double entry for the two service escrows on every call chain of the service handlers and the end blocker. Deposit escrow: bind/update/enable pay owner→deposit account exactly the coins added to ServiceBinding.Deposit; refund pays the whole recorded deposit to the owner and clears it; slash moves ⌊deposit·SlashFraction⌋ of the base denom to the fee collector and reduces the record by the same coins. Request escrow: (same provenance) the amount charged to the consumer per provider and the ServiceFee recorded on that provider's request must be produced by the same computation; respond moves ⌊fee·tax⌋ to the fee collector and adds fee−tax, one term, to both the provider and the owner tally; expiry refunds the recorded ServiceFee to the recorded consumer; withdraw pays out exactly the tally that is deleted, and (tally-decrease-complete) a per-denom tally that is rewritten from a difference must be cleared first, otherwise denominations that drop to zero keep their old entry. Every bank effect of the module's handlers is classified (closed world). Decides provenance and pairing; discount and exchange-rate arithmetic are not decided."
	r.Assumptions = []string{"bank keeper semantics", "per-denom tallies are stored one key per denomination (as the code does)"}
	per := collectEvents(cx, r, "service", "msg", "abci")
	classified := map[*Event]bool{}
	mark := func(xs ...hev) {
		for _, x := range xs {
			classified[x.ev] = true
		}
	}
	const depAcc, reqAcc = `"service_deposit_account"`, `"service_request_account"`
	// ------------------------------------------------ (0) who is charged for
	// The function that selects the providers of a batch returns the list and the total to
	// charge. A price is added to the total exactly where its provider is appended to the
	// list (same branch of the same iteration): a provider that is filtered out - over the
	// consumer's fee cap, too slow, unavailable - must not be paid for, since no request
	// (and so no refund) is ever created for it.
	{
		n := 0
		for _, f := range cx.P.AllFuncs {
			if f.Blocks == nil || !isConsensusCode(cx, f) || moduleOf(funcPkgPath(f)) != "service" {
				continue
			}
			res := f.Signature.Results()
			if res.Len() < 2 {
				continue
			}
			isAddrSlice := func(t types.Type) bool {
				sl, ok := t.Underlying().(*types.Slice)
				return ok && typeIs(sl.Elem(), "github.com/cosmos/cosmos-sdk/types", "AccAddress")
			}
			if !isAddrSlice(res.At(0).Type()) || !typeIs(res.At(1).Type(), "github.com/cosmos/cosmos-sdk/types", "Coins") {
				continue
			}
			var appends, adds []ssa.Instruction
			for _, b := range f.Blocks {
				if !inLoop(b) {
					continue
				}
				for _, ins := range b.Instrs {
					c, ok := ins.(*ssa.Call)
					if !ok {
						continue
					}
					if bi, isB := c.Common().Value.(*ssa.Builtin); isB && bi.Name() == "append" && isAddrSlice(c.Type()) {
						appends = append(appends, ins)
					}
					if calleeIs(c, "cosmos-sdk/types", "Coins.Add") {
						adds = append(adds, ins)
					}
				}
			}
			if len(appends) == 0 || len(adds) == 0 {
				continue
			}
			n++
			sameBranch := func(a, b ssa.Instruction) bool {
				if a.Block() == b.Block() {
					return true
				}
				fa, fb := map[*ssa.If]bool{}, map[*ssa.If]bool{}
				for _, x := range dominatingFacts(a.Block()) {
					fa[x.If] = x.Holds
				}
				for _, x := range dominatingFacts(b.Block()) {
					fb[x.If] = x.Holds
				}
				if len(fa) != len(fb) {
					return false
				}
				for k, v := range fa {
					if w, ok := fb[k]; !ok || w != v {
						return false
					}
				}
				return true
			}
			ok := true
			bad := ""
			for _, ad := range adds {
				m := false
				for _, ap := range appends {
					if sameBranch(ad, ap) {
						m = true
					}
				}
				if !m {
					ok = false
					bad = cx.P.Pos(ad.Pos())
				}
			}
			r.check(ok, "charge-selected-only", shortFn(f), cx.P.Pos(f.Pos()), "a provider's price is added to the batch total exactly where the provider is appended to the selected list", "in "+shortFn(f)+" a price is added to the total to charge ("+bad+") under conditions that differ from those under which its provider is selected: the consumer pays for a provider that gets no request, and nothing ever refunds that amount")
		}
		if n == 0 {
			r.toolErr("no provider-selection function (returns []AccAddress, Coins, …) found in the service keeper")
		}
	}
	// ------------------------------------------------ (1) charged vs recorded fee
	for _, name := range []string{"CallService", "EndBlock"} {
		evs := per[name]
		charge := pick(evs, "bank.SendCoinsFromAccountToModule", func(x hev) bool { return x.ev.Args[2].LooseString() == reqAcc })
		recs := pick(evs, "store.set", func(x hev) bool { return hasPrefix(x.ev, "service:RequestKey=0x13") })
		mark(charge...)
		if len(charge) == 0 || len(recs) == 0 {
			r.toolErr("%s: charge (%d) / request record (%d) events not found", name, len(charge), len(recs))
			continue
		}
		for _, c := range charge {
			amtT := c.ev.Args[len(c.ev.Args)-1]
			chargedElem := amtT
			if alts := c.w.callAlternatives(c.ev.Fr, amtT); len(alts) == 1 {
				chargedElem = alts[0].Val
			}
			// the element accumulated into the total
			if add := findSub(chargedElem, func(t *Term) bool { return t.Op == "call" && t.Name == "sdk.Coins.Add" && len(t.Args) == 2 }); add != nil {
				chargedElem = add.Args[1]
			}
			var fee *Term
			for _, rec := range recs {
				val := rec.w.expandCalls(rec.ev.Fr, rec.ev.Args[1], 4)
				if st := findSub(val, func(t *Term) bool { return t.Op == "struct" && t.Name == "CompactRequest" }); st != nil {
					for i := 0; i+1 < len(st.Args); i += 2 {
						if st.Args[i].Name == "ServiceFee" {
							fee = st.Args[i+1]
						}
					}
				}
			}
			if fee == nil {
				r.toolErr("%s: recorded ServiceFee not found in the stored request", name)
				continue
			}
			pc, pf := producer(chargedElem), producer(fee)
			r.check(pc == pf, "fee-provenance", name, c.ev.Pos(cx),
				"the consumer is charged and the request records the fee from one computation ("+pc+")",
				"the consumer is charged per provider "+trunc(chargedElem.LooseString(), 160)+" (produced by "+pc+") but the request records ServiceFee "+trunc(fee.LooseString(), 160)+" (produced by "+pf+"): with a discount in force the escrow receives more than the recorded fees")
		}
	}
	// ------------------------------------------------ (2) deposits
	depositIn := func(name string) {
		evs := per[name]
		pay := pick(evs, "bank.SendCoinsFromAccountToModule", func(x hev) bool { return x.ev.Args[2].LooseString() == depAcc })
		mark(pay...)
		if len(pay) != 1 {
			r.violate("deposit-double-entry", name, "", fmt.Sprintf("%s: %d payments into the deposit escrow (expected 1)", name, len(pay)))
			return
		}
		p := pay[0]
		ok := p.ev.Args[1].LooseString() == "addr(msg.Owner)" && lastArgS(p.ev) == "msg.Deposit"
		how := ""
		if name == "BindService" {
			set := pick(evs, "store.set", func(x hev) bool { return hasPrefix(x.ev, "service:ServiceBindingKey=0x02") })
			okRec := false
			for _, s := range set {
				if st := findSub(s.ev.Args[1], func(t *Term) bool { return t.Op == "struct" && t.Name == "ServiceBinding" }); st != nil {
					for i := 0; i+1 < len(st.Args); i += 2 {
						if st.Args[i].Name == "Deposit" && st.Args[i+1].LooseString() == "msg.Deposit" {
							okRec = true
						}
					}
				}
			}
			ok = ok && okRec && p.must()
			how = "the new binding records Deposit = msg.Deposit"
		} else {
			d := pick(evs, "delta:ServiceBinding.Deposit:+", nil)
			ok = ok && len(d) == 1 && d[0].ev.Args[0].LooseString() == "msg.Deposit"
			if ok {
				// same condition: both under ¬Empty(msg.Deposit)
				_, g1 := d[0].fact(false, "sdk.Coins.Empty(msg.Deposit)")
				_, g2 := p.fact(false, "sdk.Coins.Empty(msg.Deposit)")
				ok = g1 && g2 && reachesBefore(d[0].ev, p.ev) && persistedAfter(d[0], evs, "service:ServiceBindingKey=0x02")
				if os.Getenv("DEBUG_C07") != "" {
					fmt.Fprintf(os.Stderr, "deposit %s: g1=%v g2=%v host=%v ordered=%v persisted=%v\n", name, g1, g2, hostFrame(d[0].ev.Fr) == hostFrame(p.ev.Fr), orderedBefore(d[0].ev, p.ev), persistedAfter(d[0], evs, "service:ServiceBindingKey=0x02"))
				}
			}
			how = "Deposit += msg.Deposit and the payment are both under ¬Empty(msg.Deposit)"
		}
		r.check(ok, "deposit-double-entry", name, p.ev.Pos(cx), "owner→deposit escrow(msg.Deposit); "+how, name+": the deposit payment ("+lastArgS(p.ev)+" from "+p.ev.Args[1].LooseString()+") is not paired with an equal change of the recorded deposit under the same condition")
	}
	depositIn("BindService")
	depositIn("UpdateServiceBinding")
	depositIn("EnableServiceBinding")
	{
		evs := per["RefundServiceDeposit"]
		pay := pick(evs, "bank.SendCoinsFromModuleToAccount", func(x hev) bool { return x.ev.Args[1].LooseString() == depAcc })
		clr := pick(evs, "assign:ServiceBinding.Deposit", nil)
		mark(pay...)
		ok := len(pay) == 1 && len(clr) == 1
		pos := ""
		if ok {
			pos = pay[0].ev.Pos(cx)
			b := "service/keeper.Keeper.GetServiceBinding(keeper, msg.ServiceName, addr(msg.Provider))#0"
			ok = lastArgS(pay[0].ev) == b+".Deposit" && pay[0].ev.Args[2].LooseString() == "addr("+b+".Owner)" && pay[0].must() && clr[0].must() && orderedBefore(pay[0].ev, clr[0].ev) && persistedAfter(clr[0], evs, "service:ServiceBindingKey=0x02") &&
				(clr[0].ev.Args[0].Op == "alloc" || clr[0].ev.Args[0].LooseString() == "coins(nil)" || strings.HasPrefix(clr[0].ev.Args[0].LooseString(), "new:"))
		}
		r.check(ok, "deposit-double-entry", "RefundServiceDeposit", pos, "the whole recorded deposit is paid from the escrow to the binding's owner and the record is then cleared", "deposit refund does not pay exactly the recorded deposit to the recorded owner and clear it")
	}
	for _, name := range sortedKeys(per) {
		evs := per[name]
		sl := pick(evs, "bank.SendCoinsFromModuleToModule", func(x hev) bool { return x.ev.Args[1].LooseString() == depAcc })
		if len(sl) == 0 {
			continue
		}
		mark(sl...)
		for _, s := range sl {
			as := pick(evs, "assign:ServiceBinding.Deposit", func(x hev) bool { return x.ev.Fr == hostFrame(s.ev.Fr) })
			slashed := lastArgS(s.ev)
			ok := len(as) == 1 && s.ev.Args[2].LooseString() == "keeper.feeCollectorName"
			if ok {
				a := as[0].ev.Args[0].LooseString()
				inner := strings.TrimSuffix(strings.TrimPrefix(slashed, "coins("), ")")
				ok = strings.HasPrefix(a, "sdk.Coins.SafeSub(") && strings.Contains(a, ".Deposit, ") && strings.Contains(a, inner) && strings.HasSuffix(a, "#0") &&
					strings.Contains(slashed, "math.LegacyDec.TruncateInt(math.LegacyDec.Mul(math.LegacyNewDecFromInt(sdk.Coins.AmountOf(") && strings.Contains(slashed, ".Deposit, ") && strings.Contains(slashed, "SlashFraction") &&
					orderedBefore(s.ev, as[0].ev)
				_, neg := s.fact(false, "#1") // ¬hasNeg
				ok = ok && neg
				if ok && !persistedAfter(as[0], evs, "service:ServiceBindingKey=0x02") {
					r.violate("slash-double-entry", name, as[0].ev.Pos(cx), "the slashed coins leave the deposit escrow but the reduced Deposit is not written back on every path (there is a path from the reduction to a successful return without storing the binding): escrow and recorded deposits drift apart")
					continue
				}
			}
			r.check(ok, "slash-double-entry", name, s.ev.Pos(cx), "⌊deposit(base denom)·SlashFraction⌋ moves from the deposit escrow to the fee collector and the recorded deposit is reduced by the same coins", "slash transfer "+trunc(slashed, 120)+" is not paired with Deposit = Deposit − the same coins")
		}
	}
	// ------------------------------------------------ (3) respond: tax split + both tallies
	// anchored on the provider tally being raised: the frame that does it must also
	// forward the tax and raise the owner tally by the same term
	nResp := 0
	for _, name := range sortedKeys(per) {
		evs := per[name]
		for _, x := range pick(evs, "bank.SendCoinsFromModuleToModule", func(x hev) bool { return x.ev.Args[1].LooseString() == reqAcc }) {
			mark(x)
		}
		for _, p := range pick(evs, "store.set", func(x hev) bool {
			return hasPrefix(x.ev, "service:EarnedFeesKey=0x18") && strings.Contains(x.ev.Args[1].LooseString(), "sdk.Coins.Add(")
		}) {
			nResp++
			// the frame that raises the provider tally (directly or through thin helpers) also
			// forwards the tax and raises the owner tally: the closest such events
			tax, fr := closestTo(p, pick(evs, "bank.SendCoinsFromModuleToModule", func(x hev) bool { return x.ev.Args[1].LooseString() == reqAcc }))
			ot, fr2 := closestTo(p, pick(evs, "store.set", func(x hev) bool { return hasPrefix(x.ev, "service:OwnerEarnedFeesKey=0x19") }))
			// (both frames lie on the chain of the provider-tally write; the step is the upper one)
			if fr != nil && fr2 != nil && fr2.Depth < fr.Depth {
				fr = fr2
			}
			ok := len(tax) == 1 && len(ot) == 1 && fr != nil && fr2 != nil && tax[0].ev.Args[2].LooseString() == "keeper.feeCollectorName"
			if ok {
				taxS := lastArgS(tax[0].ev)
				earned := findSub(p.ev.Args[1], func(x *Term) bool { return x.Op == "call" && x.Name == "sdk.Coins.SafeSub" })
				earned2 := findSub(ot[0].ev.Args[1], func(x *Term) bool { return x.Op == "call" && x.Name == "sdk.Coins.SafeSub" })
				ok = earned != nil && earned2 != nil && earned.LooseString() == earned2.LooseString() && len(earned.Args) == 2 &&
					strings.Contains(taxS, "TruncateInt") && strings.Contains(taxS, "ServiceFeeTax") && strings.Contains(taxS, earned.Args[0].LooseString()) &&
					strings.Contains(earned.Args[1].LooseString(), "TruncateInt") &&
					strings.Contains(ot[0].ev.Args[1].LooseString(), "sdk.Coins.Add(") &&
					strings.HasSuffix(earned.Args[0].LooseString(), ".ServiceFee") && fr.Call != nil && orderedBefore(tax[0].ev, p.ev)
			}
			r.check(ok, "respond-split", name, p.ev.Pos(cx), "⌊fee·tax⌋ goes from the request escrow to the fee collector and fee−tax (one term, fee = the request's recorded ServiceFee) is added to both the provider and the owner tally", name+": the fee of an answered request is not split as tax→collector and (fee−tax)→both tallies with shared terms")
		}
	}
	if nResp < 2 {
		r.toolErr("respond path found %d times (RespondService and the module-service path confirmed)", nResp)
	}
	// ------------------------------------------------ (4) expiry refund
	{
		evs := per["EndBlock"]
		ref := pick(evs, "bank.SendCoinsFromModuleToAccount", func(x hev) bool { return x.ev.Args[1].LooseString() == reqAcc })
		mark(ref...)
		ok := len(ref) == 1 && ref[0].ev.Args[2].LooseString() == "addr(‹Request›.Consumer)" && lastArgS(ref[0].ev) == "‹Request›.ServiceFee"
		pos := ""
		if len(ref) > 0 {
			pos = ref[0].ev.Pos(cx)
		}
		r.check(ok, "expiry-refund", "EndBlock", pos, "an expired request's recorded ServiceFee is refunded from the request escrow to its recorded consumer", "expiry refund is not exactly request escrow→recorded consumer(recorded ServiceFee)")
	}
	// ------------------------------------------------ (5) withdraw
	{
		evs := per["WithdrawEarnedFees"]
		pay := pick(evs, "bank.SendCoinsFromModuleToAccount", func(x hev) bool { return x.ev.Args[1].LooseString() == reqAcc })
		mark(pay...)
		ok := len(pay) == 1
		pos := ""
		if ok {
			pos = pay[0].ev.Pos(cx)
			a := lastArgS(pay[0].ev)
			ok = strings.Contains(a, "GetEarnedFees(keeper, addr(msg.Provider))#0") && strings.Contains(a, "GetOwnerEarnedFees(keeper, addr(msg.Owner))#0") && strings.HasPrefix(a, "φ{") &&
				strings.Contains(pay[0].ev.Args[2].LooseString(), "GetWithdrawAddress(keeper, addr(msg.Owner))") && pay[0].must()
			dp := pick(evs, "store.delete", func(x hev) bool { return hasPrefix(x.ev, "service:EarnedFeesKey=0x18") })
			do := pick(evs, "store.delete", func(x hev) bool { return hasPrefix(x.ev, "service:OwnerEarnedFeesKey=0x19") })
			ok = ok && len(dp) >= 2 && len(do) >= 2
		}
		r.check(ok, "withdraw-double-entry", "WithdrawEarnedFees", pos, "the payout is the provider tally or the owner tally that is deleted on the same route, paid from the request escrow to the owner's withdraw address", "withdrawal does not pay exactly a deleted tally to the owner's withdraw address")
		// owner authorisation for a named provider
		if len(pay) == 1 {
			okAuth := false
			for _, x := range pick(evs, "store.delete", func(x hev) bool { return hasPrefix(x.ev, "service:EarnedFeesKey=0x18") }) {
				if _, ok := x.fact(true, "sdk.AccAddress.Empty(addr(msg.Provider))"); ok {
					continue // owner-wide route iterates the owner's own providers
				}
				if _, ok := x.fact(true, "sdk.AccAddress.Equals(addr(msg.Owner), service/keeper.Keeper.GetOwner(keeper, addr(msg.Provider))#0)"); ok {
					okAuth = true
					continue
				}
				// same-condition pairing: the ownership test sits under ¬Empty(provider), rejects on
				// mismatch, precedes the delete, and the delete is under the same ¬Empty(provider)
				_, sameCond := x.fact(false, "sdk.AccAddress.Empty(addr(msg.Provider))")
				why, fg := x.w.condFailGuard(x.ev, []string{"sdk.AccAddress.Equals(addr(msg.Owner), service/keeper.Keeper.GetOwner(keeper, addr(msg.Provider))#0)"}, false, "sdk.AccAddress.Empty(addr(msg.Provider))", false)
				_ = why
				if sameCond && fg {
					okAuth = true
				} else {
					okAuth = false
					break
				}
			}
			r.check(okAuth, "withdraw-authority", "WithdrawEarnedFees", pos, "a named provider's tally is withdrawn only under signer == recorded owner of that provider", "a provider's tally can be withdrawn without the fact signer == owner of the provider")
		}
	}
	// tally-decrease-complete: a per-denom tally rewritten from a difference must be cleared first
	for _, name := range sortedKeys(per) {
		for _, pfx := range []string{"service:EarnedFeesKey=0x18", "service:OwnerEarnedFeesKey=0x19"} {
			for _, s := range pick(per[name], "store.set", func(x hev) bool { return hasPrefix(x.ev, pfx) }) {
				v := s.ev.Args[1].LooseString()
				if !strings.Contains(v, "sdk.Coins.Sub(") && !strings.Contains(v, "SafeSub(") || strings.Contains(v, "sdk.Coins.Add(") {
					continue
				}
				// a delete of the same prefix must precede in the caller's frame
				cleared := false
				for _, d := range pick(per[name], "store.delete", func(x hev) bool { return hasPrefix(x.ev, pfx) }) {
					if _, sd, ss := commonFrame(d.ev, s.ev); sd != nil && ss != nil && sd != ss && sd != d.ev.Site && ss != s.ev.Site && instrDominates(sd, ss) {
						cleared = true
					}
				}
				r.check(cleared, "tally-decrease-complete", name+"|"+pfx, s.ev.Pos(cx), "the per-denom tally is cleared before it is rewritten with the reduced amount", "per-denom tally under "+pfx+" is rewritten from a difference ("+trunc(v, 120)+") without clearing it first: a denomination whose amount drops to zero keeps its old entry and is paid out again later")
			}
		}
	}
	// ------------------------------------------------ closed world
	n := 0
	for _, name := range sortedKeys(per) {
		for _, x := range per[name] {
			if !strings.HasPrefix(x.ev.Kind, "bank.") {
				continue
			}
			n++
			if !classified[x.ev] {
				r.violate("closed-world", name+"|"+x.ev.Kind, x.ev.Pos(cx), "unclassified bank effect in "+name+": "+x.ev.Kind+"("+trunc(strings.Join(argsLoose(x.ev)[1:], ", "), 200)+")")
			}
		}
	}
	r.ok("closed-world", "scan", "", fmt.Sprintf("%d bank effects of the service handlers and block handlers classified", n))
	// ---------------- requests of a repeated batch are issued only after the charge went through
	// In the end blocker's new-batch body a failed charge pauses the context through a pointer;
	// the test that lets the requests be created must therefore read the context's State AFTER
	// the charge (a value read before it is stale and issues unpaid requests).
	{
		evs := per["EndBlock"]
		nIssue := 0
		for _, x := range evs {
			if x.ev.Kind != "store.set" || !hasPrefix(x.ev, "service:RequestKey=0x13") {
				continue
			}
			cf, site := closureAncestor(x.ev)
			if cf == nil || site == nil {
				continue
			}
			charges := findCalls(cf.Fn, func(ci ssa.CallInstruction) bool {
				g := ci.Common().StaticCallee()
				return g != nil && g.Name() == "DeductServiceFees"
			})
			if len(charges) == 0 {
				continue // not the body that charges (e.g. another closure)
			}
			nIssue++
			fresh := false
			for _, df := range dominatingFacts(site.Block()) {
				bo, ok := df.Cond.(*ssa.BinOp)
				if !ok || !df.Holds || bo.Op != token.EQL {
					continue
				}
				for _, side := range []ssa.Value{bo.X, bo.Y} {
					ld, ok := side.(*ssa.UnOp)
					if !ok || ld.Op != token.MUL {
						continue
					}
					fa, ok := ld.X.(*ssa.FieldAddr)
					if !ok || fieldNameShort(fa.X.Type(), fa.Field) != "State" {
						continue
					}
					for _, ch := range charges {
						if instrReaches(ch, ld) {
							fresh = true
						}
					}
				}
			}
			r.check(fresh, "issue-after-charge", "EndBlock", x.ev.Pos(cx), "the requests of a due batch are created under a State == RUNNING test whose State is read after the charge (a failed charge pauses the context first)", "the requests of a due batch are created under a State test that does not re-read the context after DeductServiceFees: when the charge fails the context is paused but the (stale) test still lets unpaid requests be issued, so recorded fees exceed what the consumer was charged")
		}
		if nIssue == 0 {
			r.toolErr("no request creation found in the charging body of the end blocker")
		}
	}
	// an unanswered request is refunded at expiry only while its batch is not declared
	// completed: who may write BatchState := COMPLETED (rule shared with C08)
	cx.batchCompletedWriters(r, per)
	cx.scanPrefixClosedRule(r, []string{"service"}, "scan-prefix-closed")
	cx.insufficientStrict(r, "service")
	cx.keyEncodingUniformRule(r, []string{"service"}, "key-encoding-uniform")
	r.requireCount("issue-after-charge", 1)
	r.requireCount("deposit-double-entry", 4)
	r.requireCount("respond-split", 2)
	r.requireCount("fee-provenance", 2)
	r.requireCount("tally-decrease-complete", 1)
}

// closestTo: the candidates whose lowest common frame with the anchor is the deepest one
// (the events of the same logical step, however many thin helpers sit in between).
func closestTo(a hev, cands []hev) ([]hev, *Frame) {
	var best *Frame
	var out []hev
	for _, c := range cands {
		if c.ev == a.ev {
			continue
		}
		f, _, _ := commonFrame(a.ev, c.ev)
		if f == nil {
			continue
		}
		switch {
		case best == nil || f.Depth > best.Depth:
			best, out = f, []hev{c}
		case f == best:
			out = append(out, c)
		}
	}
	return out, best
}

// reachesBefore: on the lowest common frame of the two events, the site of a can be followed
// by the site of b (a is not necessarily on every path to b).
func reachesBefore(a, b *Event) bool {
	_, sa, sb := commonFrame(a, b)
	return sa != nil && sb != nil && sa != sb && instrReaches(sa, sb)
}
