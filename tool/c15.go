package main

// C15 — MT: unsigned arithmetic on balances/supply is guarded, balance and supply
// deltas are paired with one amount, only the class owner mints/edits/hands over,
// id sequences only grow.

import (
	"fmt"
	"golang.org/x/tools/go/ssa"
	"strings"
)

func init() { register("C15", true, true, "other", runC15) }

const (
	mtBalance = "mt:PrefixBalance=0x03"
	mtSupply  = "mt:PrefixSupply=0x04"
	mtDenom   = "mt:PrefixDenom=0x01"
	mtMT      = "mt:PrefixMT=0x02"
)

type mtDelta struct {
	ev     *Event
	prefix string
	op     string // + or -
	old    *Term
	amt    *Term
	key    *Term
	w      *Walker
}

func hasPrefix(ev *Event, p string) bool {
	for _, x := range ev.Prefix {
		if x == p {
			return true
		}
	}
	return false
}

func runC15(cx *Ctx, r *Report) {
	r.Explanation = "F5/F4/F3 over every call chain from the six mt message handlers. Writes to the balance (prefix 0x03) and supply (prefix 0x04) records are found as store.Set events whose value term has the shape old±amount. Rules: (sub-guard) every subtraction on a balance holds the dominating fact ¬(GetBalance(same denom, id, address) < same amount) somewhere on the chain; every subtraction on a supply is co-executed with a guarded balance subtraction of the same denom/id/amount (Σbalances = supply then gives supply ≥ amount); (add-guard) every addition of a non-constant amount holds ¬(MaxUint64 − old < amount); (pairing) in every handler the deltas pair up as (+supply,+balance), (−balance,+balance), (−balance,−supply) with equal amount and token, each pair executing together on all successful paths; (owner) writes of token records, supply increases and class updates hold the fact that the declared signer equals the stored class owner, a new class stores the signer as owner; (sequence) the two id counters are only written as old+1 on message paths. Decides these structural conditions on all paths; it does not sum balances."
	r.Assumptions = []string{"Σbalances = supply holds initially (genesis validation) — the supply subtraction guard relies on it", "uint64 arithmetic wraps silently in Go, hence every unguarded subtraction is a potential wrap"}
	entries := cx.entriesOfModule("mt", "msg")
	if len(entries) != 6 {
		r.toolErr("expected 6 mt message handlers, found %d", len(entries))
	}
	perEntry := map[string][]*mtDelta{}
	type zeroDel struct {
		ev    *Event
		facts []FactT
	}
	var zeroDels []zeroDel
	over := cx.forEachEvent(entries, nil, func(e *Entry, w *Walker, ev *Event) {
		if ev.Kind == "store.delete" && (hasPrefix(ev, mtBalance) || hasPrefix(ev, mtSupply)) {
			zeroDels = append(zeroDels, zeroDel{ev, w.FactsAt(ev.Fr, ev.Site)})
			return
		}
		if ev.Kind != "store.set" {
			return
		}
		_, signers := cx.signerTermsOf(e)
		if len(signers) != 1 {
			r.toolErr("%s: cannot resolve signer", entryKey(e))
			return
		}
		signer := signers[0]
		pos := ev.Pos(cx)
		facts := w.FactsAt(ev.Fr, ev.Site)
		keyT, valT := ev.Args[0], ev.Args[1]
		switch {
		case hasPrefix(ev, mtBalance) || hasPrefix(ev, mtSupply):
			pfx := mtBalance
			what := "balance"
			if hasPrefix(ev, mtSupply) {
				pfx = mtSupply
				what = "supply"
			}
			bin := findSub(valT, func(t *Term) bool { return t.Op == "bin" && (t.Name == "+" || t.Name == "-") })
			if bin == nil {
				r.violate("delta-shape", e.Name+"|"+what, pos, "write of a "+what+" record whose value is not old±amount: "+valT.LooseString())
				return
			}
			d := &mtDelta{ev: ev, prefix: pfx, op: bin.Name, old: bin.Args[0], amt: bin.Args[1], key: keyT, w: w}
			perEntry[e.Name] = append(perEntry[e.Name], d)
			k := fmt.Sprintf("%s|%s%s|%s", e.Name, d.op, what, d.amt.LooseString())
			if d.op == "-" {
				if pfx == mtBalance {
					want := "(" + d.old.LooseString() + " < " + d.amt.LooseString() + ")"
					_, ok := hasFact(facts, false, want)
					r.check(ok, "sub-guard", k, pos, "¬"+want+" holds on chain "+ev.Fr.String(), "unsigned subtraction "+bin.LooseString()+" without the dominating check ¬"+want+" on chain "+ev.Fr.String())
				}
			} else {
				if d.amt.Op == "const" {
					r.ok("add-guard", k, pos, "constant increment "+bin.LooseString()+" (token count of a class; reviewed: cannot reach 2^64 by unit steps)")
				} else {
					_, ok := hasFact(facts, false, "((18446744073709551615 - "+d.old.LooseString()+") < "+d.amt.LooseString()+")")
					r.check(ok, "add-guard", k, pos, "overflow check ¬(MaxUint64 − old < amount) holds for "+bin.LooseString(), "unsigned addition "+bin.LooseString()+" without a dominating overflow check")
				}
				if pfx == mtSupply && d.amt.Op != "const" {
					// only the class owner increases supply
					denom := keyArg(d.key, 0)
					f, ok := hasFact(facts, false, "("+signer+" != mt/keeper.Keeper.GetDenom(keeper, "+denom+")#0.Owner)")
					r.check(ok, "owner-guard", e.Name+"|supply+|"+denom, pos, "signer equals the class owner before the supply increase ("+f.String()+")", "supply of a token of class "+denom+" increased without the fact signer == class owner on chain "+ev.Fr.String())
				}
			}
		case hasPrefix(ev, mtMT):
			denom := keyArg(keyT, 0)
			f, ok := hasFact(facts, false, "("+signer+" != mt/keeper.Keeper.GetDenom(keeper, "+denom+")#0.Owner)")
			r.check(ok, "owner-guard", e.Name+"|token-record|"+denom, pos, "signer equals the class owner before the token record write ("+f.String()+")", "token record of class "+denom+" written without the fact signer == class owner on chain "+ev.Fr.String())
		case hasPrefix(ev, mtDenom):
			// new class: Owner is the signer; existing class: owner guard
			st := findSub(valT, func(t *Term) bool { return t.Op == "struct" && t.Name == "Denom" })
			if st != nil {
				owner := "?"
				for i := 0; i+1 < len(st.Args); i += 2 {
					if st.Args[i].Name == "Owner" {
						owner = st.Args[i+1].LooseString()
					}
				}
				idT := keyArg(keyT, 0)
				fresh := strings.Contains(idT, "mt/keeper.Keeper.genDenomID") || strings.Contains(idT, "Sequence") ||
					cx.termReads(keyArgT(keyT, 0), func(px string) bool { return strings.Contains(px, "Sequence") })
				r.check(owner == signer && fresh, "creator-is-signer", e.Name+"|class", pos, "new class (id from the sequence) records owner = "+owner, "class record built with owner "+owner+" / id "+idT+" (expected the declared signer and a fresh sequence id)")
				return
			}
			denom := keyArg(keyT, 0)
			denom = strings.TrimSuffix(denom, ".Id")
			f, ok := hasFact(facts, false, "("+signer+" != mt/keeper.Keeper.GetDenom(keeper, ")
			r.check(ok, "owner-guard", e.Name+"|class-record", pos, "signer equals the class owner before the class record write ("+f.String()+")", "class record overwritten without the fact signer == class owner on chain "+ev.Fr.String())
		default:
			for _, p := range ev.Prefix {
				if p == "str:nextDenomSequence" || p == "str:nextMTSequence" {
					ok := strings.Contains(valT.LooseString(), " + 1)") && strings.Contains(valT.LooseString(), "Sequence(keeper)")
					r.check(ok, "sequence-grows", e.Name+"|"+p, pos, "id counter written as "+valT.LooseString(), "id counter written with "+valT.LooseString()+" (expected old+1)")
				}
			}
		}
	})
	for _, o := range over {
		r.toolErr("frame budget exceeded for %s", o)
	}
	// "store old−amount, or delete the entry when that is zero": the Delete under the same
	// key, in the same activation, on the (old−amount == 0) side of the branch whose other
	// side holds the Set, is part of the same logical update. Any other Delete of a
	// balance or supply record drops value and is reported.
	defer func() { logicalAlternatives = map[ssa.Instruction][]ssa.Instruction{} }()
	for _, zd := range zeroDels {
		matched := false
		for _, ds := range perEntry {
			for _, d := range ds {
				if d.ev.Fr != zd.ev.Fr || d.op != "-" || d.key.LooseString() != zd.ev.Args[0].LooseString() {
					continue
				}
				zero := "(" + "(" + d.old.LooseString() + " - " + d.amt.LooseString() + ")" + " == 0)"
				if _, ok := hasFact(zd.facts, true, zero); !ok {
					continue
				}
				if _, ok := hasFact(d.w.FactsAt(d.ev.Fr, d.ev.Site), false, zero); !ok {
					continue
				}
				matched = true
				logicalAlternatives[d.ev.Site] = append(logicalAlternatives[d.ev.Site], zd.ev.Site)
			}
		}
		what := "balance"
		if hasPrefix(zd.ev, mtSupply) {
			what = "supply"
		}
		r.check(matched, "zero-delete", zd.ev.Fr.String()+"|"+what, zd.ev.Pos(cx), "the "+what+" entry is deleted only where the subtraction leaves exactly zero (the other side stores the difference)", "a "+what+" record is deleted at "+zd.ev.Pos(cx)+" without being the zero case of a guarded subtraction: the holder's amount disappears")
	}
	// pairing per entry
	for _, name := range sortedKeys(perEntry) {
		ds := perEntry[name]
		used := make([]bool, len(ds))
		for i, a := range ds {
			if used[i] || a.amt.Op == "const" {
				used[i] = true
				continue
			}
			for j := i + 1; j < len(ds); j++ {
				b := ds[j]
				if used[j] || b.amt.Op == "const" {
					continue
				}
				if a.amt.LooseString() != b.amt.LooseString() || tokenOf(a) != tokenOf(b) {
					continue
				}
				legal := (a.prefix != b.prefix && a.op == b.op) || (a.prefix == mtBalance && b.prefix == mtBalance && a.op != b.op)
				if !legal {
					continue
				}
				if !coExecuted(a.ev, b.ev) {
					continue
				}
				used[i], used[j] = true, true
				r.ok("pairing", fmt.Sprintf("%s|%s%s~%s%s|%s", name, a.op, pshort(a.prefix), b.op, pshort(b.prefix), a.amt.LooseString()), a.ev.Pos(cx),
					fmt.Sprintf("%s%s and %s%s of %s on token %s execute together (%s / %s)", a.op, pshort(a.prefix), b.op, pshort(b.prefix), a.amt.LooseString(), tokenOf(a), a.ev.Pos(cx), b.ev.Pos(cx)))
				// supply subtraction relies on the paired balance subtraction's guard (checked above)
				break
			}
			if !used[i] {
				r.violate("pairing", fmt.Sprintf("%s|%s%s|%s", name, a.op, pshort(a.prefix), a.amt.LooseString()), a.ev.Pos(cx),
					fmt.Sprintf("%s%s of %s on token %s has no co-executed counterpart with the same amount and token in handler %s", a.op, pshort(a.prefix), a.amt.LooseString(), tokenOf(a), name))
			}
		}
	}
	cx.lostUpdateRule(r, []string{"mt"}, 8)
	cx.scanPrefixClosedRule(r, []string{"mt"}, "scan-prefix-closed")
	cx.keyEncodingUniformRule(r, []string{"mt"}, "key-encoding-uniform")
	r.requireCount("sub-guard", 2)
	r.requireCount("add-guard", 4)
	r.requireCount("pairing", 4)
	r.requireCount("owner-guard", 4)
	// after a restart the counters must still be above every id in use (rule shared with C12)
	if n := cx.importCountersRule(r, []string{"mt"}, "sequence-restored-above-ids"); n == 0 {
		r.ok("sequence-restored-above-ids", "scan", "", "no id counter is rebuilt by counting inside the import loop (restored from list lengths)")
	}
	r.requireCount("sequence-grows", 2)
}

func pshort(p string) string {
	if p == mtBalance {
		return "balance"
	}
	return "supply"
}

// keyArg: i-th argument of the key-builder call in a key term.
func keyArg(key *Term, i int) string {
	c := findSub(key, func(t *Term) bool { return t.Op == "call" && strings.Contains(t.Name, "types.Key") })
	if c == nil || i >= len(c.Args) {
		return "?"
	}
	return c.Args[i].LooseString()
}

// tokenOf: (denom, id) of a delta from its key term (KeyBalance(addr, denom, id) / KeySupply(denom, id)).
func tokenOf(d *mtDelta) string {
	c := findSub(d.key, func(t *Term) bool { return t.Op == "call" && strings.Contains(t.Name, "types.Key") })
	if c == nil {
		return "?"
	}
	n := len(c.Args)
	if n < 2 {
		return "?"
	}
	return c.Args[n-2].LooseString() + "/" + c.Args[n-1].LooseString()
}

func keyArgT(key *Term, i int) *Term {
	c := findSub(key, func(t *Term) bool { return t.Op == "call" && strings.Contains(t.Name, "types.Key") })
	if c == nil || i >= len(c.Args) {
		return nil
	}
	return c.Args[i]
}

// termReads: the term contains a call of an irismod function that (transitively) reads a
// key whose prefix satisfies pred.
func (cx *Ctx) termReads(t *Term, pred func(prefix string) bool) bool {
	if t == nil {
		return false
	}
	return findSub(t, func(s *Term) bool {
		if s.Op != "call" || s.src == nil {
			return false
		}
		c := s.src
		f := c.Common().StaticCallee()
		if f == nil || !isIrismodFunc(f) {
			return false
		}
		for _, g := range cx.Reachable([]*ssa.Function{f}, nil).Order {
			if g.Blocks == nil {
				continue
			}
			for _, p := range cx.primsOf(g) {
				if p.Kind != "store.get" {
					continue
				}
				px := p.Prefix
				if len(px) != 1 {
					px = cx.storeKeyPrefixIn(p.Site, p.Kind, nil)
				}
				for _, q := range px {
					if pred(q) {
						return true
					}
				}
			}
		}
		return false
	}) != nil
}
