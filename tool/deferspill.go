package main

// Named results of a function that defers something are spilled to memory by go/ssa:
//
//	*res = v; *err = nil:error; rundefers; t1 = *res; t2 = *err; return t1, t2
//
// Every rule that looks at what a function returns (failure returns, inlined helper
// values, alternatives) wants v and nil here. The loads are replaced by the stored
// values in the Return instruction where that is what the function returns:
//   - no deferred closure writes the result variables, or
//   - the deferred closures write them only under `if err != nil` (err being the error
//     result), and this return stores the nil constant into err.

import (
	"go/token"
	"go/types"

	"golang.org/x/tools/go/ssa"
)

func normaliseDeferSpill(f *ssa.Function) int {
	if f.Blocks == nil {
		return 0
	}
	hasDefer := false
	for _, b := range f.Blocks {
		for _, ins := range b.Instrs {
			if _, ok := ins.(*ssa.RunDefers); ok {
				hasDefer = true
			}
		}
	}
	if !hasDefer {
		return 0
	}
	n := 0
	for _, b := range f.Blocks {
		if len(b.Instrs) == 0 {
			continue
		}
		ret, ok := b.Instrs[len(b.Instrs)-1].(*ssa.Return)
		if !ok || len(ret.Results) == 0 {
			continue
		}
		// the stores before rundefers in this block
		stored := map[*ssa.Alloc]ssa.Value{}
		seenRun := false
		for _, ins := range b.Instrs {
			switch x := ins.(type) {
			case *ssa.RunDefers:
				seenRun = true
			case *ssa.Store:
				if a, ok := x.Addr.(*ssa.Alloc); ok {
					if seenRun {
						delete(stored, a)
					} else {
						stored[a] = x.Val
					}
				}
			}
		}
		if !seenRun {
			continue
		}
		allocs := make([]*ssa.Alloc, len(ret.Results))
		any := false
		for i, r := range ret.Results {
			u, ok := r.(*ssa.UnOp)
			if !ok || u.Op != token.MUL {
				continue
			}
			a, ok := u.X.(*ssa.Alloc)
			if !ok || stored[a] == nil {
				continue
			}
			allocs[i] = a
			any = true
		}
		if !any {
			continue
		}
		errNil := false
		li := len(ret.Results) - 1
		if isErrorType(ret.Results[li].Type()) {
			ev := ret.Results[li]
			if allocs[li] != nil {
				ev = stored[allocs[li]]
			}
			if c, ok := ev.(*ssa.Const); ok && c.IsNil() {
				errNil = true
			}
		}
		var errAlloc *ssa.Alloc
		for _, r := range resultAllocs(f) {
			if pt, ok := r.Type().(*types.Pointer); ok && isErrorType(pt.Elem()) {
				errAlloc = r
			}
		}
		okAll := true
		for _, a := range allocs {
			if a == nil {
				continue
			}
			switch deferredWrites(f, a, errAlloc) {
			case "none":
			case "on-error":
				if !errNil {
					okAll = false
				}
			default:
				okAll = false
			}
		}
		if !okAll {
			continue
		}
		for i, a := range allocs {
			if a != nil {
				ret.Results[i] = stored[a]
				if refs := stored[a].Referrers(); refs != nil {
					*refs = append(*refs, ret) // the value is now an operand of the return
				}
			}
		}
		n++
	}
	return n
}

// deferredWrites: how the closures created in f write the local a: "none", "on-error"
// (every write sits under `if *err != nil` with err the captured error result) or "any".
func deferredWrites(f *ssa.Function, a, errAlloc *ssa.Alloc) string {
	res := "none"
	if a.Referrers() == nil {
		return res
	}
	for _, r := range *a.Referrers() {
		mc, ok := r.(*ssa.MakeClosure)
		if !ok {
			// (the address handed to a call: decoded into, not a plain result variable)
			if c, isCall := r.(ssa.CallInstruction); isCall {
				for _, arg := range c.Common().Args {
					if arg == ssa.Value(a) {
						return "any"
					}
				}
			}
			continue
		}
		fn, _ := mc.Fn.(*ssa.Function)
		if fn == nil || fn.Blocks == nil {
			return "any"
		}
		var fv, errFv *ssa.FreeVar
		for i, bnd := range mc.Bindings {
			if i >= len(fn.FreeVars) {
				break
			}
			if bnd == ssa.Value(a) {
				fv = fn.FreeVars[i]
			}
			if bnd == ssa.Value(errAlloc) {
				errFv = fn.FreeVars[i]
			}
		}
		if fv == nil || fv.Referrers() == nil {
			continue
		}
		for _, r2 := range *fv.Referrers() {
			switch y := r2.(type) {
			case *ssa.Store:
				if y.Addr != ssa.Value(fv) {
					continue
				}
				if errFv == nil || !underErrNonNil(y.Block(), errFv) {
					return "any"
				}
				res = "on-error"
			case *ssa.UnOp:
			default:
				return "any" // passed on
			}
		}
	}
	return res
}

func underErrNonNil(b *ssa.BasicBlock, errFv *ssa.FreeVar) bool {
	for _, d := range b.Parent().Blocks {
		if len(d.Instrs) == 0 || len(d.Succs) != 2 {
			continue
		}
		ifi, ok := d.Instrs[len(d.Instrs)-1].(*ssa.If)
		if !ok {
			continue
		}
		bo, ok := ifi.Cond.(*ssa.BinOp)
		if !ok || (bo.Op != token.NEQ && bo.Op != token.EQL) {
			continue
		}
		ld, ok := bo.X.(*ssa.UnOp)
		c, ok2 := bo.Y.(*ssa.Const)
		if !ok || !ok2 || ld.Op != token.MUL || ld.X != ssa.Value(errFv) || !c.IsNil() {
			continue
		}
		t := d.Succs[0] // `if err != nil { … }`
		if bo.Op == token.EQL {
			t = d.Succs[1] // `if err == nil { return }; …`
		}
		if len(t.Preds) == 1 && (t == b || t.Dominates(b)) {
			return true
		}
	}
	return false
}

// forwardLoads: a local that go/ssa keeps in memory only because a (deferred) closure
// READS it - the named error result looked at by `defer func() { if err != nil … }()` -
// is a register for everything else: a load with exactly one reaching store, which
// dominates it, is replaced by the stored value in all its uses.
func forwardLoads(f *ssa.Function) int {
	if f.Blocks == nil {
		return 0
	}
	n := 0
	// only the result variables of a function that defers something
	results := map[*ssa.Alloc]bool{}
	hasDefer := false
	for _, b := range f.Blocks {
		for _, ins := range b.Instrs {
			switch x := ins.(type) {
			case *ssa.RunDefers:
				hasDefer = true
			case *ssa.Return:
				for _, r := range x.Results {
					if u, ok := r.(*ssa.UnOp); ok && u.Op == token.MUL {
						if a, ok := u.X.(*ssa.Alloc); ok {
							results[a] = true
						}
					}
				}
			}
		}
	}
	if !hasDefer || len(results) == 0 {
		return 0
	}
	for _, b := range f.Blocks {
		for _, ins := range b.Instrs {
			a, ok := ins.(*ssa.Alloc)
			if !ok || a.Referrers() == nil || !results[a] {
				continue
			}
			if _, isStruct := a.Type().(*types.Pointer).Elem().Underlying().(*types.Struct); isStruct {
				continue
			}
			captured := false
			plain := true
			var stores []*ssa.Store
			var loads []*ssa.UnOp
			for _, r := range *a.Referrers() {
				switch x := r.(type) {
				case *ssa.Store:
					if x.Addr != ssa.Value(a) {
						plain = false
					}
					stores = append(stores, x)
				case *ssa.UnOp:
					if x.Op == token.MUL {
						loads = append(loads, x)
					} else {
						plain = false
					}
				case *ssa.MakeClosure:
					captured = true
				case *ssa.DebugRef:
				default:
					plain = false
				}
			}
			if !captured || !plain || len(stores) == 0 || deferredWrites(f, a, a) != "none" {
				continue
			}
			for pass := 0; pass < 2; pass++ {
				for _, ld := range loads {
					if ld.Referrers() == nil || len(*ld.Referrers()) == 0 {
						continue
					}
					rs, _ := reachingStores(stores, nil, ld)
					if len(rs) != 1 || !instrDominates(rs[0], ld) || rs[0].Val == ssa.Value(ld) {
						continue
					}
					val := rs[0].Val
					if u, isLoad := val.(*ssa.UnOp); isLoad && u.X == ssa.Value(a) {
						continue // (a reload stored back: resolved in the next pass)
					}
					for _, user := range *ld.Referrers() {
						for _, op := range user.Operands(nil) {
							if *op == ssa.Value(ld) {
								*op = val
								if vr := val.Referrers(); vr != nil {
									*vr = append(*vr, user)
								}
							}
						}
					}
					*ld.Referrers() = nil
					n++
				}
			}
		}
	}
	return n
}

// resultAllocs: the spilled result variables of f (loaded by its returns).
func resultAllocs(f *ssa.Function) []*ssa.Alloc {
	seen := map[*ssa.Alloc]bool{}
	var out []*ssa.Alloc
	for _, b := range f.Blocks {
		for _, ins := range b.Instrs {
			a, ok := ins.(*ssa.Alloc)
			if !ok || a.Comment == "" || seen[a] {
				continue
			}
			res := f.Signature.Results()
			for i := 0; i < res.Len(); i++ {
				if res.At(i).Name() == a.Comment && a.Heap {
					seen[a] = true
					out = append(out, a)
				}
			}
		}
	}
	return out
}

// failureOnlyCleanup: the instruction sits in a deferred function literal, under
// `if err != nil` with err the error result of the deferring function: it runs only when
// that function fails. In a message handler the whole transaction is then reverted, so what
// a compensating clean-up does there (give back what was taken, log) is not an effect of any
// committed execution.
func failureOnlyCleanup(ins ssa.Instruction) bool {
	fn := ins.Parent()
	par := fn.Parent()
	if par == nil || ins.Block() == nil {
		return false
	}
	// the literal is created once, for a defer
	var mc *ssa.MakeClosure
	for _, b := range par.Blocks {
		for _, i2 := range b.Instrs {
			if m, ok := i2.(*ssa.MakeClosure); ok && m.Fn == ssa.Value(fn) {
				if mc != nil {
					return false
				}
				mc = m
			}
		}
	}
	if mc == nil || mc.Referrers() == nil {
		return false
	}
	deferred := false
	for _, r := range *mc.Referrers() {
		if d, ok := r.(*ssa.Defer); ok && d.Call.Value == ssa.Value(mc) {
			deferred = true
		} else if _, isDbg := r.(*ssa.DebugRef); !isDbg {
			return false
		}
	}
	if !deferred {
		return false
	}
	var errAlloc *ssa.Alloc
	for _, a := range resultAllocs(par) {
		if pt, ok := a.Type().(*types.Pointer); ok && isErrorType(pt.Elem()) {
			errAlloc = a
		}
	}
	if errAlloc == nil {
		return false
	}
	var errFv *ssa.FreeVar
	for i, bnd := range mc.Bindings {
		if bnd == ssa.Value(errAlloc) && i < len(fn.FreeVars) {
			errFv = fn.FreeVars[i]
		}
	}
	if errFv == nil || deferredWrites(par, errAlloc, errAlloc) != "none" {
		return false
	}
	return underErrNonNil(ins.Block(), errFv)
}
