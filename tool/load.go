package main

import (
	"fmt"
	"go/ast"
	"go/token"
	"go/types"
	"io"
	"os"
	"path/filepath"
	"sort"
	"strings"

	"golang.org/x/tools/go/packages"
	"golang.org/x/tools/go/ssa"
	"golang.org/x/tools/go/ssa/ssautil"
)

const modPrefix = "mods.irisnet.org/"

// Program is the resolved view of /repo that every rule works on.
type Program struct {
	Repo        string
	Fset        *token.FileSet
	Pkgs        []*packages.Package          // irismod packages only, sorted by path
	ByPath      map[string]*packages.Package // all packages in the closure
	SSA         *ssa.Program
	SSAPkgs     map[string]*ssa.Package
	DeferSpills int
	AllFuncs    []*ssa.Function // source functions of irismod packages (incl. anonymous), sorted
	NPkgAll     int
	Whole       bool
}

func copyFile(dst, src string) error {
	in, err := os.Open(src)
	if err != nil {
		return err
	}
	defer in.Close()
	out, err := os.Create(dst)
	if err != nil {
		return err
	}
	defer out.Close()
	_, err = io.Copy(out, in)
	return err
}

// loadProgram type-checks every irismod package from the working tree of repo
// through e2e/go.mod (which replaces every irismod module by its local
// directory) and builds SSA. whole=true loads syntax of all dependencies.
func loadProgram(repo string, whole bool, needSSA bool) (*Program, error) {
	tmp, err := os.MkdirTemp("", "irislint-mod-")
	if err != nil {
		return nil, err
	}
	defer os.RemoveAll(tmp)
	if err := copyFile(filepath.Join(tmp, "go.mod"), filepath.Join(repo, "e2e", "go.mod")); err != nil {
		return nil, err
	}
	if err := copyFile(filepath.Join(tmp, "go.sum"), filepath.Join(repo, "e2e", "go.sum")); err != nil {
		return nil, err
	}
	env := []string{}
	for _, kv := range os.Environ() {
		k := strings.SplitN(kv, "=", 2)[0]
		switch k {
		case "GOFLAGS", "GOWORK", "GOPROXY", "GOSUMDB", "GOTOOLCHAIN":
			continue
		}
		env = append(env, kv)
	}
	env = append(env,
		// -trimpath: the export data of irismod's own packages is then cached by content, not
		// by directory - scratch copies (thorough tier, selftest) reuse the cache instead of
		// adding several GB of build cache per run
		"GOFLAGS=-mod=mod -trimpath -modfile="+filepath.Join(tmp, "go.mod"),
		"GOWORK=off", "GOPROXY=off", "GOSUMDB=off", "GOTOOLCHAIN=local")
	mode := packages.NeedName | packages.NeedFiles | packages.NeedCompiledGoFiles |
		packages.NeedImports | packages.NeedDeps | packages.NeedTypes | packages.NeedTypesSizes |
		packages.NeedSyntax | packages.NeedTypesInfo | packages.NeedModule
	cfg := &packages.Config{
		Mode:  mode,
		Dir:   filepath.Join(repo, "e2e"),
		Env:   env,
		Tests: false,
	}
	if !whole {
		// Syntax and type info only for irismod packages; the rest from export data.
		cfg.Mode = packages.NeedName | packages.NeedFiles | packages.NeedCompiledGoFiles |
			packages.NeedImports | packages.NeedDeps | packages.NeedTypes | packages.NeedTypesSizes |
			packages.NeedSyntax | packages.NeedTypesInfo | packages.NeedModule
		// LoadSyntax semantic: go/packages loads syntax only for root packages
		// when NeedDeps is combined with NeedTypes but the dependency is not a root;
		// this is exactly packages.LoadSyntax.
		cfg.Mode = packages.LoadSyntax | packages.NeedModule
	} else {
		cfg.Mode = packages.LoadAllSyntax | packages.NeedModule
	}
	roots, err := packages.Load(cfg, modPrefix+"...")
	if err != nil {
		return nil, fmt.Errorf("packages.Load: %w", err)
	}
	p := &Program{Repo: repo, ByPath: map[string]*packages.Package{}, SSAPkgs: map[string]*ssa.Package{}, Whole: whole}
	var errs []string
	packages.Visit(roots, nil, func(pk *packages.Package) {
		p.ByPath[pk.PkgPath] = pk
		if strings.HasPrefix(pk.PkgPath, modPrefix) {
			for _, e := range pk.Errors {
				errs = append(errs, pk.PkgPath+": "+e.Error())
			}
		}
	})
	p.NPkgAll = len(p.ByPath)
	for _, pk := range roots {
		if strings.HasPrefix(pk.PkgPath, modPrefix) {
			p.Pkgs = append(p.Pkgs, pk)
		}
	}
	sort.Slice(p.Pkgs, func(i, j int) bool { return p.Pkgs[i].PkgPath < p.Pkgs[j].PkgPath })
	if len(errs) > 0 {
		return nil, fmt.Errorf("load/type errors in irismod packages:\n  %s", strings.Join(errs, "\n  "))
	}
	if len(p.Pkgs) < 100 {
		return nil, fmt.Errorf("only %d irismod packages loaded (expected >= 100)", len(p.Pkgs))
	}
	// every package must come from repo's working tree
	for _, pk := range p.Pkgs {
		for _, f := range pk.CompiledGoFiles {
			if !strings.HasPrefix(f, repo+string(os.PathSeparator)) {
				return nil, fmt.Errorf("package %s file %s is not under %s", pk.PkgPath, f, repo)
			}
		}
	}
	if len(p.Pkgs) > 0 {
		p.Fset = p.Pkgs[0].Fset
	}
	if needSSA {
		prog, pkgs := ssautil.AllPackages(roots, ssa.InstantiateGenerics)
		_ = pkgs
		prog.Build()
		p.SSA = prog
		for _, sp := range prog.AllPackages() {
			p.SSAPkgs[sp.Pkg.Path()] = sp
		}
		p.collectFuncs()
	}
	return p, nil
}

func (p *Program) collectFuncs() {
	seen := map[*ssa.Function]bool{}
	var add func(f *ssa.Function)
	add = func(f *ssa.Function) {
		if f == nil || seen[f] {
			return
		}
		seen[f] = true
		if f.Blocks != nil {
			p.AllFuncs = append(p.AllFuncs, f)
		}
		for _, a := range f.AnonFuncs {
			add(a)
		}
	}
	for _, pk := range p.Pkgs {
		sp := p.SSAPkgs[pk.PkgPath]
		if sp == nil {
			continue
		}
		for _, m := range sp.Members {
			switch m := m.(type) {
			case *ssa.Function:
				add(m)
			case *ssa.Type:
				t := m.Type()
				for _, tt := range []types.Type{t, types.NewPointer(t)} {
					ms := p.SSA.MethodSets.MethodSet(tt)
					for i := 0; i < ms.Len(); i++ {
						fn := p.SSA.MethodValue(ms.At(i))
						if fn != nil && fn.Pkg == sp && fn.Synthetic == "" {
							add(fn)
						}
					}
				}
			}
		}
	}
	for _, f := range p.AllFuncs {
		a, b := forwardLoads(f), normaliseDeferSpill(f)
		p.DeferSpills += a + b
		if os.Getenv("DEBUG_SPILL") != "" && a+b > 0 {
			fmt.Fprintf(os.Stderr, "spill %s: forwarded %d loads, %d returns\n", f, a, b)
		}
	}
	progFuncsForGlobals, globalStructMemo = p.AllFuncs, nil
	sort.Slice(p.AllFuncs, func(i, j int) bool {
		a, b := p.AllFuncs[i], p.AllFuncs[j]
		pa, pb := p.Fset.Position(a.Pos()), p.Fset.Position(b.Pos())
		if pa.Filename != pb.Filename {
			return pa.Filename < pb.Filename
		}
		if pa.Line != pb.Line {
			return pa.Line < pb.Line
		}
		return a.String() < b.String()
	})
}

// Pos renders a position relative to the repository root.
func (p *Program) Pos(pos token.Pos) string {
	if !pos.IsValid() {
		return "?"
	}
	ps := p.Fset.Position(pos)
	f := strings.TrimPrefix(ps.Filename, p.Repo+"/")
	return fmt.Sprintf("%s:%d", f, ps.Line)
}

func (p *Program) File(pos token.Pos) string {
	if !pos.IsValid() {
		return ""
	}
	return strings.TrimPrefix(p.Fset.Position(pos).Filename, p.Repo+"/")
}

// Role of a package / file for the behavioural rules.
type Role int

const (
	RoleConsensus Role = iota
	RoleNonConsensus
	RoleUpgrade
	RoleGenerated
)

func pkgRole(path string) Role {
	rel := strings.TrimPrefix(path, modPrefix)
	switch {
	case strings.HasPrefix(rel, "e2e"), strings.HasPrefix(rel, "simapp"), strings.HasPrefix(rel, "api/"):
		return RoleNonConsensus
	case strings.Contains(rel, "/client/") || strings.HasSuffix(rel, "/client"),
		strings.HasSuffix(rel, "/simulation"), strings.Contains(rel, "/simulation/"):
		return RoleNonConsensus
	case strings.Contains(rel, "/migrations"):
		return RoleUpgrade
	}
	return RoleConsensus
}

func isGeneratedFile(name string) bool {
	return strings.HasSuffix(name, ".pb.go") || strings.HasSuffix(name, ".pb.gw.go") ||
		strings.HasSuffix(name, ".pulsar.go") || strings.HasSuffix(name, "_grpc.pb.go")
}

// moduleOf returns "coinswap" for mods.irisnet.org/modules/coinswap/keeper.
func moduleOf(path string) string {
	rel := strings.TrimPrefix(path, modPrefix+"modules/")
	if rel == path {
		return ""
	}
	if i := strings.Index(rel, "/"); i >= 0 {
		return rel[:i]
	}
	return rel
}

func funcPkgPath(f *ssa.Function) string {
	for f.Parent() != nil {
		f = f.Parent()
	}
	if f.Pkg != nil {
		return f.Pkg.Pkg.Path()
	}
	if o := f.Object(); o != nil && o.Pkg() != nil {
		return o.Pkg().Path()
	}
	if f.Origin() != nil && f.Origin() != f {
		return funcPkgPath(f.Origin())
	}
	return ""
}

func isIrismodFunc(f *ssa.Function) bool {
	return strings.HasPrefix(funcPkgPath(f), modPrefix)
}

// enclosing file syntax helper
func (p *Program) fileOf(pk *packages.Package, pos token.Pos) *ast.File {
	for _, f := range pk.Syntax {
		if f.Pos() <= pos && pos <= f.End() {
			return f
		}
	}
	return nil
}
