package main

// C10 — Token: ERC20 and fee-token conversions: burn-one-side / mint-other-side
// pairing with one amount origin and the right endpoints.

import (
	"fmt"
	"go/constant"
	"go/types"
	"sort"
	"strings"

	"golang.org/x/tools/go/ssa"
)

func init() { register("C10", true, true, "other", runC10) }

// watchEVM: calls that carry one of the ERC20 ABI method names as a constant argument.
func watchEVM(ci ssa.CallInstruction) string {
	if ci.Common().IsInvoke() {
		return ""
	}
	f := ci.Common().StaticCallee()
	if f == nil || !isIrismodFunc(f) {
		return ""
	}
	for _, a := range ci.Common().Args {
		if c, ok := a.(*ssa.Const); ok && c.Value != nil && c.Value.Kind() == constant.String {
			// (an ABI method name is handed over as a plain string; a module-defined label
			// type that happens to spell "mint" - an operation tag of a checker - is not one)
			if _, plain := c.Type().(*types.Basic); !plain {
				continue
			}
			switch constant.StringVal(c.Value) {
			case "mint":
				return "evm:mint"
			case "burn":
				return "evm:burn"
			}
		}
	}
	return ""
}

type c10ev struct {
	ev *Event
	w  *Walker
}

func runC10(cx *Ctx, r *Report) {
	r.Explanation = "F4 effect inventory with provenance for the conversion handlers, over all call chains. SwapToERC20: exactly {signer→module(amount), burn(amount)} on the bank side and one ERC20 `mint` call (found by its ABI method-name constant) to the contract recorded for the coin's denom, crediting the message's receiver with amount.Amount; all three must-execute with errors propagated, native burn before the ERC20 mint. SwapFromERC20: one ERC20 `burn` from the signer's address of wanted.Amount on the recorded contract, then exactly {mint(wanted), module→receiver(wanted)}; the ERC20 burn dominates the native mint. The mint/burn wrappers accept only when the post-call balance equals before±amount (fact at every success exit). The EVM hook mints only the denom of the token registered for the emitting contract, the amount decoded from that log, to the log's recipient. SwapFeeToken: burned and minted coins are results #0/#1 of one computation; sender→module(burned), burn(burned), mint(minted), module→recipient(minted), nothing else. LossLessSwap: the refund term must invert the whole conversion factor (formula conformance, F9). Decides pairing, endpoints and single provenance; EVM semantics and the numeric bounds of the fee-token ratio are not decided."
	r.Assumptions = []string{"the EVM keeper executes the call it is given; the bound ERC20 contract implements mint/burn as named", "bank keeper semantics", "a failing message is reverted as a whole by the SDK (so an error after the first side undoes it)"}
	entries := cx.entriesOfModule("token", "msg", "hook")
	per := map[string][]c10ev{}
	var symLookups []c10ev
	over := cx.forEachEvent(entries, watchEVM, func(e *Entry, w *Walker, ev *Event) {
		if strings.HasPrefix(ev.Kind, "bank.") || strings.HasPrefix(ev.Kind, "evm:") {
			per[e.Name] = append(per[e.Name], c10ev{ev, w})
		}
		// the coin's denom is a MIN UNIT: looked up in the symbol index it names another
		// token (symbols and min units are separate namespaces and may collide)
		if (ev.Kind == "store.get" || ev.Kind == "store.has") && hasPrefix(ev, "token:PrefixTokenForSymbol=0x01") && (e.Name == "SwapToERC20" || e.Name == "SwapFromERC20" || e.Name == "SwapFeeToken") {
			k := ev.Args[0].LooseString()
			for _, d := range []string{"msg.Amount.Denom", "msg.WantedAmount.Denom", "msg.FeePaid.Denom"} {
				if strings.HasSuffix(k, "("+d+")") {
					symLookups = append(symLookups, c10ev{ev, w})
				}
			}
		}
	})
	for _, o := range over {
		r.toolErr("frame budget exceeded for %s", o)
	}
	{
		pos, where := "", ""
		if len(symLookups) > 0 {
			pos, where = symLookups[0].ev.Pos(cx), symLookups[0].ev.Fr.String()
		}
		r.check(len(symLookups) == 0, "denom-namespace", "conversions", pos, "no conversion handler looks the coin's denom up in the symbol index (the token is resolved through the min-unit index only)", "a conversion handler reads the symbol index with the coin's denom as the key on chain "+where+": another token whose SYMBOL equals this min unit is resolved instead, and its contract is minted / burned while the native coin of the denom moves")
	}
	get := func(name, kind string) []c10ev {
		var out []c10ev
		for _, x := range per[name] {
			if x.ev.Kind == kind {
				out = append(out, x)
			}
		}
		return out
	}
	lastArg := func(ev *Event) string { return ev.Args[len(ev.Args)-1].LooseString() }
	must := func(x c10ev) bool { return x.w.chainMust(x.ev.Fr, x.ev.Site) }
	inventory := func(name string, want map[string]int) bool {
		got := map[string]int{}
		for _, x := range per[name] {
			got[x.ev.Kind]++
		}
		ok := len(got) == len(want)
		for k, n := range want {
			if got[k] != n {
				ok = false
			}
		}
		var parts []string
		for _, k := range sortedKeys(got) {
			parts = append(parts, fmt.Sprintf("%s×%d", k, got[k]))
		}
		pos := ""
		if len(per[name]) > 0 {
			pos = per[name][0].ev.Pos(cx)
		}
		r.check(ok, "inventory", name, pos, "effects of "+name+" are exactly "+strings.Join(parts, ", "), "effects of "+name+" are "+strings.Join(parts, ", ")+" — expected exactly "+fmt.Sprint(want))
		return ok
	}
	// ---------------- SwapToERC20
	if inventory("SwapToERC20", map[string]int{"bank.SendCoinsFromAccountToModule": 1, "bank.BurnCoins": 1, "evm:mint": 1}) {
		take, burn, mint := get("SwapToERC20", "bank.SendCoinsFromAccountToModule")[0], get("SwapToERC20", "bank.BurnCoins")[0], get("SwapToERC20", "evm:mint")[0]
		margs := argsLoose(mint.ev)
		ms := strings.Join(margs, " ; ")
		ok := take.ev.Args[1].LooseString() == "addr(msg.Sender)" && lastArg(take.ev) == "coins(msg.Amount)" && lastArg(burn.ev) == "coins(msg.Amount)" &&
			recordFieldKeyedBy(mint.ev.Args, "Contract", "msg.Amount.Denom") && strings.Contains(ms, "HexToAddress(msg.Receiver)") && strings.Contains(ms, "math.Int.BigInt(msg.Amount.Amount)")
		r.check(ok, "provenance", "SwapToERC20", mint.ev.Pos(cx), "signer pays coins(msg.Amount), the same coins are burned, and mint(contract of msg.Amount.Denom, msg.Receiver, msg.Amount.Amount) is called", "SwapToERC20 endpoints/amounts differ: take("+take.ev.Args[1].LooseString()+", "+lastArg(take.ev)+") burn("+lastArg(burn.ev)+") mint("+ms+")")
		r.check(must(take) && must(burn) && must(mint), "must-execute", "SwapToERC20", mint.ev.Pos(cx), "take, native burn and ERC20 mint are on every successful path with errors propagated", "one of take/burn/ERC20-mint is not on every successful path of SwapToERC20 (or its error is dropped)")
		r.check(orderedBefore(burn.ev, mint.ev), "order", "SwapToERC20", mint.ev.Pos(cx), "the native burn dominates the ERC20 mint", "the ERC20 mint is not dominated by the native burn")
		cx.balanceRecheck(r, mint, "Add", "SwapToERC20")
	}
	// ---------------- SwapFromERC20
	if inventory("SwapFromERC20", map[string]int{"evm:burn": 1, "bank.MintCoins": 1, "bank.SendCoinsFromModuleToAccount": 1}) {
		eb, mint, pay := get("SwapFromERC20", "evm:burn")[0], get("SwapFromERC20", "bank.MintCoins")[0], get("SwapFromERC20", "bank.SendCoinsFromModuleToAccount")[0]
		bs := strings.Join(argsLoose(eb.ev), " ; ")
		ok := lastArg(mint.ev) == "coins(msg.WantedAmount)" && lastArg(pay.ev) == "coins(msg.WantedAmount)" && pay.ev.Args[2].LooseString() == "addr(msg.Receiver)" &&
			recordFieldKeyedBy(eb.ev.Args, "Contract", "msg.WantedAmount.Denom") && strings.Contains(bs, "addr(msg.Sender)") && strings.Contains(bs, "math.Int.BigInt(msg.WantedAmount.Amount)")
		r.check(ok, "provenance", "SwapFromERC20", eb.ev.Pos(cx), "burn(contract of wanted denom, signer, wanted.Amount), then mint coins(msg.WantedAmount) and pay them to msg.Receiver", "SwapFromERC20 endpoints/amounts differ: burn("+bs+") mint("+lastArg(mint.ev)+") pay("+pay.ev.Args[2].LooseString()+", "+lastArg(pay.ev)+")")
		r.check(must(eb) && must(mint) && must(pay), "must-execute", "SwapFromERC20", eb.ev.Pos(cx), "ERC20 burn, native mint and payout are on every successful path with errors propagated", "one of ERC20-burn/mint/payout is not on every successful path of SwapFromERC20 (or its error is dropped)")
		r.check(orderedBefore(eb.ev, mint.ev), "order", "SwapFromERC20", mint.ev.Pos(cx), "the ERC20 burn dominates the native mint", "the native mint is not dominated by the ERC20 burn")
		cx.balanceRecheck(r, eb, "Sub", "SwapFromERC20")
	}
	// ---------------- EVM hook
	{
		name := "erc20Hook.PostTxProcessing"
		if inventory(name, map[string]int{"bank.MintCoins": 1, "bank.SendCoinsFromModuleToAccount": 1}) {
			mint, pay := get(name, "bank.MintCoins")[0], get(name, "bank.SendCoinsFromModuleToAccount")[0]
			c := lastArg(mint.ev)
			ok := c == lastArg(pay.ev) && strings.Contains(c, "getTokenByContract(keeper, receipt.Logs[") && strings.Contains(c, "].Address)#0.MinUnit") && strings.Contains(c, "abi.ABI.Unpack(") && strings.Contains(c, ".Data)#0[2]") &&
				strings.Contains(pay.ev.Args[2].LooseString(), "abi.ABI.Unpack(") && strings.Contains(pay.ev.Args[2].LooseString(), ".Data)#0[1]")
			r.check(ok, "provenance", name, mint.ev.Pos(cx), "minted coin = (min unit of the token registered for the emitting contract, amount decoded from that log's data), paid to the log's recipient", "hook mints "+c+" and pays "+lastArg(pay.ev)+" to "+pay.ev.Args[2].LooseString())
			// the decoded amount is a 256-bit value: it reaches the mint at full width
			narrow := ""
			for _, n := range []string{"big.Int.Uint64(", "big.Int.Int64(", "math.Int.Uint64(", "math.Int.Int64(", "NewIntFromUint64(", "math.NewInt(", "big.Int.IsUint64("} {
				if strings.Contains(c, n) {
					narrow = strings.TrimSuffix(n, "(")
				}
			}
			r.check(narrow == "", "full-width-amount", name, mint.ev.Pos(cx), "the amount decoded from the log is minted without a narrowing conversion", "the amount decoded from the SwapToNative log passes through "+narrow+" before it is minted: amounts of 2^64 base units or more (≈18.4 tokens at 18 decimals) are truncated, the ERC20 side has burned the full amount, and the difference is destroyed")
			fs := mint.w.FactsAt(mint.ev.Fr, mint.ev.Site)
			_, ok1 := hasFact(fs, true, "getTokenByContract(keeper, receipt.Logs[", " : err==nil")
			_, ok2 := hasFact(fs, false, ".Name != \"SwapToNative\"")
			r.check(ok1 && ok2, "hook-guards", name, mint.ev.Pos(cx), "the mint is dominated by: event name is SwapToNative and the emitting contract resolves to a registered token", "the hook's mint is not dominated by the SwapToNative / registered-contract guards")
			// every log of the receipt is processed: inside the loop over the logs the only
			// way out is a failure; a (possibly) successful return would leave the burns of
			// the remaining SwapToNative events without their native mint
			if site := liftTo(mint.ev, rootFrame(mint.ev.Fr)); site != nil && inLoop(site.Block()) {
				h := loopHeaderOf(site.Block())
				early := ""
				for _, b := range site.Parent().Blocks {
					if b == h || !h.Dominates(b) || !reachesAvoiding(b, h, nil) {
						continue
					}
					// b is inside the loop iff it can get back to the header
					if !blockReaches(b, h) {
						continue
					}
					if ret, ok := b.Instrs[len(b.Instrs)-1].(*ssa.Return); ok && !isFailureReturn(ret) {
						early = cx.P.Pos(ret.Pos())
					}
				}
				// returns in blocks that leave the loop without going through the header's exit
				for _, b := range site.Parent().Blocks {
					ret, ok := b.Instrs[len(b.Instrs)-1].(*ssa.Return)
					if !ok || isFailureReturn(ret) {
						continue
					}
					// a non-failure return reached from inside the loop body without passing the header again
					for _, p := range b.Preds {
						if p != h && h.Dominates(p) && blockReaches(p, h) {
							early = cx.P.Pos(ret.Pos())
						}
					}
					if h.Dominates(b) && b != h {
						only := true
						for _, p := range b.Preds {
							if p == h {
								only = false
							}
						}
						if only && len(b.Preds) > 0 {
							early = cx.P.Pos(ret.Pos())
						}
					}
				}
				r.check(early == "", "hook-all-logs", name, mint.ev.Pos(cx), "inside the loop over the receipt's logs only failures return; every SwapToNative event of a transaction gets its native mint", "the hook can return without error from inside the loop over the receipt's logs ("+early+"): the remaining SwapToNative events of the transaction, whose ERC20 has already been burned, are never minted")
			} else {
				r.violate("hook-all-logs", name, mint.ev.Pos(cx), "the native mint of the hook is not inside a loop that goes on to the next log of the receipt (the body returns after the first SwapToNative event, or the loop is gone): the remaining SwapToNative events of the transaction, whose ERC20 has already been burned, are never minted")
			}
		}
	}
	// ---------------- SwapFeeToken
	if inventory("SwapFeeToken", map[string]int{"bank.SendCoinsFromAccountToModule": 1, "bank.BurnCoins": 1, "bank.MintCoins": 1, "bank.SendCoinsFromModuleToAccount": 1}) {
		take, burn, mint, pay := get("SwapFeeToken", "bank.SendCoinsFromAccountToModule")[0], get("SwapFeeToken", "bank.BurnCoins")[0], get("SwapFeeToken", "bank.MintCoins")[0], get("SwapFeeToken", "bank.SendCoinsFromModuleToAccount")[0]
		b, m := lastArg(burn.ev), lastArg(mint.ev)
		// one computation: same call term, results #0 and #1
		strictB, strictM := burn.ev.Args[len(burn.ev.Args)-1].String(), mint.ev.Args[len(mint.ev.Args)-1].String()
		same := strings.HasSuffix(strings.TrimSuffix(strictB, ")"), "#0") && strings.HasSuffix(strings.TrimSuffix(strictM, ")"), "#1") &&
			strings.TrimSuffix(strings.TrimSuffix(strictB, ")"), "#0") == strings.TrimSuffix(strings.TrimSuffix(strictM, ")"), "#1")
		same = same && strings.Contains(b, "(keeper, msg.FeePaid)#0")
		if !same {
			// the computing helper seen through: both amounts come out of one LossLessSwap
			// call over msg.FeePaid.Amount (result #0 burned, #1 minted)
			isLLS := func(t *Term) bool {
				return t.Op == "extract" && len(t.Args) == 1 && t.Args[0].Op == "call" && t.Args[0].Name == "token/types.LossLessSwap"
			}
			tb := findSub(burn.ev.Args[len(burn.ev.Args)-1], isLLS)
			tm := findSub(mint.ev.Args[len(mint.ev.Args)-1], isLLS)
			sameInvocation := tb != nil && tm != nil && tb.Args[0].fr != nil && tm.Args[0].fr != nil && tb.Args[0].src == tm.Args[0].src && tb.Args[0].fr.Call == tm.Args[0].fr.Call
			same = sameInvocation && tb.Name == "0" && tm.Name == "1" && tb.Args[0].String() == tm.Args[0].String() &&
				len(tb.Args[0].Args) > 0 && tb.Args[0].Args[0].LooseString() == "msg.FeePaid.Amount" && recordFieldKeyedBy(burn.ev.Args, "MinUnit", "msg.FeePaid.Denom")
		}
		ok := same && lastArg(take.ev) == b && lastArg(pay.ev) == m && take.ev.Args[1].LooseString() == "addr(msg.Sender)" &&
			strings.Contains(pay.ev.Args[2].LooseString(), "addr(msg.Sender)")
		r.check(ok, "provenance", "SwapFeeToken", burn.ev.Pos(cx), "burned = result #0 and minted = result #1 of one computation over msg.FeePaid; signer pays burned, recipient (or signer) receives minted", "SwapFeeToken provenance differs: take "+lastArg(take.ev)+" burn "+b+" mint "+m+" pay "+lastArg(pay.ev)+" to "+pay.ev.Args[2].LooseString())
		r.check(must(take) && must(burn) && must(mint) && must(pay), "must-execute", "SwapFeeToken", burn.ev.Pos(cx), "all four effects are on every successful path", "an effect of SwapFeeToken is not on every successful path")
	}
	cx.lossLessFormula(r)
	// the contract index that the EVM hook resolves tokens through is maintained wherever the record is stored
	cx.derivedWriteGuards(r, []string{"token"}, "contract-index-maintained")
	r.requireCount("inventory", 4)
	r.requireCount("provenance", 4)
	r.requireCount("balance-recheck", 2)
}

// orderedBefore: a's site (lifted to the lowest common frame) dominates b's.
func orderedBefore(a, b *Event) bool {
	chain := func(e *Event) []*Frame {
		var c []*Frame
		for f := e.Fr; f != nil; f = f.Parent {
			c = append([]*Frame{f}, c...)
		}
		return c
	}
	ca, cb := chain(a), chain(b)
	i := 0
	for i < len(ca) && i < len(cb) && ca[i] == cb[i] {
		i++
	}
	if i == 0 {
		return false
	}
	sa, sb := siteOf(ca, i, a), siteOf(cb, i, b)
	if sa == nil || sb == nil || sa.Parent() != sb.Parent() {
		return false
	}
	if sa == sb && i < len(ca) && i < len(cb) && ca[i].MC != nil && cb[i].MC != nil {
		// two steps of one first-error list: in list order
		if ci, ok := sa.(ssa.CallInstruction); ok {
			args := ci.Common().Args
			if len(args) > 0 {
				ia, ib := -1, -1
				for k, e := range variadicElems(args[len(args)-1]) {
					if e == ssa.Value(ca[i].MC) {
						ia = k
					}
					if e == ssa.Value(cb[i].MC) {
						ib = k
					}
				}
				if ia >= 0 && ib >= 0 {
					return ia < ib
				}
			}
		}
	}
	if sa.Block() == sb.Block() {
		return instrIndex(sa) < instrIndex(sb)
	}
	return sa.Block().Dominates(sb.Block())
}

// balanceRecheck: the function that issues the ERC20 call accepts only when
// Cmp(before ± amount, after) == 0.
func (cx *Ctx) balanceRecheck(r *Report, x c10ev, op string, name string) {
	fn := x.ev.Fr.Fn
	w := x.w
	ok := true
	exits := successExitBlocks(fn)
	for _, b := range exits {
		found := false
		for _, ft := range w.exitFacts(x.ev.Fr, b, 0) {
			// (a.Cmp(b) != 0 and b.Cmp(a) != 0 are the same test)
			if !ft.Holds && strings.Contains(ft.Text, "big.Int.Cmp(") && strings.Contains(ft.Text, "big.Int."+op+"(") && !strings.Contains(ft.Text, "big.Int."+map[string]string{"Add": "Sub", "Sub": "Add"}[op]+"(") && strings.Contains(ft.Text, "!= 0") {
				found = true
			}
		}
		if !found {
			ok = false
		}
	}
	if len(exits) == 0 {
		ok = false
	}
	r.check(ok, "balance-recheck", name, x.ev.Pos(cx), "every success exit of the ERC20 wrapper holds Cmp(before "+map[string]string{"Add": "+", "Sub": "−"}[op]+" amount, after) == 0", "the ERC20 wrapper can return success without the post-call balance comparison (before "+op+" amount vs after)")
}

// lossLessFormula (F9): the amounts burned and minted by the fee-token swap are
// evaluated symbolically on every path through the conversion code; with the
// 18-digit rounding markers removed, out = in·c for one conversion factor c, and
// whenever the burned amount differs from the offered one it must be
// ceil(in − frac(out)/c): the refund inverts the whole factor (scale and ratio).
func (cx *Ctx) lossLessFormula(r *Report) {
	var e *Entry
	for i := range cx.Entries {
		if cx.Entries[i].Role == "msg" && cx.Entries[i].Name == "SwapFeeToken" && strings.HasPrefix(cx.Entries[i].Module, "token") {
			e = &cx.Entries[i]
		}
	}
	if e == nil {
		r.toolErr("SwapFeeToken entry not found")
		return
	}
	w := newWalker(cx)
	var burnEv, mintEv *Event
	w.Walk(e.Fn, func(fr *Frame) {
		for _, ev := range w.EventsOf(fr) {
			if ev.Kind == "bank.BurnCoins" {
				burnEv = ev
			}
			if ev.Kind == "bank.MintCoins" {
				mintEv = ev
			}
		}
	})
	if burnEv == nil || mintEv == nil {
		r.toolErr("SwapFeeToken burn/mint events not found")
		return
	}
	argOf := func(ev *Event) ssa.Value {
		a := ev.Site.(ssa.CallInstruction).Common().Args
		return a[len(a)-1]
	}
	// discover phi blocks
	probe := newFx(w)
	probe.CoinAmounts(argOf(burnEv), burnEv.Fr)
	probe.CoinAmounts(argOf(mintEv), mintEv.Fr)
	for i := 0; i < 3; i++ { // nested discovery under different choices
		var blocks []*ssa.BasicBlock
		for b := range probe.phis {
			blocks = append(blocks, b)
		}
		sort.Slice(blocks, func(i, j int) bool { return blocks[i].Index < blocks[j].Index })
		for _, ch := range pathCombos(blocks) {
			p2 := newFx(w)
			p2.choice = ch
			p2.CoinAmounts(argOf(burnEv), burnEv.Fr)
			p2.CoinAmounts(argOf(mintEv), mintEv.Fr)
			for b := range p2.phis {
				probe.phis[b] = true
			}
		}
	}
	var blocks []*ssa.BasicBlock
	for b := range probe.phis {
		blocks = append(blocks, b)
	}
	sort.Slice(blocks, func(i, j int) bool {
		pi, pj := blocks[i].Comment, blocks[j].Comment
		if blocks[i].Parent() != nil {
			pi = blocks[i].Parent().String()
		}
		if blocks[j].Parent() != nil {
			pj = blocks[j].Parent().String()
		}
		if pi != pj {
			return pi < pj
		}
		return blocks[i].Index < blocks[j].Index
	})
	combos := pathCombos(blocks)
	nOK := 0
	for ci, ch := range combos {
		fx := newFx(w)
		fx.choice = ch
		bs := fx.CoinAmounts(argOf(burnEv), burnEv.Fr)
		ms := fx.CoinAmounts(argOf(mintEv), mintEv.Fr)
		if len(bs) != 1 || len(ms) != 1 {
			r.toolErr("SwapFeeToken: cannot decode burned/minted coins on path %d", ci)
			return
		}
		burn, mint := fx.StripRound(bs[0].Amt), fx.StripRound(ms[0].Amt)
		in := fx.symForTerm("msg.FeePaid.Amount", false)
		key := fmt.Sprintf("SwapFeeToken|path %d", ci)
		pos := cx.P.Pos(bs[0].Val.Pos())
		// mint = floor(in·c): recover c
		var core Rat
		found := false
		for _, n := range fx.nodes {
			if n.kind == "floor" && rEq(rSym(n.sym), mint) {
				core = n.arg
				found = true
			}
		}
		if !found {
			r.violate("lossless-formula", key, pos, "minted amount is not the floor of a product of the offered amount: "+fx.Describe(mint)+"  ["+fx.Legend(mint)+"]")
			continue
		}
		c := rDiv(core, in)
		if lv := fx.leavesOf(c); func() bool {
			for _, t := range lv {
				if t == "msg.FeePaid.Amount" {
					return true
				}
			}
			return false
		}() {
			r.violate("lossless-formula", key, pos, "minted amount is not linear in the offered amount: "+fx.Describe(mint))
			continue
		}
		if rEq(burn, in) {
			nOK++
			r.ok("lossless-formula", key, pos, "burned = offered, minted = floor(offered·c) with c = "+fx.Describe(c)+"  ["+fx.Legend(c)+"]")
			continue
		}
		ref, err := fx.Ref("ceil(a - (o - floor(o)) / c)", map[string]Rat{"a": in, "o": core, "c": c})
		if err != nil {
			r.toolErr("%v", err)
			return
		}
		if rEq(burn, ref) {
			nOK++
			r.ok("lossless-formula", key, pos, "burned = ceil(offered − frac(out)/c), minted = floor(out), out = offered·c, c = "+fx.Describe(c)+"  ["+fx.Legend(c)+"]")
		} else {
			r.violate("lossless-formula", key, pos, "the refund does not invert the conversion factor: burned = "+fx.Describe(burn)+" but out = offered·c with c = "+fx.Describe(c)+" requires ceil(offered − frac(out)/c); otherwise more is minted than the burned amount is worth (e.g. ratio 2, scales 18→6, offered 1.25e12: burned 7.5e11 worth 1.5, minted 2)  ["+fx.Legend(burn)+"]")
		}
	}
	r.Extra["lossless_paths"] = len(combos)
	_ = nOK
}

// recordFieldKeyedBy: one of the terms holds the field `field` of a stored token
// record whose lookup depends on the request only through `key` (whatever getters
// the lookup goes through): the contract / unit of exactly the coin's denom.
func recordFieldKeyedBy(ts []*Term, field, key string) bool {
	for _, t := range ts {
		f := findSub(t, func(x *Term) bool {
			return x.Op == "field" && x.Name == field && len(x.Args) == 1 && x.Args[0].Op != "param"
		})
		if f == nil {
			continue
		}
		lv := map[string]bool{}
		pathLeaves(f.Args[0], lv)
		ok, calls := len(lv) > 0, 0
		for l := range lv {
			if l != key && l != "keeper" && l != "ctx" {
				ok = false
			}
		}
		// the record comes out of the token keeper's own lookups
		var walk func(x *Term)
		walk = func(x *Term) {
			if x == nil {
				return
			}
			if x.Op == "call" && x.Site.IsValid() {
				calls++
				if !strings.HasPrefix(x.Name, "token/keeper.Keeper.") && !strings.HasPrefix(x.Name, "out:codec.") && !strings.HasPrefix(x.Name, "token/types") {
					ok = false
				}
			}
			for _, a := range x.Args {
				walk(a)
			}
		}
		walk(f.Args[0])
		if ok && lv[key] && calls > 0 {
			return true
		}
	}
	return false
}

// pathLeaves: the leaves of a term, with access paths rooted at a parameter
// (msg.Amount.Denom) kept whole.
func pathLeaves(t *Term, out map[string]bool) {
	if t == nil {
		return
	}
	isPath := func(x *Term) bool {
		for x.Op == "field" && len(x.Args) == 1 {
			x = x.Args[0]
		}
		return x.Op == "param" || x.Op == "free"
	}
	if len(t.Args) == 0 || (t.Op == "field" && isPath(t)) {
		out[t.LooseString()] = true
		return
	}
	for _, a := range t.Args {
		pathLeaves(a, out)
	}
}
