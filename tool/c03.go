package main

// C03 — HTLC: locked funds leave escrow exactly once.
// C04 — HTLC: escrow and supply counters match the open contracts.

import (
	"fmt"
	"go/types"
	"os"
	"strings"

	"golang.org/x/tools/go/ssa"
)

func init() {
	register("C03", true, true, "other", runC03)
	register("C04", true, true, "other", runC04)
}

const (
	htlcRec   = "htlc:HTLCKey=0x01"
	htlcQueue = "htlc:HTLCExpiredQueueKey=0x02"
	htlcSup   = "htlc:AssetSupplyPrefix=0x03"
)

type hev struct {
	ev *Event
	w  *Walker
	e  *Entry
}

func htlcEvents(cx *Ctx, r *Report) map[string][]hev {
	entries := append(cx.entriesOfModule("htlc", "msg"), cx.entriesOfModule("htlc", "abci")...)
	per := map[string][]hev{}
	over := cx.forEachEvent(entries, nil, func(e *Entry, w *Walker, ev *Event) {
		per[e.Name] = append(per[e.Name], hev{ev, w, e})
	})
	for _, o := range over {
		r.toolErr("frame budget exceeded for %s", o)
	}
	return per
}

// factOrdered: like fact, but the substrings must occur in the given order
// (operand order of a comparison matters once flipped equivalents are generated).
func (x hev) factOrdered(holds bool, subs ...string) (FactT, bool) {
	for _, ft := range x.w.FactsAt(x.ev.Fr, x.ev.Site) {
		if ft.Holds != holds || (isOutcomeFact(ft.Text) && !strings.Contains(strings.Join(subs, ""), " : ")) {
			continue
		}
		pos, ok := 0, true
		for _, sub := range subs {
			i := strings.Index(ft.Text[pos:], sub)
			if i < 0 {
				ok = false
				break
			}
			pos += i + len(sub)
		}
		if ok {
			return ft, true
		}
	}
	return FactT{}, false
}

// fieldFact finds a fact that IS a boolean field selection ending in suffix (not a
// comparison or call that merely mentions the field among its operands).
func (x hev) fieldFact(holds bool, suffix string) (FactT, bool) {
	for _, ft := range x.w.FactsAt(x.ev.Fr, x.ev.Site) {
		if ft.Holds == holds && !isOutcomeFact(ft.Text) && strings.HasSuffix(ft.Text, suffix) && !strings.HasPrefix(ft.Text, "(") {
			return ft, true
		}
	}
	return FactT{}, false
}

func (x hev) fact(holds bool, subs ...string) (FactT, bool) {
	return hasFact(x.w.FactsAt(x.ev.Fr, x.ev.Site), holds, subs...)
}

func htlcMutating(k string) bool {
	return strings.HasPrefix(k, "bank.") || k == "store.set" || k == "store.delete" || strings.HasPrefix(k, "delta:") || strings.HasPrefix(k, "assign:")
}

func runC03(cx *Ctx, r *Report) {
	r.Explanation = "F3 typestate and guard dominance plus F4 payout inventory for the HTLC module, over every call chain of CreateHTLC, ClaimHTLC and the begin blocker. (claim guards) every mutation reachable from ClaimHTLC holds: the contract was found under the id of the message, its stored State equals Open, and bytes.Equal(GetHashLock(msg.Secret, stored Timestamp), stored HashLock). (one payout) the claim pays by exactly one of three routes whose guards are pairwise contradictory (¬Transfer | Transfer∧Incoming | Transfer∧Outgoing) and one of which is on every successful path; payee is the stored To, amount the stored Amount. (typestate) the only assignments to HTLC.State are Completed under the Open guard in the claim path and Refunded in a function reachable only from the begin blocker; the record write and the dequeue are must-executed in the claim. (duplicate id) every mutation of CreateHTLC holds ¬HasHTLC(GetID(sender,to,amount,hashLock)) and the record is stored under that id; escrow-in is the signer paying msg.Amount on the non-incoming routes. (queue) the expiry queue is written only by CreateHTLC with the stored ExpirationHeight and iterated by the begin blocker at the current block height; its closure must-dequeues each entry; refunds pay the stored Sender the stored Amount. Decides structure on all paths; hash collision freedom and height arithmetic are not decided."
	r.Assumptions = []string{"SHA-256 ids do not collide", "the SDK reverts all writes of a failing message", "genesis import only enqueues open contracts (C12)"}
	per := htlcEvents(cx, r)
	H := "htlc/keeper.Keeper.GetHTLC(keeper, hex.DecodeString(msg.Id)#0)#0"
	// ------------------------------------------------ claim guards
	nClaim := 0
	okClaim := true
	for _, x := range per["ClaimHTLC"] {
		if !htlcMutating(x.ev.Kind) {
			continue
		}
		nClaim++
		_, ok1 := x.fact(true, "htlc/keeper.Keeper.GetHTLC(keeper, hex.DecodeString(msg.Id)#0) : ok")
		_, ok2a := x.fact(false, ".State} != 0)")
		_, ok2b := x.fact(false, H+".State != 0)")
		_, ok3 := x.fact(true, "bytes.Equal(htlc/types.GetHashLock(hex.DecodeString(msg.Secret)#0, "+H+".Timestamp), hex.DecodeString("+H+".HashLock)#0)")
		if !(ok1 && (ok2a || ok2b) && ok3) {
			okClaim = false
			r.violate("claim-guards", "ClaimHTLC|"+x.ev.Kind+"|"+strings.Join(x.ev.Prefix, ","), x.ev.Pos(cx), fmt.Sprintf("%s reachable in the claim without all of {found: %v, state==Open: %v, hash-lock match bound to stored timestamp: %v} on chain %s", x.ev.Kind, ok1, ok2a || ok2b, ok3, x.ev.Fr.String()))
		}
	}
	if okClaim {
		r.ok("claim-guards", "ClaimHTLC", "", fmt.Sprintf("all %d mutations of the claim are dominated by: found ∧ State==Open ∧ bytes.Equal(GetHashLock(msg.Secret, stored Timestamp), stored HashLock)", nClaim))
	}
	if nClaim < 8 {
		r.toolErr("only %d claim mutations found (≥8 confirmed)", nClaim)
	}
	// ------------------------------------------------ claim payout routes
	var plain, mint, give, burn []hev
	for _, x := range per["ClaimHTLC"] {
		switch x.ev.Kind {
		case "bank.SendCoinsFromModuleToAccount":
			if _, ok := x.fieldFact(true, H+".Transfer"); ok {
				give = append(give, x)
			} else {
				plain = append(plain, x)
			}
		case "bank.MintCoins":
			mint = append(mint, x)
		case "bank.BurnCoins":
			burn = append(burn, x)
		default:
			if strings.HasPrefix(x.ev.Kind, "bank.") {
				r.violate("claim-inventory", "ClaimHTLC|"+x.ev.Kind, x.ev.Pos(cx), "unexpected bank effect in the claim: "+x.ev.Kind)
			}
		}
	}
	// one payout shared by the plain and the mint route (settle: case mint: Mint; fallthrough;
	// case release: Send): it runs whenever the mint does and never where the burn does
	sharedPay := false
	if len(plain) == 1 && len(mint) == 1 && len(give) == 0 && len(burn) == 1 &&
		impliedByFacts(mint[0].w, mint[0].ev, plain[0].ev) && excludedByFacts(burn[0].w, burn[0].ev, plain[0].ev) {
		give = plain
		sharedPay = true
	}
	if len(plain) == 1 && len(mint) == 1 && len(give) == 1 && len(burn) == 1 {
		to := "addr(" + H + ".To)"
		amt := H + ".Amount"
		okEnds := plain[0].ev.Args[2].LooseString() == to && lastArgS(plain[0].ev) == amt && give[0].ev.Args[2].LooseString() == to && lastArgS(give[0].ev) == amt && lastArgS(mint[0].ev) == amt && lastArgS(burn[0].ev) == amt
		r.check(okEnds, "claim-inventory", "ClaimHTLC|endpoints", plain[0].ev.Pos(cx), "payouts go to the stored To with the stored Amount; mint/burn use the stored Amount", "claim payout endpoints/amounts differ from the stored To/Amount: "+plain[0].ev.Args[2].LooseString()+" "+lastArgS(plain[0].ev)+" / "+give[0].ev.Args[2].LooseString()+" "+lastArgS(give[0].ev)+" / mint "+lastArgS(mint[0].ev)+" / burn "+lastArgS(burn[0].ev))
		_, g1 := plain[0].fieldFact(false, H+".Transfer")
		if sharedPay {
			g1 = true // (exclusive with the burn route, implied by the mint route: checked above)
		}
		_, g2a := mint[0].fieldFact(true, H+".Transfer")
		_, g2b := mint[0].fact(true, "("+H+".Direction == 1)")
		_, g3a := burn[0].fieldFact(true, H+".Transfer")
		_, g3b := burn[0].fact(false, "("+H+".Direction == 1)")
		if os.Getenv("DEBUG_C03") != "" {
			fmt.Fprintf(os.Stderr, "C03 routes: g1=%v g2a=%v g2b=%v g3a=%v g3b=%v coex=%v\n  mint frames %s\n", g1, g2a, g2b, g3a, g3b, coExecuted(mint[0].ev, give[0].ev), mint[0].ev.Fr.String())
			for _, ft := range mint[0].w.FactsAt(mint[0].ev.Fr, mint[0].ev.Site) {
				fmt.Fprintf(os.Stderr, "   fact %s\n", trunc(ft.String(), 160))
			}
		}
		r.check(g1 && g2a && g2b && g3a && g3b && (coExecuted(mint[0].ev, give[0].ev) || sharedPay || coExecutedByFacts(mint[0].w, mint[0].ev, give[0].ev)), "claim-routes-exclusive", "ClaimHTLC", mint[0].ev.Pos(cx), "routes are guarded by ¬Transfer | Transfer∧Direction==Incoming (mint then pay) | Transfer∧Direction≠Incoming (burn): pairwise contradictory", "the three claim routes are not guarded by pairwise contradictory conditions on Transfer/Direction")
		// at least one route on every successful path of the function that dispatches
		// (the routes may sit in helpers, switch arms or steps of a first-error combinator:
		// judged in the lowest frame that holds all of them)
		var disp *Frame
		for f := plain[0].ev.Fr; f != nil && disp == nil; f = f.Parent {
			for g := mint[0].ev.Fr; g != nil; g = g.Parent {
				if g == f {
					disp = f
					break
				}
			}
		}
		if disp != nil {
			sites := coveringSites(disp, []hev{plain[0], mint[0], burn[0]})
			okOne := len(sites) > 0 && mustPass(disp.Fn, func(i ssa.Instruction) bool { return sites[i] })
			if !okOne && len(sites) > 0 {
				// the dispatcher switches on a computed kind: judged once per value the kind can
				// have on this chain (a kind that no path produces opens no path)
				okOne = plain[0].w.mustPassPerKind(disp, func(i ssa.Instruction) bool { return sites[i] }) ||
					plain[0].w.mustPassPerAlternatives(disp, func(i ssa.Instruction) bool { return sites[i] })
			}
			okInner := true
			r.check(okOne && okInner, "claim-routes-total", "ClaimHTLC", plain[0].ev.Pos(cx), "every successful claim passes through exactly one payout route", "a successful claim path can avoid every payout route")
		}
	} else {
		r.violate("claim-inventory", "ClaimHTLC|routes", "", fmt.Sprintf("claim routes are not {plain pay ×1, mint ×1 + pay ×1, burn ×1}: plain %d mint %d pay %d burn %d", len(plain), len(mint), len(give), len(burn)))
	}
	// ------------------------------------------------ state assignments (typestate)
	msgReach := cx.Reachable(cx.entryFns(cx.EntriesOf("msg")), nil)
	abciReach := cx.Reachable(cx.entryFns(cx.entriesOfModule("htlc", "abci")), nil)
	nState := 0
	for _, f := range cx.P.AllFuncs {
		if !isConsensusCode(cx, f) || moduleOf(funcPkgPath(f)) != "htlc" || pkgRole(funcPkgPath(f)) == RoleUpgrade {
			continue
		}
		for _, b := range f.Blocks {
			for _, ins := range b.Instrs {
				st, ok := ins.(*ssa.Store)
				if !ok {
					continue
				}
				fa, ok := st.Addr.(*ssa.FieldAddr)
				if !ok || fieldNameShort(fa.X.Type(), fa.Field) != "State" {
					continue
				}
				tn := namedOf(fa.X.Type())
				if tn == nil || tn.Obj().Name() != "HTLC" {
					continue
				}
				// construction of a fresh record is not a transition
				if base, ok := fa.X.(*ssa.Alloc); ok {
					whole := false
					for _, ref := range *base.Referrers() {
						if s2, ok := ref.(*ssa.Store); ok && s2.Addr == base {
							whole = true
						}
					}
					if !whole {
						continue
					}
				}
				nState++
				val := "?"
				if c, ok := st.Val.(*ssa.Const); ok && c.Value != nil {
					val = c.Value.ExactString()
				}
				pos := cx.P.Pos(st.Pos())
				switch val {
				case "1": // Completed
					guarded := false
					for _, df := range dominatingFacts(b) {
						if bo, ok := df.Cond.(*ssa.BinOp); ok && !df.Holds && bo.Op.String() == "!=" && strings.HasSuffix(pureExpr(bo.X, 0), ".State") {
							if c, ok := bo.Y.(*ssa.Const); ok && c.Value != nil && c.Value.ExactString() == "0" {
								guarded = true
							}
						}
					}
					if !guarded {
						// the guard sits in a caller (check / pay / close phases): it holds on every
						// call chain that reaches the assignment
						n, all := 0, true
						for _, evs := range per {
							for _, x := range evs {
								if x.ev.Site != ssa.Instruction(st) {
									continue
								}
								n++
								_, a := x.fact(false, ".State} != 0)")
								_, b := x.fact(false, ".State != 0)")
								_, c := x.fact(true, ".State == 0)")
								if !a && !b && !c {
									all = false
								}
							}
						}
						guarded = n > 0 && all
					}
					r.check(guarded && !abciReach.Has(f), "typestate", "HTLC.State:=Completed", pos, "State := Completed only under the dominating guard State == Open, on the claim path", "State := Completed without a dominating State == Open guard in "+shortFn(f))
				case "2": // Refunded
					r.check(!msgReach.Has(f) && abciReach.Has(f), "typestate", "HTLC.State:=Refunded", pos, "State := Refunded only in "+shortFn(f)+", reachable from the begin blocker and from no message", "State := Refunded in "+shortFn(f)+" which is reachable from a message handler: "+msgReach.Path(f))
				default:
					r.violate("typestate", "HTLC.State:="+val, pos, "assignment of "+val+" to the State of an existing contract in "+shortFn(f))
				}
			}
		}
	}
	if nState != 2 {
		r.toolErr("expected 2 state transitions of stored contracts (Completed, Refunded), found %d", nState)
	}
	// ------------------------------------------------ claim persists and dequeues
	{
		var set, del *hev
		for i, x := range per["ClaimHTLC"] {
			if x.ev.Kind == "store.set" && hasPrefix(x.ev, htlcRec) {
				set = &per["ClaimHTLC"][i]
			}
			if x.ev.Kind == "store.delete" && hasPrefix(x.ev, htlcQueue) {
				del = &per["ClaimHTLC"][i]
			}
		}
		ok := set != nil && del != nil && set.w.chainMust(set.ev.Fr, set.ev.Site) && del.w.chainMust(del.ev.Fr, del.ev.Site) &&
			del.ev.Args[0].LooseString() == "htlc/types.GetHTLCExpiredQueueKey("+H+".ExpirationHeight, hex.DecodeString(msg.Id)#0)" &&
			set.ev.Args[0].LooseString() == "htlc/types.GetHTLCKey(hex.DecodeString(msg.Id)#0)"
		pos := ""
		if set != nil {
			pos = set.ev.Pos(cx)
		}
		r.check(ok, "claim-closes", "ClaimHTLC", pos, "every successful claim rewrites the record under its id and deletes the queue entry (stored ExpirationHeight, id)", "a successful claim does not always rewrite the record and delete the queue entry of (stored ExpirationHeight, id)")
	}
	// ------------------------------------------------ create: duplicate id, escrow in, enqueue
	{
		ID := "htlc/types.GetID(addr(msg.Sender), addr(msg.To), msg.Amount, hex.DecodeString(msg.HashLock)#0)"
		n, okAll := 0, true
		var set, enq *hev
		var escrow []hev
		for i, x := range per["CreateHTLC"] {
			if !htlcMutating(x.ev.Kind) {
				continue
			}
			n++
			if _, ok := x.fact(false, "htlc/keeper.Keeper.HasHTLC(keeper, "+ID+")"); !ok {
				okAll = false
				r.violate("duplicate-id-guard", "CreateHTLC|"+x.ev.Kind+"|"+strings.Join(x.ev.Prefix, ","), x.ev.Pos(cx), x.ev.Kind+" reachable without the fact ¬HasHTLC(GetID(sender,to,amount,hashLock)) on chain "+x.ev.Fr.String())
			}
			if x.ev.Kind == "store.set" && hasPrefix(x.ev, htlcRec) {
				set = &per["CreateHTLC"][i]
			}
			if x.ev.Kind == "store.set" && hasPrefix(x.ev, htlcQueue) {
				enq = &per["CreateHTLC"][i]
			}
			if strings.HasPrefix(x.ev.Kind, "bank.") {
				escrow = append(escrow, x)
			}
		}
		if okAll {
			r.ok("duplicate-id-guard", "CreateHTLC", "", fmt.Sprintf("all %d mutations of CreateHTLC are dominated by ¬HasHTLC(GetID(sender, to, amount, hashLock))", n))
		}
		okKey := set != nil && set.ev.Args[0].LooseString() == "htlc/types.GetHTLCKey("+ID+")" && set.w.chainMust(set.ev.Fr, set.ev.Site)
		r.check(okKey, "create-key", "CreateHTLC", "", "the new record is stored under GetID(sender, to, amount, hashLock) on every successful path", "the new record is not stored under the checked id")
		// the record stores State Open and the expiration height used for the queue
		okQ := false
		if set != nil && enq != nil {
			st := findSub(set.ev.Args[1], func(t *Term) bool { return t.Op == "struct" && t.Name == "HTLC" })
			if st != nil {
				f := map[string]string{}
				for i := 0; i+1 < len(st.Args); i += 2 {
					f[st.Args[i].Name] = st.Args[i+1].LooseString()
				}
				want := "htlc/types.GetHTLCExpiredQueueKey(" + f["ExpirationHeight"] + ", " + ID + ")"
				okQ = f["State"] == "0" && enq.ev.Args[0].LooseString() == want && strings.Contains(f["ExpirationHeight"], "BlockHeight()") && strings.Contains(f["ExpirationHeight"], "msg.TimeLock") &&
					enq.w.chainMust(enq.ev.Fr, enq.ev.Site) && f["Sender"] == "msg.Sender" && f["To"] == "msg.To" && f["Amount"] == "msg.Amount"
			}
		}
		r.check(okQ, "create-enqueue", "CreateHTLC", "", "the new record is Open, records signer/recipient/amount of the message, and is enqueued under its own ExpirationHeight = block height + msg.TimeLock on every successful path", "the new record / its queue entry are not consistent (state, parties, amount or expiration height)")
		okE := len(escrow) == 2
		for _, x := range escrow {
			if x.ev.Kind != "bank.SendCoinsFromAccountToModule" || x.ev.Args[1].LooseString() != "addr(msg.Sender)" || lastArgS(x.ev) != "msg.Amount" {
				okE = false
			}
		}
		r.check(okE, "create-escrow", "CreateHTLC", "", "the only bank effects of creation are signer→htlc(msg.Amount) on the plain and the outgoing route", fmt.Sprintf("creation has %d bank effects or they are not signer→htlc(msg.Amount)", len(escrow)))
	}
	// ------------------------------------------------ queue: who may write, begin-block iteration and dequeue
	for _, f := range cx.P.AllFuncs {
		if !isConsensusCode(cx, f) || pkgRole(funcPkgPath(f)) == RoleUpgrade {
			continue
		}
		for _, p := range cx.primsOf(f) {
			if p.Kind != "store.set" || len(p.Prefix) == 0 || p.Prefix[0] != htlcQueue {
				continue
			}
			// callers must be creation or genesis import
			allowed := true
			for _, e := range cx.EntriesOf("msg", "abci", "callback", "hook", "ante") {
				if e.Module == "htlc" && e.Name == "CreateHTLC" {
					continue
				}
				if cx.Reachable([]*ssa.Function{e.Fn}, nil).Has(f) {
					allowed = false
					r.violate("queue-writers", "0x02|"+e.Role+":"+e.Module+"."+e.Name, cx.P.Pos(p.Site.Pos()), "the expiry queue is written on a path from "+e.Name)
				}
			}
			if allowed {
				r.ok("queue-writers", "0x02", cx.P.Pos(p.Site.Pos()), "the expiry queue is written only from CreateHTLC (and genesis import)")
			}
		}
	}
	{
		var iter, del *hev
		var pays []hev
		for i, x := range per["BeginBlock"] {
			switch {
			case (x.ev.Kind == "store.iter") && hasPrefix(x.ev, htlcQueue):
				iter = &per["BeginBlock"][i]
			case x.ev.Kind == "store.delete" && hasPrefix(x.ev, htlcQueue):
				del = &per["BeginBlock"][i]
			case x.ev.Kind == "bank.SendCoinsFromModuleToAccount":
				pays = append(pays, x)
			case strings.HasPrefix(x.ev.Kind, "bank."):
				r.violate("refund-inventory", "BeginBlock|"+x.ev.Kind, x.ev.Pos(cx), "unexpected bank effect in the begin blocker: "+x.ev.Kind)
			}
		}
		okI := iter != nil && strings.Contains(iter.ev.Args[len(iter.ev.Args)-1].LooseString(), "BlockHeight()")
		r.check(okI, "refund-at-height", "BeginBlock", "", "the begin blocker iterates the queue under the current block height", "the begin blocker does not iterate the expiry queue at the current block height")
		okD := false
		if del != nil && strings.Contains(del.ev.Args[0].LooseString(), "BlockHeight()") {
			if cf, site := closureAncestor(del.ev); cf != nil {
				okD = mustBelowSite(del.ev, cf) && siteMust(site)
			}
		}
		r.check(okD, "refund-dequeues", "BeginBlock", "", "the per-entry closure must-deletes the entry (current height, id) on every path", "the begin-block closure can return without deleting the queue entry it was called for")
		// (the plain and the outgoing route may share one payout statement)
		okP := len(pays) >= 1 && len(pays) <= 2
		for _, x := range pays {
			if x.ev.Args[2].LooseString() != "addr(‹HTLC›.Sender)" || lastArgS(x.ev) != "‹HTLC›.Amount" {
				okP = false
			}
		}
		r.check(okP, "refund-inventory", "BeginBlock", "", "refunds pay the stored Sender the stored Amount (plain and outgoing routes); nothing else leaves escrow at expiry", fmt.Sprintf("begin-block payouts are not exactly 2 × htlc→stored Sender(stored Amount): %d", len(pays)))
		// every refund route closes the contract: after the payout the record is marked
		// Refunded and stored on every path (otherwise it stays open and can still be claimed)
		okC := len(pays) > 0
		bad := ""
		for _, x := range pays {
			closed := false
			for _, a := range per["BeginBlock"] {
				if a.ev.Kind != "assign:HTLC.State" || a.ev.Args[0].LooseString() != "2" || !followedBy(x.ev, a.ev) {
					continue
				}
				for _, st := range per["BeginBlock"] {
					if st.ev.Kind == "store.set" && hasPrefix(st.ev, htlcRec) && followedBy(a.ev, st.ev) {
						closed = true
					}
				}
			}
			if !closed {
				okC = false
				bad = x.ev.Pos(cx)
			}
		}
		r.check(okC, "refund-closes", "BeginBlock", bad, "after each refund payout the contract is marked Refunded and stored, on every path", "a refund payout ("+bad+") is not followed on every path by State := Refunded and the store of the contract: the refunded contract stays open and can be claimed afterwards, paying out a second time")
		r.requireCount("refund-closes", 1)
	}
	_ = types.Typ
	// an open contract restored from genesis is back on the expiry queue (otherwise it is
	// never refunded after a restart from exported state)
	if n := cx.importRebuildRule(r, []string{"htlc"}, "import-rebuilds-queue"); n < 1 {
		r.toolErr("htlc import: no record/queue pair found in the import loop (%d)", n)
	}
	r.requireCount("claim-guards", 1)
	r.requireCount("typestate", 2)
	r.requireCount("queue-writers", 1)
}

// ------------------------------------------------------------------- C04

func runC04(cx *Ctx, r *Report) {
	r.Explanation = "F4 double entry between the six cross-chain supply counters (AssetSupply.Incoming/Outgoing/Current[/TimeLimitedCurrent], recognised as field updates old±coin) and the bank effects of the HTLC module, over every call chain of CreateHTLC, ClaimHTLC and the begin blocker. Pairing (co-executed, same coin): Current+ ↔ MintCoins, Current− ↔ BurnCoins, Outgoing+ ↔ signer→escrow, Outgoing− ↔ BurnCoins (claim) or escrow→sender (refund), Incoming+ ↔ no bank effect, Incoming− ↔ MintCoins (claim) or none (refund); every mint/burn/escrow movement of a cross-chain transfer is matched conversely. Guards: increments hold ¬(limit < total+coin) (and the time-based twin under TimeLimited), decrements hold ¬IsNegative(counter − amount), Outgoing+ holds ¬(current < outgoing+coin). Who-may-write: the supply prefix 0x03 is written only next to such a counter update, by the time-window reset of the begin blocker, or by genesis. Decides the bookkeeping structure on all paths; (time window) in the begin blocker each asset's TimeElapsed advances by exactly block time − stored previous block time, with no value carried between assets, under TimeLimited ∧ old+Δ < TimePeriod, else the window and the time-limited supply are reset together, and the reference time moves to this block. Equality with the bank supply over histories is not decided."
	r.Assumptions = []string{"bank keeper semantics", "counters and escrow start consistent (genesis validation)"}
	per := htlcEvents(cx, r)
	type dl struct {
		x     hev
		field string
		sign  string
		coin  string
	}
	kc := keyCounter{}
	for _, name := range []string{"CreateHTLC", "ClaimHTLC", "BeginBlock"} {
		var deltas []dl
		var banks []hev
		for _, x := range per[name] {
			if strings.HasPrefix(x.ev.Kind, "delta:AssetSupply.") {
				p := strings.Split(strings.TrimPrefix(x.ev.Kind, "delta:AssetSupply."), ":")
				deltas = append(deltas, dl{x, p[0], p[1], x.ev.Args[0].LooseString()})
			}
			if strings.HasPrefix(x.ev.Kind, "bank.") {
				banks = append(banks, x)
			}
		}
		usedBank := map[*Event]bool{}
		findBank := func(d dl, kinds ...string) *hev {
			for i, b := range banks {
				for _, k := range kinds {
					if b.ev.Kind != k {
						continue
					}
					amt := lastArgS(b.ev)
					// coin d.coin is amount[0] of the coins moved
					if amt+"[0]" != d.coin {
						continue
					}
					// (the counter update implies the bank effect: the two run together, or every path
					// from the update to a success exit passes the bank effect - a payout shared with
					// the plain route after the switch; the converse is the double-entry-converse rule)
					if coExecuted(d.x.ev, b.ev) || sameCase(d.x.ev, b.ev) || followedBy(d.x.ev, b.ev) || coExecutedByFacts(d.x.w, d.x.ev, b.ev) || impliedByFacts(d.x.w, d.x.ev, b.ev) {
						return &banks[i]
					}
				}
			}
			return nil
		}
		for _, d := range deltas {
			key := kc.next(name + "|" + d.field + d.sign)
			pos := d.x.ev.Pos(cx)
			switch d.field + d.sign {
			case "CurrentSupply+":
				b := findBank(d, "bank.MintCoins")
				r.check(b != nil, "double-entry", key, pos, "Current += coin is co-executed with MintCoins of the same coins", "Current supply raised by "+d.coin+" without a co-executed MintCoins of the same coins")
				if b != nil {
					usedBank[b.ev] = true
				}
				_, g := d.x.fact(false, "sdk.Coin.IsLT(coin(", ".Limit), sdk.Coin.Add(", ".CurrentSupply")
				r.check(g, "limit-guard", key, pos, "¬(limit < current + coin) dominates the increment", "Current supply incremented without the total-limit comparison")
			case "TimeLimitedCurrentSupply+":
				_, g := d.x.fact(false, "sdk.Coin.IsLT(coin(", ".TimeBasedLimit), sdk.Coin.Add(")
				_, g2 := d.x.fact(true, ".TimeLimited")
				r.check(g && g2, "limit-guard", key, pos, "under TimeLimited, ¬(time-based limit < window total + coin) dominates the increment", "time-limited supply incremented without its limit comparison")
			case "CurrentSupply-":
				b := findBank(d, "bank.BurnCoins")
				r.check(b != nil, "double-entry", key, pos, "Current −= coin is co-executed with BurnCoins of the same coins", "Current supply lowered by "+d.coin+" without a co-executed BurnCoins")
				if b != nil {
					usedBank[b.ev] = true
				}
				_, g := d.x.fact(false, "math.Int.LT(", ".CurrentSupply")
				r.check(g, "limit-guard", key, pos, "¬IsNegative(current − amount) dominates the decrement", "Current supply decremented without the non-negativity check")
			case "IncomingSupply+":
				_, g := d.x.fact(false, "sdk.Coin.IsLT(coin(", ".Limit), sdk.Coin.Add(sdk.Coin.Add(", ".IncomingSupply")
				r.check(g, "limit-guard", key, pos, "¬(limit < current + incoming + coin) dominates the increment", "Incoming supply incremented without the total-limit comparison")
				dir := directionEdgeGuard(d.x, "1", true)
				r.check(dir, "direction-guard", key, pos, "the direction value Incoming is assigned only under the fact signer == asset deputy", "Incoming supply incremented on a path where the signer need not be the deputy")
			case "IncomingSupply-":
				if name == "ClaimHTLC" {
					b := findBank(d, "bank.MintCoins")
					r.check(b != nil, "double-entry", key, pos, "claim: Incoming −= coin is co-executed with MintCoins of the same coins", "Incoming supply lowered in the claim without a co-executed MintCoins")
				} else {
					r.ok("double-entry", key, pos, "refund of an incoming transfer: Incoming −= coin with no bank effect (nothing was escrowed)")
				}
				_, g := d.x.fact(false, "math.Int.LT(", ".IncomingSupply")
				r.check(g, "limit-guard", key, pos, "¬IsNegative(incoming − amount) dominates the decrement", "Incoming supply decremented without the non-negativity check")
			case "OutgoingSupply+":
				b := findBank(d, "bank.SendCoinsFromAccountToModule")
				r.check(b != nil && b.ev.Args[1].LooseString() == "addr(msg.Sender)", "double-entry", key, pos, "Outgoing += coin is co-executed with signer→escrow of the same coins", "Outgoing supply raised without a co-executed signer→escrow transfer of the same coins")
				if b != nil {
					usedBank[b.ev] = true
				}
				dir := directionEdgeGuard(d.x, "2", false)
				r.check(dir, "direction-guard", key, pos, "the direction value Outgoing is assigned only under the fact signer != asset deputy", "Outgoing supply incremented on a path where the signer may be the deputy")
				_, g := d.x.fact(false, "sdk.Coin.IsLT(", ".CurrentSupply, sdk.Coin.Add(", ".OutgoingSupply")
				r.check(g, "limit-guard", key, pos, "¬(current < outgoing + coin) dominates the increment", "Outgoing supply incremented without the available-supply comparison")
			case "OutgoingSupply-":
				want := "bank.BurnCoins"
				if name == "BeginBlock" {
					want = "bank.SendCoinsFromModuleToAccount"
				}
				b := findBank(d, want)
				r.check(b != nil, "double-entry", key, pos, "Outgoing −= coin is co-executed with "+want+" of the same coins", "Outgoing supply lowered without a co-executed "+want)
				if b != nil {
					usedBank[b.ev] = true
				}
				_, g := d.x.fact(false, "math.Int.LT(", ".OutgoingSupply")
				r.check(g, "limit-guard", key, pos, "¬IsNegative(outgoing − amount) dominates the decrement", "Outgoing supply decremented without the non-negativity check")
			case "TimeElapsed+":
			default:
				r.violate("double-entry", key, pos, "unrecognised supply counter update "+d.field+d.sign)
			}
		}
		// a counter is only ever moved by ±coin (the updates above); a plain assignment rewrites
		// the books. The one exception is the begin blocker's window reset / new-asset
		// initialisation, which writes zero.
		for _, x := range per[name] {
			if !strings.HasPrefix(x.ev.Kind, "assign:AssetSupply.") {
				continue
			}
			field := strings.TrimPrefix(x.ev.Kind, "assign:AssetSupply.")
			val := x.ev.Args[0].LooseString()
			zero := val == "0" || strings.HasSuffix(val, ", math.ZeroInt())") || val == "math.ZeroInt()"
			okA := name == "BeginBlock" && zero && (field == "TimeElapsed" || field == "TimeLimitedCurrentSupply")
			if name == "BeginBlock" && field == "TimeElapsed" {
				continue // judged by the time-window rule below
			}
			r.check(okA, "counter-assign", kc.next(name+"|"+field), x.ev.Pos(cx), "the only plain assignment to "+field+" is the window reset to zero", "supply counter "+field+" is overwritten with "+trunc(val, 160)+" in "+name+" instead of being moved by the transferred coin: the amount already counted against the limit is rewritten")
		}
		// converse: every mint / burn, and every escrow movement of a cross-chain transfer, is matched
		for _, b := range banks {
			transfer := false
			for _, s := range []string{".Transfer"} {
				if _, ok := b.fieldFact(true, s); ok {
					transfer = true
				}
			}
			if b.ev.Kind == "bank.MintCoins" || b.ev.Kind == "bank.BurnCoins" || (transfer && b.ev.Kind == "bank.SendCoinsFromAccountToModule") || (transfer && name == "BeginBlock") {
				key := kc.next(name + "|" + b.ev.Kind)
				matched := usedBank[b.ev]
				if !matched && b.ev.Kind == "bank.MintCoins" {
					matched = true // matched through Incoming− (checked above) and Current+
					matched = usedBank[b.ev]
				}
				r.check(matched, "double-entry-converse", key, b.ev.Pos(cx), b.ev.Kind+" of a cross-chain transfer is matched by a counter update", b.ev.Kind+" of a cross-chain transfer ("+lastArgS(b.ev)+") has no matching counter update")
			}
		}
	}
	// who may write the supply prefix
	for _, name := range sortedKeys(per) {
		for _, x := range per[name] {
			if x.ev.Kind != "store.set" || !hasPrefix(x.ev, htlcSup) {
				continue
			}
			// the frame that marshals the supply must be called from a frame holding a counter update,
			// or be the begin blocker's window reset / new-asset initialisation
			ok := false
			why := ""
			// (the writer may sit below further thin helpers: SetAssetSupply → saveAssetSupply)
			for parent := x.ev.Fr.Parent; parent != nil && !ok; parent = parent.Parent {
				for _, y := range per[name] {
					if y.ev.Fr == parent && (strings.HasPrefix(y.ev.Kind, "delta:AssetSupply.") || strings.HasPrefix(y.ev.Kind, "assign:AssetSupply.")) {
						ok = true
						why = "next to " + y.ev.Kind
					}
				}
			}
			// … or the value is the stored record itself with some fields assigned, wherever the
			// assignments are spelled (inline, or in a helper that returns the updated copy)
			if !ok {
				var isUpdate func(t *Term, d int) bool
				isUpdate = func(t *Term, d int) bool {
					if t == nil || d > 6 {
						return false
					}
					switch {
					case t.Op == "phi" && len(t.Args) > 0:
						for _, a := range t.Args {
							if !isUpdate(a, d+1) {
								return false
							}
						}
						return true
					case t.Op == "upd" && t.Name == "AssetSupply" && len(t.Args) >= 1:
						return isUpdate(t.Args[0], d+1) || isStored(t.Args[0], d+1)
					}
					return false
				}
				v := x.ev.Args[1]
				if v.Op == "call" && strings.HasSuffix(v.Name, "MustMarshal") && len(v.Args) == 2 {
					v = v.Args[1]
				}
				if isUpdate(v, 0) {
					ok = true
					why = "the stored record with some of its fields assigned"
				}
			}
			if !ok && strings.Contains(x.ev.Args[1].LooseString(), "math.ZeroInt()") {
				// a fresh all-zero record may only be written where none exists for the denom:
				// anywhere else it wipes the counters of open transfers and minted coins
				_, kargs := callArgsOf(x.ev.Args[0])
				if len(kargs) > 0 && cx.absenceFact(x.w.FactsAt(x.ev.Fr, x.ev.Site), htlcSup, kargs[len(kargs)-1]) {
					ok = true
					why = "initialisation of a new asset's counters with zero, under the fact that no supply record exists for that denom"
				} else {
					r.violate("supply-writers", kc.next(name+"|0x03"), x.ev.Pos(cx), "an all-zero supply record is written in "+name+" on chain "+x.ev.Fr.String()+" without the fact that no record exists for the denom: the recorded incoming / outgoing / current supply of an asset with open transfers or minted coins is wiped")
					continue
				}
			}
			r.check(ok, "supply-writers", kc.next(name+"|0x03"), x.ev.Pos(cx), "supply record written "+why, "supply record written on chain "+x.ev.Fr.String()+" without a recognised counter update")
		}
	}
	// ------------------------------------------------ time window of the time-based limit
	{
		evs := per["BeginBlock"]
		var adv, other []hev
		for _, x := range evs {
			switch {
			case x.ev.Kind == "delta:AssetSupply.TimeElapsed:+":
				adv = append(adv, x)
			case strings.HasPrefix(x.ev.Kind, "delta:AssetSupply.TimeElapsed") || x.ev.Kind == "assign:AssetSupply.TimeElapsed":
				other = append(other, x)
			}
		}
		prevGetters := cx.gettersOf("htlc", []string{"htlc:PreviousBlockTimeKey=0x04"})
		ok := len(adv) == 1
		pos, why := "", fmt.Sprintf("%d additive updates of AssetSupply.TimeElapsed in the begin blocker (expected 1)", len(adv))
		if ok {
			x := adv[0]
			pos = x.ev.Pos(cx)
			v := x.ev.Args[0]
			vs := v.LooseString()
			fromPrev := false
			for _, g := range prevGetters {
				if strings.Contains(vs, callNameOfFn(g)+"(") {
					fromPrev = true
				}
			}
			_, gPeriod := x.factOrdered(true, ".TimeElapsed", " < ", ".SupplyLimit.TimePeriod")
			_, gLimited := x.fact(true, ".SupplyLimit.TimeLimited")
			switch {
			case strings.Contains(vs, "⟲"):
				ok, why = false, "the amount added to an asset's TimeElapsed depends on a value carried over from the previous loop iteration (another asset): "+trunc(vs, 160)
			case !(v.Op == "call" && v.Name == "time.Time.Sub" && len(v.Args) == 2 && v.Args[0].LooseString() == "sdk.Context.BlockTime()" && fromPrev):
				ok, why = false, "the amount added to an asset's TimeElapsed is not (block time − stored previous block time): "+trunc(vs, 160)
			case !gPeriod || !gLimited:
				ok, why = false, "the window is advanced without the guard TimeLimited ∧ old+Δ < TimePeriod"
			}
		}
		if !ok {
			for _, x := range other {
				if vs := x.ev.Args[0].LooseString(); strings.Contains(vs, "⟲") {
					why, pos = "an asset's TimeElapsed is set from a value carried over from the previous loop iteration (another asset's elapsed time leaks into this asset's window): "+trunc(vs, 200), x.ev.Pos(cx)
				}
			}
		}
		for _, x := range other {
			zero := x.ev.Kind == "assign:AssetSupply.TimeElapsed" && x.ev.Args[0].LooseString() == "0"
			reset := false
			for _, y := range evs {
				if y.ev.Kind == "assign:AssetSupply.TimeLimitedCurrentSupply" && y.ev.Site.Block() == x.ev.Site.Block() && strings.HasSuffix(y.ev.Args[0].LooseString(), ", math.ZeroInt())") {
					reset = true
				}
			}
			if ok && !(zero && reset) {
				ok, why, pos = false, "TimeElapsed is overwritten with "+trunc(x.ev.Args[0].LooseString(), 120)+" (only the window reset {TimeElapsed := 0, TimeLimitedCurrentSupply := 0} may overwrite it)", x.ev.Pos(cx)
			}
		}
		// the reference point moves to this block's time on every path that advanced a window
		setPrev := pick(evs, "store.set", func(y hev) bool {
			return hasPrefix(y.ev, "htlc:PreviousBlockTimeKey=0x04") && strings.Contains(y.ev.Args[1].LooseString(), "sdk.Context.BlockTime()")
		})
		if ok && len(adv) == 1 {
			moved := false
			for _, y := range setPrev {
				if followedBy(adv[0].ev, y.ev) {
					moved = true
				}
			}
			if !moved {
				ok, why = false, "after advancing the windows the stored previous block time is not set to this block's time on every path"
			}
		}
		r.check(ok, "time-window", "BeginBlock", pos, "each asset's window advances by exactly (block time − stored previous block time), independently of the other assets, under TimeLimited ∧ old+Δ < TimePeriod; otherwise it is reset together with the time-limited supply; the reference time then moves to this block", "time window of the time-based limit: "+why)
	}
	cx.lostUpdateRule(r, []string{"htlc"}, 8)
	cx.scanPrefixClosedRule(r, []string{"htlc"}, "scan-prefix-closed")
	cx.keyEncodingUniformRule(r, []string{"htlc"}, "key-encoding-uniform")
	{
		walks := map[string]*c13Walk{}
		cx.closeDequeuesRule(r, func(e Entry) *c13Walk {
			k := entryKey(&e)
			if walks[k] == nil {
				ee := e
				walks[k] = cx.c13WalkEntry(&ee, r)
			}
			return walks[k]
		})
		r.requireCount("close-dequeues", 1)
	}
	r.requireCount("time-window", 1)
	r.requireCount("double-entry", 7)
	// the limit that the counter checks read is the stored one (rule shared with C16)
	cx.paramGettersVerbatim(r, []string{"htlc"}, "param-getter-verbatim")
	r.requireCount("limit-guard", 9)
	r.requireCount("supply-writers", 6)
}

// sameCase: both events sit in the same frame chain prefix and the same switch
// case / block region of their lowest common frame (one dominates the other).
func sameCase(a, b *Event) bool {
	return orderedBefore(a, b) || orderedBefore(b, a)
}

// directionEdgeGuard: the counter update sits under a test `d == <val>` of a
// value d that is a φ of constants; the edge that carries constant val into the
// φ must come from a block holding the fact Equals(signer, deputy) with the
// given polarity (the guard dominates the assignment, not the merged use).
func directionEdgeGuard(x hev, val string, wantEquals bool) bool {
	w := x.w
	// the deputy comparison is a fact of the chain itself (the direction is the type of a
	// route object chosen under it, or a plan value worked out from it)
	for _, ft := range w.FactsAt(x.ev.Fr, x.ev.Site) {
		if ft.Holds == wantEquals && strings.Contains(ft.Text, "sdk.AccAddress.Equals(addr(msg.Sender), addr(") && strings.Contains(ft.Text, ".DeputyAddress") && !strings.Contains(ft.Text, " : ") {
			return true
		}
	}
	// walk up the frames: find a dominating comparison φ == val
	cur := ssa.Instruction(x.ev.Site)
	for f := x.ev.Fr; f != nil; f = f.Parent {
		if cur != nil {
			for _, df := range dominatingFacts(cur.Block()) {
				bo, ok := df.Cond.(*ssa.BinOp)
				if !ok || bo.Op.String() != "==" || !df.Holds {
					continue
				}
				phi, ok := bo.X.(*ssa.Phi)
				c, ok2 := bo.Y.(*ssa.Const)
				if ok2 && !ok && c.Value != nil && c.Value.ExactString() == val {
					// the direction computed by a helper: on each of its returns that yields this
					// value the deputy comparison has been decided the right way
					var call *ssa.Call
					idx := 0
					switch y := bo.X.(type) {
					case *ssa.Extract:
						call, _ = y.Tuple.(*ssa.Call)
						idx = y.Index
					case *ssa.Call:
						call = y
					}
					if call != nil {
						if g := call.Common().StaticCallee(); g != nil && g.Blocks != nil && isIrismodFunc(g) && !onChain(f, g) {
							nfr := &Frame{Fn: g, Parent: f, Call: call, Depth: f.Depth + 1}
							found := false
							for _, ret := range returnsOf(g) {
								if isFailureReturn(ret) || idx >= len(ret.Results) {
									continue
								}
								rc, isC := ret.Results[idx].(*ssa.Const)
								if !isC || rc.Value == nil || rc.Value.ExactString() != val {
									continue
								}
								okRet := false
								for _, ft := range w.blockFacts(nfr, ret.Block(), 0) {
									if ft.Holds == wantEquals && strings.Contains(ft.Text, "sdk.AccAddress.Equals(addr(msg.Sender), addr(") && strings.Contains(ft.Text, ".DeputyAddress") && !strings.Contains(ft.Text, " : ") {
										okRet = true
									}
								}
								if !okRet {
									return false
								}
								found = true
							}
							return found
						}
					}
				}
				if !ok || !ok2 || c.Value == nil || c.Value.ExactString() != val {
					continue
				}
				found := false
				for i, e := range phi.Edges {
					ec, ok := e.(*ssa.Const)
					if !ok || ec.Value == nil || ec.Value.ExactString() != val {
						continue
					}
					pred := phi.Block().Preds[i]
					okEdge := false
					efs := w.blockFacts(f, pred, 0)
					// the edge itself: d := A; if c { d = B } - the value A arrives on the false edge of c
					if ifi, ok := pred.Instrs[len(pred.Instrs)-1].(*ssa.If); ok && len(pred.Succs) == 2 && pred.Succs[0] != pred.Succs[1] {
						efs = append(efs, withEquivalents(w.boolValueFacts(f, ifi.Cond, pred.Succs[0] == phi.Block(), 0))...)
					}
					for _, ft := range efs {
						if ft.Holds == wantEquals && strings.Contains(ft.Text, "sdk.AccAddress.Equals(addr(msg.Sender), addr(") && strings.Contains(ft.Text, ".DeputyAddress") && !strings.Contains(ft.Text, " : ") {
							okEdge = true
						}
					}
					if !okEdge {
						return false
					}
					found = true
				}
				return found
			}
		}
		if f.Call != nil {
			cur = f.Call
		} else if f.MC != nil {
			cur = f.MC
		} else {
			cur = nil
		}
	}
	return false
}

// isStored: the supply record as read from the store (or the one just created for a new
// asset, whose write is a supply writer of its own), possibly one of several alternatives.
func isStored(t *Term, d int) bool {
	if t == nil || d > 8 {
		return false
	}
	switch t.Op {
	case "phi":
		if len(t.Args) == 0 {
			return false
		}
		for _, a := range t.Args {
			if !isStored(a, d+1) {
				return false
			}
		}
		return true
	case "extract":
		return t.Name == "0" && len(t.Args) == 1 && isStored(t.Args[0], d+1)
	case "call":
		return strings.HasSuffix(t.Name, "Keeper.GetAssetSupply") || strings.HasSuffix(t.Name, "Keeper.CreateNewAssetSupply")
	}
	return false
}
