package main

// Origin descriptors ("terms"): a symbolic rendering of an SSA value in terms of
// the entry point's parameters, constants, globals and call results, computed
// along one call chain (frames bind callee parameters to caller arguments).

import (
	"fmt"
	"go/constant"
	"go/token"
	"go/types"
	"os"
	"sort"
	"strconv"
	"strings"

	"golang.org/x/tools/go/ssa"
)

type Term struct {
	Op   string // param const global field call extract phi bin un index alloc closure free ctx keeper nil
	Name string
	Args []*Term
	Site token.Pos
	// src/fr: for an opaque call term, the call and the frame it was evaluated in
	// (field projections look into the callee, see Terms.field)
	src *ssa.Call
	fr  *Frame
	// literal: a struct term assembled from a composite literal (every field not listed
	// holds its zero value)
	literal bool
	// ms: for a make([]T, n) term, the allocation (elements assigned at one place: elemOf)
	ms *ssa.MakeSlice
	// ix: for a map(in, elem) term, how the loop index reads inside elem
	ix string
}

func (t *Term) String() string      { return t.render(true) }
func (t *Term) LooseString() string { return t.render(false) }

func (t *Term) render(strict bool) string {
	if t == nil {
		return "∅"
	}
	var as []string
	for _, a := range t.Args {
		as = append(as, a.render(strict))
	}
	switch t.Op {
	case "param", "free":
		return t.Name
	case "const":
		return t.Name
	case "global":
		return t.Name
	case "ctx", "keeper", "nil":
		return t.Op
	case "field":
		return as[0] + "." + t.Name
	case "extract":
		return as[0] + "#" + t.Name
	case "index":
		return as[0] + "[" + strings.Join(as[1:], ",") + "]"
	case "phi":
		return "φ{" + strings.Join(as, "|") + "}"
	case "bin":
		return "(" + as[0] + " " + t.Name + " " + as[1] + ")"
	case "un":
		return t.Name + as[0]
	case "alloc":
		if strict {
			return fmt.Sprintf("new:%s@%d", t.Name, t.Site)
		}
		return "new:" + t.Name
	case "call":
		s := t.Name + "(" + strings.Join(as, ", ") + ")"
		if strict && t.Site.IsValid() {
			s += fmt.Sprintf("@%d", t.Site)
			// the invocation the call was evaluated in: two inlined invocations of one helper
			// evaluate the same source call, but they are different call instances
			if t.fr != nil && t.fr.Parent != nil {
				s += "/" + framePath(t.fr)
			}
		}
		return s
	case "closure":
		return "closure:" + t.Name
	}
	return t.Op + ":" + t.Name + "(" + strings.Join(as, ",") + ")"
}

func mk(op, name string, args ...*Term) *Term { return &Term{Op: op, Name: name, Args: args} }

// Frame: one activation on a call chain.
type Frame struct {
	Fn     *ssa.Function
	Parent *Frame
	Call   ssa.CallInstruction // call site in Parent that created this frame (nil for entries and closures)
	MC     *ssa.MakeClosure    // for closure frames: creation site in Parent
	// Via / ViaSite: for a closure entered where it is passed as an argument
	// (k.IterateX(ctx, handler)): the frame and call instruction of that use. Free
	// variables bind through Parent (the creating frame); branch facts follow Via.
	Via     *Frame
	ViaSite ssa.Instruction
	Depth   int
	// ArgsFr: the frame the arguments of Call are evaluated in, when that is not Parent
	// (a closure called through a function-typed parameter: free variables bind in the
	// creating frame, arguments in the calling one)
	ArgsFr *Frame
	// Assume: this activation was reached through a dispatch table (m[key](…) with m a
	// package-level map literal): in it, key == the constant the callee is stored under
	Assume *assumption
}

type assumption struct {
	key ssa.Value // the lookup key, a value of the calling function
	val string    // exact constant string of the table key
}

func (fr *Frame) String() string {
	var parts []string
	for f := fr; f != nil; f = f.Parent {
		parts = append([]string{shortFn(f.Fn)}, parts...)
	}
	return strings.Join(parts, " → ")
}

type termKey struct {
	v  ssa.Value
	fr *Frame
}

type Terms struct {
	at   ssa.Instruction // the instruction whose operands are being evaluated (in-place big numbers)
	cur  ssa.Instruction // the load being resolved (flow-sensitive store filtering)
	cx   *Ctx
	memo map[termKey]*Term
	busy map[termKey]bool
}

func newTerms(cx *Ctx) *Terms {
	return &Terms{cx: cx, memo: map[termKey]*Term{}, busy: map[termKey]bool{}}
}

func isCtxType(t types.Type) bool {
	return typeIs(t, "github.com/cosmos/cosmos-sdk/types", "Context") || typeIs(t, "context", "Context")
}

func isKeeperStruct(t types.Type) bool {
	n := namedOf(t)
	if n == nil || n.Obj().Pkg() == nil {
		return false
	}
	if _, ok := n.Underlying().(*types.Struct); !ok {
		return false
	}
	name := n.Obj().Name()
	return strings.HasPrefix(n.Obj().Pkg().Path(), modPrefix) && (name == "Keeper" || name == "msgServer" || name == "legacyMsgServer" || strings.HasSuffix(name, "Keeper"))
}

func (ts *Terms) Of(v ssa.Value, fr *Frame) *Term {
	return ts.of(v, fr, 0)
}

func (ts *Terms) of(v ssa.Value, fr *Frame, depth int) *Term {
	if v == nil {
		return mk("nil", "")
	}
	if depth > 60 {
		return mk("const", "?deep")
	}
	// a *big.Int accumulated in place (sum.Add(sum, x)): its value depends on where it is used
	if ts.at != nil && depth < 50 {
		if t := ts.bigPtrState(v, fr, depth); t != nil {
			return t
		}
	}
	k := termKey{v, fr}
	if t, ok := ts.memo[k]; ok {
		return t
	}
	if ts.busy[k] {
		return mk("const", "⟲")
	}
	ts.busy[k] = true
	t := canon(ts.compute(v, fr, depth))
	delete(ts.busy, k)
	ts.memo[k] = t
	return t
}

func (ts *Terms) compute(v ssa.Value, fr *Frame, depth int) *Term {
	if isCtxType(v.Type()) {
		return mk("ctx", "")
	}
	if isKeeperStruct(v.Type()) {
		return mk("keeper", "")
	}
	switch x := v.(type) {
	case *ssa.Const:
		if x.IsNil() || x.Value == nil {
			if x.IsNil() {
				return mk("nil", "")
			}
			return mk("const", "zero:"+x.Type().String())
		}
		if x.Value.Kind() == constant.String {
			return mk("const", fmt.Sprintf("%q", constant.StringVal(x.Value)))
		}
		return mk("const", x.Value.ExactString())
	case *ssa.Global:
		return mk("global", shortPkg(x.Pkg.Pkg.Path())+"."+x.Name())
	case *ssa.Function:
		return mk("closure", shortFn(x))
	case *ssa.Parameter:
		if fr != nil && fr.Call != nil {
			fn := x.Parent()
			idx := -1
			for i, p := range fn.Params {
				if p == x {
					idx = i
				}
			}
			c := fr.Call.Common()
			args := c.Args
			if c.IsInvoke() {
				// receiver = c.Value, then args
				if idx == 0 {
					return ts.of(c.Value, fr.Parent, depth+1)
				}
				idx--
			}
			// bound method closures: receiver is a free var of the $bound wrapper;
			// static calls carry receiver as Args[0]
			if idx >= 0 && idx < len(args) {
				if fr.ArgsFr != nil {
					return ts.of(args[idx], fr.ArgsFr, depth+1)
				}
				return ts.of(args[idx], fr.Parent, depth+1)
			}
		}
		if n := namedOf(x.Type()); n != nil && strings.HasPrefix(n.Obj().Name(), "Msg") {
			if _, isPtr := x.Type().(*types.Pointer); isPtr {
				return mk("param", "msg") // the request of a message handler, whatever it is called
			}
		}
		// an unbound parameter holding an irismod record (iterator callbacks): name it by its type
		if n := namedOf(x.Type()); n != nil && n.Obj().Pkg() != nil && strings.HasPrefix(n.Obj().Pkg().Path(), modPrefix) && strings.Contains(n.Obj().Pkg().Path(), "/types") {
			if _, isStruct := n.Underlying().(*types.Struct); isStruct {
				return mk("param", "‹"+n.Obj().Name()+"›")
			}
		}
		if n := callbackParamName(x); n != "" {
			return mk("param", n)
		}
		return mk("param", x.Name())
	case *ssa.FreeVar:
		if fr != nil && fr.MC != nil {
			fn := x.Parent()
			for i, fv := range fn.FreeVars {
				if fv == x && i < len(fr.MC.Bindings) {
					b := fr.MC.Bindings[i]
					// bindings of captured variables are addresses (allocs); the free
					// var is then loaded. Keep the address term; loads resolve below.
					return ts.of(b, fr.Parent, depth+1)
				}
			}
		}
		return mk("free", x.Name())
	case *ssa.Alloc:
		// pointer to a struct assembled in place (&T{...}): render the contents
		if _, isStruct := x.Type().(*types.Pointer).Elem().Underlying().(*types.Struct); isStruct {
			hasWhole := false
			for _, r := range *x.Referrers() {
				if st, ok := r.(*ssa.Store); ok && st.Addr == x {
					hasWhole = true
				}
			}
			if !hasWhole {
				if t := ts.loadAlloc(x, nil, fr, depth+1); t.Op == "struct" {
					return t
				}
			} else {
				// &v of a variable holding a value: render the value
				return ts.loadAlloc(x, nil, fr, depth+1)
			}
		}
		return &Term{Op: "alloc", Name: x.Comment, Site: x.Pos()}
	case *ssa.MakeInterface:
		return ts.of(x.X, fr, depth+1)
	case *ssa.ChangeType:
		return ts.of(x.X, fr, depth+1)
	case *ssa.ChangeInterface:
		return ts.of(x.X, fr, depth+1)
	case *ssa.Convert:
		return ts.of(x.X, fr, depth+1)
	case *ssa.TypeAssert:
		return ts.of(x.X, fr, depth+1)
	case *ssa.Slice:
		// make([]byte, 8) with constant size is `new [8]byte (makeslice)` sliced
		if a, ok := x.X.(*ssa.Alloc); ok && a.Comment == "makeslice" {
			if v := putUint64Into(x, 8); v != nil {
				return mk("call", "sdk.Uint64ToBigEndian", ts.of(v, fr, depth+1))
			}
		}
		if x.Low == nil && x.High == nil {
			if el := variadicElems(x); len(el) > 0 {
				t := mk("call", "varargs")
				for _, e := range el {
					if e == nil {
						t.Args = append(t.Args, mk("nil", ""))
						continue
					}
					t.Args = append(t.Args, ts.of(e, fr, depth+1))
				}
				return t
			}
			return ts.of(x.X, fr, depth+1)
		}
		return mk("index", "slice", ts.of(x.X, fr, depth+1), ts.of(x.Low, fr, depth+1), ts.of(x.High, fr, depth+1))
	case *ssa.FieldAddr:
		return zeroIfUnset(ts.field(ts.of(x.X, fr, depth+1), fieldNameShort(x.X.Type(), x.Field)), fieldTypeOf(x.X.Type(), x.Field))
	case *ssa.Field:
		return zeroIfUnset(ts.field(ts.of(x.X, fr, depth+1), fieldNameShort(x.X.Type(), x.Field)), fieldTypeOf(x.X.Type(), x.Field))
	case *ssa.IndexAddr:
		return mk("index", "", ts.of(x.X, fr, depth+1), ts.of(x.Index, fr, depth+1))
	case *ssa.Index:
		return mk("index", "", ts.of(x.X, fr, depth+1), ts.of(x.Index, fr, depth+1))
	case *ssa.Lookup:
		// a lookup in a constant table (a package-level map literal nothing writes to)
		// yields one of its values, or the zero value for a missing key
		if ld, ok := x.X.(*ssa.UnOp); ok && ld.Op == token.MUL && !x.CommaOk {
			if g, ok := ld.X.(*ssa.Global); ok {
				if ents, ok := ts.cx.constTable(g); ok {
					m := map[string]*Term{}
					all := true
					for _, e := range ents {
						c, isC := e.v.(*ssa.Const)
						if !isC || c.Value == nil {
							all = false
							break
						}
						t := ts.of(c, fr, depth+1)
						m[t.String()] = t
					}
					if bt, isB := x.Type().Underlying().(*types.Basic); all && isB {
						var z *Term
						switch {
						case bt.Info()&types.IsInteger != 0:
							z = mk("const", "0")
						case bt.Info()&types.IsBoolean != 0:
							z = mk("const", "false")
						case bt.Info()&types.IsString != 0:
							z = mk("const", `""`)
						}
						if z != nil {
							m[z.String()] = z
							return phiOf(m)
						}
					}
				}
			}
		}
		return mk("index", "", ts.of(x.X, fr, depth+1), ts.of(x.Index, fr, depth+1))
	case *ssa.Extract:
		if c, ok := x.Tuple.(*ssa.Call); ok {
			if t := ts.helperInline(c, fr, x.Index); t != nil {
				return t
			}
			if cc := c.Common(); !cc.IsInvoke() && cc.StaticCallee() == nil && resolveFnValue(cc.Value, fr, 0) == nil {
				if t := ts.closureCall(c, fr, x.Index, depth); t != nil {
					return t
				}
			}
			if t := ts.invokeConstResult(c, fr, x.Index, depth); t != nil {
				return t
			}
		}
		return ts.extract(ts.of(x.Tuple, fr, depth+1), x.Index)
	case *ssa.Phi:
		if v := ts.cx.memoPhi(x); v != nil {
			return ts.of(v, fr, depth+1) // hit or miss of a local memo table: the memoised value
		}
		m := map[string]*Term{}
		for _, e := range x.Edges {
			t := ts.of(e, fr, depth+1)
			m[t.String()] = t
		}
		return phiOf(m)
	case *ssa.BinOp:
		if t := ts.lenOfString(x, fr, depth); t != nil {
			return t
		}
		return mk("bin", x.Op.String(), ts.of(x.X, fr, depth+1), ts.of(x.Y, fr, depth+1))
	case *ssa.UnOp:
		if x.Op == token.MUL {
			ts.cur = x
			t := ts.load(x.X, fr, depth+1)
			ts.cur = nil
			return t
		}
		return mk("un", x.Op.String(), ts.of(x.X, fr, depth+1))
	case *ssa.MakeClosure:
		if fn, ok := x.Fn.(*ssa.Function); ok {
			return mk("closure", shortFn(fn))
		}
	case *ssa.MakeMap:
		return &Term{Op: "alloc", Name: "map", Site: x.Pos()}
	case *ssa.MakeSlice:
		// bz := make([]byte, 8); binary.BigEndian.PutUint64(bz, v)  ≡  sdk.Uint64ToBigEndian(v)
		if v := putUint64Of(x); v != nil {
			return mk("call", "sdk.Uint64ToBigEndian", ts.of(v, fr, depth+1))
		}
		t := &Term{Op: "alloc", Name: "slice", Site: x.Pos(), ms: x, fr: fr}
		if c, ok := x.Len.(*ssa.Const); ok && c.Value != nil && c.Value.ExactString() == "0" {
			t.Args = []*Term{mk("const", "0")} // make([]T, 0, n): empty (not printed)
		}
		return t
	case *ssa.Call:
		return ts.call(x, fr, depth)
	case *ssa.Next:
		return &Term{Op: "call", Name: "next", Args: []*Term{ts.of(x.Iter, fr, depth+1)}}
	case *ssa.Range:
		return &Term{Op: "call", Name: "range", Args: []*Term{ts.of(x.X, fr, depth+1)}}
	}
	return mk("const", fmt.Sprintf("?%T", v))
}

func shortPkg(p string) string {
	p = strings.TrimPrefix(p, modPrefix+"modules/")
	p = strings.TrimPrefix(p, modPrefix)
	return p
}

func fieldNameShort(t types.Type, i int) string {
	if p, ok := t.Underlying().(*types.Pointer); ok {
		t = p.Elem()
	}
	if st, ok := t.Underlying().(*types.Struct); ok {
		return st.Field(i).Name()
	}
	return fmt.Sprintf("f%d", i)
}

func phiOf(m map[string]*Term) *Term {
	if len(m) == 1 {
		for _, t := range m {
			return t
		}
	}
	var keys []string
	for k := range m {
		keys = append(keys, k)
	}
	sort.Strings(keys)
	t := &Term{Op: "phi"}
	for _, k := range keys {
		// flatten nested phis
		if m[k].Op == "phi" {
			t.Args = append(t.Args, m[k].Args...)
		} else {
			t.Args = append(t.Args, m[k])
		}
	}
	return t
}

// simplifyField projects coin(d,a).Amount etc.
func simplifyField(x *Term, name string) *Term {
	// x/nft keeps a class under its id and a token under (class id, id): the record read
	// by an id carries that id
	if x.Op == "extract" && x.Name == "0" && len(x.Args) == 1 && x.Args[0].Op == "call" {
		c := x.Args[0]
		switch {
		case c.Name == "sdknft.Keeper.GetClass" && len(c.Args) == 2 && name == "Id":
			return c.Args[1]
		case c.Name == "sdknft.Keeper.GetNFT" && len(c.Args) == 3 && name == "Id":
			return c.Args[2]
		case c.Name == "sdknft.Keeper.GetNFT" && len(c.Args) == 3 && name == "ClassId":
			return c.Args[1]
		}
	}
	if x.Op == "call" && x.Name == "coin" && len(x.Args) == 2 {
		switch name {
		case "Denom":
			return x.Args[0]
		case "Amount":
			return x.Args[1]
		}
	}
	if x.Op == "struct" {
		for i := 0; i+1 < len(x.Args); i += 2 {
			if x.Args[i].Name == name {
				return x.Args[i+1]
			}
		}
	}
	// a copy with some fields assigned afterwards: the assigned value, else the original's field
	if x.Op == "upd" && len(x.Args) >= 1 {
		for i := 1; i+1 < len(x.Args); i += 2 {
			if x.Args[i].Name == name {
				return x.Args[i+1]
			}
		}
		return simplifyField(x.Args[0], name)
	}
	return mk("field", name, x)
}

// field projects a field out of x. When x is the opaque result of an unexported
// irismod helper that builds the record it returns (`req, err := k.buildRequest(…)`),
// the field is read off the record assembled on the helper's non-failure returns,
// with its parameters bound to the call's arguments: req.Height is then the
// expression the helper stored, whatever else the helper reads or does.
func (ts *Terms) field(x *Term, name string) *Term {
	c, idx := x, 0
	if x.Op == "extract" && len(x.Args) == 1 {
		c = x.Args[0]
		fmt.Sscan(x.Name, &idx)
	}
	if c.Op != "call" || c.src == nil {
		return simplifyField(x, name)
	}
	f := c.src.Common().StaticCallee()
	if f == nil || f.Blocks == nil || !isIrismodFunc(f) || f.Parent() != nil || frameDepth(c.fr) >= 12 || onChain(c.fr, f) {
		return simplifyField(x, name)
	}
	// an exported helper keeps its name in the vocabulary; only a field that is a plain
	// function of its arguments (the id of the record it loads by id) is read through it
	exported := false
	if n := f.Name(); n == "" || !(n[0] >= 'a' && n[0] <= 'z') {
		if n == "" {
			return simplifyField(x, name)
		}
		exported = true
	}
	nfr := &Frame{Fn: f, Parent: c.fr, Call: c.src, Depth: frameDepth(c.fr) + 1}
	m := map[string]*Term{}
	for _, r := range returnsOf(f) {
		if isFailureReturn(r) {
			continue
		}
		if idx >= len(r.Results) {
			return simplifyField(x, name)
		}
		rt := ts.Of(r.Results[idx], nfr)
		if rt.Op != "struct" {
			return simplifyField(x, name)
		}
		p := simplifyField(rt, name)
		if p.Op == "field" && len(p.Args) == 1 && p.Args[0] == rt {
			return simplifyField(x, name)
		}
		if exported && (p.Op == "const" || hasOp(p, "call", "extract", "phi", "alloc", "global")) {
			return simplifyField(x, name)
		}
		m[p.String()] = p
	}
	if len(m) == 0 || len(m) > 4 {
		return simplifyField(x, name)
	}
	return phiOf(m)
}

func (ts *Terms) extract(t *Term, i int) *Term {
	if t.Op == "tuple" && i < len(t.Args) {
		return t.Args[i]
	}
	if t.Op == "call" && t.Name == "addr" && i == 0 {
		return t
	}
	if t.Op == "call" && t.Name == "addr" && i == 1 {
		return mk("call", "addrerr", t.Args...)
	}
	return mk("extract", fmt.Sprint(i), t)
}

// load resolves *addr.
func (ts *Terms) load(addr ssa.Value, fr *Frame, depth int) *Term {
	switch a := addr.(type) {
	case *ssa.Global:
		// a table initialised once by its declaration: the record of its initial values
		if m := globalStructInit(a); m != nil && depth < 30 {
			t := &Term{Op: "struct", Name: typeShort(a.Type()), Site: a.Pos(), literal: true}
			var names []string
			vals := map[string]*Term{}
			for f, v := range m {
				n := fieldNameShort(a.Type(), f)
				names = append(names, n)
				vals[n] = ts.of(v, nil, depth+1)
			}
			sort.Strings(names)
			for _, n := range names {
				t.Args = append(t.Args, mk("const", n), vals[n])
			}
			return t
		}
		return mk("global", shortPkg(a.Pkg.Pkg.Path())+"."+a.Name())
	case *ssa.Alloc:
		return ts.loadAlloc(a, nil, fr, depth)
	case *ssa.FieldAddr:
		// field of a local struct built in place
		if base, ok := a.X.(*ssa.Alloc); ok {
			return ts.loadAlloc(base, a, fr, depth)
		}
		// field of a captured local: the one field, not the whole record (which may be
		// under construction from this very field)
		if fv, ok := a.X.(*ssa.FreeVar); ok && fr != nil && fr.MC != nil {
			for i, v := range fv.Parent().FreeVars {
				if v == fv && i < len(fr.MC.Bindings) {
					if al, ok := fr.MC.Bindings[i].(*ssa.Alloc); ok {
						return ts.loadAlloc(al, a, fr.Parent, depth)
					}
				}
			}
		}
		return zeroIfUnset(ts.field(ts.loadBase(a.X, fr, depth+1), fieldNameShort(a.X.Type(), a.Field)), fieldTypeOf(a.X.Type(), a.Field))
	case *ssa.FreeVar:
		// captured variable: the binding is the address in the creator frame
		if fr != nil && fr.MC != nil {
			fn := a.Parent()
			for i, fv := range fn.FreeVars {
				if fv == a && i < len(fr.MC.Bindings) {
					return ts.load(fr.MC.Bindings[i], fr.Parent, depth+1)
				}
			}
		}
		return mk("free", a.Name())
	case *ssa.IndexAddr:
		if v := sliceElemStored(a, ts.cur); v != nil {
			at := ts.cur
			t := ts.of(v, fr, depth+1)
			ts.cur = at
			return t
		}
		base, idx := ts.loadBase(a.X, fr, depth+1), ts.of(a.Index, fr, depth+1)
		if base.Op == "phi" {
			// an element of a nil slice does not exist (the access panics): the other alternative
			var alts []*Term
			for _, al := range base.Args {
				if al.Op != "nil" {
					alts = append(alts, al)
				}
			}
			if len(alts) == 1 {
				base = alts[0]
			}
		}
		if t := ts.elemOf(base, idx, depth); t != nil {
			return t
		}
		if base.Op == "call" && base.Name == "map" && base.ix != "" && len(base.Args) == 2 {
			if base.ix == idx.LooseString() {
				return base.Args[1]
			}
			return substIndex(base.Args[1], base.ix, idx)
		}
		return mk("index", "", base, idx)
	}
	// pointer value (e.g. msg *MsgX): a load of the whole struct is the pointer's term
	return ts.of(addr, fr, depth+1)
}

// loadBase: term for "the object that addr points to".
func (ts *Terms) loadBase(addr ssa.Value, fr *Frame, depth int) *Term {
	switch a := addr.(type) {
	case *ssa.Alloc:
		return ts.loadAlloc(a, nil, fr, depth)
	case *ssa.FreeVar:
		// a captured variable: the local of the frame that created the literal
		if fr != nil && fr.MC != nil {
			for i, fv := range a.Parent().FreeVars {
				if fv == a && i < len(fr.MC.Bindings) {
					if al, ok := fr.MC.Bindings[i].(*ssa.Alloc); ok {
						return ts.loadAlloc(al, nil, fr.Parent, depth)
					}
				}
			}
		}
	case *ssa.FieldAddr, *ssa.IndexAddr, *ssa.Global:
		return ts.load(addr, fr, depth)
	}
	return ts.of(addr, fr, depth+1)
}

// loadAlloc: value of a local variable (or one field of it) from its stores.
func (ts *Terms) loadAlloc(a *ssa.Alloc, fld *ssa.FieldAddr, fr *Frame, depth int) *Term {
	at := ts.cur
	ts.cur = nil
	m := map[string]*Term{}
	var whole []*Term
	// candidate stores: whole-value stores and stores to the same field
	var wholeSt, fieldSt []*ssa.Store
	for _, r := range *a.Referrers() {
		switch x := r.(type) {
		case *ssa.Store:
			if x.Addr == a {
				wholeSt = append(wholeSt, x)
			}
		case *ssa.FieldAddr:
			if fld != nil && x.Field == fld.Field {
				for _, r2 := range *x.Referrers() {
					if st, ok := r2.(*ssa.Store); ok && st.Addr == x {
						fieldSt = append(fieldSt, st)
					}
				}
			}
		}
	}
	if at != nil && at.Parent() == a.Parent() {
		wholeSt, fieldSt = reachingStores(wholeSt, fieldSt, at)
	}
	for _, st := range wholeSt {
		whole = append(whole, ts.of(st.Val, fr, depth+1))
	}
	// a variable shared by the function literals of one function (the steps of a check list
	// that load a record in one step and test it in the next): the assignments made through
	// the captured variable in the sibling literals
	if depth < 30 {
		for _, r := range *a.Referrers() {
			mc, ok := r.(*ssa.MakeClosure)
			if !ok {
				continue
			}
			cf, _ := mc.Fn.(*ssa.Function)
			if cf == nil || cf.Blocks == nil {
				continue
			}
			for j, bnd := range mc.Bindings {
				if bnd != ssa.Value(a) || j >= len(cf.FreeVars) {
					continue
				}
				fv := cf.FreeVars[j]
				if fv.Referrers() == nil {
					continue
				}
				// the frame of the literal: created by the frame that holds the variable
				creator := fr
				for f := fr; f != nil; f = f.Parent {
					if f.Fn == a.Parent() {
						creator = f
						break
					}
				}
				cfr := &Frame{Fn: cf, Parent: creator, MC: mc, Depth: frameDepth(creator) + 1}
				for _, ur := range *fv.Referrers() {
					switch y := ur.(type) {
					case *ssa.Store:
						if y.Addr == ssa.Value(fv) {
							whole = append(whole, ts.of(y.Val, cfr, depth+2))
						}
					case *ssa.FieldAddr:
						if fld != nil && y.Field == fld.Field && y.Referrers() != nil {
							for _, r2 := range *y.Referrers() {
								if st, ok := r2.(*ssa.Store); ok && st.Addr == ssa.Value(y) {
									t := ts.of(st.Val, cfr, depth+2)
									m[t.String()] = t
								}
							}
						}
					}
				}
			}
		}
	}
	for _, st := range fieldSt {
		t := ts.of(st.Val, fr, depth+1)
		m[t.String()] = t
	}
	if fld != nil {
		name := fieldNameShort(fld.X.Type(), fld.Field)
		if len(m) == 0 {
			if len(whole) == 0 {
				// filled in by an irismod callee the address was handed to (bind(&swap)): the
				// value that callee stores into the field
				if t := ts.calleeFilledField(a, fld.Field, fr, depth, at); t != nil {
					return t
				}
				// … or by the options applied to it (for _, o := range opts { o(&d) })
				if depth < 28 {
					ts.cur = at
					if st := ts.loadAlloc(a, nil, fr, depth+2); st != nil && st.Op == "struct" {
						if os.Getenv("DEBUG_OPTS") != "" {
							fmt.Fprintf(os.Stderr, "options struct for %s.%s: %s\n", a.Comment, name, trunc(st.String(), 400))
						}
						if f := simplifyField(st, name); !(f.Op == "field" && len(f.Args) == 1 && f.Args[0] == st) {
							return f
						}
					}
				}
				// filled through its address by a call (Unmarshal(bz, &x)): name it by that call
				for _, r := range *a.Referrers() {
					if ci, ok := r.(*ssa.Call); ok {
						return simplifyField(mk("call", "out:"+callName(ci), ts.callArgs(ci, fr, depth, a)...), name)
					}
					if mi, ok := r.(*ssa.MakeInterface); ok {
						for _, r2 := range *mi.Referrers() {
							if ci, ok := r2.(*ssa.Call); ok {
								return simplifyField(mk("call", "out:"+callName(ci), ts.callArgs(ci, fr, depth, mi)...), name)
							}
						}
					}
				}
				return mk("const", "zero")
			}
			wm := map[string]*Term{}
			for _, w := range whole {
				t := zeroIfUnset(ts.field(w, name), fieldTypeOf(fld.X.Type(), fld.Field))
				wm[t.String()] = t
			}
			return phiOf(wm)
		}
		for _, w := range whole {
			t := zeroIfUnset(ts.field(w, name), fieldTypeOf(fld.X.Type(), fld.Field))
			m[t.String()] = t
		}
		return phiOf(m)
	}
	if len(whole) == 0 {
		// struct assembled by field stores, or address passed to an unmarshaller
		fields := map[string]map[string]*Term{}
		var order []string
		for _, r := range *a.Referrers() {
			if fa, ok := r.(*ssa.FieldAddr); ok {
				name := fieldNameShort(fa.X.Type(), fa.Field)
				for _, r2 := range *fa.Referrers() {
					if st, ok := r2.(*ssa.Store); ok && st.Addr == fa {
						if at != nil && at.Parent() == a.Parent() && !instrReaches(st, at) {
							continue // assigned after the value is taken
						}
						if fields[name] == nil {
							fields[name] = map[string]*Term{}
							order = append(order, name)
						}
						t := ts.of(st.Val, fr, depth+1)
						fields[name][t.String()] = t
						// assigned on some paths only (s := T{…}; if c { s.flag = v }): the zero
						// value the local started with is the other alternative
						if at != nil && at.Parent() == a.Parent() && !instrDominates(st, at) {
							dominated := false
							for _, r3 := range *fa.Referrers() {
								if s3, ok := r3.(*ssa.Store); ok && s3 != st && s3.Addr == fa && instrDominates(s3, at) {
									dominated = true
								}
							}
							if z := zeroTermOf(fieldTypeOf(fa.X.Type(), fa.Field)); z != nil && !dominated {
								fields[name][z.String()] = z
							}
						}
					}
				}
				// a nested composite literal initialised in place (T{inner: U{…}})
				if fields[name] == nil {
					if nt := ts.nestedLiteral(fa, fr, depth+1); nt != nil {
						fields[name] = map[string]*Term{nt.String(): nt}
						order = append(order, name)
					}
				}
			}
		}
		// fields assigned through the captured variable in the function literals of this
		// function (a named result filled in by the steps of a check list)
		if depth < 30 {
			for _, r := range *a.Referrers() {
				mc, ok := r.(*ssa.MakeClosure)
				if !ok {
					continue
				}
				cf, _ := mc.Fn.(*ssa.Function)
				if cf == nil || cf.Blocks == nil {
					continue
				}
				for j, bnd := range mc.Bindings {
					if bnd != ssa.Value(a) || j >= len(cf.FreeVars) || cf.FreeVars[j].Referrers() == nil {
						continue
					}
					creator := fr
					for f := fr; f != nil; f = f.Parent {
						if f.Fn == a.Parent() {
							creator = f
							break
						}
					}
					cfr := &Frame{Fn: cf, Parent: creator, MC: mc, Depth: frameDepth(creator) + 1}
					for _, ur := range *cf.FreeVars[j].Referrers() {
						fa, ok := ur.(*ssa.FieldAddr)
						if !ok || fa.Referrers() == nil {
							continue
						}
						name := fieldNameShort(fa.X.Type(), fa.Field)
						for _, r2 := range *fa.Referrers() {
							if st, ok := r2.(*ssa.Store); ok && st.Addr == ssa.Value(fa) {
								if fields[name] == nil {
									fields[name] = map[string]*Term{}
									order = append(order, name)
								}
								t := ts.of(st.Val, cfr, depth+2)
								fields[name][t.String()] = t
							}
						}
					}
				}
			}
		}
		// fields filled in by a callee the address was handed to (reply := T{…}; load(&reply))
		if depth < 30 && frameDepth(fr) < 12 {
			for _, r := range *a.Referrers() {
				c, ok := r.(*ssa.Call)
				if !ok || c.Common().IsInvoke() {
					continue
				}
				g := c.Common().StaticCallee()
				if g == nil || g.Blocks == nil || !isIrismodFunc(g) || onChain(fr, g) {
					continue
				}
				for i, arg := range c.Common().Args {
					if arg != ssa.Value(a) || i >= len(g.Params) || g.Params[i].Referrers() == nil {
						continue
					}
					nfr := &Frame{Fn: g, Parent: fr, Call: c, Depth: frameDepth(fr) + 1}
					for _, pr := range *g.Params[i].Referrers() {
						fa, ok := pr.(*ssa.FieldAddr)
						if !ok || fa.Referrers() == nil {
							continue
						}
						name := fieldNameShort(fa.X.Type(), fa.Field)
						for _, r2 := range *fa.Referrers() {
							if st, ok := r2.(*ssa.Store); ok && st.Addr == ssa.Value(fa) {
								if fields[name] == nil {
									fields[name] = map[string]*Term{}
									order = append(order, name)
								}
								t := ts.of(st.Val, nfr, depth+1)
								fields[name][t.String()] = t
							}
						}
					}
				}
			}
		}
		// functional options: `for _, o := range opts { o(&x) }` with opts the variadic list of
		// the call that reached this frame - each option (a closure, or the closure a helper
		// like payTo(addr) returns) assigns fields through the pointer, in list order
		if depth < 30 && frameDepth(fr) < 12 && fr != nil && fr.Call != nil && !fr.Call.Common().IsInvoke() {
			for _, r := range *a.Referrers() {
				c, ok := r.(*ssa.Call)
				if !ok || c.Common().IsInvoke() || c.Common().StaticCallee() != nil || len(c.Common().Args) != 1 || c.Common().Args[0] != ssa.Value(a) {
					continue
				}
				// the called value is an element of a slice parameter
				ld, ok := c.Common().Value.(*ssa.UnOp)
				if !ok || ld.Op != token.MUL {
					continue
				}
				ia, ok := ld.X.(*ssa.IndexAddr)
				if !ok {
					continue
				}
				pa, ok := ia.X.(*ssa.Parameter)
				if !ok {
					continue
				}
				pi := -1
				for i, q := range pa.Parent().Params {
					if q == pa {
						pi = i
					}
				}
				args := fr.Call.Common().Args
				if pi < 0 || pi >= len(args) {
					continue
				}
				for _, e := range variadicElems(args[pi]) {
					if e == nil {
						continue
					}
					mc, g, creator := resolveClosure(e, argsFrame(fr), 0)
					if g == nil || g.Blocks == nil || len(g.Params) != 1 || g.Params[0].Referrers() == nil {
						continue
					}
					nfr := &Frame{Fn: g, Parent: creator, MC: mc, Call: c, ArgsFr: fr, Depth: frameDepth(fr) + 1}
					for _, pr := range *g.Params[0].Referrers() {
						fa, ok := pr.(*ssa.FieldAddr)
						if !ok || fa.Referrers() == nil {
							continue
						}
						name := fieldNameShort(fa.X.Type(), fa.Field)
						for _, r2 := range *fa.Referrers() {
							if st, ok := r2.(*ssa.Store); ok && st.Addr == ssa.Value(fa) {
								if fields[name] == nil {
									order = append(order, name)
								}
								t := ts.of(st.Val, nfr, depth+1)
								fields[name] = map[string]*Term{t.String(): t} // a later option overrides
							}
						}
					}
				}
			}
		}
		if len(order) > 0 {
			sort.Strings(order)
			t := &Term{Op: "struct", Name: typeShort(a.Type())}
			for _, n := range order {
				t.Args = append(t.Args, mk("const", n), phiOf(fields[n]))
			}
			t.Site = a.Pos()
			// a zero-initialised local filled only by field stores: the other fields are zero
			t.literal = true
			for _, r := range *a.Referrers() {
				switch y := r.(type) {
				case *ssa.FieldAddr, *ssa.DebugRef:
				case *ssa.UnOp:
					if y.Op != token.MUL {
						t.literal = false
					}
				default:
					t.literal = false // the address escapes (a call may fill the rest)
				}
			}
			return t
		}
		// out-parameter of a call (Unmarshal(bz, &x))
		for _, r := range *a.Referrers() {
			if ci, ok := r.(*ssa.Call); ok {
				return mk("call", "out:"+callName(ci), ts.callArgs(ci, fr, depth, a)...)
			}
		}
		return &Term{Op: "alloc", Name: a.Comment, Site: a.Pos()}
	}
	wm := map[string]*Term{}
	for _, w := range whole {
		wm[w.String()] = w
	}
	base := phiOf(wm)
	// later field stores refine a whole-value store (x := load(); x.F = v): the fields
	// assigned after the copy hold the assigned values
	if len(wholeSt) == 1 {
		type fst struct {
			name string
			st   *ssa.Store
		}
		var later []fst
		for _, r := range *a.Referrers() {
			fa, ok := r.(*ssa.FieldAddr)
			if !ok || fa.Referrers() == nil {
				continue
			}
			for _, r2 := range *fa.Referrers() {
				st, ok := r2.(*ssa.Store)
				if !ok || st.Addr != ssa.Value(fa) {
					continue
				}
				if !instrDominates(wholeSt[0], st) {
					continue
				}
				if at != nil && at.Parent() == a.Parent() && !instrDominates(st, at) {
					continue
				}
				later = append(later, fst{fieldNameShort(fa.X.Type(), fa.Field), st})
			}
		}
		// … and so do the fields a callee fills in through the address (sub := newT(); sub.resolve())
		type cst struct {
			name string
			t    *Term
		}
		var filled []cst
		if depth < 30 && frameDepth(fr) < 12 && at != nil && at.Parent() == a.Parent() {
			for _, r := range *a.Referrers() {
				c, ok := r.(*ssa.Call)
				if !ok || c.Common().IsInvoke() || !instrDominates(wholeSt[0], c) || !instrReaches(c, at) {
					continue
				}
				callAlways := instrDominates(c, at)
				g := c.Common().StaticCallee()
				if g == nil || g.Blocks == nil || !isIrismodFunc(g) || onChain(fr, g) {
					continue
				}
				// the caller goes on only when the callee succeeded?
				succeeded := false
				for _, cf := range callFacts(at.Block()) {
					if cf.Call == c && cf.Outcome == "err==nil" {
						succeeded = true
					}
				}
				for i, arg := range c.Common().Args {
					if arg != ssa.Value(a) || i >= len(g.Params) || g.Params[i].Referrers() == nil {
						continue
					}
					nfr := &Frame{Fn: g, Parent: fr, Call: c, Depth: frameDepth(fr) + 1}
					for _, pr := range *g.Params[i].Referrers() {
						fa, ok := pr.(*ssa.FieldAddr)
						if !ok || fa.Referrers() == nil {
							continue
						}
						name := fieldNameShort(fa.X.Type(), fa.Field)
						for _, r2 := range *fa.Referrers() {
							st, ok := r2.(*ssa.Store)
							if !ok || st.Addr != ssa.Value(fa) {
								continue
							}
							definite := callAlways
							for _, ret := range returnsOf(g) {
								if succeeded && isFailureReturn(ret) {
									continue
								}
								if !instrDominates(st, ret) {
									definite = false
								}
							}
							t := ts.of(st.Val, nfr, depth+1)
							if !definite {
								t = phiOf(map[string]*Term{"a": t, "b": simplifyField(base, name)})
							}
							filled = append(filled, cst{name, t})
						}
					}
				}
			}
		}
		if len(later) > 0 || len(filled) > 0 {
			over := map[string]map[string]*Term{}
			var names []string
			for _, l := range later {
				if over[l.name] == nil {
					over[l.name] = map[string]*Term{}
					names = append(names, l.name)
				}
				t := ts.of(l.st.Val, fr, depth+1)
				over[l.name][t.String()] = t
			}
			for _, l := range filled {
				if over[l.name] == nil {
					over[l.name] = map[string]*Term{}
					names = append(names, l.name)
				}
				over[l.name][l.t.String()] = l.t
			}
			sort.Strings(names)
			if base.Op == "struct" {
				n := *base
				n.Args = append([]*Term{}, base.Args...)
				for _, nm := range names {
					done := false
					for i := 0; i+1 < len(n.Args); i += 2 {
						if n.Args[i].Name == nm {
							n.Args[i+1] = phiOf(over[nm])
							done = true
						}
					}
					if !done {
						n.Args = append(n.Args, mk("const", nm), phiOf(over[nm]))
					}
				}
				return &n
			}
			u := &Term{Op: "upd", Name: typeShort(a.Type()), Args: []*Term{base}, Site: a.Pos()}
			for _, nm := range names {
				u.Args = append(u.Args, mk("const", nm), phiOf(over[nm]))
			}
			return u
		}
	}
	return base
}

func typeShort(t types.Type) string {
	if p, ok := t.(*types.Pointer); ok {
		t = p.Elem()
	}
	if n := namedOf(t); n != nil {
		return n.Obj().Name()
	}
	return t.String()
}

func (ts *Terms) callArgs(c *ssa.Call, fr *Frame, depth int, skip ssa.Value) []*Term {
	var out []*Term
	cc := c.Common()
	if cc.IsInvoke() {
		out = append(out, ts.of(cc.Value, fr, depth+1))
	}
	saved := ts.at
	ts.at = c
	defer func() { ts.at = saved }()
	for _, a := range cc.Args {
		if a == skip {
			continue
		}
		t := ts.of(a, fr, depth+1)
		if t.Op == "ctx" {
			continue
		}
		out = append(out, t)
	}
	return out
}

// isBigPtr: *big.Int / *big.Rat / *big.Float.
func isBigPtr(t types.Type) bool {
	p, ok := t.(*types.Pointer)
	if !ok {
		return false
	}
	n, ok := p.Elem().(*types.Named)
	return ok && n.Obj().Pkg() != nil && n.Obj().Pkg().Path() == "math/big"
}

var bigMutators = map[string]bool{"Add": true, "Sub": true, "Mul": true, "Div": true, "Quo": true, "Mod": true, "Rem": true, "Set": true, "SetBytes": true, "SetInt64": true, "SetUint64": true, "SetString": true, "Exp": true, "Neg": true, "Abs": true, "Sqrt": true, "Lsh": true, "Rsh": true, "SetFrac": true, "SetInt": true, "And": true, "Or": true, "Xor": true, "Not": true, "DivMod": true, "QuoRem": true, "ModInverse": true, "GCD": true}

// bigRoot: the object a *big.X value points to: the methods that write their receiver
// return it, so z.Add(z, x) and z are the same object.
func bigRoot(v ssa.Value, d int) ssa.Value {
	for ; d < 12; d++ {
		c, ok := v.(*ssa.Call)
		if !ok || c.Common().IsInvoke() {
			return v
		}
		pkg, name := calleeName(c.Common())
		if pkg != "math/big" || len(c.Common().Args) == 0 {
			return v
		}
		m := name[strings.LastIndex(name, ".")+1:]
		if !bigMutators[m] || !isBigPtr(c.Type()) {
			return v
		}
		v = c.Common().Args[0]
	}
	return v
}

// bigPtrState: the value of the big number v points to where ts.at uses it: the last write
// of the object that dominates the use (nil: v was not written in place after its creation).
func (ts *Terms) bigPtrState(v ssa.Value, fr *Frame, depth int) *Term {
	if !isBigPtr(v.Type()) {
		return nil
	}
	at := ts.at
	root := bigRoot(v, 0)
	in, ok := root.(ssa.Instruction)
	if !ok || in.Parent() == nil || in.Parent() != at.Parent() {
		return nil
	}
	var last *ssa.Call
	var maybe []*ssa.Call // writes on some paths to the use only (if oracle { sum.Add(sum, seed) })
	n := 0
	for _, b := range in.Parent().Blocks {
		for _, ins := range b.Instrs {
			c, ok := ins.(*ssa.Call)
			if !ok || c.Common().IsInvoke() || len(c.Common().Args) == 0 || ssa.Instruction(c) == at {
				continue
			}
			pkg, name := calleeName(c.Common())
			if pkg != "math/big" || !bigMutators[name[strings.LastIndex(name, ".")+1:]] {
				continue
			}
			if bigRoot(c.Common().Args[0], 0) != root {
				continue
			}
			n++
			if !instrDominates(c, at) {
				if instrReaches(c, at) && !inLoop(c.Block()) {
					maybe = append(maybe, c)
				}
				continue
			}
			if last == nil || instrDominates(last, c) {
				last = c
			}
		}
	}
	// written once (where it is created): the ordinary term of the value
	if last == nil || n <= 1 || (ssa.Value(last) == v && len(maybe) == 0) {
		return nil
	}
	state := func(m *ssa.Call) *Term {
		saved := ts.at
		ts.at = m
		t := &Term{Op: "call", Name: callName(m), Site: m.Pos(), src: m, fr: fr}
		for _, a := range m.Common().Args {
			t.Args = append(t.Args, ts.of(a, fr, depth+1))
		}
		ts.at = saved
		return canon(t)
	}
	out := state(last)
	if len(maybe) > 0 && len(maybe) <= 4 {
		alts := map[string]*Term{out.String(): out}
		for _, m := range maybe {
			if instrDominates(last, m) {
				t := state(m)
				alts[t.String()] = t
			}
		}
		out = phiOf(alts)
	}
	return out
}

func (ts *Terms) call(x *ssa.Call, fr *Frame, depth int) *Term {
	c := x.Common()
	pkg, name := calleeName(c)
	var dyn *ssa.Function
	if pkg == "" && name == "" && !c.IsInvoke() {
		// a call of a function value that is, on this chain, a known function
		// (mapSlice(xs, sdk.AccAddress.String) calling f(v))
		if dyn = resolveFnValue(c.Value, fr, 0); dyn != nil {
			pkg, name = fnNames(dyn)
		} else if t := ts.closureCall(x, fr, 0, depth); t != nil {
			return t
		}
	}
	if t := ts.mapperCall(x, fr, depth); t != nil {
		return t
	}
	if c.IsInvoke() && c.Signature().Results().Len() == 1 {
		if t := ts.invokeConstResult(x, fr, 0, depth); t != nil {
			return t
		}
	}
	arg := func(i int) *Term {
		if c.IsInvoke() {
			if i == 0 {
				return ts.of(c.Value, fr, depth+1)
			}
			i--
		}
		if i < len(c.Args) {
			return ts.of(c.Args[i], fr, depth+1)
		}
		return mk("nil", "")
	}
	// st.Iterator(nil, nil) / st.ReverseIterator(nil, nil) on a prefix store walks exactly
	// what storetypes.KVStore(Reverse)PrefixIterator(base, prefix) walks
	if (pkg == storeTypesPath && (name == "KVStore.Iterator" || name == "KVStore.ReverseIterator")) ||
		(pkg == "cosmossdk.io/store/prefix" && (name == "Store.Iterator" || name == "Store.ReverseIterator")) {
		if arg(1).Op == "nil" && arg(2).Op == "nil" {
			st := arg(0)
			if st.Op == "call" && strings.HasSuffix(st.Name, "prefix.NewStore") && len(st.Args) == 2 {
				base, pfx := st.Args[0], st.Args[1]
				for base.Op == "call" && strings.HasSuffix(base.Name, "prefix.NewStore") && len(base.Args) == 2 {
					pfx = mk("call", "append", base.Args[1], pfx)
					base = base.Args[0]
				}
				n := "storetypes.KVStorePrefixIterator"
				if strings.HasSuffix(name, "ReverseIterator") {
					n = "storetypes.KVStoreReversePrefixIterator"
				}
				return &Term{Op: "call", Name: n, Args: []*Term{base, pfx}, Site: x.Pos(), src: x, fr: fr}
			}
		}
	}
	// bytes.Join([][]byte{a, b}, nil) and slices.Concat(a, b) spell append(a, b...)
	if (pkg == "bytes" && name == "Join" && len(c.Args) == 2 && arg(1).Op == "nil") || (pkg == "slices" && name == "Concat" && len(c.Args) == 1) {
		if l := arg(0); l.Op == "call" && l.Name == "varargs" && len(l.Args) > 0 {
			return mk("call", "append", l.Args...)
		}
	}
	sdkT := "github.com/cosmos/cosmos-sdk/types"
	switch {
	case pkg == sdkT && name == "AccAddressFromBech32":
		a := arg(0)
		if a.Op == "call" && a.Name == "str" && len(a.Args) == 1 {
			return a.Args[0]
		}
		return mk("call", "addr", a)
	case pkg == sdkT && name == "MustAccAddressFromBech32":
		a := arg(0)
		if a.Op == "call" && a.Name == "str" && len(a.Args) == 1 {
			return a.Args[0]
		}
		return mk("call", "addr", a)
	case pkg == sdkT && name == "AccAddress.String":
		a := arg(0)
		if a.Op == "call" && a.Name == "addr" && len(a.Args) == 1 {
			return a.Args[0]
		}
		return mk("call", "str", a)
	case pkg == sdkT && name == "UnwrapSDKContext":
		return mk("ctx", "")
	case pkg == sdkT && name == "NewCoin":
		return mk("call", "coin", arg(0), arg(1))
	case pkg == sdkT && name == "NewCoins":
		if len(c.Args) == 1 {
			el := variadicElems(c.Args[0])
			if len(el) > 0 {
				t := mk("call", "coins")
				for _, e := range el {
					t.Args = append(t.Args, ts.of(e, fr, depth+1))
				}
				return t
			}
		}
		return mk("call", "coins", arg(0))
	case pkg == "builtin":
		t := mk("call", name)
		for i := range c.Args {
			t.Args = append(t.Args, arg(i))
		}
		return t
	}
	// irismod constructor-like callee (pure, single block, returns a struct or a
	// pointer to one): see through it so that NewX(a, b) and X{A: a, B: b} render alike.
	if f := c.StaticCallee(); f != nil && f.Blocks != nil && len(f.Blocks) == 1 && isIrismodFunc(f) && frameDepth(fr) < 12 && f.Signature.Results().Len() == 1 {
		rt := f.Signature.Results().At(0).Type()
		if p, ok := rt.(*types.Pointer); ok {
			rt = p.Elem()
		}
		if _, isStruct := rt.Underlying().(*types.Struct); isStruct && !isKeeperStruct(rt) && len(ts.cx.transPrimKinds(f)) == 0 {
			if t := ts.Inlined(x, fr, 0, 12); t != nil && t.Op == "struct" {
				return t
			}
		}
	}
	// trivial keeper wrapper (single block, one inner call): see through it
	if f := c.StaticCallee(); f != nil && f.Blocks != nil && len(f.Blocks) == 1 && isIrismodFunc(f) && frameDepth(fr) < 12 &&
		f.Signature.Recv() != nil && isKeeperStruct(f.Signature.Recv().Type()) && f.Signature.Results().Len() == 1 {
		ncalls := 0
		for _, ins := range f.Blocks[0].Instrs {
			if _, ok := ins.(ssa.CallInstruction); ok {
				ncalls++
			}
		}
		if ncalls == 1 && !isErrorType(f.Signature.Results().At(0).Type()) {
			kinds := ts.cx.transPrimKinds(f)
			onlyExtRead := len(kinds) == 1
			for k := range kinds {
				if !(strings.HasPrefix(k, "ext.") || strings.HasPrefix(k, "nft.") || strings.HasPrefix(k, "bank.")) || isMutatingKind(k) {
					onlyExtRead = false
				}
			}
			if onlyExtRead {
				if t := ts.Inlined(x, fr, 0, 12); t != nil {
					return t
				}
			}
		}
	}
	if f := c.StaticCallee(); f != nil && f.Signature.Results().Len() == 1 {
		if t := ts.helperInline(x, fr, 0); t != nil {
			return t
		}
	}
	if t := ts.readCanon(x, fr); t != nil {
		return t
	}
	t := &Term{Op: "call", Name: callName(x), Site: x.Pos(), src: x, fr: fr}
	if t.Name == "" && dyn != nil {
		t.Name = termNameOf(dyn)
	}
	if t.Name == "" && !c.IsInvoke() {
		// call of a function value: name it by the value's origin
		t.Name = "call[" + ts.of(c.Value, fr, depth+1).LooseString() + "]"
	}
	t.Args = ts.callArgs(x, fr, depth, nil)
	return t
}

// helperInline sees through an extracted helper: an UNEXPORTED irismod function
// that reads no state (no store Get/Has/iterator, no bank/ext query) - a pure
// computation or a writer - is replaced by the value it returns on its
// non-failure returns, with its parameters bound to the call's arguments.
// Getters and exported API functions keep their names (rules anchor on them).
func (ts *Terms) helperInline(x *ssa.Call, fr *Frame, idx int) *Term {
	f := x.Common().StaticCallee()
	if f == nil || f.Blocks == nil || !isIrismodFunc(f) || f.Parent() != nil || frameDepth(fr) >= 14 {
		return nil
	}
	name := f.Name()
	if name == "" || !(name[0] >= 'a' && name[0] <= 'z') {
		return nil
	}
	res := f.Signature.Results()
	if idx >= res.Len() || isErrorType(res.At(idx).Type()) {
		return nil
	}
	if onChain(fr, f) {
		return nil
	}
	// a function that itself touches the store or another keeper for reading is a getter
	// and keeps its name; a composition of such calls (`tok := k.getX(..); return tok,
	// parse(tok.F)`) is transparent - the getter calls inside it keep their names
	for k := range ts.cx.transPrimKinds(f) {
		if isMutatingKind(k) {
			goto strict // a helper that also writes keeps the strict test below
		}
	}
	if (f.Signature.Recv() == nil || !isKeeperStruct(f.Signature.Recv().Type())) && passesThroughRead(f, idx) {
		goto inline // load(...) hands back what the one getter it calls returned: that getter's term
	}
	for _, p := range ts.cx.primsOf(f) {
		k := p.Kind
		if strings.HasPrefix(k, "store.get") || strings.HasPrefix(k, "store.has") || strings.HasPrefix(k, "store.iter") || strings.HasPrefix(k, "store.riter") {
			return nil
		}
		if (strings.HasPrefix(k, "ext.") || strings.HasPrefix(k, "bank.") || strings.HasPrefix(k, "nft.")) && !isMutatingKind(k) {
			return nil
		}
	}
	goto inline
strict:
	for k := range ts.cx.transPrimKinds(f) {
		if strings.HasPrefix(k, "store.get") || strings.HasPrefix(k, "store.has") || strings.HasPrefix(k, "store.iter") || strings.HasPrefix(k, "store.riter") {
			return nil
		}
		if (strings.HasPrefix(k, "ext.") || strings.HasPrefix(k, "bank.") || strings.HasPrefix(k, "nft.")) && !isMutatingKind(k) {
			return nil
		}
	}
inline:
	nfr := &Frame{Fn: f, Parent: fr, Call: x, Depth: frameDepth(fr) + 1}
	m := map[string]*Term{}
	// (value, ok bool): the `return zero, false` exits are failure returns too when the
	// caller branches on the flag
	okFlag := -1
	if n := res.Len(); n >= 2 && idx != n-1 {
		if b, isB := res.At(n - 1).Type().Underlying().(*types.Basic); isB && b.Kind() == types.Bool && flagIsTested(x, n-1) {
			okFlag = n - 1
		}
	}
	for _, r := range returnsOf(f) {
		if isFailureReturn(r) || idx >= len(r.Results) {
			continue
		}
		if okFlag >= 0 && okFlag < len(r.Results) {
			if c, isC := r.Results[okFlag].(*ssa.Const); isC && c.Value != nil && c.Value.Kind() == constant.Bool && !constant.BoolVal(c.Value) {
				continue
			}
		}
		if infeasibleForConstArgs(r.Block(), x, fr) {
			continue // this return sits behind `param == c` while the call passes another constant
		}
		t := ts.Of(r.Results[idx], nfr)
		m[t.String()] = t
	}
	if len(m) == 0 || len(m) > 4 {
		return nil
	}
	return phiOf(m)
}

// flagIsTested: result #i of the call is the condition of a branch in the caller.
func flagIsTested(x *ssa.Call, i int) bool {
	if x.Referrers() == nil {
		return false
	}
	for _, ref := range *x.Referrers() {
		ex, ok := ref.(*ssa.Extract)
		if !ok || ex.Index != i || ex.Referrers() == nil {
			continue
		}
		for _, r2 := range *ex.Referrers() {
			switch y := r2.(type) {
			case *ssa.If:
				return true
			case *ssa.UnOp:
				if y.Op == token.NOT && y.Referrers() != nil {
					for _, r3 := range *y.Referrers() {
						if _, isIf := r3.(*ssa.If); isIf {
							return true
						}
					}
				}
			}
		}
	}
	return false
}

// Inlined evaluates the result #idx of a call to an irismod function by
// descending into the callee (used to see through small helpers).
func (ts *Terms) Inlined(x *ssa.Call, fr *Frame, idx int, maxDepth int) *Term {
	f := x.Common().StaticCallee()
	if f == nil || f.Blocks == nil || !isIrismodFunc(f) || frameDepth(fr) >= maxDepth {
		return nil
	}
	nfr := &Frame{Fn: f, Parent: fr, Call: x, Depth: frameDepth(fr) + 1}
	m := map[string]*Term{}
	for _, r := range returnsOf(f) {
		if idx < len(r.Results) {
			t := ts.Of(r.Results[idx], nfr)
			m[t.String()] = t
		}
	}
	if len(m) == 0 {
		return nil
	}
	return phiOf(m)
}

func frameDepth(fr *Frame) int {
	n := 0
	for ; fr != nil; fr = fr.Parent {
		n++
	}
	return n
}

// containsTerm: sub occurs in t (loose comparison).
func containsTerm(t *Term, sub string) bool {
	if t == nil {
		return false
	}
	if t.LooseString() == sub {
		return true
	}
	for _, a := range t.Args {
		if containsTerm(a, sub) {
			return true
		}
	}
	return false
}

func leaves(t *Term, out map[string]bool) {
	if t == nil {
		return
	}
	if len(t.Args) == 0 {
		out[t.LooseString()] = true
		return
	}
	for _, a := range t.Args {
		leaves(a, out)
	}
}

// ---------------------------------------------------------------- reaching stores

func instrReaches(from, to ssa.Instruction) bool {
	fb, tb := from.Block(), to.Block()
	if fb == tb && instrIndex(from) < instrIndex(to) {
		return true
	}
	seen := map[*ssa.BasicBlock]bool{}
	q := append([]*ssa.BasicBlock{}, fb.Succs...)
	for len(q) > 0 {
		b := q[0]
		q = q[1:]
		if seen[b] {
			continue
		}
		seen[b] = true
		if b == tb {
			return true
		}
		q = append(q, b.Succs...)
	}
	return false
}

func instrDominates(a, b ssa.Instruction) bool {
	if a.Block() == b.Block() {
		return instrIndex(a) < instrIndex(b)
	}
	return a.Block().Dominates(b.Block())
}

// reachingStores keeps the stores whose value can be observed by the load `at`:
// stores that cannot reach it are dropped, and so is every store that is
// overwritten on all paths by a later store dominating the load. A whole-value
// store counts as a store to every field.
func reachingStores(whole, field []*ssa.Store, at ssa.Instruction) ([]*ssa.Store, []*ssa.Store) {
	type cand struct {
		st    *ssa.Store
		whole bool
	}
	var cs []cand
	for _, s := range whole {
		if instrReaches(s, at) {
			cs = append(cs, cand{s, true})
		}
	}
	for _, s := range field {
		if instrReaches(s, at) {
			cs = append(cs, cand{s, false})
		}
	}
	// the last store dominating the load kills everything that must pass through it
	var killers []*ssa.Store
	for _, c := range cs {
		if instrDominates(c.st, at) {
			killers = append(killers, c.st)
		}
	}
	var w2, f2 []*ssa.Store
	for _, c := range cs {
		killed := false
		for _, k := range killers {
			if k == c.st {
				continue
			}
			// c happens before k on every path to the load: c reaches k and k does not reach c
			if instrReaches(c.st, k) && !instrReaches(k, c.st) {
				killed = true
			}
		}
		if killed {
			continue
		}
		if c.whole {
			w2 = append(w2, c.st)
		} else {
			f2 = append(f2, c.st)
		}
	}
	return w2, f2
}

// ---------------------------------------------------------------- canonical forms
//
// canon rewrites the top node of a term whose children are already canonical
// into one spelling per meaning, for the SDK/stdlib equivalences a maintainer
// uses interchangeably:
//
//	ctx.BlockHeader().Time / .Height      → ctx.BlockTime() / ctx.BlockHeight()
//	a.Sub(b).IsNegative()                 → a.LT(b)              (Int, Uint, LegacyDec)
//	a.GT(zero) / zero.LT(a)               → a.IsPositive()
//	a.LT(zero) / zero.GT(a)               → a.IsNegative()
//	a.Equal(zero)                         → a.IsZero()
//	NewInt(0|1), LegacyNewDec(0|1)        → ZeroInt()/OneInt()/LegacyZeroDec()/LegacyOneDec()
//	a.Mul(NewInt(c)) / a.MulRaw(c)        → a.MulRaw(c)   (likewise Add/Sub/Quo Raw)
//
// (len(s) ⋈ 0 for a string s is rewritten where the type is known, in compute.)
var numTypes = map[string]bool{"math.Int": true, "math.Uint": true, "math.LegacyDec": true}

func splitMethod(name string) (typ, m string) {
	i := strings.LastIndex(name, ".")
	if i < 0 {
		return "", name
	}
	return name[:i], name[i+1:]
}

func isZeroTerm(t *Term) bool {
	if t.Op != "call" || len(t.Args) != 0 {
		return false
	}
	switch t.Name {
	case "math.ZeroInt", "math.LegacyZeroDec", "math.ZeroUint":
		return true
	}
	return false
}

func canon(t *Term) *Term {
	if t == nil {
		return t
	}
	switch t.Op {
	case "field":
		if len(t.Args) == 1 && t.Args[0].Op == "call" && t.Args[0].Name == "sdk.Context.BlockHeader" {
			switch t.Name {
			case "Time":
				return &Term{Op: "call", Name: "sdk.Context.BlockTime", Site: t.Args[0].Site}
			case "Height":
				return &Term{Op: "call", Name: "sdk.Context.BlockHeight", Site: t.Args[0].Site}
			}
		}
	case "call":
		typ, m := splitMethod(t.Name)
		switch t.Name {
		case "math.NewInt", "math.LegacyNewDec", "math.NewUint":
			if len(t.Args) == 1 && t.Args[0].Op == "const" {
				z := map[string][2]string{"math.NewInt": {"math.ZeroInt", "math.OneInt"}, "math.LegacyNewDec": {"math.LegacyZeroDec", "math.LegacyOneDec"}, "math.NewUint": {"math.ZeroUint", "math.OneUint"}}[t.Name]
				switch t.Args[0].Name {
				case "0":
					return &Term{Op: "call", Name: z[0], Site: t.Site}
				case "1":
					return &Term{Op: "call", Name: z[1], Site: t.Site}
				}
			}
		}
		if !numTypes[typ] {
			return t
		}
		switch {
		case m == "IsNegative" && len(t.Args) == 1 && t.Args[0].Op == "call" && t.Args[0].Name == typ+".Sub" && len(t.Args[0].Args) == 2:
			return &Term{Op: "call", Name: typ + ".LT", Args: t.Args[0].Args, Site: t.Site}
		case (m == "GT" || m == "LT" || m == "Equal") && len(t.Args) == 2 && isZeroTerm(t.Args[1]):
			n := map[string]string{"GT": "IsPositive", "LT": "IsNegative", "Equal": "IsZero"}[m]
			return &Term{Op: "call", Name: typ + "." + n, Args: t.Args[:1], Site: t.Site}
		case (m == "GT" || m == "LT" || m == "Equal") && len(t.Args) == 2 && isZeroTerm(t.Args[0]):
			n := map[string]string{"LT": "IsPositive", "GT": "IsNegative", "Equal": "IsZero"}[m]
			return &Term{Op: "call", Name: typ + "." + n, Args: t.Args[1:], Site: t.Site}
		case (m == "Mul" || m == "Add" || m == "Sub" || m == "Quo") && typ == "math.Int" && len(t.Args) == 2 && t.Args[1].Op == "call" && t.Args[1].Name == "math.NewInt" && len(t.Args[1].Args) == 1:
			return &Term{Op: "call", Name: typ + "." + m + "Raw", Args: []*Term{t.Args[0], t.Args[1].Args[0]}, Site: t.Site}
		}
	}
	return t
}

// lenOfString: len(s) ⋈ c for a string s and c ∈ {0,1} means s == "" or s != "".
func (ts *Terms) lenOfString(x *ssa.BinOp, fr *Frame, depth int) *Term {
	c, ok := x.X.(*ssa.Call)
	k, ok2 := x.Y.(*ssa.Const)
	if !ok || !ok2 || k.Value == nil || k.Value.Kind() != constant.Int {
		return nil
	}
	b, isB := c.Common().Value.(*ssa.Builtin)
	if !isB || b.Name() != "len" || len(c.Common().Args) != 1 {
		return nil
	}
	bt, isBasic := c.Common().Args[0].Type().Underlying().(*types.Basic)
	if !isBasic || bt.Info()&types.IsString == 0 {
		return nil
	}
	n, _ := constant.Int64Val(k.Value)
	var op string
	switch {
	case n == 0 && (x.Op == token.EQL || x.Op == token.LEQ), n == 1 && x.Op == token.LSS:
		op = "=="
	case n == 0 && (x.Op == token.NEQ || x.Op == token.GTR), n == 1 && x.Op == token.GEQ:
		op = "!="
	default:
		return nil
	}
	return mk("bin", op, ts.of(c.Common().Args[0], fr, depth+1), mk("const", `""`))
}

// callbackParamName: the parameters of a service callback (the ResponseCallback /
// StateCallback shapes) are named by position, so that rules about the oracle and
// random callbacks do not depend on how an implementation spells them.
func callbackParamName(x *ssa.Parameter) string {
	fn := x.Parent()
	if fn == nil || !isIrismodFunc(fn) {
		return ""
	}
	sig := fn.Signature
	idx := -1
	for i, p := range fn.Params {
		if p == x {
			idx = i
		}
	}
	if sig.Recv() != nil {
		idx--
	}
	ps := sig.Params()
	if idx < 1 || idx >= ps.Len() || ps.Len() < 3 || !isCtxType(ps.At(0).Type()) || !typeIs(ps.At(1).Type(), "github.com/cometbft/cometbft/libs/bytes", "HexBytes") {
		return ""
	}
	isStrSlice := func(t types.Type) bool {
		sl, ok := t.Underlying().(*types.Slice)
		if !ok {
			return false
		}
		b, ok := sl.Elem().Underlying().(*types.Basic)
		return ok && b.Kind() == types.String
	}
	isStr := func(t types.Type) bool {
		b, ok := t.Underlying().(*types.Basic)
		return ok && b.Kind() == types.String
	}
	switch {
	case ps.Len() == 4 && isStrSlice(ps.At(2).Type()) && isErrorType(ps.At(3).Type()):
		return []string{"", "requestContextID", "responseOutput", "err"}[idx]
	case ps.Len() == 3 && isStr(ps.At(2).Type()):
		return []string{"", "requestContextID", "cause"}[idx]
	}
	return ""
}

// framePath identifies an activation by the call sites that lead to it.
func framePath(fr *Frame) string {
	var parts []string
	for f := fr; f != nil; f = f.Parent {
		switch {
		case f.Call != nil:
			parts = append(parts, fmt.Sprint(int(f.Call.Pos())))
		case f.MC != nil:
			parts = append(parts, fmt.Sprintf("c%d", int(f.MC.Pos())))
		}
	}
	return strings.Join(parts, "<")
}

// fieldTypeOf: type of field i of the struct (or pointer to struct) type t.
func fieldTypeOf(t types.Type, i int) types.Type {
	if p, ok := t.Underlying().(*types.Pointer); ok {
		t = p.Elem()
	}
	st, ok := t.Underlying().(*types.Struct)
	if !ok || i >= st.NumFields() {
		return nil
	}
	return st.Field(i).Type()
}

// zeroIfUnset: a field that a composite literal does not mention holds its zero
// value (poolChange{amount: a}.destroy is false). Only for literals whose fields are
// all known (an in-place struct term), and only for basic field types.
func zeroIfUnset(t *Term, ft types.Type) *Term {
	if t == nil || ft == nil || t.Op != "field" || len(t.Args) != 1 || t.Args[0].Op != "struct" || !t.Args[0].literal {
		return t
	}
	b, ok := ft.Underlying().(*types.Basic)
	if !ok {
		return t
	}
	switch {
	case b.Info()&types.IsBoolean != 0:
		return mk("const", "false")
	case b.Info()&types.IsInteger != 0:
		return mk("const", "0")
	case b.Info()&types.IsString != 0:
		return mk("const", `""`)
	}
	return t
}

// sliceElemStored: the value of xs[i] where xs is a local make([]T, n) whose elements are
// assigned at exactly one place, xs[i] = v with the very same index value, before the load:
//
//	reqs := make([]Request, len(providers))
//	for i, p := range providers { reqs[i] = build(p); store(ids[i], reqs[i]) }
func sliceElemStored(a *ssa.IndexAddr, at ssa.Instruction) ssa.Value {
	ms, ok := a.X.(*ssa.MakeSlice)
	if !ok || at == nil || ms.Referrers() == nil {
		return nil
	}
	var st *ssa.Store
	for _, r := range *ms.Referrers() {
		ia, ok := r.(*ssa.IndexAddr)
		if !ok || ia.Referrers() == nil {
			continue
		}
		for _, r2 := range *ia.Referrers() {
			s, ok := r2.(*ssa.Store)
			if !ok || s.Addr != ia {
				continue
			}
			if st != nil || ia.Index != a.Index {
				return nil
			}
			st = s
		}
	}
	if st == nil || at.Block() == nil || st.Block() == nil {
		return nil
	}
	if st.Block() == at.Block() {
		for _, ins := range st.Block().Instrs {
			if ins == ssa.Instruction(st) {
				return st.Val
			}
			if ins == at {
				return nil
			}
		}
		return nil
	}
	if st.Block().Dominates(at.Block()) {
		return st.Val
	}
	return nil
}

// elemOf: xs[j] for a slice built element by element in one loop, xs[i] = f(src[i]), and
// read in another loop (possibly in a callee the slice was handed to): the element pattern
// f(src[·]) - loop indices are anonymous in terms, so the two index terms must read alike.
func (ts *Terms) elemOf(base, idx *Term, depth int) *Term {
	if base == nil || base.Op != "alloc" || base.ms == nil || base.ms.Referrers() == nil || depth > 40 {
		return nil
	}
	var st *ssa.Store
	var sidx ssa.Value
	for _, al := range sliceAliases(base.ms) {
		if al.Referrers() == nil {
			continue
		}
		for _, r := range *al.Referrers() {
			ia, ok := r.(*ssa.IndexAddr)
			if !ok || ia.Referrers() == nil {
				continue
			}
			for _, r2 := range *ia.Referrers() {
				s, ok := r2.(*ssa.Store)
				if !ok || s.Addr != ia {
					continue
				}
				if st != nil {
					return nil
				}
				st, sidx = s, ia.Index
			}
		}
	}
	if st == nil || !inLoop(st.Block()) {
		return nil
	}
	is := ts.of(sidx, base.fr, depth+1).LooseString()
	if !strings.Contains(is, "φ") {
		return nil
	}
	if is == idx.LooseString() {
		return ts.of(st.Val, base.fr, depth+1)
	}
	// any other index: the element pattern with the loop index replaced, when the
	// allocating function has that one loop only and the slice is as long as its input
	if singleLoop(base.ms.Parent()) && lenOfParam(base.ms.Len) {
		return substIndex(ts.of(st.Val, base.fr, depth+1), is, idx)
	}
	return nil
}

func singleLoop(f *ssa.Function) bool {
	n := 0
	for _, b := range f.Blocks {
		for _, p := range b.Preds {
			if b.Dominates(p) {
				n++
				break
			}
		}
	}
	return n == 1
}

func lenOfParam(v ssa.Value) bool {
	c, ok := v.(*ssa.Call)
	if !ok {
		return false
	}
	b, ok := c.Common().Value.(*ssa.Builtin)
	if !ok || b.Name() != "len" || len(c.Common().Args) != 1 {
		return false
	}
	_, isP := c.Common().Args[0].(*ssa.Parameter)
	return isP
}

// substIndex: t with every subterm that reads like `from` replaced by `to`; an element of a
// literal argument list selected by a constant is that element.
func substIndex(t *Term, from string, to *Term) *Term {
	if t == nil {
		return nil
	}
	if t.LooseString() == from {
		return to
	}
	if len(t.Args) == 0 {
		return t
	}
	n := *t
	n.Args = make([]*Term, len(t.Args))
	for i, a := range t.Args {
		n.Args[i] = substIndex(a, from, to)
	}
	if n.Op == "index" && n.Name == "" && len(n.Args) == 2 && n.Args[1].Op == "const" && n.Args[0].Op == "call" && n.Args[0].Name == "varargs" {
		if k, err := strconv.Atoi(n.Args[1].Name); err == nil && k >= 0 && k < len(n.Args[0].Args) {
			return n.Args[0].Args[k]
		}
	}
	return &n
}

// sliceAliases: the allocation and the loads of the local variable / struct field it is
// (alone) stored into: pool := T{Rules: make(...)}; pool.Rules[i] = v.
func sliceAliases(ms *ssa.MakeSlice) []ssa.Value {
	out := []ssa.Value{ms}
	if ms.Referrers() == nil {
		return out
	}
	loadsOf := func(addr ssa.Value) {
		if addr.Referrers() == nil {
			return
		}
		for _, r := range *addr.Referrers() {
			if u, ok := r.(*ssa.UnOp); ok && u.Op == token.MUL && u.X == addr {
				out = append(out, u)
			}
		}
	}
	for _, r := range *ms.Referrers() {
		st, ok := r.(*ssa.Store)
		if !ok || st.Val != ssa.Value(ms) {
			continue
		}
		switch a := st.Addr.(type) {
		case *ssa.Alloc:
			n := 0
			for _, r2 := range *a.Referrers() {
				if s2, ok := r2.(*ssa.Store); ok && s2.Addr == a {
					n++
				}
			}
			if n == 1 {
				loadsOf(a)
			}
		case *ssa.FieldAddr:
			base, ok := a.X.(*ssa.Alloc)
			if !ok || base.Referrers() == nil {
				continue
			}
			n := 0
			var fas []*ssa.FieldAddr
			for _, r2 := range *base.Referrers() {
				switch y := r2.(type) {
				case *ssa.FieldAddr:
					if y.Field != a.Field || y.Referrers() == nil {
						continue
					}
					fas = append(fas, y)
					for _, r3 := range *y.Referrers() {
						if s3, ok := r3.(*ssa.Store); ok && s3.Addr == y {
							n++
						}
					}
				case *ssa.Store:
					if y.Addr == base {
						n += 2 // the whole struct is overwritten somewhere
					}
				}
			}
			if n == 1 {
				for _, fa := range fas {
					loadsOf(fa)
				}
			}
		}
	}
	return out
}

// resolveFnValue: the function a function-typed value is on this call chain (a function,
// a method expression thunk, or a parameter bound to one by a caller); nil for closures
// over state and anything else.
func resolveFnValue(v ssa.Value, fr *Frame, d int) *ssa.Function {
	x := resolveFnRaw(v, fr, d)
	if x == nil {
		return nil
	}
	if strings.HasPrefix(x.Synthetic, "thunk for ") && len(x.Blocks) == 1 {
		for _, ins := range x.Blocks[0].Instrs {
			if c, ok := ins.(*ssa.Call); ok && !c.Common().IsInvoke() && c.Common().StaticCallee() != nil {
				return c.Common().StaticCallee()
			}
		}
		return nil
	}
	if x.Parent() != nil {
		return nil // an anonymous function
	}
	return x
}

// resolveFnRaw: the function object itself (a thunk stays a thunk, a function literal that
// captures nothing is returned as it is).
func resolveFnRaw(v ssa.Value, fr *Frame, d int) *ssa.Function {
	if d > 8 {
		return nil
	}
	switch x := v.(type) {
	case *ssa.Function:
		return x
	case *ssa.ChangeType:
		return resolveFnRaw(x.X, fr, d+1)
	case *ssa.Field:
		// a function kept in a field of a table / record assembled up the chain
		if v2, fr2 := fieldOfValue(x.X, x.Field, fr, d+1); v2 != nil {
			return resolveFnRaw(v2, fr2, d+1)
		}
	case *ssa.UnOp:
		if x.Op == token.MUL {
			if fa, ok := x.X.(*ssa.FieldAddr); ok {
				if a, ok := fa.X.(*ssa.Alloc); ok {
					if v2, fr2 := fieldOfAlloc(a, fa.Field, fr, d+1); v2 != nil {
						return resolveFnRaw(v2, fr2, d+1)
					}
				}
			}
			if gv := globalFieldOfLoad(x, -1); gv != nil {
				return resolveFnRaw(gv, nil, d+1)
			}
		}
	case *ssa.Parameter:
		if fr == nil || fr.Call == nil {
			return nil
		}
		fn := x.Parent()
		cc := fr.Call.Common()
		if cc.IsInvoke() {
			return nil
		}
		for i, p := range fn.Params {
			if p == x && i < len(cc.Args) {
				return resolveFnRaw(cc.Args[i], argsFrame(fr), d+1)
			}
		}
	}
	return nil
}

func argsFrame(fr *Frame) *Frame {
	if fr.ArgsFr != nil {
		return fr.ArgsFr
	}
	return fr.Parent
}

// resolveClosure: the function literal a function-typed value is on this chain, with the
// frame that created it.
func resolveClosure(v ssa.Value, fr *Frame, d int) (*ssa.MakeClosure, *ssa.Function, *Frame) {
	if d > 8 {
		return nil, nil, nil
	}
	switch x := v.(type) {
	case *ssa.MakeClosure:
		fn, _ := x.Fn.(*ssa.Function)
		if fn == nil || fn.Blocks == nil || (fn.Parent() == nil && !strings.Contains(fn.Synthetic, "bound method wrapper")) {
			return nil, nil, nil
		}
		return x, fn, fr
	case *ssa.UnOp:
		// a function kept in a field of a struct that was assembled up the chain
		// (sw := feedSwitch{apply: k.sk.StartRequestContext}; … sw.apply(ctx, …))
		if x.Op == token.MUL {
			if fa, ok := x.X.(*ssa.FieldAddr); ok {
				if a, ok := fa.X.(*ssa.Alloc); ok {
					if v2, fr2 := fieldOfAlloc(a, fa.Field, fr, d+1); v2 != nil {
						return resolveClosure(v2, fr2, d+1)
					}
				}
			}
			if gv := globalFieldOfLoad(x, -1); gv != nil {
				return resolveClosure(gv, nil, d+1)
			}
			// a captured function variable (op := …; func() { op(x) }): the value stored in
			// the creator's frame
			if fv, ok := x.X.(*ssa.FreeVar); ok && fr != nil && fr.MC != nil {
				for i, v := range fv.Parent().FreeVars {
					if v != fv || i >= len(fr.MC.Bindings) {
						continue
					}
					if a, ok := fr.MC.Bindings[i].(*ssa.Alloc); ok && a.Referrers() != nil {
						var sv ssa.Value
						n := 0
						for _, r := range *a.Referrers() {
							if st, ok := r.(*ssa.Store); ok && st.Addr == ssa.Value(a) {
								sv = st.Val
								n++
							}
						}
						if n == 1 {
							return resolveClosure(sv, fr.Parent, d+1)
						}
					}
				}
			}
		}
	case *ssa.Field:
		if v2, fr2 := fieldOfValue(x.X, x.Field, fr, d+1); v2 != nil {
			return resolveClosure(v2, fr2, d+1)
		}
	case *ssa.Function:
		if x.Parent() != nil && x.Blocks != nil && len(x.FreeVars) == 0 {
			return nil, x, fr // a function literal that captures nothing
		}
	case *ssa.Call:
		// the closure a helper returns (payTo(addr) = func(l *leg) { l.recipient = addr })
		if !x.Common().IsInvoke() {
			if g := x.Common().StaticCallee(); g != nil && g.Blocks != nil && isIrismodFunc(g) && !onChain(fr, g) {
				rets := returnsOf(g)
				if len(rets) == 1 && len(rets[0].Results) == 1 {
					return resolveClosure(rets[0].Results[0], &Frame{Fn: g, Parent: fr, Call: x, Depth: frameDepth(fr) + 1}, d+1)
				}
			}
		}
	case *ssa.ChangeType:
		return resolveClosure(x.X, fr, d+1)
	case *ssa.Parameter:
		if fr == nil || fr.Call == nil || fr.Call.Common().IsInvoke() {
			return nil, nil, nil
		}
		fn := x.Parent()
		cc := fr.Call.Common()
		for i, p := range fn.Params {
			if p == x && i < len(cc.Args) {
				return resolveClosure(cc.Args[i], argsFrame(fr), d+1)
			}
		}
	}
	return nil, nil, nil
}

// closureCall: result idx of a call of a function-typed value that is, on this chain, a
// function literal: the value it returns on its non-failure returns, parameters bound to
// this call's arguments and free variables in the creating frame.
func (ts *Terms) closureCall(x *ssa.Call, fr *Frame, idx int, depth int) *Term {
	if depth > 30 || frameDepth(fr) >= 14 {
		return nil
	}
	mc, fn, creator := resolveClosure(x.Common().Value, fr, 0)
	if fn == nil || !isIrismodFunc(fn) || onChain(fr, fn) || idx >= fn.Signature.Results().Len() {
		return nil
	}
	nfr := &Frame{Fn: fn, Parent: creator, MC: mc, Call: x, ArgsFr: fr, Depth: frameDepth(fr) + 1}
	m := map[string]*Term{}
	for _, r := range returnsOf(fn) {
		if isFailureReturn(r) || idx >= len(r.Results) {
			continue
		}
		t := ts.of(r.Results[idx], nfr, depth+1)
		m[t.String()] = t
	}
	if len(m) == 0 {
		return nil
	}
	return phiOf(m)
}

type mapperInfo struct {
	store *ssa.Store // out[i] = v
	idx   ssa.Value
}

// mapperOf: g(in []T, f func(T) U) []U that returns make([]U, len(in)) filled by the one
// statement out[i] = …f(in[i])… of its only loop (nil for an empty input is fine).
func mapperOf(g *ssa.Function) *mapperInfo {
	if g == nil || g.Blocks == nil || !isIrismodFunc(g) || len(g.Params) != 2 || g.Signature.Results().Len() != 1 || !singleLoop(g) {
		return nil
	}
	if _, ok := g.Params[0].Type().Underlying().(*types.Slice); !ok {
		return nil
	}
	if _, ok := g.Params[1].Type().Underlying().(*types.Signature); !ok {
		return nil
	}
	var ms *ssa.MakeSlice
	for _, b := range g.Blocks {
		for _, ins := range b.Instrs {
			if m, ok := ins.(*ssa.MakeSlice); ok {
				if ms != nil {
					return nil
				}
				ms = m
			}
		}
	}
	if ms == nil || ms.Referrers() == nil {
		return nil
	}
	lc, ok := ms.Len.(*ssa.Call)
	if !ok || len(lc.Common().Args) != 1 || lc.Common().Args[0] != ssa.Value(g.Params[0]) {
		return nil
	}
	if b, ok := lc.Common().Value.(*ssa.Builtin); !ok || b.Name() != "len" {
		return nil
	}
	for _, r := range returnsOf(g) {
		if r.Results[0] != ssa.Value(ms) && !isNilConst(r.Results[0]) {
			return nil
		}
	}
	var mi *mapperInfo
	for _, r := range *ms.Referrers() {
		ia, ok := r.(*ssa.IndexAddr)
		if !ok || ia.Referrers() == nil {
			continue
		}
		for _, r2 := range *ia.Referrers() {
			st, ok := r2.(*ssa.Store)
			if !ok || st.Addr != ssa.Value(ia) {
				continue
			}
			if mi != nil || !inLoop(st.Block()) {
				return nil
			}
			mi = &mapperInfo{st, ia.Index}
		}
	}
	return mi
}

// mapperCall: map(in, element pattern) for a call of an elementwise mapper.
func (ts *Terms) mapperCall(x *ssa.Call, fr *Frame, depth int) *Term {
	c := x.Common()
	g := c.StaticCallee()
	if g == nil || c.IsInvoke() || len(c.Args) != 2 || depth > 30 || frameDepth(fr) >= 12 || onChain(fr, g) {
		return nil
	}
	mi := mapperOf(g)
	if mi == nil {
		return nil
	}
	nfr := &Frame{Fn: g, Parent: fr, Call: x, Depth: frameDepth(fr) + 1}
	elem := ts.of(mi.store.Val, nfr, depth+1)
	ix := ts.of(mi.idx, nfr, depth+1).LooseString()
	if !strings.Contains(ix, "φ") {
		return nil
	}
	return &Term{Op: "call", Name: "map", Args: []*Term{ts.of(c.Args[0], fr, depth+1), elem}, Site: x.Pos(), ix: ix}
}

func fnNames(f *ssa.Function) (pkg, name string) {
	o := f
	if f.Origin() != nil {
		o = f.Origin()
	}
	p := funcPkgPath(o)
	if o.Signature.Recv() != nil {
		return p, recvName(o) + "." + o.Name()
	}
	return p, o.Name()
}

// putUint64Of: the value written by the one binary.BigEndian.PutUint64(buf, v) that fills
// the 8-byte buffer (nothing else writes it).
func putUint64Of(ms *ssa.MakeSlice) ssa.Value {
	c, ok := ms.Len.(*ssa.Const)
	if !ok || c.Value == nil || c.Value.ExactString() != "8" {
		return nil
	}
	return putUint64Into(ms, 8)
}

func putUint64Into(ms ssa.Value, n int) ssa.Value {
	if sl, ok := ms.(*ssa.Slice); ok {
		at, ok := sl.X.Type().Underlying().(*types.Pointer)
		if !ok {
			return nil
		}
		arr, ok := at.Elem().Underlying().(*types.Array)
		if !ok || arr.Len() != int64(n) {
			return nil
		}
	}
	if ms.Referrers() == nil {
		return nil
	}
	var val ssa.Value
	for _, r := range *ms.Referrers() {
		switch x := r.(type) {
		case *ssa.Call:
			pkg, name := calleeName(x.Common())
			if pkg == "encoding/binary" && name == "bigEndian.PutUint64" && len(x.Common().Args) == 3 && x.Common().Args[1] == ssa.Value(ms) {
				if val != nil {
					return nil
				}
				val = x.Common().Args[2]
				continue
			}
			// handed on as an argument (append(key, bz...), store.Set(key, bz)): a read
		case *ssa.IndexAddr:
			if x.Referrers() != nil {
				for _, r2 := range *x.Referrers() {
					if st, ok := r2.(*ssa.Store); ok && st.Addr == ssa.Value(x) {
						return nil
					}
				}
			}
		}
	}
	return val
}

// passesThroughRead: every non-failure return of the (read-only) helper hands back, as
// result idx, result #idx' of one and the same call made in the helper - a getter of a
// dependency or of the keeper - untouched.
func passesThroughRead(f *ssa.Function, idx int) bool {
	var one ssa.Value
	n := 0
	for _, r := range returnsOf(f) {
		if isFailureReturn(r) || idx >= len(r.Results) {
			continue
		}
		v := r.Results[idx]
		switch x := v.(type) {
		case *ssa.Extract:
			if _, ok := x.Tuple.(*ssa.Call); !ok {
				return false
			}
		case *ssa.Call:
			if x.Common().IsInvoke() == false && x.Common().StaticCallee() == nil {
				return false
			}
		default:
			return false
		}
		if one != nil && one != v {
			return false
		}
		one = v
		n++
	}
	return n > 0
}

// infeasibleForConstArgs: block b of the callee is dominated by a comparison of a parameter
// with a constant that the constant argument of this call contradicts
// (func (op opKind) settle(...) { if op == opBurn { … } … } called with opMint).
func infeasibleForConstArgs(b *ssa.BasicBlock, call *ssa.Call, fr *Frame) bool {
	f := b.Parent()
	args := call.Common().Args
	if call.Common().IsInvoke() {
		return false
	}
	for _, df := range dominatingFacts(b) {
		bo, ok := df.Cond.(*ssa.BinOp)
		if !ok || (bo.Op != token.EQL && bo.Op != token.NEQ) {
			continue
		}
		p, ok := bo.X.(*ssa.Parameter)
		c, ok2 := bo.Y.(*ssa.Const)
		if !ok || !ok2 || c.Value == nil {
			continue
		}
		for i, q := range f.Params {
			if q != p || i >= len(args) {
				continue
			}
			ac := constThroughFrames(args[i], fr, 0)
			if ac == nil || ac.Value == nil {
				continue
			}
			equal := constant.Compare(ac.Value, token.EQL, c.Value)
			want := df.Holds == (bo.Op == token.EQL) // the path needs param == c
			if equal != want {
				return true
			}
		}
	}
	return false
}

// constThroughFrames: the constant a value is on this call chain (a parameter bound to a
// constant argument by a caller).
func constThroughFrames(v ssa.Value, fr *Frame, d int) *ssa.Const {
	if d > 8 {
		return nil
	}
	switch x := v.(type) {
	case *ssa.Const:
		return x
	case *ssa.Parameter:
		if fr == nil || fr.Call == nil || fr.Call.Common().IsInvoke() {
			return nil
		}
		for i, p := range x.Parent().Params {
			if p == x && i < len(fr.Call.Common().Args) {
				return constThroughFrames(fr.Call.Common().Args[i], argsFrame(fr), d+1)
			}
		}
	case *ssa.ChangeType:
		return constThroughFrames(x.X, fr, d+1)
	case *ssa.Convert:
		return constThroughFrames(x.X, fr, d+1)
	}
	return nil
}

// fieldOfAlloc / fieldOfValue: the value stored into field f of a struct, followed through
// whole-struct copies and parameter passing up the call chain; with the frame it lives in.
func fieldOfAlloc(a *ssa.Alloc, f int, fr *Frame, d int) (ssa.Value, *Frame) {
	if d > 10 || a.Referrers() == nil {
		return nil, nil
	}
	var fieldSt, wholeSt []*ssa.Store
	for _, r := range *a.Referrers() {
		switch x := r.(type) {
		case *ssa.FieldAddr:
			if x.Field != f || x.Referrers() == nil {
				continue
			}
			for _, r2 := range *x.Referrers() {
				if st, ok := r2.(*ssa.Store); ok && st.Addr == ssa.Value(x) {
					fieldSt = append(fieldSt, st)
				}
			}
		case *ssa.Store:
			if x.Addr == ssa.Value(a) {
				wholeSt = append(wholeSt, x)
			}
		}
	}
	switch {
	case len(fieldSt) == 1 && len(wholeSt) == 0:
		return fieldSt[0].Val, fr
	case len(fieldSt) == 0 && len(wholeSt) == 1:
		return fieldOfValue(wholeSt[0].Val, f, fr, d+1)
	}
	return nil, nil
}

func fieldOfValue(v ssa.Value, f int, fr *Frame, d int) (ssa.Value, *Frame) {
	if d > 10 {
		return nil, nil
	}
	switch x := v.(type) {
	case *ssa.Parameter:
		if fr == nil || fr.Call == nil || fr.Call.Common().IsInvoke() {
			return nil, nil
		}
		for i, p := range x.Parent().Params {
			if p == x && i < len(fr.Call.Common().Args) {
				return fieldOfValue(fr.Call.Common().Args[i], f, argsFrame(fr), d+1)
			}
		}
	case *ssa.UnOp:
		if x.Op == token.MUL {
			if a, ok := x.X.(*ssa.Alloc); ok {
				return fieldOfAlloc(a, f, fr, d+1)
			}
			// a package-level table initialised once by its declaration
			if gv := globalFieldOfLoad(x, f); gv != nil {
				return gv, nil
			}
		}
	}
	return nil, nil
}

// nestedLiteral: the struct value assembled through &outer.inner.f = v stores.
func (ts *Terms) nestedLiteral(fa *ssa.FieldAddr, fr *Frame, depth int) *Term {
	pt, ok := fa.Type().(*types.Pointer)
	if !ok || depth > 30 || fa.Referrers() == nil {
		return nil
	}
	if _, isStruct := pt.Elem().Underlying().(*types.Struct); !isStruct {
		return nil
	}
	fields := map[string]map[string]*Term{}
	var order []string
	for _, r := range *fa.Referrers() {
		in, ok := r.(*ssa.FieldAddr)
		if !ok || in.Referrers() == nil {
			continue
		}
		name := fieldNameShort(in.X.Type(), in.Field)
		for _, r2 := range *in.Referrers() {
			if st, ok := r2.(*ssa.Store); ok && st.Addr == ssa.Value(in) {
				if fields[name] == nil {
					fields[name] = map[string]*Term{}
					order = append(order, name)
				}
				t := ts.of(st.Val, fr, depth+1)
				fields[name][t.String()] = t
			}
		}
		if fields[name] == nil {
			if nt := ts.nestedLiteral(in, fr, depth+1); nt != nil {
				fields[name] = map[string]*Term{nt.String(): nt}
				order = append(order, name)
			}
		}
	}
	if len(order) == 0 {
		return nil
	}
	sort.Strings(order)
	t := &Term{Op: "struct", Name: typeShort(fa.Type()), Site: fa.Pos(), literal: true}
	for _, n := range order {
		t.Args = append(t.Args, mk("const", n), phiOf(fields[n]))
	}
	return t
}

// hasOp: some node of t has one of the given operators.
func hasOp(t *Term, ops ...string) bool {
	if t == nil {
		return false
	}
	for _, o := range ops {
		if t.Op == o {
			return true
		}
	}
	for _, a := range t.Args {
		if hasOp(a, ops...) {
			return true
		}
	}
	return false
}

// calleeFilledField: field f of the local a is assigned only by irismod callees that were
// handed a's address (each on all of its non-failure returns, with the caller going on only
// after success): the value stored, in the callee's frame. nil when that is not the case.
func (ts *Terms) calleeFilledField(a *ssa.Alloc, f int, fr *Frame, depth int, at ssa.Instruction) *Term {
	if depth >= 30 || frameDepth(fr) >= 12 || a.Referrers() == nil {
		return nil
	}
	m := map[string]*Term{}
	for _, r := range *a.Referrers() {
		c, ok := r.(*ssa.Call)
		if !ok {
			continue
		}
		if c.Common().IsInvoke() {
			return nil
		}
		g := c.Common().StaticCallee()
		if g == nil || g.Blocks == nil || !isIrismodFunc(g) || onChain(fr, g) {
			return nil
		}
		if at != nil && at.Parent() == a.Parent() && !instrReaches(c, at) {
			continue
		}
		succeeded := false
		if at != nil && at.Parent() == a.Parent() {
			for _, cf := range callFacts(at.Block()) {
				if cf.Call == c && cf.Outcome == "err==nil" {
					succeeded = true
				}
			}
		}
		for i, arg := range c.Common().Args {
			if arg != ssa.Value(a) || i >= len(g.Params) || g.Params[i].Referrers() == nil {
				continue
			}
			nfr := &Frame{Fn: g, Parent: fr, Call: c, Depth: frameDepth(fr) + 1}
			for _, pr := range *g.Params[i].Referrers() {
				fa, ok := pr.(*ssa.FieldAddr)
				if !ok || fa.Field != f || fa.Referrers() == nil {
					continue
				}
				for _, r2 := range *fa.Referrers() {
					st, ok := r2.(*ssa.Store)
					if !ok || st.Addr != ssa.Value(fa) {
						continue
					}
					for _, ret := range returnsOf(g) {
						if succeeded && isFailureReturn(ret) {
							continue
						}
						if !instrDominates(st, ret) {
							return nil
						}
					}
					if at != nil && at.Parent() == a.Parent() && !instrDominates(c, at) {
						return nil
					}
					t := ts.of(st.Val, nfr, depth+1)
					m[t.String()] = t
				}
			}
		}
	}
	if len(m) == 0 {
		return nil
	}
	return phiOf(m)
}

// zeroTermOf: the zero value of a basic type as a term; nil for other types.
func zeroTermOf(ft types.Type) *Term {
	if ft == nil {
		return nil
	}
	b, ok := ft.Underlying().(*types.Basic)
	if !ok {
		return nil
	}
	switch {
	case b.Info()&types.IsBoolean != 0:
		return mk("const", "false")
	case b.Info()&types.IsInteger != 0:
		return mk("const", "0")
	case b.Info()&types.IsString != 0:
		return mk("const", `""`)
	}
	return nil
}

// dynTypeOf: the one concrete type an interface value has on this chain (a strategy object
// handed down by the caller: k.toggleFeed(ctx, name, sender, pauseToggle{})); nil if unknown.
func dynTypeOf(v ssa.Value, fr *Frame, d int) types.Type {
	if d > 8 || v == nil {
		return nil
	}
	one := func(a *ssa.Alloc) ssa.Value {
		if a.Referrers() == nil {
			return nil
		}
		var sv ssa.Value
		n := 0
		for _, r := range *a.Referrers() {
			if st, ok := r.(*ssa.Store); ok && st.Addr == ssa.Value(a) {
				sv = st.Val
				n++
			}
		}
		if n == 1 {
			return sv
		}
		return nil
	}
	switch x := v.(type) {
	case *ssa.MakeInterface:
		return x.X.Type()
	case *ssa.ChangeInterface:
		return dynTypeOf(x.X, fr, d+1)
	case *ssa.Parameter:
		if fr == nil || fr.Call == nil {
			return nil
		}
		cc := fr.Call.Common()
		for i, p := range x.Parent().Params {
			if p != x {
				continue
			}
			j := i
			if cc.IsInvoke() {
				j--
			}
			if j >= 0 && j < len(cc.Args) {
				return dynTypeOf(cc.Args[j], argsFrame(fr), d+1)
			}
		}
	case *ssa.UnOp:
		if x.Op != token.MUL {
			return nil
		}
		switch a := x.X.(type) {
		case *ssa.Alloc:
			if sv := one(a); sv != nil {
				return dynTypeOf(sv, fr, d+1)
			}
		case *ssa.FreeVar:
			if fr != nil && fr.MC != nil {
				for i, fv := range a.Parent().FreeVars {
					if fv == a && i < len(fr.MC.Bindings) {
						if al, ok := fr.MC.Bindings[i].(*ssa.Alloc); ok {
							if sv := one(al); sv != nil {
								return dynTypeOf(sv, fr.Parent, d+1)
							}
						}
					}
				}
			}
		}
	}
	return nil
}

// invokeConstResult: result idx of a method called through an unexported irismod interface
// whose implementation is known on this chain and returns constants / pure values
// (toggle.queues() = (PAUSED, RUNNING)): the value the implementation returns.
func (ts *Terms) invokeConstResult(x *ssa.Call, fr *Frame, idx int, depth int) *Term {
	c := x.Common()
	if !c.IsInvoke() || depth > 30 || frameDepth(fr) >= 14 || fr == nil {
		return nil
	}
	it := namedOf(c.Value.Type())
	if it == nil || it.Obj().Pkg() == nil || !isIrismodPath(it.Obj().Pkg().Path()) || it.Obj().Exported() {
		return nil
	}
	dt := dynTypeOf(c.Value, fr, 0)
	if dt == nil || ts.cx == nil || ts.cx.P == nil || ts.cx.P.SSA == nil {
		return nil
	}
	g := ts.cx.P.SSA.LookupMethod(dt, c.Method.Pkg(), c.Method.Name())
	if g == nil || g.Blocks == nil || !isIrismodFunc(g) || onChain(fr, g) || len(g.Blocks) > 8 || idx >= g.Signature.Results().Len() {
		return nil
	}
	// only implementations that touch no state: a description of the strategy, not an action
	for _, b := range g.Blocks {
		for _, ins := range b.Instrs {
			if ci, ok := ins.(ssa.CallInstruction); ok {
				if ts.cx.classifyCall(ci) != "" {
					return nil
				}
				if h := ci.Common().StaticCallee(); h != nil && isIrismodFunc(h) && h.Blocks != nil {
					for k := range ts.cx.transPrimKinds(h) {
						if strings.HasPrefix(k, "store.") || strings.HasPrefix(k, "bank.") || strings.HasPrefix(k, "ext.") || strings.HasPrefix(k, "nft.") {
							return nil
						}
					}
				}
				if ci.Common().IsInvoke() {
					return nil
				}
			}
		}
	}
	nfr := &Frame{Fn: g, Parent: fr, Call: x, Depth: frameDepth(fr) + 1}
	m := map[string]*Term{}
	for _, r := range returnsOf(g) {
		if idx >= len(r.Results) {
			return nil
		}
		t := ts.of(r.Results[idx], nfr, depth+1)
		m[t.String()] = t
	}
	if len(m) == 0 {
		return nil
	}
	return phiOf(m)
}
