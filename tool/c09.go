package main

// C09 — Token: identity indexes, owner guards, cap guards, lossy cap comparison,
// burn tally, fee split identity.

import (
	"fmt"
	"go/types"
	"strings"

	"golang.org/x/tools/go/ssa"
)

func init() { register("C09", true, true, "other", runC09) }

const (
	tokSymbol  = "token:PrefixTokenForSymbol=0x01"
	tokMinUnit = "token:PrefixTokenForMinUint=0x02"
	tokOwnerIx = "token:PrefixTokens=0x03"
	tokBurn    = "token:PrefixBurnTokenAmt=0x04"
)

func watchIntCmp(ci ssa.CallInstruction) string {
	pkg, name := calleeName(ci.Common())
	if pkg == "cosmossdk.io/math" {
		switch name {
		case "Int.LT", "Int.GT", "Int.LTE", "Int.GTE", "LegacyDec.LT", "LegacyDec.GT", "LegacyDec.LTE", "LegacyDec.GTE":
			return "cmp:" + name
		}
	}
	return ""
}

func runC09(cx *Ctx, r *Report) {
	r.Explanation = "F2/F3/F5/F4 over all call chains of the token message handlers (v1 and the v1beta1 wrappers). (identity) no Delete on the symbol (0x01) or min-unit (0x02) index anywhere; a Set on them from a message either is dominated by the facts HasSymbol/HasMinUint(...)=false for the very symbol / min unit being written (new token) or rewrites the record loaded under the same symbol; no assignment to Symbol/MinUnit/Scale of a loaded token. (owner) in EditToken, MintToken and TransferTokenOwner every state mutation holds the fact declared-signer == recorded owner of the loaded token; the unauthenticated owner-change helper is not reachable from any message. (cap) MintCoins in MintToken holds token.Mintable and ¬(amount > MaxSupply·10^scale − supply); IssueToken's stateless validation accepts only MaxSupply ≥ InitialSupply; no ordering comparison mentions MaxSupply on one side and a truncating quotient on the other (lossy cap comparison). (tally) the burned coin, the tallied coin and the coin taken from the sender are one term. (fee split) the owner pays fee into the module, tax goes to the fee collector, fee−tax is burned, with tax and fee the same terms in all three. Decides these on every path; numeric cap arithmetic (10^scale overflow) is not decided."
	r.Assumptions = []string{"baseapp runs ValidateBasic of MsgIssueToken before the handler", "bank keeper semantics", "stored tokens are indexed under their own Symbol field"}
	// ---- identity: deletes anywhere
	nAcc := 0
	for _, f := range cx.P.AllFuncs {
		if !isConsensusCode(cx, f) {
			continue
		}
		for _, p := range cx.primsOf(f) {
			if p.Module != "token" || !strings.HasPrefix(p.Kind, "store.") {
				continue
			}
			nAcc++
			for _, px := range p.Prefix {
				if strings.Contains(px, "?") && pkgRole(funcPkgPath(f)) != RoleUpgrade {
					r.toolErr("unresolved key prefix %s at %s", px, cx.P.Pos(p.Site.Pos()))
				}
				if p.Kind == "store.delete" && (px == tokSymbol || px == tokMinUnit) {
					r.violate("identity-no-delete", px+"|"+anchorOf(cx, f), cx.P.Pos(p.Site.Pos()), "Delete on identity index "+px+" in "+shortFn(f)+": a symbol / min unit could be reused")
				}
			}
		}
	}
	r.ok("identity-no-delete", "scan", "", fmt.Sprintf("%d token store accesses scanned: no Delete on prefixes 0x01 / 0x02", nAcc))
	// ---- identity fields immutable
	nst := 0
	for _, f := range cx.P.AllFuncs {
		if !isConsensusCode(cx, f) || moduleOf(funcPkgPath(f)) != "token" || pkgRole(funcPkgPath(f)) == RoleUpgrade {
			continue
		}
		for _, b := range f.Blocks {
			for _, ins := range b.Instrs {
				st, ok := ins.(*ssa.Store)
				if !ok {
					continue
				}
				fa, ok := st.Addr.(*ssa.FieldAddr)
				if !ok {
					continue
				}
				tn := namedOf(fa.X.Type())
				if tn == nil || tn.Obj().Name() != "Token" || !strings.HasSuffix(tn.Obj().Pkg().Path(), "token/types/v1") {
					continue
				}
				fname := fieldNameShort(fa.X.Type(), fa.Field)
				if fname != "Symbol" && fname != "MinUnit" && fname != "Scale" {
					continue
				}
				nst++
				base, _ := fa.X.(*ssa.Alloc)
				fresh := base != nil
				if base != nil {
					for _, ref := range *base.Referrers() {
						if s2, ok := ref.(*ssa.Store); ok && s2.Addr == base {
							fresh = false
						}
					}
				}
				if globalBase(fa.X) != nil {
					fresh = true // a package-level template value, not a stored token
				}
				r.check(fresh, "identity-immutable", "Token."+fname+"|"+anchorOf(cx, f), cx.P.Pos(st.Pos()), "Token."+fname+" assigned only while building a fresh value", "Token."+fname+" of a loaded token is overwritten in "+shortFn(f))
			}
		}
	}
	entries := cx.entriesOfModule("token", "msg")
	ownerRPC := map[string]bool{"EditToken": true, "MintToken": true, "TransferTokenOwner": true}
	type ev3 struct {
		ev *Event
		w  *Walker
	}
	feeEvents := map[string][]ev3{}
	burnEvents := map[string][]ev3{}
	nNs := 0
	nBankDenoms := 0
	over := cx.forEachEvent(entries, watchIntCmp, func(e *Entry, w *Walker, ev *Event) {
		pos := ev.Pos(cx)
		ekey := e.Module + "." + e.Name
		_, signers := cx.signerTermsOf(e)
		signer := ""
		if len(signers) == 1 {
			signer = signers[0]
		}
		// bank denominations are min units: a coin or a supply / balance query named by a
		// token's SYMBOL addresses another denomination (normally an empty one)
		if strings.HasPrefix(ev.Kind, "bank.") || strings.HasPrefix(ev.Kind, "ext.BankKeeper.") {
			nBankDenoms++
			isSymbol := func(t *Term) bool { return t != nil && t.Op == "field" && t.Name == "Symbol" }
			var bad *Term
			for _, a := range ev.Args {
				if isSymbol(a) {
					bad = a // a denom handed over as a plain string (GetSupply, GetBalance)
				}
				if c := findSub(a, func(t *Term) bool {
					return t.Op == "call" && t.Name == "coin" && len(t.Args) == 2 && isSymbol(t.Args[0])
				}); c != nil {
					bad = c.Args[0]
				}
			}
			if bad != nil {
				r.violate("bank-denom-is-min-unit", ekey+"|"+ev.Kind, pos, ev.Kind+" is given the denomination "+bad.LooseString()+" - a token's symbol - where the bank module knows the token by its min unit: the circulating amount read (or the coins moved) belong to a different denomination, so the cap check passes against an empty supply")
			}
		}
		// lossy comparison
		if strings.HasPrefix(ev.Kind, "cmp:") {
			a, b := ev.Args[0].LooseString(), ev.Args[1].LooseString()
			for _, pr := range [][2]string{{a, b}, {b, a}} {
				if strings.Contains(pr[0], "MaxSupply") && strings.Contains(pr[1], ".Quo(") {
					r.violate("lossy-cap-comparison", ekey+"|"+strings.TrimPrefix(ev.Kind, "cmp:"), pos, "the cap "+pr[0]+" is compared with a truncated quotient "+pr[1]+": fractions of a unit in circulation are ignored, so the cap can be lowered below what circulates")
					return
				}
			}
			if strings.Contains(a+b, "MaxSupply") {
				r.ok("lossy-cap-comparison", ekey+"|"+strings.TrimPrefix(ev.Kind, "cmp:"), pos, "cap comparison "+a+" vs "+b+" has no truncating quotient on either side")
			}
			return
		}
		// a coin's denom is a MIN UNIT: looked up in the symbol index it names another token
		// (symbols and min units are separate namespaces and may collide), and the owner,
		// mintable and cap guards would then be evaluated on that other token
		if (ev.Kind == "store.get" || ev.Kind == "store.has") && hasPrefix(ev, tokSymbol) && e.Module == "token/v1" && (e.Name == "MintToken" || e.Name == "BurnToken") {
			if k := ev.Args[0].LooseString(); strings.HasSuffix(k, "(msg.Coin.Denom)") {
				r.violate("denom-namespace", ekey+"|"+tokSymbol, pos, "the coin's denom (a min unit) is looked up in the SYMBOL index on chain "+ev.Fr.String()+": a token whose symbol equals another token's min unit is resolved instead, so its owner can mint the other token's coins past that token's owner, mintable flag and cap")
			}
			nNs++
		}
		facts := func() []FactT { return w.FactsAt(ev.Fr, ev.Site) }
		switch {
		case ev.Kind == "store.set" && (hasPrefix(ev, tokSymbol) || hasPrefix(ev, tokMinUnit)):
			idT := keyArg(ev.Args[0], 0)
			isSym := hasPrefix(ev, tokSymbol)
			fs := facts()
			has := "token/keeper.Keeper.HasMinUint(keeper, "
			if isSym {
				has = "token/keeper.Keeper.HasSymbol(keeper, "
			}
			_, fresh := hasFact(fs, false, has+idT+")")
			if !fresh {
				// raw store form
				_, fresh = hasFact(fs, false, "storetypes.KVStore.Has(", idT)
			}
			rewrite := false
			if isSym {
				// KeySymbol(load(S).Symbol) where the record was loaded under KeySymbol(S)
				if strings.HasSuffix(idT, "#0.Symbol") && strings.Contains(idT, "getTokenBySymbol(keeper, ") || strings.Contains(idT, "getTokenByMinUnit(keeper, ") || strings.Contains(idT, "getTokenByContract(keeper, ") {
					rewrite = true
				}
			}
			if !isSym && strings.HasSuffix(idT, "#0.MinUnit") && strings.Contains(idT, "getTokenByMinUnit(keeper, ") {
				rewrite = true // the min-unit entry of a token loaded under that very min unit
			}
			what := "min-unit"
			if isSym {
				what = "symbol"
			}
			if !fresh && !rewrite {
				// the written token comes from a helper with several returns: judge each
				// return alternative under the facts that hold at that return
				kt := findSub(ev.Args[0], func(t *Term) bool { return t.Op == "call" && strings.Contains(t.Name, "types.Key") })
				if kt != nil && len(kt.Args) > 0 {
					if alts := w.callAlternatives(ev.Fr, kt.Args[0]); len(alts) > 0 {
						all := true
						var descr []string
						for _, a := range alts {
							id := a.Val.LooseString()
							_, fr1 := hasFact(a.Facts, false, has+id+")")
							rw := strings.Contains(id, "getTokenBySymbol(keeper, ") || strings.Contains(id, "getTokenByMinUnit(keeper, ")
							if !fr1 && !rw {
								all = false
							}
							descr = append(descr, fmt.Sprintf("%s [fresh=%v rewrite=%v]", id, fr1, rw))
						}
						if all {
							r.ok("identity-unique", ekey+"|"+what, pos, "every return alternative of the token builder is either not yet existing or a loaded token: "+strings.Join(descr, "; "))
							return
						}
					}
				}
			}
			r.check(fresh || rewrite, "identity-unique", ekey+"|"+what, pos,
				map[bool]string{true: "new " + what + " " + idT + " written under the fact that it does not exist yet", false: "record loaded under its own symbol is rewritten in place (" + idT + ")"}[fresh],
				what+" index written for "+idT+" without the not-yet-existing fact and not as an in-place rewrite of a loaded token, on chain "+ev.Fr.String())
		}
		// owner guard: in the owner-governed rpcs every mutation outside fee handling;
		// in every other non-governance rpc any rewrite of an existing token record or
		// of the owner index (that is how an unauthenticated owner change would show)
		ownerSensitive := ev.Kind == "store.delete" && hasPrefix(ev, tokOwnerIx) ||
			ev.Kind == "store.set" && hasPrefix(ev, tokSymbol) && strings.Contains(keyArg(ev.Args[0], 0), "getTokenBy")
		if signer != "msg.Authority" && (ownerRPC[e.Name] && isMutatingKind(ev.Kind) && !inTokenFeeFrame(ev) || ownerSensitive) {
			fs := facts()
			f, ok := hasFact(fs, false, "("+signer+" != ", "#0.Owner)")
			r.check(ok, "owner-guard", ekey+"|"+ev.Kind+"|"+strings.Join(ev.Prefix, ","), pos, "declared signer equals the recorded owner before "+ev.Kind+" ("+f.String()+")", ev.Kind+" reachable in "+e.Name+" without the fact signer == token owner on chain "+ev.Fr.String())
		}
		if e.Name == "MintToken" && ev.Kind == "bank.MintCoins" {
			fs := facts()
			_, ok1 := hasFact(fs, true, "#0.Mintable")
			// ¬(amount > cap − supply): the FIRST operand is the minted amount, the second mentions the cap and the supply
			var f2 FactT
			ok2 := false
			for _, ft := range fs {
				if ft.Holds || !strings.HasPrefix(ft.Text, "math.Int.GT(") || !strings.HasSuffix(ft.Text, ")") {
					continue
				}
				as := splitTop(ft.Text[len("math.Int.GT("):len(ft.Text)-1], ", ")
				if len(as) == 2 && !strings.Contains(as[0], ".MaxSupply") && strings.Contains(as[0], "msg.") && strings.Contains(as[1], ".MaxSupply") && strings.Contains(as[1], "BankKeeper.GetSupply(") {
					f2, ok2 = ft, true
				}
			}
			r.check(ok1, "mintable-guard", ekey, pos, "token.Mintable holds before MintCoins", "MintCoins reachable without the Mintable flag being tested true on chain "+ev.Fr.String())
			r.check(ok2, "cap-guard", ekey, pos, "¬(amount > MaxSupply·10^scale − supply) holds before MintCoins ("+f2.String()+")", "MintCoins reachable without the cap comparison on chain "+ev.Fr.String())
		}
		if strings.HasPrefix(ev.Kind, "bank.") && inTokenFeeFrame(ev) {
			feeEvents[ekey] = append(feeEvents[ekey], ev3{ev, w})
		}
		if e.Name == "BurnToken" && (strings.HasPrefix(ev.Kind, "bank.") || ev.Kind == "store.set" && hasPrefix(ev, tokBurn)) {
			burnEvents[ekey] = append(burnEvents[ekey], ev3{ev, w})
		}
	})
	for _, o := range over {
		r.toolErr("frame budget exceeded for %s", o)
	}
	// fee split identity
	for _, k := range sortedKeys(feeEvents) {
		evs := feeEvents[k]
		var a2m, m2m, burn *Event
		for _, x := range evs {
			switch x.ev.Kind {
			case "bank.SendCoinsFromAccountToModule":
				a2m = x.ev
			case "bank.SendCoinsFromModuleToModule":
				m2m = x.ev
			case "bank.BurnCoins":
				burn = x.ev
			}
		}
		if a2m == nil || m2m == nil || burn == nil || len(evs) != 3 {
			r.violate("fee-split", k, "", fmt.Sprintf("fee handling of %s is not exactly {payer→module, module→fee collector, burn}: %d bank effects", k, len(evs)))
			continue
		}
		fee := strings.TrimSuffix(strings.TrimPrefix(a2m.Args[len(a2m.Args)-1].LooseString(), "coins("), ")")
		tax := strings.TrimSuffix(strings.TrimPrefix(m2m.Args[len(m2m.Args)-1].LooseString(), "coins("), ")")
		burned := burn.Args[len(burn.Args)-1].LooseString()
		e := cx.findEntryByKey(k)
		_, signers := cx.signerTermsOf(e)
		payerOK := len(signers) == 1 && a2m.Args[1].LooseString() == "addr("+signers[0]+")"
		ok := burned == "coins(sdk.Coin.Sub("+fee+", "+tax+"))" && strings.Contains(tax, fee+".Amount") && strings.Contains(tax, "TruncateInt") && m2m.Args[2].LooseString() == "keeper.feeCollectorName" && payerOK &&
			w3must(evs[0].w, a2m) && w3must(evs[0].w, m2m) && w3must(evs[0].w, burn)
		r.check(ok, "fee-split", k, a2m.Pos(cx), "signer pays fee into the module, ⌊fee·rate⌋ goes to the fee collector and fee−tax is burned (one fee term, one tax term, all three on every successful path)", "fee split identity broken: paid "+fee+" by "+a2m.Args[1].LooseString()+", tax "+tax+" to "+m2m.Args[2].LooseString()+", burned "+burned)
	}
	// burn tally
	for _, k := range sortedKeys(burnEvents) {
		evs := burnEvents[k]
		var take, burn, tally *Event
		n := 0
		for _, x := range evs {
			switch {
			case x.ev.Kind == "bank.SendCoinsFromAccountToModule":
				take = x.ev
				n++
			case x.ev.Kind == "bank.BurnCoins":
				burn = x.ev
				n++
			case x.ev.Kind == "store.set":
				tally = x.ev
				n++
			default:
				n += 10
			}
		}
		if take == nil || burn == nil || tally == nil || n != 3 {
			r.violate("burn-tally", k, "", fmt.Sprintf("BurnToken of %s is not exactly {sender→module, tally, burn}", k))
			continue
		}
		c1 := take.Args[len(take.Args)-1].LooseString()
		c2 := burn.Args[len(burn.Args)-1].LooseString()
		coin := strings.TrimSuffix(strings.TrimPrefix(c2, "coins("), ")")
		tv := tally.Args[1].LooseString()
		// tallied value: φ{coin | coin + previous tally}
		ok := false
		if ph := findSub(tally.Args[1], func(t *Term) bool { return t.Op == "phi" }); ph != nil && c1 == c2 {
			sawPlain, sawAdd, other := false, false, false
			for _, a := range ph.Args {
				switch {
				case a.LooseString() == coin:
					sawPlain = true
				case a.Op == "call" && a.Name == "sdk.Coin.Add" && len(a.Args) == 2:
					// coin + previous tally, in either operand order (Coin.Add commutes)
					matched := false
					for i := 0; i < 2; i++ {
						xs := a.Args[i].LooseString()
						if (xs == coin || xs == "φ{"+coin+"|⟲}" || xs == "⟲") && cx.isPrevTally(a.Args[1-i], tally.Prefix, coin+".Denom") {
							matched = true
						}
					}
					if matched {
						sawAdd = true
						continue
					}
					other = true
				case a.LooseString() == "⟲":
				default:
					other = true
				}
			}
			ok = sawPlain && sawAdd && !other
		}
		ok = ok && strings.Contains(tally.Args[0].LooseString(), coin+".Denom") && w3must(evs[0].w, take) && w3must(evs[0].w, burn) && w3must(evs[0].w, tally)
		r.check(ok, "burn-tally", k, burn.Pos(cx), "the coin taken from the sender, the coin burned and the coin added to the tally are the same term "+coin, "burn tally mismatch: taken "+c1+", burned "+c2+", tallied "+tv)
	}
	// IssueToken: stateless validation bounds InitialSupply by MaxSupply
	if pk := cx.P.ByPath[modPrefix+"modules/token/types/v1"]; pk != nil {
		if tn, ok := pk.Types.Scope().Lookup("MsgIssueToken").(*types.TypeName); ok {
			var vb *ssa.Function
			for _, t := range []types.Type{tn.Type(), types.NewPointer(tn.Type())} {
				if sel := cx.P.SSA.MethodSets.MethodSet(t).Lookup(tn.Pkg(), "ValidateBasic"); sel != nil {
					vb = cx.P.SSA.FuncValue(sel.Obj().(*types.Func))
				}
			}
			ok := vb != nil && cx.acceptsOnlyWhen(vb, false, ".MaxSupply < ", ".InitialSupply")
			r.check(ok, "issue-cap", "token/v1.MsgIssueToken.ValidateBasic", cx.P.Pos(tn.Pos()), "MsgIssueToken.ValidateBasic accepts only MaxSupply ≥ InitialSupply", "MsgIssueToken.ValidateBasic no longer rejects MaxSupply < InitialSupply")
		}
	}
	cx.lostUpdateRule(r, []string{"token"}, 10)
	cx.insufficientStrict(r, "token")
	cx.scanPrefixClosedRule(r, []string{"token"}, "scan-prefix-closed")
	cx.keyEncodingUniformRule(r, []string{"token"}, "key-encoding-uniform")
	{
		r.ok("denom-namespace", "token/v1.MintToken,BurnToken", "", fmt.Sprintf("%d reads of the symbol index on the mint/burn chains, none keyed by the coin's denom itself", nNs))
	}
	if nBankDenoms < 10 {
		r.toolErr("only %d bank effects / queries seen on the token message chains (≥10 confirmed)", nBankDenoms)
	} else {
		r.ok("bank-denom-is-min-unit", "scan", "", fmt.Sprintf("%d bank effects and queries on the token message chains: no denomination is a token's Symbol field", nBankDenoms))
	}
	r.requireCount("identity-unique", 6)
	r.requireCount("owner-guard", 6)
	r.requireCount("fee-split", 4)
	r.requireCount("burn-tally", 2)
	r.requireCount("cap-guard", 2)
}

func w3must(w *Walker, ev *Event) bool { return w.chainMust(ev.Fr, ev.Site) }

func anchorOfFn(f *ssa.Function) string {
	// exported keeper API names are part of the module's Go interface
	return shortFn(f)
}

func (cx *Ctx) findEntryByKey(k string) *Entry {
	for i := range cx.Entries {
		e := &cx.Entries[i]
		if e.Role == "msg" && e.Module+"."+e.Name == k {
			return e
		}
	}
	return nil
}

// inTokenFeeFrame: the event happens inside one of the keeper's exported fee
// deduction entry points (whatever internal helper they delegate to).
func inTokenFeeFrame(ev *Event) bool {
	for f := ev.Fr; f != nil; f = f.Parent {
		if n := f.Fn.Name(); (n == "DeductIssueTokenFee" || n == "DeductMintTokenFee") && moduleOf(funcPkgPath(f.Fn)) == "token" {
			return true
		}
	}
	return false
}

// isPrevTally: t is the tally read back from the store - it contains the result of a
// function that does nothing but look the tally prefix up, keyed by the coin's denom
// (GetBurnCoin(k, coin.Denom), getBurnCoin(store, KeyBurnTokenAmt(coin.Denom)), ...).
func (cx *Ctx) isPrevTally(t *Term, prefix []string, denom string) bool {
	if len(prefix) != 1 {
		return false
	}
	return findSub(t, func(x *Term) bool {
		if x.Op != "call" || !strings.Contains(x.LooseString(), denom) {
			return false
		}
		f := cx.funcByTermName(x.Name)
		return f != nil && cx.readsOnlyPrefix(f, prefix[0])
	}) != nil
}
