package main

// C20 part (4): the generated Go code itself agrees with the descriptor it embeds.

import (
	"fmt"
	"go/ast"
	"go/parser"
	"go/token"
	"reflect"
	"sort"
	"strconv"
	"strings"

	"google.golang.org/protobuf/types/descriptorpb"
)

func wireTypeOf(f *descriptorpb.FieldDescriptorProto) int {
	rep := f.GetLabel() == descriptorpb.FieldDescriptorProto_LABEL_REPEATED
	switch f.GetType() {
	case descriptorpb.FieldDescriptorProto_TYPE_STRING, descriptorpb.FieldDescriptorProto_TYPE_BYTES, descriptorpb.FieldDescriptorProto_TYPE_MESSAGE:
		return 2
	case descriptorpb.FieldDescriptorProto_TYPE_DOUBLE, descriptorpb.FieldDescriptorProto_TYPE_FIXED64, descriptorpb.FieldDescriptorProto_TYPE_SFIXED64:
		if rep {
			return 2
		}
		return 1
	case descriptorpb.FieldDescriptorProto_TYPE_FLOAT, descriptorpb.FieldDescriptorProto_TYPE_FIXED32, descriptorpb.FieldDescriptorProto_TYPE_SFIXED32:
		if rep {
			return 2
		}
		return 5
	}
	if rep {
		return 2 // proto3 packs repeated scalars
	}
	return 0
}

func tagWireName(f *descriptorpb.FieldDescriptorProto) string {
	switch f.GetType() {
	case descriptorpb.FieldDescriptorProto_TYPE_STRING, descriptorpb.FieldDescriptorProto_TYPE_BYTES, descriptorpb.FieldDescriptorProto_TYPE_MESSAGE:
		return "bytes"
	case descriptorpb.FieldDescriptorProto_TYPE_DOUBLE, descriptorpb.FieldDescriptorProto_TYPE_FIXED64, descriptorpb.FieldDescriptorProto_TYPE_SFIXED64:
		return "fixed64"
	case descriptorpb.FieldDescriptorProto_TYPE_FLOAT, descriptorpb.FieldDescriptorProto_TYPE_FIXED32, descriptorpb.FieldDescriptorProto_TYPE_SFIXED32:
		return "fixed32"
	case descriptorpb.FieldDescriptorProto_TYPE_SINT32:
		return "zigzag32"
	case descriptorpb.FieldDescriptorProto_TYPE_SINT64:
		return "zigzag64"
	}
	return "varint"
}

type goMsg struct {
	goName string
	desc   *descriptorpb.DescriptorProto
	full   string
}

func goMessages(fd *descriptorpb.FileDescriptorProto) []goMsg {
	var out []goMsg
	var rec func(prefixGo, prefixFull string, m *descriptorpb.DescriptorProto)
	rec = func(prefixGo, prefixFull string, m *descriptorpb.DescriptorProto) {
		if m.GetOptions().GetMapEntry() {
			return
		}
		gn := prefixGo + m.GetName()
		full := prefixFull + "." + m.GetName()
		out = append(out, goMsg{gn, m, full})
		for _, n := range m.GetNestedType() {
			rec(gn+"_", full, n)
		}
	}
	for _, m := range fd.GetMessageType() {
		rec("", fd.GetPackage(), m)
	}
	return out
}

func recvTypeName(fd *ast.FuncDecl) string {
	if fd.Recv == nil || len(fd.Recv.List) == 0 {
		return ""
	}
	t := fd.Recv.List[0].Type
	if s, ok := t.(*ast.StarExpr); ok {
		t = s.X
	}
	if id, ok := t.(*ast.Ident); ok {
		return id.Name
	}
	return ""
}

// marshalTags collects the field key bytes written by a gogoproto
// MarshalToSizedBuffer body: runs of `i--; dAtA[i] = 0xNN` (written backwards).
func marshalTags(body *ast.BlockStmt) map[uint64]bool {
	tags := map[uint64]bool{}
	var walkList func(list []ast.Stmt)
	isDec := func(s ast.Stmt) bool {
		d, ok := s.(*ast.IncDecStmt)
		if !ok || d.Tok != token.DEC {
			return false
		}
		id, ok := d.X.(*ast.Ident)
		return ok && id.Name == "i"
	}
	litAssign := func(s ast.Stmt) (byte, bool) {
		a, ok := s.(*ast.AssignStmt)
		if !ok || len(a.Lhs) != 1 || len(a.Rhs) != 1 || a.Tok != token.ASSIGN {
			return 0, false
		}
		ix, ok := a.Lhs[0].(*ast.IndexExpr)
		if !ok {
			return 0, false
		}
		if id, ok := ix.X.(*ast.Ident); !ok || id.Name != "dAtA" {
			return 0, false
		}
		if id, ok := ix.Index.(*ast.Ident); !ok || id.Name != "i" {
			return 0, false
		}
		bl, ok := a.Rhs[0].(*ast.BasicLit)
		if !ok {
			return 0, false
		}
		n, err := strconv.ParseUint(bl.Value, 0, 8)
		if err != nil {
			return 0, false
		}
		return byte(n), true
	}
	walkList = func(list []ast.Stmt) {
		var run []byte
		flush := func() {
			if len(run) == 0 {
				return
			}
			// reverse → varint
			var v uint64
			for k := 0; k < len(run); k++ {
				b := run[len(run)-1-k]
				v |= uint64(b&0x7f) << (7 * uint(k))
			}
			// a well-formed key: all but the last byte (in wire order) have the continuation bit
			wellFormed := true
			for k := 0; k < len(run); k++ {
				b := run[len(run)-1-k]
				last := k == len(run)-1
				if last != (b&0x80 == 0) {
					wellFormed = false
				}
			}
			if wellFormed {
				tags[v] = true
			} else {
				tags[^uint64(0)] = true
			}
			run = nil
		}
		for idx := 0; idx < len(list); idx++ {
			s := list[idx]
			if isDec(s) && idx+1 < len(list) {
				if b, ok := litAssign(list[idx+1]); ok {
					run = append(run, b)
					idx++
					continue
				}
			}
			flush()
			ast.Inspect(s, func(n ast.Node) bool {
				switch x := n.(type) {
				case *ast.BlockStmt:
					walkList(x.List)
					return false
				case *ast.CaseClause:
					walkList(x.Body)
					return false
				case *ast.FuncLit:
					return false
				}
				return true
			})
		}
		flush()
	}
	walkList(body.List)
	return tags
}

// unmarshalCases collects `case N:` labels of the `switch fieldNum` in Unmarshal
// and the wire type each case demands (`if wireType != W`), -1 if not of that form.
func unmarshalCases(body *ast.BlockStmt) map[int]int {
	out := map[int]int{}
	ast.Inspect(body, func(n ast.Node) bool {
		sw, ok := n.(*ast.SwitchStmt)
		if !ok {
			return true
		}
		id, ok := sw.Tag.(*ast.Ident)
		if !ok || id.Name != "fieldNum" {
			return true
		}
		for _, c := range sw.Body.List {
			cc := c.(*ast.CaseClause)
			for _, e := range cc.List {
				bl, ok := e.(*ast.BasicLit)
				if !ok {
					continue
				}
				num, _ := strconv.Atoi(bl.Value)
				wt := -1
				if len(cc.Body) > 0 {
					if ifs, ok := cc.Body[0].(*ast.IfStmt); ok {
						if be, ok := ifs.Cond.(*ast.BinaryExpr); ok && be.Op == token.NEQ {
							if x, ok := be.X.(*ast.Ident); ok && x.Name == "wireType" {
								if y, ok := be.Y.(*ast.BasicLit); ok {
									wt, _ = strconv.Atoi(y.Value)
								}
							}
						} else if ok && be.Op == token.EQL {
							wt = -2 // packed/unpacked dual form
						}
					}
				}
				out[num] = wt
			}
		}
		return false
	})
	return out
}

func c20GoGoConformance(cx *Ctx, r *Report, gogo []*genFile) {
	rel := func(p string) string { return strings.TrimPrefix(p, cx.Repo+"/") }
	for _, g := range gogo {
		structs := map[string]*ast.StructType{}
		marshal := map[string]*ast.FuncDecl{}
		unmarshal := map[string]*ast.FuncDecl{}
		svcDescMethods := map[string][]string{} // _Msg_serviceDesc -> method names
		for _, d := range g.astFile.Decls {
			switch x := d.(type) {
			case *ast.GenDecl:
				for _, sp := range x.Specs {
					switch s := sp.(type) {
					case *ast.TypeSpec:
						if st, ok := s.Type.(*ast.StructType); ok {
							structs[s.Name.Name] = st
						}
					case *ast.ValueSpec:
						for i, n := range s.Names {
							if strings.HasSuffix(n.Name, "_serviceDesc") && i < len(s.Values) {
								ast.Inspect(s.Values[i], func(n2 ast.Node) bool {
									kv, ok := n2.(*ast.KeyValueExpr)
									if !ok {
										return true
									}
									if k, ok := kv.Key.(*ast.Ident); ok && k.Name == "MethodName" {
										if bl, ok := kv.Value.(*ast.BasicLit); ok {
											s, _ := strconv.Unquote(bl.Value)
											svcDescMethods[n.Name] = append(svcDescMethods[n.Name], s)
										}
									}
									return true
								})
								// ServiceName
								ast.Inspect(s.Values[i], func(n2 ast.Node) bool {
									kv, ok := n2.(*ast.KeyValueExpr)
									if !ok {
										return true
									}
									if k, ok := kv.Key.(*ast.Ident); ok && k.Name == "ServiceName" {
										if bl, ok := kv.Value.(*ast.BasicLit); ok {
											s, _ := strconv.Unquote(bl.Value)
											svcDescMethods[n.Name+"#name"] = []string{s}
										}
									}
									return true
								})
							}
						}
					}
				}
			case *ast.FuncDecl:
				switch x.Name.Name {
				case "MarshalToSizedBuffer":
					marshal[recvTypeName(x)] = x
				case "Unmarshal":
					unmarshal[recvTypeName(x)] = x
				}
			}
		}
		for _, gmsg := range goMessages(g.fd) {
			st := structs[gmsg.goName]
			key := g.fd.GetName() + "|" + gmsg.full
			if st == nil {
				r.violate("gogo-tags", key, rel(g.path), "no Go struct "+gmsg.goName+" for message "+gmsg.full)
				continue
			}
			// tags
			type tagInfo struct {
				wire, label, name string
				num               int
			}
			tags := map[int]tagInfo{}
			oneofIfaceFields := 0
			for _, f := range st.Fields.List {
				if f.Tag == nil {
					continue
				}
				tv, _ := strconv.Unquote(f.Tag.Value)
				pb := reflect.StructTag(tv).Get("protobuf")
				if pb == "" {
					if reflect.StructTag(tv).Get("protobuf_oneof") != "" {
						oneofIfaceFields++
					}
					continue
				}
				parts := strings.Split(pb, ",")
				if len(parts) < 3 {
					continue
				}
				ti := tagInfo{wire: parts[0], label: parts[2]}
				ti.num, _ = strconv.Atoi(parts[1])
				for _, p := range parts[3:] {
					if strings.HasPrefix(p, "name=") {
						ti.name = strings.TrimPrefix(p, "name=")
					}
				}
				tags[ti.num] = ti
			}
			bad := 0
			nOneofFields := 0
			for _, f := range gmsg.desc.GetField() {
				if f.OneofIndex != nil && !f.GetProto3Optional() {
					nOneofFields++
					continue // lives in a wrapper struct
				}
				ti, ok := tags[int(f.GetNumber())]
				if !ok {
					r.violate("gogo-tags", key+"."+f.GetName(), rel(g.path), fmt.Sprintf("struct %s has no protobuf tag for field %s = %d", gmsg.goName, f.GetName(), f.GetNumber()))
					bad++
					continue
				}
				delete(tags, int(f.GetNumber()))
				wantLabel := "opt"
				if f.GetLabel() == descriptorpb.FieldDescriptorProto_LABEL_REPEATED {
					wantLabel = "rep"
				}
				if ti.name != f.GetName() || ti.wire != tagWireName(f) || ti.label != wantLabel {
					r.violate("gogo-tags", key+"."+f.GetName(), rel(g.path), fmt.Sprintf("struct tag of %s.%s is {%s,%d,%s,name=%s}, descriptor says {%s,%d,%s,name=%s}", gmsg.goName, f.GetName(), ti.wire, ti.num, ti.label, ti.name, tagWireName(f), f.GetNumber(), wantLabel, f.GetName()))
					bad++
				}
			}
			for n, ti := range tags {
				r.violate("gogo-tags", key+"."+ti.name, rel(g.path), fmt.Sprintf("struct %s carries protobuf tag number %d (%s) that the descriptor does not have", gmsg.goName, n, ti.name))
				bad++
			}
			if bad == 0 {
				r.ok("gogo-tags", key, rel(g.path), fmt.Sprintf("%d struct tags of %s equal the descriptor (wire kind, number, label, name)", len(gmsg.desc.GetField())-nOneofFields, gmsg.goName))
			}
			// marshal keys
			hasMap := false
			want := map[uint64]string{}
			for _, f := range gmsg.desc.GetField() {
				if f.OneofIndex != nil && !f.GetProto3Optional() {
					continue
				}
				want[uint64(f.GetNumber())<<3|uint64(wireTypeOf(f))] = f.GetName()
				if f.GetType() == descriptorpb.FieldDescriptorProto_TYPE_MESSAGE {
					for _, n := range gmsg.desc.GetNestedType() {
						if n.GetOptions().GetMapEntry() && strings.HasSuffix(f.GetTypeName(), "."+n.GetName()) {
							hasMap = true
						}
					}
				}
			}
			if md := marshal[gmsg.goName]; md != nil {
				got := marshalTags(md.Body)
				bad := 0
				for k, name := range want {
					if !got[k] {
						r.violate("gogo-marshal", key+"."+name, rel(g.path), fmt.Sprintf("%s.MarshalToSizedBuffer never writes key 0x%x for field %s", gmsg.goName, k, name))
						bad++
					}
				}
				for k := range got {
					if _, ok := want[k]; !ok {
						if hasMap && (k == 0xa || k == 0x12 || k == 0x10) {
							continue
						}
						r.violate("gogo-marshal", key+fmt.Sprintf("|key 0x%x", k), rel(g.path), fmt.Sprintf("%s.MarshalToSizedBuffer writes key 0x%x which matches no field of the descriptor", gmsg.goName, k))
						bad++
					}
				}
				if bad == 0 {
					r.ok("gogo-marshal", key, rel(g.path), fmt.Sprintf("%d key bytes written by %s.MarshalToSizedBuffer equal (number<<3|wiretype) of the descriptor", len(want), gmsg.goName))
				}
			} else {
				r.violate("gogo-marshal", key, rel(g.path), "no MarshalToSizedBuffer for "+gmsg.goName)
			}
			if ud := unmarshal[gmsg.goName]; ud != nil {
				cases := unmarshalCases(ud.Body)
				bad := 0
				for _, f := range gmsg.desc.GetField() {
					wt, ok := cases[int(f.GetNumber())]
					if !ok {
						r.violate("gogo-unmarshal", key+"."+f.GetName(), rel(g.path), fmt.Sprintf("%s.Unmarshal has no case %d for field %s", gmsg.goName, f.GetNumber(), f.GetName()))
						bad++
						continue
					}
					delete(cases, int(f.GetNumber()))
					if wt >= 0 && wt != wireTypeOf(f) {
						r.violate("gogo-unmarshal", key+"."+f.GetName(), rel(g.path), fmt.Sprintf("%s.Unmarshal case %d demands wire type %d, descriptor implies %d", gmsg.goName, f.GetNumber(), wt, wireTypeOf(f)))
						bad++
					}
				}
				for n := range cases {
					r.violate("gogo-unmarshal", key+fmt.Sprintf("|case %d", n), rel(g.path), fmt.Sprintf("%s.Unmarshal handles field number %d which the descriptor does not have", gmsg.goName, n))
					bad++
				}
				// every varint loop of the decoder accepts the full 10-byte encoding: the generator
				// emits `if shift >= 64 { return ErrIntOverflow }`; a smaller bound rejects the bytes
				// that the other family (and this one's own Marshal) produce for large values
				for _, b := range varintShiftBounds(ud.Body) {
					if b != 64 {
						r.violate("gogo-unmarshal", key+fmt.Sprintf("|shift>=%d", b), rel(g.path), fmt.Sprintf("%s.Unmarshal has a varint loop bounded by shift >= %d (generated form: 64): values whose encoding needs the last varint byte (e.g. uint64 ≥ 2^63) are rejected, so bytes written by the other family do not decode", gmsg.goName, b))
						bad++
					}
				}
				if bad == 0 {
					r.ok("gogo-unmarshal", key, rel(g.path), fmt.Sprintf("case labels and demanded wire types of %s.Unmarshal equal the descriptor", gmsg.goName))
				}
			} else {
				r.violate("gogo-unmarshal", key, rel(g.path), "no Unmarshal for "+gmsg.goName)
			}
		}
		// service descs
		for _, s := range g.fd.GetService() {
			vn := "_" + s.GetName() + "_serviceDesc"
			var want []string
			for _, m := range s.GetMethod() {
				want = append(want, m.GetName())
			}
			got := append([]string{}, svcDescMethods[vn]...)
			sort.Strings(want)
			sort.Strings(got)
			full := g.fd.GetPackage() + "." + s.GetName()
			nameOK := len(svcDescMethods[vn+"#name"]) == 1 && svcDescMethods[vn+"#name"][0] == full
			r.check(strings.Join(want, ",") == strings.Join(got, ",") && nameOK, "gogo-servicedesc", full, rel(g.path),
				fmt.Sprintf("%s lists service name %s and the %d rpc names of the descriptor", vn, full, len(want)),
				fmt.Sprintf("%s: service name/methods [%s] differ from descriptor %s [%s]", vn, strings.Join(got, ","), full, strings.Join(want, ",")))
		}
	}
}

// pulsar side: fast-reflection code looks fields up by name and switches on
// full field names; the grpc stubs carry rpc names.
// c20ApiGrpc: the api family's gRPC description (the *_grpc.pb.go next to each
// *.pulsar.go that declares a service) lists exactly the methods of the service in the
// embedded descriptor, under the descriptor's full service name: a generator that was
// not re-run after an rpc was added leaves the api family unable to serve or call it.
func c20ApiGrpc(cx *Ctx, r *Report, api []*genFile) {
	rel := func(p string) string { return strings.TrimPrefix(p, cx.Repo+"/") }
	n := 0
	for _, a := range api {
		if len(a.fd.GetService()) == 0 {
			continue
		}
		gp := strings.TrimSuffix(a.path, ".pulsar.go") + "_grpc.pb.go"
		fset := token.NewFileSet()
		f, err := parser.ParseFile(fset, gp, nil, parser.SkipObjectResolution)
		if err != nil {
			for _, sv := range a.fd.GetService() {
				r.violate("api-grpc-servicedesc", a.fd.GetPackage()+"."+sv.GetName(), rel(gp), "no gRPC file next to the pulsar file that declares the service ("+err.Error()+")")
			}
			continue
		}
		// ServiceDesc literals: name -> methods
		descs := map[string][]string{}
		ast.Inspect(f, func(nd ast.Node) bool {
			cl, ok := nd.(*ast.CompositeLit)
			if !ok {
				return true
			}
			se, ok := cl.Type.(*ast.SelectorExpr)
			if !ok || se.Sel.Name != "ServiceDesc" {
				return true
			}
			name := ""
			var methods []string
			for _, el := range cl.Elts {
				kv, ok := el.(*ast.KeyValueExpr)
				if !ok {
					continue
				}
				k, _ := kv.Key.(*ast.Ident)
				if k == nil {
					continue
				}
				switch k.Name {
				case "ServiceName":
					if bl, ok := kv.Value.(*ast.BasicLit); ok {
						name, _ = strconv.Unquote(bl.Value)
					}
				case "Methods":
					ast.Inspect(kv.Value, func(n2 ast.Node) bool {
						kv2, ok := n2.(*ast.KeyValueExpr)
						if !ok {
							return true
						}
						if k2, ok := kv2.Key.(*ast.Ident); ok && k2.Name == "MethodName" {
							if bl, ok := kv2.Value.(*ast.BasicLit); ok {
								m, _ := strconv.Unquote(bl.Value)
								methods = append(methods, m)
							}
						}
						return true
					})
				}
			}
			if name != "" {
				descs[name] = methods
			}
			return false
		})
		for _, sv := range a.fd.GetService() {
			n++
			full := a.fd.GetPackage() + "." + sv.GetName()
			var want []string
			for _, m := range sv.GetMethod() {
				want = append(want, m.GetName())
			}
			got, has := descs[full]
			got = append([]string{}, got...)
			sort.Strings(want)
			sort.Strings(got)
			r.check(has && strings.Join(want, ",") == strings.Join(got, ","), "api-grpc-servicedesc", full, rel(gp), fmt.Sprintf("the api family's ServiceDesc lists the descriptor's %d methods", len(want)), fmt.Sprintf("the api family's gRPC ServiceDesc for %s lists [%s], the embedded descriptor has [%s]: the two families disagree on the service's methods", full, strings.Join(got, ","), strings.Join(want, ",")))
		}
	}
	if n < 15 {
		r.toolErr("only %d api services with a gRPC file checked (≥15 confirmed)", n)
	}
}

func c20PulsarConformance(cx *Ctx, r *Report, api []*genFile) {
	rel := func(p string) string { return strings.TrimPrefix(p, cx.Repo+"/") }
	for _, a := range api {
		// all field full names of this file
		fields := map[string]bool{}
		msgs := map[string]bool{}
		var rec func(prefix string, m *descriptorpb.DescriptorProto)
		rec = func(prefix string, m *descriptorpb.DescriptorProto) {
			full := prefix + "." + m.GetName()
			msgs[full] = true
			if m.GetOptions().GetMapEntry() {
				return // map entries have no generated fast-reflection type
			}
			for _, f := range m.GetField() {
				fields[full+"."+f.GetName()] = true
			}
			for _, n := range m.GetNestedType() {
				rec(full, n)
			}
		}
		for _, m := range a.fd.GetMessageType() {
			rec(a.fd.GetPackage(), m)
		}
		byName := map[string]bool{}   // ByName("x") literals, just names
		caseFull := map[string]bool{} // case "pkg.Msg.field"
		ast.Inspect(a.astFile, func(n ast.Node) bool {
			switch x := n.(type) {
			case *ast.CallExpr:
				if sel, ok := x.Fun.(*ast.SelectorExpr); ok && sel.Sel.Name == "ByName" && len(x.Args) == 1 {
					if bl, ok := x.Args[0].(*ast.BasicLit); ok {
						s, _ := strconv.Unquote(bl.Value)
						byName[s] = true
					}
				}
			case *ast.CaseClause:
				for _, e := range x.List {
					if bl, ok := e.(*ast.BasicLit); ok && bl.Kind == token.STRING {
						s, _ := strconv.Unquote(bl.Value)
						if strings.HasPrefix(s, a.fd.GetPackage()+".") {
							caseFull[s] = true
						}
					}
				}
			}
			return true
		})
		bad := 0
		for s := range caseFull {
			if !fields[s] {
				r.violate("pulsar-fields", a.fd.GetName()+"|"+s, rel(a.path), "fast-reflection switch names field "+s+" which the embedded descriptor does not have")
				bad++
			}
		}
		short := map[string]bool{}
		for f := range fields {
			short[f[strings.LastIndex(f, ".")+1:]] = true
		}
		for m := range msgs {
			short[m[strings.LastIndex(m, ".")+1:]] = true
		}
		for s := range byName {
			if !short[s] {
				r.violate("pulsar-fields", a.fd.GetName()+"|ByName "+s, rel(a.path), "generated code looks up "+s+" by name, the embedded descriptor has no such field or message")
				bad++
			}
		}
		for f := range fields {
			if !caseFull[f] {
				r.violate("pulsar-fields", a.fd.GetName()+"|"+f, rel(a.path), "descriptor field "+f+" is not handled by the fast-reflection switch")
				bad++
			}
		}
		if bad == 0 {
			r.ok("pulsar-fields", a.fd.GetName(), rel(a.path), fmt.Sprintf("%d field names used by the fast-reflection code equal the descriptor's fields", len(fields)))
		}
	}
}

// varintShiftBounds: the literals N of all `shift >= N` tests in a decoder body.
func varintShiftBounds(body *ast.BlockStmt) []int {
	var out []int
	ast.Inspect(body, func(n ast.Node) bool {
		be, ok := n.(*ast.BinaryExpr)
		if !ok || be.Op != token.GEQ {
			return true
		}
		x, ok := be.X.(*ast.Ident)
		if !ok || x.Name != "shift" {
			return true
		}
		if bl, ok := be.Y.(*ast.BasicLit); ok {
			if v, err := strconv.Atoi(bl.Value); err == nil {
				out = append(out, v)
			}
		}
		return true
	})
	return out
}

// c20PresenceTests: proto3 emits a scalar field on the wire exactly when it differs from
// its zero value. In both generated families the size and marshal code decides that with
// `x.F != 0` (`!= ""`, `!= false`, `len(x.F) > 0`). An ordering comparison in its place
// (`x.F > 0`) drops negative values from the encoding of ONE family: the other family
// encodes them, and bytes produced by the one no longer re-encode identically in the other.
func c20PresenceTests(cx *Ctx, r *Report, files []*genFile, rule string) {
	rel := func(p string) string { return strings.TrimPrefix(p, cx.Repo+"/") }
	for _, g := range files {
		if g.astFile == nil {
			continue
		}
		nTests := 0
		var bad []string
		ast.Inspect(g.astFile, func(n ast.Node) bool {
			ifs, ok := n.(*ast.IfStmt)
			if !ok {
				return true
			}
			be, ok := ifs.Cond.(*ast.BinaryExpr)
			if !ok {
				return true
			}
			sel, ok := be.X.(*ast.SelectorExpr)
			if !ok {
				return true
			}
			id, ok := sel.X.(*ast.Ident)
			if !ok || (id.Name != "x" && id.Name != "m") {
				return true
			}
			lit, ok := be.Y.(*ast.BasicLit)
			isZero := ok && (lit.Value == "0" || lit.Value == `""`)
			if idy, isID := be.Y.(*ast.Ident); isID && (idy.Name == "false" || idy.Name == "nil") {
				isZero = true
			}
			if !isZero {
				return true
			}
			nTests++
			if be.Op != token.NEQ && be.Op != token.EQL {
				bad = append(bad, fmt.Sprintf("%s.%s %s %s at line %d", id.Name, sel.Sel.Name, be.Op, exprText(be.Y), g.fset.Position(be.Pos()).Line))
			}
			return true
		})
		if nTests == 0 {
			continue
		}
		r.check(len(bad) == 0, rule, rel(g.path), rel(g.path), fmt.Sprintf("%d presence tests of scalar fields compare with the zero value by !=", nTests), "generated size/marshal code tests a field's presence with an ordering comparison ("+strings.Join(bad, "; ")+"): values on the other side of zero are silently left out of this family's encoding, the other family writes them - the two families no longer encode the message identically")
	}
}

func exprText(e ast.Expr) string {
	switch x := e.(type) {
	case *ast.BasicLit:
		return x.Value
	case *ast.Ident:
		return x.Name
	}
	return "?"
}
