package main

// Call-chain enumeration from entry points, events (primitive operations with
// symbolic arguments) and the branch facts that hold when they execute.

import (
	"fmt"
	"go/constant"
	"go/token"
	"go/types"
	"os"
	"sort"
	"strconv"
	"strings"

	"golang.org/x/tools/go/ssa"
)

const maxChainDepth = 14
const maxFramesPerEntry = 60000

type Event struct {
	Fr     *Frame
	Kind   string // primitive kind, or "call:<callee>" for watched calls, "fieldstore:<T.F>"
	Site   ssa.Instruction
	Args   []*Term
	Must   bool // executed on every successful run of the entry
	InLoop bool
	Prefix []string
	// Note: a remark of the event builder for the closed-world rules ("double-prefix": the
	// key handed to a prefix store already starts with that store's prefix)
	Note string
}

func (e *Event) Pos(cx *Ctx) string { return cx.P.Pos(e.Site.Pos()) }

type FactT struct {
	Text  string // loose term of the condition, or "<call> : err==nil" etc.
	Holds bool
	Where token.Pos
}

func (f FactT) String() string {
	if f.Holds {
		return f.Text
	}
	return "¬" + f.Text
}

type Walker struct {
	altMin   int // callAlternatives: minimal number of returns of a callee to expand (default 2)
	cx       *Ctx
	ts       *Terms
	frames   int
	over     bool
	cut      int // chains truncated at maxChainDepth
	maxDepth int
	// Watch selects additional call instructions to report as events.
	Watch func(ci ssa.CallInstruction) string
	// atCall: closures entered at the call of the struct field that holds them (Walk's first pass)
	atCall map[*ssa.MakeClosure]bool
	dry    bool
	// condAltFacts memo
	altMemo  map[interface{}][]FactT
	infMemo  map[infKey]bool
	symOK    bool // constAlts: values that are not small constants are named by their terms
	recvMemo map[*Frame]recvRes
}

type infKey struct {
	fr *Frame
	b  *ssa.BasicBlock
}

// blockInfeasible: a test dominating block b evaluates, with the constants this chain binds
// (a flag argument, a field of a literal record handed down, a row of a constant table), to
// the value opposite to the one the path to b needs.
func (w *Walker) blockInfeasible(fr *Frame, b *ssa.BasicBlock) bool {
	if fr == nil || fr.Parent == nil && fr.MC == nil {
		return false // nothing is bound in the entry frame
	}
	k := infKey{fr, b}
	if v, ok := w.infMemo[k]; ok {
		return v
	}
	if w.infMemo == nil {
		w.infMemo = map[infKey]bool{}
	}
	w.infMemo[k] = false
	res := false
	for _, df := range dominatingFacts(b) {
		switch df.Cond.(type) {
		case *ssa.Call, *ssa.Phi, *ssa.Extract:
			continue // only plain tests of bound values
		}
		t := w.ts.Of(df.Cond, fr)
		if t == nil {
			continue
		}
		val, known := false, false
		switch {
		case t.Op == "const" && t.Name == "true":
			val, known = true, true
		case t.Op == "const" && t.Name == "false":
			val, known = false, true
		case t.Op == "bin" && len(t.Args) == 2 && t.Args[0].Op == "const" && t.Args[1].Op == "const" && (t.Name == "==" || t.Name == "!="):
			a, c := t.Args[0].Name, t.Args[1].Name
			if isLiteralConst(a) && isLiteralConst(c) {
				val, known = (a == c) == (t.Name == "=="), true
			}
		}
		// one of several constants against another constant: decided when none of them matches
		if !known && t.Op == "bin" && len(t.Args) == 2 && (t.Name == "==" || t.Name == "!=") {
			ph, c := t.Args[0], t.Args[1]
			if ph.Op != "phi" {
				ph, c = c, ph
			}
			if ph.Op == "phi" && len(ph.Args) > 0 && c.Op == "const" && isLiteralConst(c.Name) {
				all, hit := true, false
				for _, al := range ph.Args {
					if al.Op != "const" || !isLiteralConst(al.Name) {
						all = false
					}
					if al.Op == "const" && al.Name == c.Name {
						hit = true
					}
				}
				if all && !hit {
					val, known = t.Name == "!=", true
				}
			}
		}
		if known && val != df.Holds {
			res = true
			if os.Getenv("DEBUG_INF") != "" {
				fmt.Fprintf(os.Stderr, "infeasible b%d of %s on %s: %s needs %v\n", b.Index, fr.Fn.Name(), fr.String(), t.String(), df.Holds)
			}
			break
		}
	}
	w.infMemo[k] = res
	return res
}

func isLiteralConst(s string) bool {
	if s == "" || s == "zero" || strings.HasPrefix(s, "?") || strings.HasPrefix(s, "zero:") || s == "⟲" {
		return false
	}
	return true
}

func newWalker(cx *Ctx) *Walker { return &Walker{cx: cx, ts: newTerms(cx)} }

// Walk visits every frame reachable from entry, depth-first.
func (w *Walker) Walk(entry *ssa.Function, visit func(fr *Frame)) {
	// first pass (no visitor): which function values kept in struct fields are called at a
	// place where the chain tells which closure they are - those are entered there, with
	// the facts of the call site, and not where they are created
	w.atCall = map[*ssa.MakeClosure]bool{}
	w.dry = true
	w.walk(&Frame{Fn: entry}, func(*Frame) {})
	w.dry = false
	w.frames, w.over, w.cut = 0, false, 0
	root := &Frame{Fn: entry}
	w.walk(root, visit)
}

func onChain(fr *Frame, fn *ssa.Function) bool {
	for f := fr; f != nil; f = f.Parent {
		if f.Fn == fn {
			return true
		}
	}
	return false
}

func (w *Walker) walk(fr *Frame, visit func(fr *Frame)) {
	if w.over {
		return
	}
	w.frames++
	if w.frames > maxFramesPerEntry {
		w.over = true
		return
	}
	visit(fr)
	if fr.Fn.Blocks == nil {
		return
	}
	if fr.Depth > w.maxDepth {
		w.maxDepth = fr.Depth
	}
	if fr.Depth >= maxChainDepth {
		w.cut++ // a chain was truncated: events below this frame are not seen
		return
	}
	// closures passed as arguments are entered at the use site
	for _, b := range fr.Fn.Blocks {
		for _, ins := range b.Instrs {
			ci, ok := ins.(ssa.CallInstruction)
			if !ok {
				continue
			}
			for _, mc := range closureArgs(ci) {
				fn, _ := mc.Fn.(*ssa.Function)
				if fn == nil || fn.Blocks == nil || onChain(fr, fn) {
					continue
				}
				// the creating frame is on the chain (the closure's lexical parent)
				var creator *Frame
				for f := fr; f != nil; f = f.Parent {
					if f.Fn == mc.Parent() {
						creator = f
						break
					}
				}
				if creator == nil {
					creator = fr
				}
				nfr := &Frame{Fn: fn, Parent: creator, MC: mc, Via: fr, ViaSite: ci, Depth: fr.Depth + 1}
				w.walk(nfr, visit)
			}
		}
	}
	// a call of a function-typed struct field that the chain resolves to a closure created
	// in an enclosing frame: entered here
	for _, b := range fr.Fn.Blocks {
		for _, ins := range b.Instrs {
			ci, ok := ins.(ssa.CallInstruction)
			if !ok || ci.Common().IsInvoke() || ci.Common().StaticCallee() != nil {
				continue
			}
			if _, isB := ci.Common().Value.(*ssa.Builtin); isB {
				continue
			}
			if !throughField(ci.Common().Value) {
				continue
			}
			mc, fn, creator := resolveClosure(ci.Common().Value, fr, 0)
			if mc == nil || fn == nil || creator == nil || fn.Blocks == nil || onChain(fr, fn) {
				continue
			}
			if w.atCall != nil {
				w.atCall[mc] = true
			}
			nfr := &Frame{Fn: fn, Parent: creator, MC: mc, Via: fr, ViaSite: ci, Depth: fr.Depth + 1}
			w.walk(nfr, visit)
		}
	}
	for _, e := range w.cx.Edges(fr.Fn) {
		if e.Callee.Blocks == nil || onChain(fr, e.Callee) {
			continue
		}
		if e.Kind == "closure" && w.cx.closurePassedAsArg(e.Callee) {
			continue // entered where it is passed as an argument
		}
		if e.Kind == "closure" && !w.dry && w.atCall != nil {
			if mc, ok := e.Site.(*ssa.MakeClosure); ok && w.atCall[mc] {
				continue // entered where the struct field holding it is called
			}
		}
		if !isIrismodFunc(e.Callee) && e.Callee.Synthetic == "" {
			continue
		}
		if w.cx.isDoubleFunc(e.Callee) {
			continue
		}
		if si, ok := e.Site.(ssa.Instruction); ok && si.Block() != nil && si.Parent() == fr.Fn && w.blockInfeasible(fr, si.Block()) {
			continue
		}
		nfr := &Frame{Fn: e.Callee, Parent: fr, Depth: fr.Depth + 1}
		switch e.Kind {
		case "closure":
			nfr.MC = e.Site.(*ssa.MakeClosure)
		case "dynamic":
			if par := e.Callee.Parent(); par != nil && par.Synthetic != "package initializer" {
				continue // anonymous functions are entered through their creation site
			}
			if strings.Contains(e.Callee.Synthetic, "bound method wrapper") {
				continue // a method value (x.m): entered where it is created, with x bound
			}
			// (a function literal of a package-level table - map[K]func… - has the package
			// initializer as its parent and captures nothing: it is entered at the call)
			nfr.Call = e.Site.(ssa.CallInstruction)
			// the chain tells which function the value is (a strategy record handed down by
			// the caller): only that one is entered
			if cc := nfr.Call.Common(); !cc.IsInvoke() {
				if rf := resolveFnRaw(cc.Value, fr, 0); rf != nil && rf != e.Callee {
					continue
				}
			}
			// a call through a dispatch table reaches exactly the table's entries, each under
			// the assumption that the key equals the constant it is stored under
			if key, entries := w.cx.tableDispatch(nfr.Call); entries != nil {
				ks, in := entries[e.Callee]
				if !in {
					continue
				}
				if len(ks) == 1 {
					nfr.Assume = &assumption{key: key, val: ks[0]}
				}
			}
		default:
			nfr.Call = e.Site.(ssa.CallInstruction)
			// an implementation the value cannot be on this chain is not entered
			if nfr.Call.Common().IsInvoke() {
				if _, feasible := w.recvTypeFacts(nfr); !feasible {
					continue
				}
			}
		}
		w.walk(nfr, visit)
	}
}

// Events of one frame: primitive operations and watched calls.
func (w *Walker) EventsOf(fr *Frame) []*Event {
	var out []*Event
	f := fr.Fn
	if f.Blocks == nil {
		return nil
	}
	for _, b := range f.Blocks {
		if w.blockInfeasible(fr, b) {
			continue // under a test that the constants bound along this chain decide the other way
		}
		for _, ins := range b.Instrs {
			if st, ok := ins.(*ssa.Store); ok {
				if ev := w.deltaEvent(fr, st); ev != nil {
					ev.InLoop = inLoop(b)
					out = append(out, ev)
				}
				continue
			}
			ci, ok := ins.(ssa.CallInstruction)
			if !ok {
				continue
			}
			kind := w.cx.classifyCallRaw(ci) // (wrapper calls are entered; the access is an event of the wrapper's frame)
			if kind == "" && w.Watch != nil {
				kind = w.Watch(ci)
			}
			if kind == "" {
				continue
			}
			if fr.Fn.Parent() != nil && w.revertsOnFailure(fr) && failureOnlyCleanup(ins) {
				continue // a compensating clean-up that runs only when the (reverted) message fails
			}
			ev := &Event{Fr: fr, Kind: kind, Site: ins}
			c := ci.Common()
			if c.IsInvoke() && strings.HasPrefix(kind, "nft.") {
				// the SDK nft keeper behind a narrow interface: same argument layout as the
				// call of the concrete method (receiver first)
				ev.Args = append(ev.Args, w.ts.Of(c.Value, fr))
			}
			for _, a := range c.Args {
				ev.Args = append(ev.Args, w.ts.Of(a, fr))
			}
			if strings.HasPrefix(kind, "store.") {
				ev.Prefix = w.cx.storeKeyPrefixOnChain(ci, kind, fr)
				w.absoluteStoreKey(ev, ci, kind, fr)
			}
			ev.InLoop = inLoop(b)
			out = append(out, ev)
		}
	}
	return out
}

// deltaEvent recognises ledger updates written as field assignments:
//
//	x.F = x.F.Add(v) / x.F.Sub(v)      → delta:T.F:+ / delta:T.F:-  (v)
//	x.F = x.F + v / x.F - v            → same, for machine integers
//	x.F = <other value>                → assign:T.F                   (value)
//
// for fields of irismod record types (struct types declared in a module's types package).
func (w *Walker) deltaEvent(fr *Frame, st *ssa.Store) *Event {
	fa, ok := st.Addr.(*ssa.FieldAddr)
	if !ok {
		return nil
	}
	tn := namedOf(fa.X.Type())
	if tn == nil || tn.Obj().Pkg() == nil || !strings.HasPrefix(tn.Obj().Pkg().Path(), modPrefix) || !strings.Contains(tn.Obj().Pkg().Path(), "/types") {
		return nil
	}
	// composite literal construction is not an update
	if base, ok := fa.X.(*ssa.Alloc); ok {
		whole := false
		for _, r := range *base.Referrers() {
			if s2, ok := r.(*ssa.Store); ok && s2.Addr == base {
				whole = true
			}
		}
		if !whole {
			return nil
		}
	}
	fname := tn.Obj().Name() + "." + fieldNameShort(fa.X.Type(), fa.Field)
	sameField := func(v ssa.Value) bool {
		u, ok := v.(*ssa.UnOp)
		if !ok || u.Op != token.MUL {
			return false
		}
		f2, ok := u.X.(*ssa.FieldAddr)
		return ok && f2.Field == fa.Field && sameValue(f2.X, fa.X)
	}
	switch v := st.Val.(type) {
	case *ssa.Call:
		_, name := calleeName(v.Common())
		m := name[strings.LastIndex(name, ".")+1:]
		args := v.Common().Args
		if (m == "Add" || m == "Sub") && len(args) == 2 && sameField(args[0]) {
			sign := "+"
			if m == "Sub" {
				sign = "-"
			}
			return &Event{Fr: fr, Kind: "delta:" + fname + ":" + sign, Site: st, Args: []*Term{w.ts.Of(args[1], fr)}}
		}
	case *ssa.BinOp:
		if (v.Op == token.ADD || v.Op == token.SUB) && sameField(v.X) {
			sign := "+"
			if v.Op == token.SUB {
				sign = "-"
			}
			return &Event{Fr: fr, Kind: "delta:" + fname + ":" + sign, Site: st, Args: []*Term{w.ts.Of(v.Y, fr)}}
		}
	}
	return &Event{Fr: fr, Kind: "assign:" + fname, Site: st, Args: []*Term{w.ts.Of(st.Val, fr)}}
}

// siteMust: ins is executed on every path from its function's entry to a success exit.
func siteMust(ins ssa.Instruction) bool {
	f := ins.Parent()
	if alt := logicalAlternatives[ins]; len(alt) > 0 {
		// the write and its recognised alternative (Delete when the new value is zero)
		// together are the logical update
		return mustPass(f, func(x ssa.Instruction) bool {
			if x == ins {
				return true
			}
			for _, a := range alt {
				if x == a {
					return true
				}
			}
			return false
		})
	}
	return mustPass(f, func(x ssa.Instruction) bool { return x == ins })
}

// logicalAlternatives: for a store write, the sites that stand for the same logical
// update on the other side of a branch on the written value (see C15: a balance that
// reaches zero is deleted instead of stored as 0). Filled by the rule that recognises
// the idiom, for the duration of its run.
var logicalAlternatives = map[ssa.Instruction][]ssa.Instruction{}

// chainMust: the event's site is must in its frame and every call site up the
// chain is must in its caller, with the callee's error (if any) propagated as a
// failure of the caller.
func (w *Walker) chainMust(fr *Frame, site ssa.Instruction) bool {
	r := w.chainMust0(fr, site)
	if !r && os.Getenv("DEBUG_MUST") != "" && strings.Contains(w.cx.P.Pos(site.Pos()), os.Getenv("DEBUG_MUST")) {
		fmt.Fprintf(os.Stderr, "chainMust false at %s: siteMust=%v chain=%s\n", w.cx.P.Pos(site.Pos()), siteMust(site), fr.String())
		for f := fr; f != nil && f.Parent != nil; f = f.Parent {
			if f.Call != nil {
				fmt.Fprintf(os.Stderr, "   call %s: siteMust=%v errorPropagated=%v\n", w.cx.P.Pos(f.Call.Pos()), siteMust(f.Call), errorPropagated(f.Call))
			} else {
				fmt.Fprintf(os.Stderr, "   frame %s without call\n", shortFn(f.Fn))
			}
		}
	}
	return r
}

func (w *Walker) chainMust0(fr *Frame, site ssa.Instruction) bool {
	if !siteMust(site) {
		return false
	}
	for f := fr; f != nil && f.Parent != nil; {
		if f.Call == nil {
			// a step handed to a first-error combinator (firstError(step1, step2, …)) runs on
			// every path on which the combinator call returns nil
			if vs := firstErrorStep(f); vs != nil {
				if !siteMust(vs) || !errorPropagated(vs) {
					return false
				}
				f = f.Via
				continue
			}
			return false // closure: may (per-iteration analysis is separate)
		}
		if !siteMust(f.Call) {
			return false
		}
		if !errorPropagated(f.Call) {
			return false
		}
		f = f.Parent
	}
	return true
}

// firstErrorStep: the frame is a closure passed as one of the steps of a first-error
// combinator call; returns that call.
func firstErrorStep(f *Frame) ssa.CallInstruction {
	if f == nil || f.MC == nil || f.Via == nil || f.ViaSite == nil {
		return nil
	}
	ci, ok := f.ViaSite.(ssa.CallInstruction)
	if ok && !ci.Common().IsInvoke() && ci.Common().StaticCallee() == nil && throughField(ci.Common().Value) {
		return ci // the call of the struct field that holds this very closure: it runs exactly then
	}
	if !ok || ci.Common().IsInvoke() || !firstErrorCombinator(ci.Common().StaticCallee()) {
		return nil
	}
	return ci
}

// errorPropagated: if the call returns an error, the caller tests it and the
// non-nil edge leads only to failure exits (or the call is returned directly).
func errorPropagated(ci ssa.CallInstruction) bool {
	v, ok := ci.(ssa.Value)
	if !ok {
		return true // go/defer
	}
	sig := ci.Common().Signature()
	n := sig.Results().Len()
	if n == 0 || !isErrorType(sig.Results().At(n-1).Type()) {
		return true
	}
	var errv ssa.Value
	if n == 1 {
		errv = v
	} else {
		for _, r := range *v.Referrers() {
			if ex, ok := r.(*ssa.Extract); ok && ex.Index == n-1 {
				errv = ex
			}
		}
	}
	if errv == nil || errv.Referrers() == nil {
		return false // discarded
	}
	for _, r := range *errv.Referrers() {
		switch x := r.(type) {
		case *ssa.Return:
			return true // tail call: error returned as is
		case *ssa.BinOp:
			if (x.Op == token.NEQ || x.Op == token.EQL) && (isNilConst(x.X) || isNilConst(x.Y)) {
				// find the If using it
				for _, r2 := range *x.Referrers() {
					if ifi, ok := r2.(*ssa.If); ok {
						blk := ifi.Block()
						idx := 0
						if x.Op == token.EQL {
							idx = 1
						}
						if onlyFailureExits(blk.Succs[idx], blk) {
							return true
						}
					}
				}
			}
		case *ssa.Phi:
			// named result / merged error returned later
			for _, r2 := range *x.Referrers() {
				if _, ok := r2.(*ssa.Return); ok {
					return true
				}
			}
		}
	}
	return false
}

// onlyFailureExits: every path from b (entered from pred) ends in a failure
// return or panic.
func onlyFailureExits(b *ssa.BasicBlock, pred *ssa.BasicBlock) bool {
	seen := map[*ssa.BasicBlock]bool{}
	q := []*ssa.BasicBlock{b}
	for len(q) > 0 {
		x := q[0]
		q = q[1:]
		if seen[x] {
			continue
		}
		seen[x] = true
		last := x.Instrs[len(x.Instrs)-1]
		switch l := last.(type) {
		case *ssa.Return:
			if !isFailureReturn(l) {
				return false
			}
		case *ssa.Panic:
		default:
			if len(x.Succs) == 0 {
				return false
			}
			q = append(q, x.Succs...)
		}
	}
	return true
}

// coExecuted: the two events run together on every successful path: in their
// lowest common frame the two call sites (or the events themselves) are mutually
// must (one dominates the other and the later one is on every path from the
// earlier one to a success exit), and below the common frame every step is a
// must call whose error is propagated.
func coExecuted(a, b *Event) bool {
	chain := func(e *Event) []*Frame {
		var c []*Frame
		for f := e.Fr; f != nil; f = f.Parent {
			c = append([]*Frame{f}, c...)
		}
		return c
	}
	ca, cb := chain(a), chain(b)
	i := 0
	for i < len(ca) && i < len(cb) && ca[i] == cb[i] {
		i++
	}
	if i == 0 {
		return false
	}
	sa, sb := siteOf(ca, i, a), siteOf(cb, i, b)
	if sa == nil || sb == nil {
		return false
	}
	if !mustBelow(ca, i, a) || !mustBelow(cb, i, b) {
		return false
	}
	as, consistent := assumptionsBelow(ca[i-1].Fn, ca[i:], cb[i:])
	if !consistent {
		return false // reached through different entries of one dispatch table
	}
	return withAssumptions(as, func() bool { return mutualMust(sa, sb) })
}

func siteOf(chain []*Frame, i int, e *Event) ssa.Instruction {
	if i >= len(chain) {
		return e.Site
	}
	if chain[i].Call != nil {
		return chain[i].Call
	}
	if vs := firstErrorStep(chain[i]); vs != nil && i > 0 && chain[i].Via == chain[i-1] {
		return vs // a step of firstError(…): executed as part of that call
	}
	if chain[i].MC != nil {
		return chain[i].MC
	}
	return nil
}

// entrySite: the call through which the frame is certainly entered when its parent reaches
// it - the call instruction, or the first-error combinator call the closure is a step of.
func entrySite(f *Frame) ssa.CallInstruction {
	if f.Call != nil {
		return f.Call
	}
	return firstErrorStep(f)
}

func mustBelow(chain []*Frame, i int, e *Event) bool {
	for j := i; j < len(chain); j++ {
		var s ssa.Instruction
		if j+1 < len(chain) {
			es := entrySite(chain[j+1])
			if es == nil {
				return false
			}
			s = es
		} else {
			s = e.Site
		}
		if !siteMust(s) {
			return false
		}
		if es := entrySite(chain[j]); es == nil || !errorPropagated(es) {
			return false
		}
	}
	return true
}

// mutualMust: s1 and s2 are in one function, one dominates the other, and the
// later one lies on every path from the earlier one to a success exit.
func mutualMust(s1, s2 ssa.Instruction) bool {
	if s1.Parent() != s2.Parent() {
		return false
	}
	if s1 == s2 {
		return true // two steps of one first-error combinator call
	}
	first, second := s1, s2
	if s1.Block() == s2.Block() {
		if instrIndex(s2) < instrIndex(s1) {
			first, second = s2, s1
		}
		return true && first != nil && second != nil
	}
	if s2.Block().Dominates(s1.Block()) {
		first, second = s2, s1
	} else if !s1.Block().Dominates(s2.Block()) {
		return false
	}
	f := first.Parent()
	// from the successors of first's block, every path to a success exit passes second
	for _, succ := range first.Block().Succs {
		if !mustPassFrom(f, succ, func(x ssa.Instruction) bool { return x == second }, nil) {
			// the edge may be the failing edge of first's own error test
			if onlyFailureExits(succ, first.Block()) {
				continue
			}
			return false
		}
	}
	return true
}

// FactsAt: all branch facts (as loose term strings) that hold when `site` in
// frame fr executes: dominating facts in every frame of the chain plus facts
// implied by guard-function calls that succeeded.
func (w *Walker) FactsAt(fr *Frame, site ssa.Instruction) []FactT {
	var out []FactT
	seen := map[string]bool{}
	add := func(f FactT) {
		k := f.String()
		if !seen[k] {
			seen[k] = true
			out = append(out, f)
		}
	}
	cur := site
	for f := fr; f != nil; {
		if cur != nil {
			for _, ft := range w.blockFacts(f, cur.Block(), 0) {
				add(ft)
			}
		}
		// a step of a first-error list runs only when the steps before it returned nil
		if ci := firstErrorStep(f); ci != nil && f.MC != nil && f.Via != nil && !ci.Common().IsInvoke() && ci.Common().StaticCallee() != nil {
			args := ci.Common().Args
			if len(args) > 0 {
				for _, e := range variadicElems(args[len(args)-1]) {
					if e == ssa.Value(f.MC) {
						break
					}
					if mc, ok := e.(*ssa.MakeClosure); ok && mc.Parent() == f.Via.Fn {
						for _, ft := range w.closureStepFacts(f.Via, mc, 1) {
							add(ft)
						}
					}
				}
			}
		}
		// entered through an interface call: what the dynamic type of the value implies
		if rf, _ := w.recvTypeFacts(f); len(rf) > 0 {
			for _, ft := range rf {
				add(ft)
			}
		}
		switch {
		case f.Via != nil:
			cur = f.ViaSite
			f = f.Via
			continue
		case f.Call != nil:
			cur = f.Call
		case f.MC != nil:
			cur = f.MC
		default:
			cur = nil
		}
		f = f.Parent
	}
	return out
}

// staticClosureOf resolves a value to the closure it denotes without frames:
// a MakeClosure, a local variable holding one, or a free variable bound to one.
func staticClosureOf(v ssa.Value, depth int) *ssa.MakeClosure {
	if depth > 6 {
		return nil
	}
	switch x := v.(type) {
	case *ssa.MakeClosure:
		return x
	case *ssa.ChangeType:
		return staticClosureOf(x.X, depth+1)
	case *ssa.UnOp:
		if x.Op != token.MUL {
			return nil
		}
		switch a := x.X.(type) {
		case *ssa.Alloc:
			var mc *ssa.MakeClosure
			n := 0
			for _, r := range *a.Referrers() {
				if st, ok := r.(*ssa.Store); ok && st.Addr == a {
					n++
					mc = staticClosureOf(st.Val, depth+1)
				}
			}
			if n == 1 {
				return mc
			}
		case *ssa.FreeVar:
			return freeVarClosure(a, depth+1)
		}
	case *ssa.FreeVar:
		return freeVarClosure(x, depth+1)
	}
	return nil
}

func freeVarClosure(fv *ssa.FreeVar, depth int) *ssa.MakeClosure {
	fn := fv.Parent()
	idx := -1
	for i, f := range fn.FreeVars {
		if f == fv {
			idx = i
		}
	}
	p := fn.Parent()
	if p == nil || idx < 0 {
		return nil
	}
	var res *ssa.MakeClosure
	n := 0
	for _, b := range p.Blocks {
		for _, ins := range b.Instrs {
			if mc, ok := ins.(*ssa.MakeClosure); ok && mc.Fn == fn && idx < len(mc.Bindings) {
				n++
				bind := mc.Bindings[idx]
				// captured by reference: the binding is the variable's address
				if a, ok := bind.(*ssa.Alloc); ok {
					var st0 ssa.Value
					k := 0
					for _, r := range *a.Referrers() {
						if st, ok := r.(*ssa.Store); ok && st.Addr == a {
							k++
							st0 = st.Val
						}
					}
					if k == 1 {
						res = staticClosureOf(st0, depth+1)
					}
				} else {
					res = staticClosureOf(bind, depth+1)
				}
			}
		}
	}
	if n == 1 {
		return res
	}
	return nil
}

// closurePassedAsArg: the anonymous function is (statically) passed as a call
// argument somewhere in irismod code.
func (cx *Ctx) closurePassedAsArg(fn *ssa.Function) bool {
	if cx.passed == nil {
		cx.passed = map[*ssa.Function]bool{}
		for _, f := range cx.P.AllFuncs {
			for _, b := range f.Blocks {
				for _, ins := range b.Instrs {
					ci, ok := ins.(ssa.CallInstruction)
					if !ok {
						continue
					}
					for _, mc := range closureArgs(ci) {
						if g, ok := mc.Fn.(*ssa.Function); ok {
							cx.passed[g] = true
						}
					}
				}
			}
		}
	}
	return cx.passed[fn]
}

// exitFacts: facts at a success exit: the dominating facts of its block plus,
// when the error result is returned straight from a call (tail call), the facts
// implied by that call having returned nil.
func (w *Walker) exitFacts(fr *Frame, b *ssa.BasicBlock, depth int) []FactT {
	out := w.blockFacts(fr, b, depth)
	ret, ok := b.Instrs[len(b.Instrs)-1].(*ssa.Return)
	if !ok || len(ret.Results) == 0 || !lastResultIsError(fr.Fn) || depth >= 4 {
		return out
	}
	if call := callOfErr(ret.Results[len(ret.Results)-1]); call != nil {
		out = append(out, w.impliedFacts(fr, CallFact{Call: call, Outcome: "err==nil"}, depth)...)
	}
	// `err := f(); if err == nil { err = g() }; return err`: the returned error is a
	// phi; it is nil only along edges whose value can be nil, and there the facts of
	// that edge hold (including "the call that produced the value succeeded")
	if phi, ok := ret.Results[len(ret.Results)-1].(*ssa.Phi); ok {
		out = append(out, w.nilErrPhiFacts(fr, phi, depth, 0)...)
	}
	return out
}

func (w *Walker) nilErrPhiFacts(fr *Frame, phi *ssa.Phi, depth, rec int) []FactT {
	if rec > 4 {
		return nil
	}
	var common map[string]FactT
	feasible := 0
	for i, e := range phi.Edges {
		if i >= len(phi.Block().Preds) {
			continue
		}
		pred := phi.Block().Preds[i]
		if errNonNilAt(e, pred) {
			continue // this edge carries a non-nil error
		}
		// the branch taken from pred into the phi block may itself say e != nil
		if ifi, ok := pred.Instrs[len(pred.Instrs)-1].(*ssa.If); ok && len(pred.Succs) == 2 {
			holds := pred.Succs[0] == phi.Block()
			infeasible := false
			for _, f := range expandCond(ifi.Cond, holds, ifi) {
				if bo, ok := f.Cond.(*ssa.BinOp); ok && (bo.X == e || bo.Y == e) && (isNilConst(bo.X) || isNilConst(bo.Y)) {
					if (bo.Op == token.NEQ) == f.Holds {
						infeasible = true
					}
				}
			}
			if infeasible {
				continue
			}
		}
		feasible++
		m := map[string]FactT{}
		for _, ft := range w.blockFacts(fr, pred, depth+1) {
			m[ft.String()] = ft
		}
		if ifi, ok := pred.Instrs[len(pred.Instrs)-1].(*ssa.If); ok && len(pred.Succs) == 2 {
			holds := pred.Succs[0] == phi.Block()
			for _, f := range expandCond(ifi.Cond, holds, ifi) {
				ft := FactT{Text: w.ts.Of(f.Cond, fr).LooseString(), Holds: f.Holds}
				m[ft.String()] = ft
				// err == nil on this edge for another call's error: that call succeeded
				if bo, ok := f.Cond.(*ssa.BinOp); ok && (bo.Op == token.EQL) == f.Holds {
					for _, side := range []ssa.Value{bo.X, bo.Y} {
						if call := callOfErr(side); call != nil && (isNilConst(bo.X) || isNilConst(bo.Y)) {
							for _, g := range w.impliedFacts(fr, CallFact{Call: call, Outcome: "err==nil"}, depth+1) {
								m[g.String()] = g
							}
						}
					}
				}
			}
		}
		switch v := e.(type) {
		case *ssa.Phi:
			for _, ft := range w.nilErrPhiFacts(fr, v, depth, rec+1) {
				m[ft.String()] = ft
			}
		default:
			if call := callOfErr(e); call != nil {
				for _, ft := range w.impliedFacts(fr, CallFact{Call: call, Outcome: "err==nil"}, depth+1) {
					m[ft.String()] = ft
				}
			}
		}
		if common == nil {
			common = m
		} else {
			for k := range common {
				if _, ok := m[k]; !ok {
					delete(common, k)
				}
			}
		}
	}
	if feasible == 0 {
		return nil
	}
	var out []FactT
	for _, k := range sortedKeys(common) {
		out = append(out, common[k])
	}
	return out
}

func (w *Walker) blockFacts(fr *Frame, b *ssa.BasicBlock, depth int) []FactT {
	fs := w.blockFacts0(fr, b, depth)
	// after the hit/miss arms of a local memo table have joined: what held where the value
	// was put into the table holds for the value taken out of it (memo.go)
	if depth == 0 {
		for _, ub := range w.cx.memoJoinBlocks(b) {
			if os.Getenv("DEBUG_MEMO") != "" {
				for _, ft := range w.blockFacts0(fr, ub, depth+1) {
					fmt.Fprintf(os.Stderr, "  lifted b%d: %s\n", ub.Index, trunc(ft.String(), 200))
				}
			}
			for _, ft := range w.blockFacts0(fr, ub, depth+1) {
				if !strings.Contains(ft.Text, "new:map[") {
					fs = append(fs, ft)
				}
			}
		}
	}
	// after a loop that runs every check of a literal list and returns the first error:
	// every check returned nil
	if depth < 6 {
		for _, cl := range checksLoopsOf(fr.Fn) {
			if cl.done != b && !cl.done.Dominates(b) {
				continue
			}
			for _, mc := range cl.closures {
				fs = append(fs, w.closureStepFacts(fr, mc, depth)...)
			}
		}
	}
	return withEquivalents(fs)
}

type checksLoop struct {
	done     *ssa.BasicBlock // where control continues when the list is exhausted
	call     ssa.CallInstruction
	closures []*ssa.MakeClosure
}

var checksLoopMemo = map[*ssa.Function][]checksLoop{}

// checksLoopsOf:  for _, check := range []func() error{…} { if err := check(); err != nil { return err } }
// The only ways out of the loop are the failure return and the exhausted list.
func checksLoopsOf(f *ssa.Function) []checksLoop {
	if r, ok := checksLoopMemo[f]; ok {
		return r
	}
	var out []checksLoop
	for _, b := range f.Blocks {
		for _, ins := range b.Instrs {
			c, ok := ins.(*ssa.Call)
			if !ok || c.Common().IsInvoke() || c.Common().StaticCallee() != nil || len(c.Common().Args) != 0 {
				continue
			}
			ld, ok := c.Common().Value.(*ssa.UnOp)
			if !ok || ld.Op != token.MUL {
				continue
			}
			ia, ok := ld.X.(*ssa.IndexAddr)
			if !ok {
				continue
			}
			sig, ok := c.Common().Value.Type().Underlying().(*types.Signature)
			if !ok || sig.Results().Len() != 1 || !isErrorType(sig.Results().At(0).Type()) {
				continue
			}
			h := loopHeaderOf(b)
			if h == nil || len(h.Succs) != 2 {
				continue
			}
			var mcs []*ssa.MakeClosure
			all := true
			els := variadicElems(ia.X)
			for _, el := range els {
				mc := staticClosureOf(el, 0)
				if el == nil || mc == nil {
					all = false
					break
				}
				mcs = append(mcs, mc)
			}
			if !all || len(mcs) == 0 {
				continue
			}
			// the loop: header h, body; exits only through h (list exhausted) or a failure return
			inLoopB := func(x *ssa.BasicBlock) bool {
				return x == h || (h.Dominates(x) && reachesAvoiding(x, h, nil))
			}
			var done *ssa.BasicBlock
			for _, sc := range h.Succs {
				if !inLoopB(sc) || !reachesBlock(sc, h) {
					done = sc
				}
			}
			if done == nil || len(done.Preds) != 1 {
				continue
			}
			okShape := true
			for _, x := range f.Blocks {
				if x == h || !h.Dominates(x) || !reachesBlock(x, h) {
					continue
				}
				for _, sc := range x.Succs {
					if sc == h || (h.Dominates(sc) && reachesBlock(sc, h)) {
						continue
					}
					// leaving the loop from the body: only to a failure return
					last := sc.Instrs[len(sc.Instrs)-1]
					ret, isRet := last.(*ssa.Return)
					if !isRet || !(isFailureReturn(ret) || returnsValue(ret, c)) {
						okShape = false
					}
				}
			}
			// the call's error is tested: the loop continues only when it is nil
			if !okShape || !errorPropagated(c) {
				continue
			}
			out = append(out, checksLoop{done: done, call: c, closures: mcs})
		}
	}
	checksLoopMemo[f] = out
	return out
}

func reachesBlock(from, to *ssa.BasicBlock) bool {
	seen := map[*ssa.BasicBlock]bool{}
	q := []*ssa.BasicBlock{from}
	for len(q) > 0 {
		x := q[0]
		q = q[1:]
		if x == to {
			return true
		}
		if seen[x] {
			continue
		}
		seen[x] = true
		q = append(q, x.Succs...)
	}
	return false
}

// returnsValue: the return hands back v (the error of the failed check) as its last result.
func returnsValue(ret *ssa.Return, v ssa.Value) bool {
	return len(ret.Results) > 0 && ret.Results[len(ret.Results)-1] == v
}

// closureStepFacts: the facts common to the non-failure returns of a check closure.
func (w *Walker) closureStepFacts(fr *Frame, mc *ssa.MakeClosure, depth int) []FactT {
	fn, _ := mc.Fn.(*ssa.Function)
	if fn == nil || fn.Blocks == nil || onChain(fr, fn) {
		return nil
	}
	cfr := &Frame{Fn: fn, Parent: fr, MC: mc, Depth: fr.Depth + 1}
	var common map[string]FactT
	for _, r := range returnsOf(fn) {
		if isFailureReturn(r) {
			continue
		}
		m := map[string]FactT{}
		for _, ft := range w.exitFacts(cfr, r.Block(), depth+1) {
			m[ft.String()] = ft
		}
		// `return validateX(p.F)`: the callee's success facts
		if len(r.Results) == 1 {
			if rc, ok := r.Results[0].(*ssa.Call); ok {
				for _, ft := range w.impliedFacts(cfr, CallFact{Call: rc, Outcome: "err==nil"}, depth+1) {
					m[ft.String()] = ft
				}
			}
		}
		if common == nil {
			common = m
		} else {
			for k := range common {
				if _, ok := m[k]; !ok {
					delete(common, k)
				}
			}
		}
	}
	var keys []string
	for k := range common {
		keys = append(keys, k)
	}
	sort.Strings(keys)
	var out []FactT
	for _, k := range keys {
		out = append(out, common[k])
	}
	return out
}

// splitTop splits s at top-level occurrences of sep (outside parentheses,
// brackets and braces).
func splitTop(s, sep string) []string {
	var out []string
	depth, last := 0, 0
	for i := 0; i < len(s); i++ {
		switch s[i] {
		case '(', '[', '{':
			depth++
		case ')', ']', '}':
			depth--
		}
		if depth == 0 && strings.HasPrefix(s[i:], sep) {
			out = append(out, s[last:i])
			last = i + len(sep)
			i += len(sep) - 1
		}
	}
	return append(out, s[last:])
}

var cmpFlip = map[string]string{"<": ">", "<=": ">=", ">": "<", ">=": "<=", "==": "==", "!=": "!="}
var cmpNeg = map[string]string{"<": ">=", "<=": ">", ">": "<=", ">=": "<", "==": "!=", "!=": "=="}
var methNeg = map[string]string{"LT": "GTE", "GTE": "LT", "GT": "LTE", "LTE": "GT", "IsLT": "IsGTE", "IsGTE": "IsLT"}
var methFlip = map[string]string{"LT": "GT", "GT": "LT", "GTE": "LTE", "LTE": "GTE"}

// withEquivalents adds, for every comparison fact, its equivalent spellings:
// ¬(a >= b) ≡ (a < b) ≡ (b > a) ≡ ¬(b <= a), and likewise for the
// LT/LTE/GT/GTE methods of the SDK number types. Rules may then name a
// comparison in any one form; `if x >= y { ok }` and `if x < y { fail }` read alike.
func withEquivalents(fs []FactT) []FactT {
	out := fs
	seen := map[string]bool{}
	for _, f := range fs {
		seen[f.String()] = true
	}
	add := func(t string, holds bool, where token.Pos) {
		f := FactT{Text: t, Holds: holds, Where: where}
		if !seen[f.String()] {
			seen[f.String()] = true
			out = append(out, f)
		}
	}
	for _, f := range fs {
		t, holds := f.Text, f.Holds
		if strings.HasSuffix(t, " : true") {
			t = strings.TrimSuffix(t, " : true")
		} else if strings.HasSuffix(t, " : false") {
			t, holds = strings.TrimSuffix(t, " : false"), !holds
		} else if strings.Contains(t, " : ") {
			continue
		}
		// a length is never negative: len(x) > 0 ≡ len(x) >= 1 ≡ len(x) != 0 (and their negations)
		if strings.HasPrefix(t, "(len(") {
			for _, form := range []struct {
				op      string
				nonzero bool
			}{{" > 0)", true}, {" >= 1)", true}, {" < 1)", false}, {" <= 0)", false}} {
				if strings.HasSuffix(t, form.op) {
					x := t[1 : len(t)-len(form.op)]
					if len(splitTop(x, " ")) == 1 {
						add("("+x+" != 0)", holds == form.nonzero, f.Where)
						add("("+x+" == 0)", holds != form.nonzero, f.Where)
					}
				}
			}
		}
		// sdk.Coins.Empty(x) ≡ (len(x) == 0)
		if strings.HasPrefix(t, "sdk.Coins.Empty(") && strings.HasSuffix(t, ")") && len(splitTop(t[len("sdk.Coins.Empty("):len(t)-1], ", ")) == 1 {
			x := t[len("sdk.Coins.Empty(") : len(t)-1]
			add("(len("+x+") == 0)", holds, f.Where)
			add("(len("+x+") != 0)", !holds, f.Where)
		}
		for _, form := range []struct {
			op string
			eq bool
		}{{" == 0)", true}, {" != 0)", false}} {
			if strings.HasPrefix(t, "(len(") && strings.HasSuffix(t, ")"+form.op) {
				x := t[len("(len(") : len(t)-len(form.op)-1]
				if len(splitTop(x, ", ")) == 1 && !strings.ContainsAny(x, " ") {
					add("sdk.Coins.Empty("+x+")", holds == form.eq, f.Where)
				}
			}
		}
		// (a op b)
		if strings.HasPrefix(t, "(") && strings.HasSuffix(t, ")") {
			inner := t[1 : len(t)-1]
			for _, op := range []string{"<=", ">=", "==", "!=", "<", ">"} {
				parts := splitTop(inner, " "+op+" ")
				if len(parts) != 2 {
					continue
				}
				a, b := parts[0], parts[1]
				add("("+a+" "+cmpNeg[op]+" "+b+")", !holds, f.Where)
				add("("+b+" "+cmpFlip[op]+" "+a+")", holds, f.Where)
				add("("+b+" "+cmpNeg[cmpFlip[op]]+" "+a+")", !holds, f.Where)
				break
			}
			continue
		}
		// T.M(a, b)
		if i := strings.Index(t, "("); i > 0 && strings.HasSuffix(t, ")") {
			head := t[:i]
			j := strings.LastIndex(head, ".")
			if j < 0 {
				continue
			}
			m := head[j+1:]
			args := splitTop(t[i+1:len(t)-1], ", ")
			if len(args) != 2 {
				continue
			}
			if n, ok := methNeg[m]; ok {
				add(head[:j+1]+n+"("+args[0]+", "+args[1]+")", !holds, f.Where)
			}
			if fl, ok := methFlip[m]; ok {
				add(head[:j+1]+fl+"("+args[1]+", "+args[0]+")", holds, f.Where)
				add(head[:j+1]+methNeg[fl]+"("+args[1]+", "+args[0]+")", !holds, f.Where)
			}
			// time.Time: a.Before(b) ≡ b.After(a)
			if head == "time.Time.Before" || head == "time.Time.After" {
				other := map[string]string{"Before": "After", "After": "Before"}[m]
				add(head[:j+1]+other+"("+args[1]+", "+args[0]+")", holds, f.Where)
			}
			// symmetric equality tests
			if m == "Equal" || m == "Equals" || m == "IsEqual" {
				add(head+"("+args[1]+", "+args[0]+")", holds, f.Where)
			}
			// a >= 0 ≡ ¬IsNegative(a); a <= 0 ≡ ¬IsPositive(a) (and mirrored)
			isZ := func(s string) bool {
				return s == "math.ZeroInt()" || s == "math.LegacyZeroDec()" || s == "math.ZeroUint()"
			}
			switch {
			case m == "GTE" && isZ(args[1]), m == "LTE" && isZ(args[0]):
				a := args[0]
				if m == "LTE" {
					a = args[1]
				}
				add(head[:j+1]+"IsNegative("+a+")", !holds, f.Where)
			case m == "LTE" && isZ(args[1]), m == "GTE" && isZ(args[0]):
				a := args[0]
				if m == "GTE" {
					a = args[1]
				}
				add(head[:j+1]+"IsPositive("+a+")", !holds, f.Where)
			}
		}
	}
	return out
}

func (w *Walker) blockFacts0(fr *Frame, b *ssa.BasicBlock, depth int) []FactT {
	var out []FactT
	var gated []Fact
	for _, fct := range dominatingFacts(b) {
		out = append(out, FactT{Text: w.ts.Of(fct.Cond, fr).LooseString(), Holds: fct.Holds, Where: fct.If.Pos()})
		// a condition computed into a variable first (`queued := a || b; if !queued`):
		// the operands of the short-circuit are decided as well
		if _, isPhi := fct.Cond.(*ssa.Phi); isPhi && depth < 4 {
			for _, ft := range w.boolValueFacts(fr, fct.Cond, fct.Holds, 0) {
				if ft.Where == token.NoPos {
					ft.Where = fct.If.Pos()
				}
				out = append(out, ft)
			}
		}
		// a condition computed by helpers over a small enumeration / bit set
		if depth < 4 && involvesEnumHelper(fct.Cond, 0) {
			gated = append(gated, fct)
		}
		// verdict == accepted with verdict the constant result of a helper (or a φ of such)
		if bo, ok := fct.Cond.(*ssa.BinOp); ok && depth < 6 && (bo.Op == token.EQL || bo.Op == token.NEQ) && (bo.Op == token.EQL) == fct.Holds {
			x, c := bo.X, bo.Y
			if _, isC := x.(*ssa.Const); isC {
				x, c = c, x
			}
			if cc, isC := c.(*ssa.Const); isC && cc.Value != nil && !cc.IsNil() && cc.Value.Kind() != constant.Bool {
				switch x.(type) {
				case *ssa.Call, *ssa.Extract, *ssa.Phi:
					for _, ft := range w.valueEqualsFacts(fr, x, cc, depth+1) {
						if ft.Where == token.NoPos {
							ft.Where = fct.If.Pos()
						}
						out = append(out, ft)
					}
				}
			}
		}
	}
	if len(gated) > 0 {
		for _, ft := range w.condAltFactsJoint(fr, gated) {
			if ft.Where == token.NoPos {
				ft.Where = gated[len(gated)-1].If.Pos()
			}
			out = append(out, ft)
		}
	}
	for _, cf := range callFacts(b) {
		ct := canon(&Term{Op: "call", Name: callName(cf.Call), Args: w.ts.callArgs(cf.Call, fr, 0, nil)})
		out = append(out, FactT{Text: fmt.Sprintf("%s : %s", ct.LooseString(), cf.Outcome), Holds: true, Where: cf.Call.Pos()})
		// implied facts of guard functions
		if depth < 4 {
			out = append(out, w.impliedFacts(fr, cf, depth)...)
		}
	}
	return out
}

// impliedFacts: the call succeeded (err==nil / returned true / ok): the facts
// common to all such exits of the callee hold, with its parameters bound.
func (w *Walker) impliedFacts(fr *Frame, cf CallFact, depth int) []FactT {
	var out []FactT
	// firstError(check1, check2, …) returned nil: every check returned nil
	if cf.Outcome == "err==nil" {
		if g := cf.Call.Common().StaticCallee(); g != nil && firstErrorCombinator(g) && len(cf.Call.Common().Args) == 1 {
			for _, el := range variadicElems(cf.Call.Common().Args[0]) {
				mc := staticClosureOf(el, 0)
				if mc == nil {
					continue
				}
				fn, _ := mc.Fn.(*ssa.Function)
				if fn == nil || fn.Blocks == nil || onChain(fr, fn) {
					continue
				}
				cfr := &Frame{Fn: fn, Parent: fr, MC: mc, Depth: fr.Depth + 1}
				var common map[string]FactT
				for _, r := range returnsOf(fn) {
					if isFailureReturn(r) {
						continue
					}
					m := map[string]FactT{}
					for _, ft := range w.exitFacts(cfr, r.Block(), depth+1) {
						m[ft.String()] = ft
					}
					// `return validateX(p.F)`: the callee's success facts
					if len(r.Results) == 1 {
						if rc, ok := r.Results[0].(*ssa.Call); ok {
							for _, ft := range w.impliedFacts(cfr, CallFact{Call: rc, Outcome: "err==nil"}, depth+1) {
								m[ft.String()] = ft
							}
						}
					}
					if common == nil {
						common = m
					} else {
						for k := range common {
							if _, ok := m[k]; !ok {
								delete(common, k)
							}
						}
					}
				}
				var keys []string
				for k := range common {
					keys = append(keys, k)
				}
				sort.Strings(keys)
				for _, k := range keys {
					out = append(out, common[k])
				}
			}
			return out
		}
	}
	// anyZero(a, b, c) returned false: none of them is zero (a quantifier over a literal list)
	if cf.Outcome == "true" || cf.Outcome == "false" {
		if g := cf.Call.Common().StaticCallee(); g != nil && len(cf.Call.Common().Args) == 1 && !onChain(fr, g) {
			if q := quantifierOf(g); q != nil && (cf.Outcome == "true") != q.hit {
				if cc := cf.Call; cc != nil {
					nfr := &Frame{Fn: g, Parent: fr, Call: cc, Depth: fr.Depth + 1}
					ct := w.ts.Of(q.cond, nfr)
					ix := w.ts.Of(q.idx, nfr).LooseString()
					els := variadicElems(cf.Call.Common().Args[0])
					if strings.Contains(ix, "φ") {
						for k := range els {
							t := substIndex(ct, ix, mk("const", strconv.Itoa(k)))
							out = append(out, FactT{Text: t.LooseString(), Holds: !q.condOnHit, Where: cf.Call.Pos()})
						}
					}
				}
			}
		}
	}
	for _, e := range w.cx.calleesOf(cf.Call) {
		g := e.Callee
		if g.Blocks == nil || !isIrismodFunc(g) || onChain(fr, g) || w.cx.isDoubleFunc(g) {
			continue
		}
		nfr := &Frame{Fn: g, Parent: fr, Call: cf.Call, Depth: fr.Depth + 1}
		var exits []*ssa.BasicBlock
		for _, r := range returnsOf(g) {
			switch cf.Outcome {
			case "err==nil":
				if !isFailureReturn(r) {
					exits = append(exits, r.Block())
				}
			case "err!=nil":
				if lastResultIsError(g) && !isNilConst(r.Results[len(r.Results)-1]) {
					exits = append(exits, r.Block())
				}
			case "true", "false":
				if len(r.Results) == 1 {
					want := cf.Outcome == "true"
					if c, ok := r.Results[0].(*ssa.Const); ok && c.Value != nil {
						if (c.Value.ExactString() == "true") == want {
							exits = append(exits, r.Block())
						}
					} else {
						exits = append(exits, r.Block())
					}
				}
			case "ok", "!ok":
				want := cf.Outcome == "ok"
				if len(r.Results) >= 2 {
					if c, ok := r.Results[len(r.Results)-1].(*ssa.Const); ok && c.Value != nil {
						if (c.Value.ExactString() == "true") == want {
							exits = append(exits, r.Block())
						}
					} else {
						exits = append(exits, r.Block())
					}
				}
			}
		}
		if len(exits) == 0 {
			continue
		}
		var common map[string]FactT
		for _, xb := range exits {
			m := map[string]FactT{}
			for _, ft := range w.exitFacts(nfr, xb, depth+1) {
				m[ft.String()] = ft
			}
			// `return f(...)` with outcome err==nil: f returned nil (and what that implies)
			if cf.Outcome == "err==nil" && depth < 4 {
				if r, ok := xb.Instrs[len(xb.Instrs)-1].(*ssa.Return); ok && len(r.Results) > 0 {
					var rc *ssa.Call
					switch y := r.Results[len(r.Results)-1].(type) {
					case *ssa.Call:
						rc = y
					case *ssa.Extract:
						rc, _ = y.Tuple.(*ssa.Call)
					}
					if rc != nil {
						sig := rc.Common().Signature()
						if n := sig.Results().Len(); n > 0 && isErrorType(sig.Results().At(n-1).Type()) {
							ct := canon(&Term{Op: "call", Name: callName(rc), Args: w.ts.callArgs(rc, nfr, 0, nil)})
							ft := FactT{Text: ct.LooseString() + " : err==nil", Holds: true, Where: rc.Pos()}
							m[ft.String()] = ft
							for _, ft := range w.impliedFacts(nfr, CallFact{Call: rc, Outcome: "err==nil"}, depth+1) {
								m[ft.String()] = ft
							}
						}
					}
				}
			}
			// a boolean function returning an expression: `return a.Equals(b)` with outcome true
			if (cf.Outcome == "true" || cf.Outcome == "false") && len(exits) >= 1 {
				r := xb.Instrs[len(xb.Instrs)-1].(*ssa.Return)
				if len(r.Results) == 1 {
					if _, isConst := r.Results[0].(*ssa.Const); !isConst {
						for _, ft := range w.boolValueFacts(nfr, r.Results[0], cf.Outcome == "true", 0) {
							m[ft.String()] = ft
						}
					}
				}
			}
			if common == nil {
				common = m
			} else {
				for k := range common {
					if _, ok := m[k]; !ok {
						delete(common, k)
					}
				}
			}
		}
		var keys []string
		for k := range common {
			keys = append(keys, k)
		}
		sort.Strings(keys)
		for _, k := range keys {
			out = append(out, common[k])
		}
	}
	return out
}

// boolValueFacts: what is known when the boolean value v equals want. A phi
// produced by `a && b` / `a || b` (one edge a constant, the other the right
// operand evaluated under the left one) is followed: only the edges that can
// yield `want` are feasible, and the facts common to them hold.
func (w *Walker) boolValueFacts(fr *Frame, v ssa.Value, want bool, depth int) []FactT {
	if depth > 6 {
		return nil
	}
	switch x := v.(type) {
	case *ssa.UnOp:
		if x.Op == token.NOT {
			return w.boolValueFacts(fr, x.X, !want, depth+1)
		}
	case *ssa.Const:
		return nil
	case *ssa.Phi:
		var common map[string]FactT
		feasible := 0
		for i, e := range x.Edges {
			if c, ok := e.(*ssa.Const); ok && c.Value != nil && c.Value.Kind() == constant.Bool {
				if constant.BoolVal(c.Value) != want {
					continue // this edge cannot produce `want`
				}
			}
			feasible++
			m := map[string]FactT{}
			if i < len(x.Block().Preds) {
				pred := x.Block().Preds[i]
				for _, ft := range w.blockFacts(fr, pred, 4) {
					m[ft.String()] = ft
				}
				// the edge pred -> phi block itself
				if ifi, ok := pred.Instrs[len(pred.Instrs)-1].(*ssa.If); ok && len(pred.Succs) == 2 {
					holds := pred.Succs[0] == x.Block()
					for _, f := range expandCond(ifi.Cond, holds, ifi) {
						ft := FactT{Text: w.ts.Of(f.Cond, fr).LooseString(), Holds: f.Holds}
						m[ft.String()] = ft
					}
				}
			}
			if _, isConst := e.(*ssa.Const); !isConst {
				for _, ft := range w.boolValueFacts(fr, e, want, depth+1) {
					m[ft.String()] = ft
				}
			}
			if common == nil {
				common = m
			} else {
				for k := range common {
					if _, ok := m[k]; !ok {
						delete(common, k)
					}
				}
			}
		}
		if feasible == 0 {
			return nil
		}
		var out []FactT
		for _, k := range sortedKeys(common) {
			out = append(out, common[k])
		}
		return withEquivalents(out)
	}
	var out []FactT
	for _, f := range expandCond(v, want, nil) {
		out = append(out, FactT{Text: w.ts.Of(f.Cond, fr).LooseString(), Holds: f.Holds})
		// verdict == accepted, with verdict the result of a helper that returns one of a few
		// constants: what holds on the helper's returns that yield this constant
		if bo, ok := f.Cond.(*ssa.BinOp); ok && depth < 4 && (bo.Op == token.EQL) == f.Holds && (bo.Op == token.EQL || bo.Op == token.NEQ) {
			x, c := bo.X, bo.Y
			if _, isC := x.(*ssa.Const); isC {
				x, c = c, x
			}
			if cc, isC := c.(*ssa.Const); isC && cc.Value != nil && !cc.IsNil() && cc.Value.Kind() != constant.Bool {
				out = append(out, w.valueEqualsFacts(fr, x, cc, depth+1)...)
			}
		}
	}
	if depth < 4 {
		out = append(out, w.condAltFacts(fr, v, want)...)
	}
	// a call to another boolean helper
	if c, ok := v.(*ssa.Call); ok && depth < 4 {
		outcome := "false"
		if want {
			outcome = "true"
		}
		out = append(out, w.impliedFacts(fr, CallFact{Call: c, Outcome: outcome}, depth+1)...)
	}
	return withEquivalents(out)
}

// hasFact: some fact matches all of the given substrings with the given polarity.
// isOutcomeFact: the "f(args) : outcome" form of a call fact (always Holds).
func isOutcomeFact(t string) bool {
	for _, o := range []string{" : true", " : false", " : ok", " : !ok", " : err==nil", " : err!=nil"} {
		if strings.HasSuffix(t, o) {
			return true
		}
	}
	return false
}

func hasFact(facts []FactT, holds bool, subs ...string) (FactT, bool) {
	wantOutcome := false
	for _, s := range subs {
		if strings.Contains(s, " : ") {
			wantOutcome = true
		}
	}
	for _, f := range facts {
		if f.Holds != holds {
			continue
		}
		if !wantOutcome && isOutcomeFact(f.Text) {
			continue // a pattern about a condition never matches a call-outcome fact by prefix
		}
		ok := true
		for _, s := range subs {
			if !strings.Contains(f.Text, s) {
				ok = false
				break
			}
		}
		if ok {
			return f, true
		}
	}
	return FactT{}, false
}

func factStrings(fs []FactT) string {
	var s []string
	for _, f := range fs {
		s = append(s, f.String())
	}
	return strings.Join(s, " ∧ ")
}

func init() {
	dumps["events"] = func(cx *Ctx) {
		w := newWalker(cx)
		for _, e := range cx.EntriesOf("msg", "abci", "callback", "hook", "ante") {
			fmt.Printf("== %s %s.%s  (%s)\n", e.Role, e.Module, e.Name, shortFn(e.Fn))
			w.frames = 0
			w.Walk(e.Fn, func(fr *Frame) {
				for _, ev := range w.EventsOf(fr) {
					if strings.HasPrefix(ev.Kind, "store.get") || strings.HasPrefix(ev.Kind, "store.has") || ev.Kind == "event" || strings.HasPrefix(ev.Kind, "store.iter") {
						continue
					}
					var as []string
					for _, a := range ev.Args {
						if a.Op == "ctx" {
							continue
						}
						as = append(as, a.LooseString())
					}
					must := "may "
					if w.chainMust(fr, ev.Site) {
						must = "MUST"
					}
					fmt.Printf("  %s %-34s %-28s (%s) %s\n      facts: %s\n", must, cx.P.Pos(ev.Site.Pos()), ev.Kind, strings.Join(as, ", "), strings.Join(ev.Prefix, "|"), factStrings(w.FactsAt(fr, ev.Site)))
				}
			})
			if w.over {
				fmt.Println("  !! frame budget exceeded")
				w.over = false
			}
		}
	}
}

func init() {
	dumps["ev"] = func(cx *Ctx) {
		mod := os.Getenv("IRISLINT_MOD")
		for _, e := range cx.EntriesOf("msg", "abci", "callback", "hook", "ante") {
			if mod != "" && !strings.HasPrefix(e.Module, mod) {
				continue
			}
			fmt.Printf("== %s %s.%s\n", e.Role, e.Module, e.Name)
			w := newWalker(cx)
			w.Walk(e.Fn, func(fr *Frame) {
				for _, ev := range w.EventsOf(fr) {
					if ev.Kind == "store.get" || ev.Kind == "store.has" || ev.Kind == "event" || strings.HasPrefix(ev.Kind, "store.iter") || strings.HasPrefix(ev.Kind, "ext.AccountKeeper") {
						continue
					}
					var as []string
					for _, a := range ev.Args {
						if a.Op == "ctx" {
							continue
						}
						s := a.LooseString()
						if len(s) > 160 {
							s = s[:160] + "…"
						}
						as = append(as, s)
					}
					must := "may "
					if w.chainMust(fr, ev.Site) {
						must = "MUST"
					}
					fmt.Printf("  %s %-32s %-30s %s (%s)\n", must, cx.P.Pos(ev.Site.Pos()), ev.Kind, strings.Join(ev.Prefix, "|"), strings.Join(as, " ; "))
					if os.Getenv("IRISLINT_FACTS") != "" {
						for _, ft := range w.FactsAt(fr, ev.Site) {
							fmt.Printf("        %v  %s\n", ft.Holds, trunc(ft.Text, 300))
						}
					}
				}
			})
		}
	}
}

// ---------------------------------------------------------------- return alternatives

// Alt is one way a callee can return: the returned value (result idx) and the
// branch facts that hold at that return.
type Alt struct {
	Val   *Term
	Facts []FactT
}

// substTerm rebuilds t with every subterm satisfying match replaced by repl,
// re-applying field/extract simplification.
func (ts *Terms) substTerm(t *Term, match func(*Term) bool, repl *Term) *Term {
	if t == nil {
		return nil
	}
	if match(t) {
		return repl
	}
	if len(t.Args) == 0 {
		return t
	}
	nt := &Term{Op: t.Op, Name: t.Name, Site: t.Site}
	changed := false
	for _, a := range t.Args {
		na := ts.substTerm(a, match, repl)
		if na != a {
			changed = true
		}
		nt.Args = append(nt.Args, na)
	}
	if !changed {
		return t
	}
	switch nt.Op {
	case "field":
		return simplifyField(nt.Args[0], nt.Name)
	case "extract":
		var i int
		fmt.Sscan(nt.Name, &i)
		return ts.extract(nt.Args[0], i)
	}
	return nt
}

// callAlternatives: for a term that contains the result of a call (made in one
// of the frames of the chain) to an irismod function with several returns, the
// variants of the term per return of that callee together with the facts at that
// return. Returns nil when no such call is found.
func (w *Walker) callAlternatives(fr *Frame, t *Term) []Alt {
	// candidates: calls made in the frames of the chain whose result occurs in t;
	// the outermost (largest term) is expanded
	var bestCall *ssa.Call
	var bestFrame *Frame
	var bestTerm *Term
	for f := fr; f != nil; f = f.Parent {
		for _, b := range f.Fn.Blocks {
			for _, ins := range b.Instrs {
				c, ok := ins.(*ssa.Call)
				if !ok {
					continue
				}
				g := c.Common().StaticCallee()
				if g == nil || g.Blocks == nil || !isIrismodFunc(g) || onChain(f, g) {
					continue
				}
				if len(returnsOf(g)) < w.minAltReturns() {
					continue
				}
				ct := w.ts.Of(c, f)
				if ct.Op != "call" || findSub(t, func(x *Term) bool { return x.Op == "call" && x.Site == ct.Site && x.Name == ct.Name }) == nil {
					continue
				}
				if bestTerm == nil || len(ct.String()) > len(bestTerm.String()) {
					bestCall, bestFrame, bestTerm = c, f, ct
				}
			}
		}
	}
	if bestCall == nil {
		return nil
	}
	c, f, ct := bestCall, bestFrame, bestTerm
	g := c.Common().StaticCallee()
	nfr := &Frame{Fn: g, Parent: f, Call: c, Depth: f.Depth + 1}
	var alts []Alt
	for _, ret := range returnsOf(g) {
		if isFailureReturn(ret) {
			continue
		}
		var tuple *Term
		if len(ret.Results) == 1 {
			tuple = w.ts.Of(ret.Results[0], nfr)
		} else {
			tuple = &Term{Op: "tuple"}
			for _, rv := range ret.Results {
				tuple.Args = append(tuple.Args, w.ts.Of(rv, nfr))
			}
		}
		nt := w.ts.substTerm(t, func(x *Term) bool { return x.Op == "call" && x.Site == ct.Site && x.Name == ct.Name }, tuple)
		alts = append(alts, Alt{Val: nt, Facts: w.blockFacts(nfr, ret.Block(), 0)})
	}
	return alts
}

func (w *Walker) minAltReturns() int {
	if w.altMin > 0 {
		return w.altMin
	}
	return 2
}

// expandCalls replaces results of irismod calls (made in the frames of the chain)
// that have exactly one non-failing return by the returned term, repeatedly, so
// that values built by helper functions show their structure.
func (w *Walker) expandCalls(fr *Frame, t *Term, rounds int) *Term {
	old := w.altMin
	w.altMin = 1
	defer func() { w.altMin = old }()
	for i := 0; i < rounds; i++ {
		alts := w.callAlternatives(fr, t)
		if len(alts) != 1 || alts[0].Val.String() == t.String() {
			break
		}
		t = alts[0].Val
	}
	return t
}

// closureAncestor: the nearest enclosing closure frame of an event (the
// per-entry body of a store iterator) and the instruction inside that closure
// that leads to the event.
func closureAncestor(ev *Event) (*Frame, ssa.Instruction) {
	var site ssa.Instruction = ev.Site
	for f := ev.Fr; f != nil; f = f.Parent {
		if f.MC != nil {
			return f, site
		}
		if f.Call == nil {
			return nil, nil
		}
		site = f.Call
	}
	return nil, nil
}

// mustBelowSite: between the closure frame cf and the event every call is a must
// call of its function (errors need not propagate inside iterator bodies).
func mustBelowSite(ev *Event, cf *Frame) bool {
	var site ssa.Instruction = ev.Site
	for f := ev.Fr; f != nil && f != cf; {
		if !siteMust(site) {
			return false
		}
		if f.Call == nil {
			if vs := firstErrorStep(f); vs != nil {
				site = vs
				f = f.Via
				continue
			}
			return false
		}
		site = f.Call
		f = f.Parent
	}
	return true
}

// tableDispatch: for a call m[key](…) (or f, ok := m[key]; f(…)) where m is a
// package-level map whose entries are set once in the package initializer, the key
// value and, per stored function, the constant keys it is stored under. nil entries
// when the call is not of that form or the table is not fully understood.
func (cx *Ctx) tableDispatch(ci ssa.CallInstruction) (ssa.Value, map[*ssa.Function][]string) {
	if cx.tables == nil {
		cx.tables = map[ssa.CallInstruction]*tableInfo{}
	}
	if t, ok := cx.tables[ci]; ok {
		if t == nil {
			return nil, nil
		}
		return t.key, t.entries
	}
	cx.tables[ci] = nil
	v := ci.Common().Value
	if ex, ok := v.(*ssa.Extract); ok {
		v = ex.Tuple
	}
	lk, ok := v.(*ssa.Lookup)
	if !ok {
		return nil, nil
	}
	ld, ok := lk.X.(*ssa.UnOp)
	if !ok || ld.Op != token.MUL {
		return nil, nil
	}
	g, ok := ld.X.(*ssa.Global)
	if !ok || g.Pkg == nil {
		return nil, nil
	}
	initFn := g.Pkg.Func("init")
	if initFn == nil || initFn.Blocks == nil {
		return nil, nil
	}
	// the map value stored into g
	var m ssa.Value
	nStores := 0
	for _, b := range initFn.Blocks {
		for _, ins := range b.Instrs {
			if st, ok := ins.(*ssa.Store); ok && st.Addr == g {
				m = st.Val
				nStores++
			}
		}
	}
	if nStores != 1 || m == nil {
		return nil, nil
	}
	// no other function may write the table
	for _, f := range cx.P.AllFuncs {
		if f == initFn || f.Blocks == nil || f.Pkg != g.Pkg {
			continue
		}
		for _, b := range f.Blocks {
			for _, ins := range b.Instrs {
				switch y := ins.(type) {
				case *ssa.Store:
					if y.Addr == g {
						return nil, nil
					}
				case *ssa.MapUpdate:
					if l, ok := y.Map.(*ssa.UnOp); ok && l.X == g {
						return nil, nil
					}
				}
			}
		}
	}
	entries := map[*ssa.Function][]string{}
	for _, b := range initFn.Blocks {
		for _, ins := range b.Instrs {
			mu, ok := ins.(*ssa.MapUpdate)
			if !ok || mu.Map != m {
				continue
			}
			k, ok := mu.Key.(*ssa.Const)
			if !ok || k.Value == nil {
				return nil, nil
			}
			val := mu.Value
			for {
				if ct, ok := val.(*ssa.ChangeType); ok {
					val = ct.X
					continue
				}
				break
			}
			var fn *ssa.Function
			switch y := val.(type) {
			case *ssa.Function:
				fn = y
			case *ssa.MakeClosure:
				fn, _ = y.Fn.(*ssa.Function)
			}
			if fn == nil {
				return nil, nil
			}
			entries[fn] = append(entries[fn], k.Value.ExactString())
		}
	}
	if len(entries) == 0 {
		return nil, nil
	}
	cx.tables[ci] = &tableInfo{lk.Index, entries}
	return lk.Index, entries
}

type tableInfo struct {
	key     ssa.Value
	entries map[*ssa.Function][]string
}

// assumptionsBelow: the dispatch assumptions of the frames chain[i:] whose key is a
// value of function fn (the common frame's function). ok is false when two of them
// contradict each other.
func assumptionsBelow(fn *ssa.Function, chains ...[]*Frame) (map[ssa.Value]string, bool) {
	out := map[ssa.Value]string{}
	for _, c := range chains {
		for _, f := range c {
			if f.Assume == nil {
				continue
			}
			if in, ok := f.Assume.key.(ssa.Instruction); ok && in.Parent() != fn {
				continue
			}
			if p, ok := f.Assume.key.(*ssa.Parameter); ok && p.Parent() != fn {
				continue
			}
			if old, dup := out[f.Assume.key]; dup && old != f.Assume.val {
				return nil, false
			}
			out[f.Assume.key] = f.Assume.val
		}
	}
	return out, true
}

// withAssumptions runs f with the branch edges that contradict `key == const`
// assumptions pruned from the must-pass searches.
func withAssumptions(as map[ssa.Value]string, f func() bool) bool {
	if len(as) == 0 {
		return f()
	}
	old := edgeFeasible
	edgeFeasible = func(b *ssa.BasicBlock, succ int) bool {
		ifi, ok := b.Instrs[len(b.Instrs)-1].(*ssa.If)
		if !ok {
			return true
		}
		c, neg := ifi.Cond, false
		for {
			if u, isU := c.(*ssa.UnOp); isU && u.Op == token.NOT {
				c, neg = u.X, !neg
				continue
			}
			break
		}
		bo, ok := c.(*ssa.BinOp)
		if !ok || (bo.Op != token.EQL && bo.Op != token.NEQ) {
			return true
		}
		x, y := bo.X, bo.Y
		if _, isC := x.(*ssa.Const); isC {
			x, y = y, x
		}
		for {
			switch z := x.(type) {
			case *ssa.Convert:
				x = z.X
				continue
			case *ssa.ChangeType:
				x = z.X
				continue
			}
			break
		}
		k, isC := y.(*ssa.Const)
		val, known := as[x]
		if !isC || k.Value == nil || !known {
			return true
		}
		eq := k.Value.ExactString() == val // value of (x == const) under the assumption
		cond := eq
		if bo.Op == token.NEQ {
			cond = !cond
		}
		if neg {
			cond = !cond
		}
		// successor 0 is taken when the condition is true
		return (succ == 0) == cond
	}
	defer func() { edgeFeasible = old }()
	return f()
}

// constTable: the (key, value) pairs of a package-level map that is filled once in
// the package initializer and written nowhere else. ok is false otherwise.
type tableEntry struct{ k, v ssa.Value }

func (cx *Ctx) constTable(g *ssa.Global) ([]tableEntry, bool) {
	if cx.constTables == nil {
		cx.constTables = map[*ssa.Global]*[]tableEntry{}
	}
	if t, ok := cx.constTables[g]; ok {
		if t == nil {
			return nil, false
		}
		return *t, true
	}
	cx.constTables[g] = nil
	if g.Pkg == nil {
		return nil, false
	}
	if _, isMap := g.Type().(*types.Pointer).Elem().Underlying().(*types.Map); !isMap {
		return nil, false
	}
	initFn := g.Pkg.Func("init")
	if initFn == nil || initFn.Blocks == nil {
		return nil, false
	}
	var m ssa.Value
	nStores := 0
	for _, b := range initFn.Blocks {
		for _, ins := range b.Instrs {
			if st, ok := ins.(*ssa.Store); ok && st.Addr == g {
				m = st.Val
				nStores++
			}
		}
	}
	if nStores != 1 || m == nil {
		return nil, false
	}
	for _, mem := range g.Pkg.Members {
		f, ok := mem.(*ssa.Function)
		if !ok {
			continue
		}
		var fns []*ssa.Function
		fns = append(fns, f)
		fns = append(fns, f.AnonFuncs...)
		for _, fn := range fns {
			if fn == initFn || fn.Blocks == nil {
				continue
			}
			for _, b := range fn.Blocks {
				for _, ins := range b.Instrs {
					switch y := ins.(type) {
					case *ssa.Store:
						if y.Addr == g {
							return nil, false
						}
					case *ssa.MapUpdate:
						if l, ok := y.Map.(*ssa.UnOp); ok && l.X == g {
							return nil, false
						}
					}
				}
			}
		}
	}
	// methods of the package's types may write it too
	for _, f := range cx.P.AllFuncs {
		if f.Pkg != g.Pkg || f.Blocks == nil || f == initFn {
			continue
		}
		for _, b := range f.Blocks {
			for _, ins := range b.Instrs {
				if mu, ok := ins.(*ssa.MapUpdate); ok {
					if l, ok := mu.Map.(*ssa.UnOp); ok && l.X == g {
						return nil, false
					}
				}
				if st, ok := ins.(*ssa.Store); ok && st.Addr == g {
					return nil, false
				}
			}
		}
	}
	var out []tableEntry
	for _, b := range initFn.Blocks {
		for _, ins := range b.Instrs {
			mu, ok := ins.(*ssa.MapUpdate)
			if !ok || mu.Map != m {
				continue
			}
			out = append(out, tableEntry{mu.Key, mu.Value})
		}
	}
	if len(out) == 0 {
		return nil, false
	}
	cx.constTables[g] = &out
	return out, true
}

// absoluteStoreKey rewrites the key of an access made through a prefix store into the
// absolute, canonical form (storekey.go). Argument layout after the rewrite is that of
// the plain forms: Get/Has/Delete(key), Set(key, value), iterator(store, prefix).
func (w *Walker) absoluteStoreKey(ev *Event, ci ssa.CallInstruction, kind string, fr *Frame) {
	c := ci.Common()
	// a queued write (batch.go): key and value are the queueing call's arguments
	if q := w.cx.queuerAt(ci); q != nil && q.keyIdx < len(ev.Args) {
		args := []*Term{ev.Args[q.keyIdx]}
		if q.valIdx >= 0 && q.valIdx < len(ev.Args) {
			args = append(args, ev.Args[q.valIdx])
		}
		ev.Args = args
		return
	}
	pkg, name := calleeName(c)
	var store ssa.Value
	args := ev.Args
	concrete := false
	switch {
	case c.IsInvoke():
		store = c.Value
	case pkg == "cosmossdk.io/store/prefix" && strings.HasPrefix(name, "Store."):
		if len(c.Args) == 0 {
			return
		}
		store = c.Args[0]
		args = args[1:] // drop the receiver
		concrete = true
	case name == "KVStorePrefixIterator" || name == "KVStoreReversePrefixIterator":
		if len(c.Args) < 2 {
			return
		}
		store = c.Args[0]
	default:
		return
	}
	pfx := w.storePrefixTerm(store, fr)
	if pfx == nil {
		if concrete {
			ev.Args = args
		}
		return
	}
	// an ABSOLUTE key (or scan prefix) used on a prefix store: the store prepends its prefix
	// once more, and the access lands under a key nothing else reads or writes
	{
		var rel *Term
		switch kind {
		case "store.get", "store.has", "store.delete", "store.set":
			if len(args) >= 1 {
				rel = args[0]
			}
		case "store.iter", "store.riter":
			if name == "KVStorePrefixIterator" || name == "KVStoreReversePrefixIterator" {
				rel = ev.Args[1]
			} else if len(args) >= 1 && args[0].Op != "nil" {
				rel = args[0]
			}
		}
		if rel != nil && rel.Op != "nil" {
			pf := flattenKey(w.ts.expandKeyCallsF(pfx, 0, true))
			rf := flattenKey(w.ts.expandKeyCallsF(rel, 0, true))
			if len(pf) > 0 && len(rf) >= len(pf) {
				same := true
				for i := range pf {
					if pf[i].LooseString() != rf[i].LooseString() || pf[i].Op == "param" {
						same = false
					}
				}
				if same {
					ev.Note = "double-prefix"
				}
			}
		}
	}
	switch kind {
	case "store.get", "store.has", "store.delete":
		if len(args) >= 1 {
			ev.Args = []*Term{w.canonKey(pfx, args[0])}
		}
	case "store.set":
		if len(args) >= 2 {
			ev.Args = []*Term{w.canonKey(pfx, args[0]), args[1]}
		}
	case "store.iter", "store.riter":
		st := w.ts.Of(store, fr)
		if name == "KVStorePrefixIterator" || name == "KVStoreReversePrefixIterator" {
			ev.Args = []*Term{st, w.canonKey(pfx, ev.Args[1])}
		} else {
			// Iterator(start, end) over the whole prefix store: the prefix itself
			var rel *Term
			if len(args) >= 1 && args[0].Op != "nil" {
				rel = args[0]
			}
			ev.Args = []*Term{st, w.canonKey(pfx, rel)}
		}
	}
}

// firstErrorCombinator: func(checks ...func() error) error that calls the checks in order
// and returns the first non-nil error (nil when all of them returned nil).
func firstErrorCombinator(g *ssa.Function) bool {
	if g == nil || g.Blocks == nil || !isIrismodFunc(g) || len(g.Params) != 1 || !g.Signature.Variadic() || g.Signature.Results().Len() != 1 || !isErrorType(g.Signature.Results().At(0).Type()) {
		return false
	}
	sl, ok := g.Params[0].Type().Underlying().(*types.Slice)
	if !ok {
		return false
	}
	sig, ok := sl.Elem().Underlying().(*types.Signature)
	if !ok || sig.Params().Len() != 0 || sig.Results().Len() != 1 || !isErrorType(sig.Results().At(0).Type()) {
		return false
	}
	dyn := 0
	for _, b := range g.Blocks {
		for _, ins := range b.Instrs {
			c, ok := ins.(*ssa.Call)
			if !ok {
				continue
			}
			if _, isB := c.Common().Value.(*ssa.Builtin); isB {
				continue
			}
			if c.Common().StaticCallee() != nil || c.Common().IsInvoke() {
				return false
			}
			dyn++
		}
	}
	if dyn != 1 {
		return false
	}
	// every return is the error of a check (tested non-nil) or nil
	for _, r := range returnsOf(g) {
		if len(r.Results) != 1 {
			return false
		}
		if !isNilConst(r.Results[0]) && !isFailureReturn(r) {
			return false
		}
	}
	return true
}

// closureArgs: the closures handed to a call - as arguments, or as the elements of a
// variadic list of functions (firstError(func() error {…}, func() error {…})).
func closureArgs(ci ssa.CallInstruction) []*ssa.MakeClosure {
	var out []*ssa.MakeClosure
	for _, a := range ci.Common().Args {
		if mc := staticClosureOf(a, 0); mc != nil {
			out = append(out, mc)
			continue
		}
		if sl, ok := a.Type().Underlying().(*types.Slice); ok {
			if _, isFn := sl.Elem().Underlying().(*types.Signature); isFn {
				for _, el := range variadicElems(a) {
					if el == nil {
						continue
					}
					if mc := staticClosureOf(el, 0); mc != nil {
						out = append(out, mc)
					}
				}
			}
		}
	}
	return out
}

// hostFrame: the frame an effect belongs to from the point of view of the module's logic.
// A coin movement made through a thin bookkeeping component - an unexported function, or a
// method of an unexported non-keeper type, that touches no store and only wraps bank / nft
// calls (ledger.transfer, escrow.lock, tokenBook.mint) - belongs to the function that
// called the component, not to the component. Rules that group or pair effects "of the
// same function" use the host frame; facts are still taken at the event itself.
func hostFrame(fr *Frame) *Frame {
	for fr != nil {
		switch {
		case fr.Parent != nil && fr.Call != nil && theCtx != nil && theCtx.transparentHelper(fr.Fn):
			fr = fr.Parent
			continue
		case fr.Call == nil && fr.Via != nil && firstErrorStep(fr) != nil:
			// a step of a first-error list (firstErr(func() error { return send(a) }, …)): the
			// steps are the statements of the function that lists them
			fr = fr.Via
			continue
		}
		break
	}
	return fr
}

func (cx *Ctx) transparentHelper(f *ssa.Function) bool {
	if cx.transp == nil {
		cx.transp = map[*ssa.Function]bool{}
	}
	if v, ok := cx.transp[f]; ok {
		return v
	}
	cx.transp[f] = false
	ok := func() bool {
		if f == nil || f.Blocks == nil || !isIrismodFunc(f) || f.Parent() != nil {
			return false
		}
		if exportedName(f.Name()) {
			return false
		}
		if rv := f.Signature.Recv(); rv != nil {
			if isKeeperStruct(rv.Type()) {
				return false
			}
			if n := namedOf(rv.Type()); n == nil || n.Obj().Exported() {
				return false
			}
		}
		for _, b := range f.Blocks {
			if loopHeaderOf(b) != nil {
				return false
			}
		}
		eff := 0
		for _, p := range cx.primsOf(f) {
			switch {
			case strings.HasPrefix(p.Kind, "bank.") || strings.HasPrefix(p.Kind, "nft."):
				eff++
			case p.Kind == "event" || strings.HasPrefix(p.Kind, "ext."):
			default:
				return false
			}
		}
		// everything below it is of the same kind (a component method calling another)
		for _, e := range cx.Edges(f) {
			if e.Callee == f || e.Callee.Blocks == nil || !isIrismodFunc(e.Callee) {
				continue
			}
			if len(cx.transPrimKinds(e.Callee)) > 0 && !cx.transparentHelper(e.Callee) {
				return false
			}
			if cx.transparentHelper(e.Callee) {
				eff++
			}
		}
		return eff > 0
	}()
	cx.transp[f] = ok
	return ok
}

type quantifier struct {
	cond      ssa.Value // the test made on each element
	condOnHit bool      // its value on the branch that returns from inside the loop
	hit       bool      // the constant returned there (the other one is returned after the loop)
	idx       ssa.Value // the loop index the element is taken at
}

var quantMemo = map[*ssa.Function]*quantifier{}

// quantifierOf: func(xs ...T) bool { for _, x := range xs { if P(x) { return c } }; return !c }
func quantifierOf(g *ssa.Function) *quantifier {
	if q, ok := quantMemo[g]; ok {
		return q
	}
	quantMemo[g] = nil
	if g.Blocks == nil || !isIrismodFunc(g) || len(g.Params) != 1 || g.Signature.Results().Len() != 1 || !singleLoop(g) {
		return nil
	}
	if _, ok := g.Params[0].Type().Underlying().(*types.Slice); !ok {
		return nil
	}
	if b, ok := g.Signature.Results().At(0).Type().Underlying().(*types.Basic); !ok || b.Kind() != types.Bool {
		return nil
	}
	constRet := func(b *ssa.BasicBlock) (bool, bool) {
		if len(b.Instrs) != 1 {
			return false, false
		}
		r, ok := b.Instrs[0].(*ssa.Return)
		if !ok || len(r.Results) != 1 {
			return false, false
		}
		c, ok := r.Results[0].(*ssa.Const)
		if !ok || c.Value == nil || c.Value.Kind() != constant.Bool {
			return false, false
		}
		return constant.BoolVal(c.Value), true
	}
	var q *quantifier
	nret := 0
	for _, b := range g.Blocks {
		if _, ok := constRet(b); ok {
			nret++
		}
		if !inLoop(b) || len(b.Succs) != 2 {
			continue
		}
		ifi, ok := b.Instrs[len(b.Instrs)-1].(*ssa.If)
		if !ok {
			continue
		}
		for i, sc := range b.Succs {
			v, ok := constRet(sc)
			if !ok || inLoop(sc) {
				continue
			}
			if b == loopHeaderOf(b) {
				continue // the loop's own exit test
			}
			if q != nil {
				return nil
			}
			q = &quantifier{cond: ifi.Cond, condOnHit: i == 0, hit: v}
		}
	}
	if q == nil || nret != 2 {
		return nil
	}
	// the element index: the one IndexAddr on the parameter inside the loop
	for _, b := range g.Blocks {
		for _, ins := range b.Instrs {
			if ia, ok := ins.(*ssa.IndexAddr); ok && ia.X == ssa.Value(g.Params[0]) {
				if q.idx != nil && q.idx != ia.Index {
					return nil
				}
				q.idx = ia.Index
			}
		}
	}
	if q.idx == nil {
		return nil
	}
	// the value returned after the loop is the other constant
	for _, r := range returnsOf(g) {
		if inLoop(r.Block()) {
			continue
		}
		if c, ok := r.Results[0].(*ssa.Const); ok && c.Value != nil && c.Value.Kind() == constant.Bool {
			if len(r.Block().Preds) == 1 && r.Block().Preds[0] == loopHeaderOf(r.Block().Preds[0]) && constant.BoolVal(c.Value) == q.hit {
				return nil
			}
		}
	}
	quantMemo[g] = q
	return q
}

// throughField: the called function value is read from a struct field.
func throughField(v ssa.Value) bool {
	switch x := v.(type) {
	case *ssa.UnOp:
		_, ok := x.X.(*ssa.FieldAddr)
		return ok
	case *ssa.Field:
		return true
	}
	return false
}

// valueEqualsFacts: facts that hold when v equals the constant c, for v the result of an
// irismod helper that returns constants (the facts common to its returns yielding c) or a
// φ of such values (edges that contradict v == c are left out).
func (w *Walker) valueEqualsFacts(fr *Frame, v ssa.Value, c *ssa.Const, depth int) []FactT {
	if depth > 7 {
		return nil
	}
	sameConst := func(a *ssa.Const) bool {
		return a.Value != nil && c.Value != nil && a.Value.Kind() == c.Value.Kind() && constant.Compare(a.Value, token.EQL, c.Value)
	}
	intersect := func(common map[string]FactT, m map[string]FactT) map[string]FactT {
		if common == nil {
			return m
		}
		for k := range common {
			if _, ok := m[k]; !ok {
				delete(common, k)
			}
		}
		return common
	}
	flat := func(common map[string]FactT) []FactT {
		var out []FactT
		for _, k := range sortedKeys(common) {
			out = append(out, common[k])
		}
		return out
	}
	var call *ssa.Call
	idx := 0
	switch x := v.(type) {
	case *ssa.Call:
		call = x
	case *ssa.Extract:
		call, _ = x.Tuple.(*ssa.Call)
		idx = x.Index
	case *ssa.Phi:
		var common map[string]FactT
		feasible := 0
		for i, e := range x.Edges {
			if i >= len(x.Block().Preds) {
				return nil
			}
			pred := x.Block().Preds[i]
			if ec, ok := e.(*ssa.Const); ok && !sameConst(ec) {
				continue
			}
			m := map[string]FactT{}
			for _, ft := range w.blockFacts(fr, pred, 4) {
				m[ft.String()] = ft
			}
			contradicts := false
			if ifi, ok := pred.Instrs[len(pred.Instrs)-1].(*ssa.If); ok && len(pred.Succs) == 2 && pred.Succs[0] != pred.Succs[1] {
				holds := pred.Succs[0] == x.Block()
				for _, f := range expandCond(ifi.Cond, holds, ifi) {
					ft := FactT{Text: w.ts.Of(f.Cond, fr).LooseString(), Holds: f.Holds}
					m[ft.String()] = ft
					// the edge is taken only when e != c
					if bo, ok := f.Cond.(*ssa.BinOp); ok && (bo.Op == token.EQL || bo.Op == token.NEQ) {
						if oc, isC := bo.Y.(*ssa.Const); isC && bo.X == e && sameConst(oc) && (bo.Op == token.EQL) != f.Holds {
							contradicts = true
						}
					}
				}
			}
			if contradicts {
				continue
			}
			if _, isConst := e.(*ssa.Const); !isConst {
				for _, ft := range w.valueEqualsFacts(fr, e, c, depth+1) {
					m[ft.String()] = ft
				}
			}
			feasible++
			common = intersect(common, m)
		}
		if feasible == 0 {
			return nil
		}
		return withEquivalents(flat(common))
	}
	if call == nil || call.Common().IsInvoke() {
		return nil
	}
	g := call.Common().StaticCallee()
	if g == nil || g.Blocks == nil || !isIrismodFunc(g) || onChain(fr, g) {
		return nil
	}
	nfr := &Frame{Fn: g, Parent: fr, Call: call, Depth: fr.Depth + 1}
	var common map[string]FactT
	n := 0
	for _, r := range returnsOf(g) {
		if idx >= len(r.Results) {
			return nil
		}
		rc, isC := r.Results[idx].(*ssa.Const)
		if !isC {
			return nil // a computed result: nothing is known
		}
		if !sameConst(rc) {
			continue
		}
		m := map[string]FactT{}
		for _, ft := range w.blockFacts(nfr, r.Block(), depth+1) {
			m[ft.String()] = ft
		}
		common = intersect(common, m)
		n++
	}
	if n == 0 {
		return nil
	}
	return flat(common)
}

// revertsOnFailure: the chain starts at an entry whose failure reverts everything it did
// (a message handler, an ante handler, an EVM hook) - not a block handler, a service
// callback or genesis.
func (w *Walker) revertsOnFailure(fr *Frame) bool {
	root := fr
	for root.Parent != nil {
		root = root.Parent
	}
	if w.cx.entryRoles == nil {
		w.cx.entryRoles = map[*ssa.Function]map[string]bool{}
		for _, e := range w.cx.Entries {
			if w.cx.entryRoles[e.Fn] == nil {
				w.cx.entryRoles[e.Fn] = map[string]bool{}
			}
			w.cx.entryRoles[e.Fn][e.Role] = true
		}
	}
	roles := w.cx.entryRoles[root.Fn]
	if len(roles) == 0 {
		return false
	}
	for r := range roles {
		if r != "msg" && r != "ante" && r != "hook" && r != "query" {
			return false
		}
	}
	return true
}
