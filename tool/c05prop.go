package main

import (
	"fmt"
	"os"
	"strings"

	"golang.org/x/tools/go/ssa"
)

// farmOtherCreators: pools are not only created by MsgCreatePool. Every other root of
// the farm module from which the reward rules of a new pool are written (today: the
// governance handler of CommunityPoolCreateFarmProposal) must fund the farm escrow
// with exactly the budget the rules are initialised with - otherwise the escrow is
// short of "staked + undistributed budgets" from the first block of that pool.
func (cx *Ctx) farmOtherCreators(r *Report) {
	const rulePfx = "farm:FarmPoolRuleKey=0x02"
	var writers []*ssa.Function
	for _, f := range cx.P.AllFuncs {
		if !isConsensusCode(cx, f) || moduleOf(funcPkgPath(f)) != "farm" || pkgRole(funcPkgPath(f)) == RoleUpgrade {
			continue
		}
		for _, p := range cx.primsOf(f) {
			if p.Kind == "store.set" && len(p.Prefix) > 0 && p.Prefix[0] == rulePfx {
				writers = append(writers, f)
				break
			}
		}
	}
	var roots []*ssa.Function
	for _, e := range cx.Entries {
		roots = append(roots, e.Fn)
	}
	covered := cx.Reachable(roots, nil)
	anc := map[*ssa.Function]bool{}
	q := append([]*ssa.Function{}, writers...)
	for len(q) > 0 {
		f := q[0]
		q = q[1:]
		if anc[f] {
			continue
		}
		anc[f] = true
		for _, cs := range cx.CallersOf(f) {
			q = append(q, cs.Caller)
		}
	}
	var entries []Entry
	for _, f := range cx.P.AllFuncs {
		if !anc[f] || covered.Has(f) || len(cx.CallersOf(f)) > 0 || moduleOf(funcPkgPath(f)) != "farm" || pkgRole(funcPkgPath(f)) == RoleUpgrade {
			continue
		}
		entries = append(entries, Entry{Role: "proposal", Name: shortFn(f), Module: "farm", Fn: f})
	}
	per := map[string][]hev{}
	over := cx.forEachEvent(entries, nil, func(e *Entry, w *Walker, ev *Event) {
		per[e.Name] = append(per[e.Name], hev{ev, w, e})
	})
	for _, o := range over {
		r.toolErr("frame budget exceeded for %s", o)
	}
	dbg := os.Getenv("DEBUG_C05P") != ""
	for _, e := range entries {
		evs := per[e.Name]
		// only roots that *create* a pool: the rule is written as a fresh record whose
		// remaining budget is its total (re-persisting a loaded rule is no creation)
		rule := pick(evs, "store.set", func(x hev) bool {
			if !hasPrefix(x.ev, rulePfx) {
				return false
			}
			st := findSub(x.ev.Args[1], func(t *Term) bool { return t.Op == "struct" && t.Name == "RewardRule" })
			if st == nil {
				return false
			}
			f := map[string]string{}
			for i := 0; i+1 < len(st.Args); i += 2 {
				f[st.Args[i].Name] = st.Args[i+1].LooseString()
			}
			return f["TotalReward"] != "" && f["TotalReward"] == f["RemainingReward"]
		})
		if len(rule) == 0 {
			continue
		}
		var pay []hev
		for _, x := range evs {
			if dbg {
				fmt.Fprintln(os.Stderr, "C05P", e.Name, x.ev.Kind, x.ev.Args)
			}
			switch x.ev.Kind {
			case "bank.SendCoinsFromModuleToModule", "bank.SendCoinsFromAccountToModule":
				if len(x.ev.Args) >= 3 && strings.Contains(x.ev.Args[len(x.ev.Args)-2].LooseString(), "farm") {
					pay = append(pay, x)
				}
			}
		}
		ok := len(pay) == 1 && len(rule) == 1
		pos := ""
		if len(rule) > 0 {
			pos = rule[0].ev.Pos(cx)
		}
		if ok {
			pos = pay[0].ev.Pos(cx)
			total := lastArgS(pay[0].ev)
			st := findSub(rule[0].ev.Args[1], func(t *Term) bool { return t.Op == "struct" && t.Name == "RewardRule" })
			f := map[string]string{}
			if st != nil {
				for i := 0; i+1 < len(st.Args); i += 2 {
					f[st.Args[i].Name] = st.Args[i+1].LooseString()
				}
			}
			ok = pay[0].must() && strings.HasPrefix(f["TotalReward"], total+"[") && strings.HasSuffix(f["TotalReward"], "].Amount") && f["RemainingReward"] == f["TotalReward"]
		}
		r.check(ok, "budget-create", e.Name, pos, "a pool created outside the message handler is funded into the farm escrow with the very total its rules start with (TotalReward = RemainingReward = coins of that total)", "a pool created by "+e.Name+" is not funded into the farm escrow with exactly the budget its rules are initialised with")
	}
}
