package main

// Which implementation is behind an interface value, and under which facts.
//
//	var routes = map[types.SwapDirection]route{types.Incoming: incomingRoute{}, types.Outgoing: outgoingRoute{}}
//	func routeFor(d types.SwapDirection) (route, bool) { r, ok := routes[d]; return r, ok }
//	r, ok := routeFor(htlc.Direction); …; r.claim(ctx, k, s)
//
// A switch over a kind replaced by an unexported interface with one implementation per
// kind: the body of (incomingRoute).claim runs only where the value's dynamic type is
// incomingRoute, which the constructor - a lookup in a package-level table, or a function
// that returns the implementations under tests - ties to facts (Direction == Incoming; the
// sender is the deputy). The alternatives of the interface value are enumerated like those
// of a computed constant (constalts.go), with the dynamic type in the place of the value.

import (
	"go/constant"
	"go/token"
	"go/types"

	"golang.org/x/tools/go/ssa"
)

type typeAlt struct {
	facts map[string]FactT
	typ   types.Type // nil: the nil interface
}

// typeAlts: the alternatives of the interface value v on this chain; ok=false when the
// construction is not understood.
func (w *Walker) typeAlts(fr *Frame, v ssa.Value, depth int) ([]typeAlt, bool) {
	if depth > 10 || v == nil {
		return nil, false
	}
	switch x := v.(type) {
	case *ssa.MakeInterface:
		return []typeAlt{{map[string]FactT{}, x.X.Type()}}, true
	case *ssa.Const:
		if x.IsNil() {
			return []typeAlt{{map[string]FactT{}, nil}}, true
		}
	case *ssa.ChangeInterface:
		return w.typeAlts(fr, x.X, depth+1)
	case *ssa.ChangeType:
		return w.typeAlts(fr, x.X, depth+1)
	case *ssa.Parameter:
		if fr == nil || fr.Call == nil {
			return nil, false
		}
		cc := fr.Call.Common()
		for i, p := range x.Parent().Params {
			if p != x {
				continue
			}
			j := i
			if cc.IsInvoke() {
				j--
			}
			if j >= 0 && j < len(cc.Args) {
				return w.typeAlts(argsFrame(fr), cc.Args[j], depth+1)
			}
		}
	case *ssa.Phi:
		var out []typeAlt
		for i, e := range x.Edges {
			if i >= len(x.Block().Preds) {
				return nil, false
			}
			as, ok := w.typeAlts(fr, e, depth+1)
			if !ok {
				return nil, false
			}
			ef := factMap(w.blockFacts(fr, x.Block().Preds[i], 4))
			for _, a := range as {
				if fs, feasible := mergeFacts(ef, a.facts); feasible {
					out = append(out, typeAlt{fs, a.typ})
				}
			}
		}
		return out, len(out) > 0
	case *ssa.UnOp:
		if x.Op == token.MUL {
			// a captured variable: the local of the frame that created the literal
			if fv, ok := x.X.(*ssa.FreeVar); ok && fr != nil && fr.MC != nil {
				for i, v := range fv.Parent().FreeVars {
					if v != fv || i >= len(fr.MC.Bindings) {
						continue
					}
					if a, ok := fr.MC.Bindings[i].(*ssa.Alloc); ok && a.Referrers() != nil {
						var st *ssa.Store
						n := 0
						for _, r := range *a.Referrers() {
							if s2, ok := r.(*ssa.Store); ok && s2.Addr == ssa.Value(a) {
								st = s2
								n++
							}
						}
						if n == 1 {
							return w.typeAlts(fr.Parent, st.Val, depth+1)
						}
					}
				}
			}
			if a, ok := x.X.(*ssa.Alloc); ok && a.Referrers() != nil {
				var st *ssa.Store
				n := 0
				for _, r := range *a.Referrers() {
					if s2, ok := r.(*ssa.Store); ok && s2.Addr == ssa.Value(a) {
						st = s2
						n++
					}
				}
				if n == 1 {
					return w.typeAlts(fr, st.Val, depth+1)
				}
			}
		}
	case *ssa.Lookup:
		return w.tableTypeAlts(fr, x)
	case *ssa.Extract:
		switch t := x.Tuple.(type) {
		case *ssa.Lookup:
			if x.Index == 0 {
				return w.tableTypeAlts(fr, t)
			}
		case *ssa.Call:
			return w.callTypeAlts(fr, t, x.Index, depth)
		}
	case *ssa.Call:
		return w.callTypeAlts(fr, x, 0, depth)
	}
	return nil, false
}

func (w *Walker) callTypeAlts(fr *Frame, c *ssa.Call, idx int, depth int) ([]typeAlt, bool) {
	if c.Common().IsInvoke() {
		return nil, false
	}
	g := c.Common().StaticCallee()
	if g == nil || g.Blocks == nil || !isIrismodFunc(g) || onChain(fr, g) || len(g.Blocks) > 40 {
		return nil, false
	}
	nfr := &Frame{Fn: g, Parent: fr, Call: c, Depth: frameDepth(fr) + 1}
	var out []typeAlt
	for _, r := range returnsOf(g) {
		if idx >= len(r.Results) {
			return nil, false
		}
		as, ok := w.typeAlts(nfr, r.Results[idx], depth+1)
		if !ok {
			return nil, false
		}
		for _, base := range w.pathBases(nfr, r) {
			for _, a := range as {
				if fs, feasible := mergeFacts(base, a.facts); feasible {
					out = append(out, typeAlt{fs, a.typ})
				}
			}
		}
	}
	return out, len(out) > 0 && len(out) <= maxConstAlts
}

// tableTypeAlts: a lookup in a package-level map from constants to implementations that is
// filled once by its declaration: one alternative per entry, under key == that constant
// (and key != every other constant of the table); the missing key gives the nil interface.
func (w *Walker) tableTypeAlts(fr *Frame, lk *ssa.Lookup) ([]typeAlt, bool) {
	ld, ok := lk.X.(*ssa.UnOp)
	if !ok || ld.Op != token.MUL {
		return nil, false
	}
	g, ok := ld.X.(*ssa.Global)
	if !ok || g.Pkg == nil {
		return nil, false
	}
	entries, ok := implTableOf(g)
	if !ok {
		return nil, false
	}
	key := w.ts.Of(lk.Index, fr).LooseString()
	var out []typeAlt
	for _, e := range entries {
		var fs []FactT
		for _, o := range entries {
			fs = append(fs, FactT{Text: "(" + key + " == " + o.key + ")", Holds: o.key == e.key})
		}
		// the key computed by a helper that returns constants: what holds where it yields this one
		kv, kfr := lk.Index, fr
		for d := 0; d < 6; d++ {
			p, isParam := kv.(*ssa.Parameter)
			if !isParam || kfr == nil || kfr.Call == nil || kfr.Call.Common().IsInvoke() {
				break
			}
			moved := false
			for i, q := range p.Parent().Params {
				if q == p && i < len(kfr.Call.Common().Args) {
					kv, kfr = kfr.Call.Common().Args[i], argsFrame(kfr)
					moved = true
					break
				}
			}
			if !moved {
				break
			}
		}
		switch kv.(type) {
		case *ssa.Call, *ssa.Extract, *ssa.Phi:
			if kfr != nil {
				fs = append(fs, w.valueEqualsFacts(kfr, kv, e.c, 1)...)
			}
		}
		out = append(out, typeAlt{factMap(withEquivalents(fs)), e.typ})
	}
	// not in the table
	var fs []FactT
	for _, o := range entries {
		fs = append(fs, FactT{Text: "(" + key + " == " + o.key + ")", Holds: false})
	}
	out = append(out, typeAlt{factMap(withEquivalents(fs)), nil})
	return out, true
}

type implEntry struct {
	key string
	typ types.Type
	c   *ssa.Const
}

var implTableMemo = map[*ssa.Global][]implEntry{}

// implTableOf: the (constant key → dynamic type) entries of a package-level map that only
// its declaration writes.
func implTableOf(g *ssa.Global) ([]implEntry, bool) {
	if es, ok := implTableMemo[g]; ok {
		return es, es != nil
	}
	implTableMemo[g] = nil
	initFn := g.Pkg.Func("init")
	if initFn == nil || initFn.Blocks == nil {
		return nil, false
	}
	var m ssa.Value
	n := 0
	for _, f := range progFuncsForGlobals {
		for _, b := range f.Blocks {
			for _, ins := range b.Instrs {
				switch y := ins.(type) {
				case *ssa.Store:
					if y.Addr == ssa.Value(g) {
						if f != initFn {
							return nil, false
						}
						m = y.Val
						n++
					}
				case *ssa.MapUpdate:
					if l, ok := y.Map.(*ssa.UnOp); ok && l.X == ssa.Value(g) {
						return nil, false
					}
				}
			}
		}
	}
	// (the initialiser itself, when it is not among the collected functions)
	if n == 0 {
		for _, b := range initFn.Blocks {
			for _, ins := range b.Instrs {
				if y, ok := ins.(*ssa.Store); ok && y.Addr == ssa.Value(g) {
					m = y.Val
					n++
				}
			}
		}
	}
	if n != 1 || m == nil {
		return nil, false
	}
	var out []implEntry
	for _, b := range initFn.Blocks {
		for _, ins := range b.Instrs {
			mu, ok := ins.(*ssa.MapUpdate)
			if !ok || mu.Map != m {
				continue
			}
			k, ok := mu.Key.(*ssa.Const)
			if !ok || k.Value == nil || (k.Value.Kind() != constant.Int && k.Value.Kind() != constant.String) {
				return nil, false
			}
			mi, ok := mu.Value.(*ssa.MakeInterface)
			if !ok {
				return nil, false
			}
			ks := k.Value.ExactString()
			out = append(out, implEntry{ks, mi.X.Type(), k})
		}
	}
	if len(out) == 0 {
		return nil, false
	}
	implTableMemo[g] = out
	return out, true
}

// recvTypeFacts: what holds inside a method that was entered through an interface call,
// given that the value's dynamic type is the method's receiver type; feasible=false when no
// alternative of the value has that type (the implementation is not reached on this chain).
func (w *Walker) recvTypeFacts(fr *Frame) (facts []FactT, feasible bool) {
	if fr == nil || fr.Call == nil || fr.Parent == nil || !fr.Call.Common().IsInvoke() || fr.Fn.Signature.Recv() == nil {
		return nil, true
	}
	if w.recvMemo == nil {
		w.recvMemo = map[*Frame]recvRes{}
	}
	if r, ok := w.recvMemo[fr]; ok {
		return r.facts, r.feasible
	}
	w.recvMemo[fr] = recvRes{nil, true}
	rt := fr.Fn.Signature.Recv().Type()
	as, ok := w.typeAlts(fr.Parent, fr.Call.Common().Value, 0)
	if !ok {
		return nil, true
	}
	var common map[string]FactT
	n := 0
	for _, a := range as {
		if a.typ == nil || !types.Identical(a.typ, rt) {
			// a pointer receiver method reached through a value stored as pointer, or the reverse
			if a.typ == nil {
				continue
			}
			if p, isP := rt.(*types.Pointer); !(isP && types.Identical(p.Elem(), a.typ)) {
				continue
			}
		}
		n++
		if common == nil {
			common = map[string]FactT{}
			for k, f := range a.facts {
				common[k] = f
			}
			continue
		}
		for k := range common {
			if _, ok := a.facts[k]; !ok {
				delete(common, k)
			}
		}
	}
	if n == 0 {
		w.recvMemo[fr] = recvRes{nil, false}
		return nil, false
	}
	for _, k := range sortedKeys(common) {
		facts = append(facts, common[k])
	}
	w.recvMemo[fr] = recvRes{facts, true}
	return facts, true
}

type recvRes struct {
	facts    []FactT
	feasible bool
}
