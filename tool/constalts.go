package main

// Guarded constant alternatives: what a small computed value can be, and under which facts.
//
//	type standing uint8                       // bit set: isCreator | isHolder
//	func standingIn(d, who) standing { if who.String() == d.Creator { return isCreator }; return 0 }
//	func (k Keeper) standingOn(...) standing { s := standingIn(..); if who.Equals(owner) { s |= isHolder }; return s }
//	func (s standing) mayEdit() bool { return s&isHolder != 0 }
//	if !k.standingOn(ctx, denom, id, who).mayEdit() { return errNotOwner }
//
// The condition is a function of finitely many path choices inside loop-free helpers. The
// evaluator enumerates them: every alternative is a constant together with the facts of the
// path that produces it (edge conditions of φ-nodes, the dominating facts of the return that
// yields it, in the vocabulary of the calling chain). A boolean that is not computed from
// constants is a leaf with the two alternatives {itself: true} and {itself: false}.
// What holds when the condition is true is what is common to all alternatives evaluating to
// true whose facts are not contradictory.

import (
	"fmt"
	"go/constant"
	"go/token"
	"go/types"
	"os"
	"strings"

	"golang.org/x/tools/go/ssa"
)

type constAlt struct {
	facts map[string]FactT
	val   constant.Value
}

const maxConstAlts = 48

func mergeFacts(a, b map[string]FactT) (map[string]FactT, bool) {
	out := make(map[string]FactT, len(a)+len(b))
	for k, v := range a {
		out[k] = v
	}
	for k, v := range b {
		out[k] = v
	}
	// the same condition with both polarities: this combination cannot happen
	for _, v := range out {
		neg := FactT{Text: v.Text, Holds: !v.Holds}
		if _, clash := out[neg.String()]; clash {
			return nil, false
		}
	}
	return out, true
}

func factMap(fs []FactT) map[string]FactT {
	m := map[string]FactT{}
	for _, f := range fs {
		m[f.String()] = f
	}
	return m
}

func isSmallConstType(t types.Type) bool {
	b, ok := t.Underlying().(*types.Basic)
	return ok && b.Info()&(types.IsInteger|types.IsBoolean) != 0
}

// involvesEnumHelper: the expression computes over a named irismod integer type or calls an
// irismod helper with such a result - the gate that keeps the evaluator off ordinary code.
func involvesEnumHelper(v ssa.Value, d int) bool {
	if d > 4 || v == nil {
		return false
	}
	if n, ok := v.Type().(*types.Named); ok && n.Obj().Pkg() != nil && isIrismodPath(n.Obj().Pkg().Path()) {
		if b, ok := n.Underlying().(*types.Basic); ok && b.Info()&types.IsInteger != 0 {
			return true
		}
	}
	// a flag / verdict kept in a field of an unexported irismod record (a plan worked out by a helper)
	planField := func(st types.Type) bool {
		if p, ok := st.Underlying().(*types.Pointer); ok {
			st = p.Elem()
		}
		n, ok := st.(*types.Named)
		return ok && n.Obj().Pkg() != nil && isIrismodPath(n.Obj().Pkg().Path()) && !n.Obj().Exported() && isSmallConstType(v.Type())
	}
	switch x := v.(type) {
	case *ssa.Field:
		return planField(x.X.Type())
	case *ssa.BinOp:
		return involvesEnumHelper(x.X, d+1) || involvesEnumHelper(x.Y, d+1)
	case *ssa.UnOp:
		if x.Op == token.MUL {
			if fa, ok := x.X.(*ssa.FieldAddr); ok {
				return planField(fa.X.Type())
			}
		}
		if x.Op == token.NOT || x.Op == token.XOR || x.Op == token.SUB {
			return involvesEnumHelper(x.X, d+1)
		}
	case *ssa.Convert:
		return involvesEnumHelper(x.X, d+1)
	case *ssa.ChangeType:
		return involvesEnumHelper(x.X, d+1)
	case *ssa.Phi:
		for _, e := range x.Edges {
			if involvesEnumHelper(e, d+1) {
				return true
			}
		}
	case *ssa.Call:
		if x.Common().IsInvoke() {
			return false
		}
		if isAddrEmptyCall(x) {
			// the emptiness of an address kept in a field of a plan record
			recOf := func(t types.Type) bool {
				if p, ok := t.Underlying().(*types.Pointer); ok {
					t = p.Elem()
				}
				n, ok := t.(*types.Named)
				return ok && n.Obj().Pkg() != nil && isIrismodPath(n.Obj().Pkg().Path()) && !n.Obj().Exported()
			}
			switch a := x.Common().Args[0].(type) {
			case *ssa.Field:
				return recOf(a.X.Type())
			case *ssa.UnOp:
				if fa, ok := a.X.(*ssa.FieldAddr); ok && a.Op == token.MUL {
					return recOf(fa.X.Type())
				}
			}
			return false
		}
		g := x.Common().StaticCallee()
		if g == nil || g.Blocks == nil || !isIrismodFunc(g) {
			return false
		}
		for _, a := range x.Common().Args {
			if involvesEnumHelper(a, d+1) {
				return true
			}
		}
	}
	return false
}

func isIrismodPath(p string) bool {
	return len(p) >= len("mods.irisnet.org") && p[:len("mods.irisnet.org")] == "mods.irisnet.org"
}

// constAlts: the alternatives of v on this chain; ok=false when v is not a finite
// combination of constants and boolean leaves.
func (w *Walker) constAlts(fr *Frame, v ssa.Value, depth int) ([]constAlt, bool) {
	if depth > 12 || v == nil {
		return nil, false
	}
	leaf := func() ([]constAlt, bool) {
		if b, ok := v.Type().Underlying().(*types.Basic); ok && b.Info()&types.IsBoolean != 0 {
			t := w.ts.Of(v, fr).LooseString()
			return []constAlt{
				{facts: factMap(withEquivalents([]FactT{{Text: t, Holds: true}})), val: constant.MakeBool(true)},
				{facts: factMap(withEquivalents([]FactT{{Text: t, Holds: false}})), val: constant.MakeBool(false)},
			}, true
		}
		if w.symOK {
			// a value that is not a small constant: named by its term
			return []constAlt{{facts: map[string]FactT{}, val: constant.MakeString("sym:" + w.ts.Of(v, fr).LooseString())}}, true
		}
		return nil, false
	}
	switch x := v.(type) {
	case *ssa.Const:
		if x.Value == nil && w.symOK && !isSmallConstType(x.Type()) {
			return []constAlt{{facts: map[string]FactT{}, val: constant.MakeInt64(0)}}, true // nil / zero
		}
		if x.Value == nil {
			if isSmallConstType(x.Type()) {
				if b := x.Type().Underlying().(*types.Basic); b.Info()&types.IsBoolean != 0 {
					return []constAlt{{facts: map[string]FactT{}, val: constant.MakeBool(false)}}, true
				}
				return []constAlt{{facts: map[string]FactT{}, val: constant.MakeInt64(0)}}, true
			}
			return nil, false
		}
		if x.Value.Kind() != constant.Int && x.Value.Kind() != constant.Bool {
			return nil, false
		}
		return []constAlt{{facts: map[string]FactT{}, val: x.Value}}, true
	case *ssa.ChangeType:
		return w.constAlts(fr, x.X, depth+1)
	case *ssa.Convert:
		if (!isSmallConstType(x.Type()) || !isSmallConstType(x.X.Type())) && !w.symOK {
			return nil, false
		}
		return w.constAlts(fr, x.X, depth+1)
	case *ssa.Parameter:
		if fr == nil || fr.Call == nil || fr.Call.Common().IsInvoke() {
			return leaf()
		}
		for i, p := range x.Parent().Params {
			if p == x && i < len(fr.Call.Common().Args) {
				if a, ok := w.constAlts(argsFrame(fr), fr.Call.Common().Args[i], depth+1); ok {
					return a, true
				}
			}
		}
		return leaf()
	case *ssa.Field:
		if as, ok := w.fieldAlts(fr, x.X, x.Field, depth+1); ok {
			return as, true
		}
		return leaf()
	case *ssa.UnOp:
		if x.Op == token.MUL {
			if fa, ok := x.X.(*ssa.FieldAddr); ok {
				if a, isAlloc := fa.X.(*ssa.Alloc); isAlloc {
					if as, ok := w.allocFieldAlts(fr, a, fa.Field, x, depth+1); ok {
						return as, true
					}
				}
			}
			if a, ok := x.X.(*ssa.Alloc); ok {
				if as, ok := w.allocFieldAlts(fr, a, -1, x, depth+1); ok {
					return as, true
				}
			}
			return leaf()
		}
		if x.Op != token.NOT && x.Op != token.XOR && x.Op != token.SUB {
			return leaf()
		}
		as, ok := w.constAlts(fr, x.X, depth+1)
		if !ok {
			return leaf()
		}
		var out []constAlt
		for _, a := range as {
			out = append(out, constAlt{a.facts, constant.UnaryOp(x.Op, a.val, 0)})
		}
		return out, true
	case *ssa.BinOp:
		xs, ok1 := w.constAlts(fr, x.X, depth+1)
		ys, ok2 := w.constAlts(fr, x.Y, depth+1)
		if !ok1 || !ok2 || len(xs)*len(ys) > maxConstAlts {
			return leaf()
		}
		var out []constAlt
		for _, a := range xs {
			for _, b := range ys {
				if a.val.Kind() != b.val.Kind() {
					return leaf()
				}
				fs, feasible := mergeFacts(a.facts, b.facts)
				if !feasible {
					continue
				}
				var r constant.Value
				switch x.Op {
				case token.EQL, token.NEQ, token.LSS, token.LEQ, token.GTR, token.GEQ:
					if a.val.Kind() == constant.Bool && x.Op != token.EQL && x.Op != token.NEQ {
						return leaf()
					}
					r = constant.MakeBool(constant.Compare(a.val, x.Op, b.val))
				case token.AND, token.OR, token.XOR, token.AND_NOT, token.ADD, token.SUB, token.MUL:
					if a.val.Kind() != constant.Int {
						return leaf()
					}
					r = constant.BinaryOp(a.val, x.Op, b.val)
				case token.SHL, token.SHR:
					n, exact := constant.Uint64Val(b.val)
					if !exact || n > 62 || a.val.Kind() != constant.Int {
						return leaf()
					}
					r = constant.Shift(a.val, x.Op, uint(n))
				default:
					return leaf()
				}
				out = append(out, constAlt{fs, r})
			}
		}
		return out, true
	case *ssa.Phi:
		var out []constAlt
		for i, e := range x.Edges {
			if i >= len(x.Block().Preds) {
				return leaf()
			}
			pred := x.Block().Preds[i]
			ef := factMap(w.blockFacts(fr, pred, 4))
			if ifi, ok := pred.Instrs[len(pred.Instrs)-1].(*ssa.If); ok && len(pred.Succs) == 2 && pred.Succs[0] != pred.Succs[1] {
				holds := pred.Succs[0] == x.Block()
				var fs []FactT
				for _, f := range expandCond(ifi.Cond, holds, ifi) {
					fs = append(fs, FactT{Text: w.ts.Of(f.Cond, fr).LooseString(), Holds: f.Holds})
					// the edge condition may itself be a computed one
					for _, ft := range w.boolValueFacts(fr, f.Cond, f.Holds, 5) {
						fs = append(fs, ft)
					}
				}
				for k, f := range factMap(withEquivalents(fs)) {
					ef[k] = f
				}
			}
			as, ok := w.constAlts(fr, e, depth+1)
			if !ok {
				return leaf()
			}
			for _, a := range as {
				fs, feasible := mergeFacts(ef, a.facts)
				if feasible {
					out = append(out, constAlt{fs, a.val})
				}
			}
			if len(out) > maxConstAlts {
				return leaf()
			}
		}
		return out, true
	case *ssa.Call, *ssa.Extract:
		var call *ssa.Call
		idx := 0
		if c, ok := x.(*ssa.Call); ok {
			call = c
		} else {
			ex := x.(*ssa.Extract)
			call, _ = ex.Tuple.(*ssa.Call)
			idx = ex.Index
		}
		if call == nil || call.Common().IsInvoke() {
			return leaf()
		}
		// addr.Empty() of an address kept in a record field: nil where no address was put in;
		// the result of a bech32 decoding is empty exactly when the decoding failed
		if isAddrEmptyCall(call) {
			old := w.symOK
			w.symOK = true
			as, ok := w.constAlts(fr, call.Common().Args[0], depth+1)
			w.symOK = old
			if !ok {
				return leaf()
			}
			var out []constAlt
			for _, al := range as {
				switch {
				case al.val.Kind() == constant.Int:
					out = append(out, constAlt{al.facts, constant.MakeBool(true)})
				case al.val.Kind() == constant.String && strings.HasPrefix(constant.StringVal(al.val), "sym:addr(") && strings.HasSuffix(constant.StringVal(al.val), ")"):
					x := strings.TrimSuffix(strings.TrimPrefix(constant.StringVal(al.val), "sym:addr("), ")")
					for _, empty := range []bool{false, true} {
						fs := withEquivalents([]FactT{{Text: "(addrerr(" + x + ") != nil)", Holds: empty}})
						if m, feasible := mergeFacts(al.facts, factMap(fs)); feasible {
							out = append(out, constAlt{m, constant.MakeBool(empty)})
						}
					}
				case al.val.Kind() == constant.String:
					t := "sdk.AccAddress.Empty(" + strings.TrimPrefix(constant.StringVal(al.val), "sym:") + ")"
					for _, empty := range []bool{false, true} {
						if m, feasible := mergeFacts(al.facts, factMap(withEquivalents([]FactT{{Text: t, Holds: empty}}))); feasible {
							out = append(out, constAlt{m, constant.MakeBool(empty)})
						}
					}
				default:
					return leaf()
				}
			}
			return out, len(out) > 0
		}
		g := call.Common().StaticCallee()
		if g == nil || g.Blocks == nil || !isIrismodFunc(g) || onChain(fr, g) || len(g.Blocks) > 24 {
			return leaf()
		}
		if idx >= g.Signature.Results().Len() || (!isSmallConstType(g.Signature.Results().At(idx).Type()) && !w.symOK) {
			return leaf()
		}
		nfr := &Frame{Fn: g, Parent: fr, Call: call, Depth: frameDepth(fr) + 1}
		var out []constAlt
		for _, r := range returnsOf(g) {
			if idx >= len(r.Results) {
				return leaf()
			}
			rf := factMap(w.blockFacts(nfr, r.Block(), 4))
			as, ok := w.constAlts(nfr, r.Results[idx], depth+1)
			if !ok {
				return leaf()
			}
			for _, a := range as {
				fs, feasible := mergeFacts(rf, a.facts)
				if feasible {
					out = append(out, constAlt{fs, a.val})
				}
			}
			if len(out) > maxConstAlts {
				return leaf()
			}
		}
		if len(out) == 0 {
			return leaf()
		}
		return out, true
	}
	return leaf()
}

// condAltFacts: what holds when the boolean v equals want, by enumeration of alternatives.
func (w *Walker) condAltFacts(fr *Frame, v ssa.Value, want bool) []FactT {
	if !involvesEnumHelper(v, 0) {
		return nil
	}
	type key struct {
		fr   *Frame
		v    ssa.Value
		want bool
	}
	if w.altMemo == nil {
		w.altMemo = map[interface{}][]FactT{}
	}
	k := key{fr, v, want}
	if got, ok := w.altMemo[k]; ok {
		return got
	}
	w.altMemo[k] = nil // re-entrancy: nothing is known while it is being computed
	as, ok := w.constAlts(fr, v, 0)
	if os.Getenv("DEBUG_ALTS") != "" {
		fmt.Fprintf(os.Stderr, "condAltFacts %s in %s want=%v ok=%v alts=%d\n", v, fr.Fn.Name(), want, ok, len(as))
		for _, a := range as {
			fmt.Fprintf(os.Stderr, "    %s  %v\n", a.val, trunc(fmt.Sprint(sortedKeys(a.facts)), 600))
		}
	}
	if !ok {
		return nil
	}
	var common map[string]FactT
	n := 0
	for _, a := range as {
		if a.val.Kind() != constant.Bool || constant.BoolVal(a.val) != want {
			continue
		}
		n++
		if common == nil {
			common = map[string]FactT{}
			for k, f := range a.facts {
				common[k] = f
			}
			continue
		}
		for k := range common {
			if _, ok := a.facts[k]; !ok {
				delete(common, k)
			}
		}
	}
	if n == 0 {
		return nil
	}
	var out []FactT
	for _, k := range sortedKeys(common) {
		out = append(out, common[k])
	}
	w.altMemo[k] = out
	return out
}

func isBoolType(t types.Type) bool {
	b, ok := t.Underlying().(*types.Basic)
	return ok && b.Info()&types.IsBoolean != 0
}

// fieldAlts: the alternatives of field idx of the struct value sv.
func (w *Walker) fieldAlts(fr *Frame, sv ssa.Value, idx int, depth int) ([]constAlt, bool) {
	if depth > 12 || sv == nil {
		return nil, false
	}
	switch x := sv.(type) {
	case *ssa.Parameter:
		if fr == nil || fr.Call == nil || fr.Call.Common().IsInvoke() {
			return nil, false
		}
		for i, p := range x.Parent().Params {
			if p == x && i < len(fr.Call.Common().Args) {
				return w.fieldAlts(argsFrame(fr), fr.Call.Common().Args[i], idx, depth+1)
			}
		}
	case *ssa.UnOp:
		if x.Op == token.MUL {
			if a, ok := x.X.(*ssa.Alloc); ok {
				return w.allocFieldAlts(fr, a, idx, x, depth+1)
			}
		}
	case *ssa.Phi:
		var out []constAlt
		for i, e := range x.Edges {
			if i >= len(x.Block().Preds) {
				return nil, false
			}
			as, ok := w.fieldAlts(fr, e, idx, depth+1)
			if !ok {
				return nil, false
			}
			ef := factMap(w.blockFacts(fr, x.Block().Preds[i], 4))
			for _, a := range as {
				if fs, feasible := mergeFacts(ef, a.facts); feasible {
					out = append(out, constAlt{fs, a.val})
				}
			}
		}
		return out, len(out) > 0 && len(out) <= maxConstAlts
	case *ssa.Call, *ssa.Extract:
		var call *ssa.Call
		ri := 0
		if c, ok := x.(*ssa.Call); ok {
			call = c
		} else {
			ex := x.(*ssa.Extract)
			call, _ = ex.Tuple.(*ssa.Call)
			ri = ex.Index
		}
		if call == nil || call.Common().IsInvoke() {
			return nil, false
		}
		g := call.Common().StaticCallee()
		if g == nil || g.Blocks == nil || !isIrismodFunc(g) || onChain(fr, g) || len(g.Blocks) > 24 {
			return nil, false
		}
		nfr := &Frame{Fn: g, Parent: fr, Call: call, Depth: frameDepth(fr) + 1}
		var out []constAlt
		for _, r := range returnsOf(g) {
			if ri >= len(r.Results) {
				return nil, false
			}
			as, ok := w.fieldAlts(nfr, r.Results[ri], idx, depth+1)
			if !ok {
				return nil, false
			}
			rf := factMap(w.blockFacts(nfr, r.Block(), 4))
			for _, a := range as {
				if fs, feasible := mergeFacts(rf, a.facts); feasible {
					out = append(out, constAlt{fs, a.val})
				}
			}
		}
		return out, len(out) > 0 && len(out) <= maxConstAlts
	}
	return nil, false
}

// allocFieldAlts: what the load `at` of field idx (idx < 0: the whole value) of the local a
// can observe: one alternative per write that reaches the load - a store, or a store made by
// an irismod callee that was handed a's address - under the facts of the write and of not
// passing through a later one; the zero value when no write must have happened.
func (w *Walker) allocFieldAlts(fr *Frame, a *ssa.Alloc, idx int, at ssa.Instruction, depth int) ([]constAlt, bool) {
	if depth > 12 || a.Referrers() == nil {
		return nil, false
	}
	type writer struct {
		pos      ssa.Instruction // in a's function: the store, or the call that stores
		whole    bool
		definite bool // when pos executes (and succeeds) the field is overwritten
		alts     func() ([]constAlt, bool)
	}
	var ws []writer
	storeWriter := func(st *ssa.Store, whole bool) writer {
		return writer{pos: st, whole: whole, definite: true, alts: func() ([]constAlt, bool) {
			var as []constAlt
			var ok bool
			if whole && idx >= 0 {
				as, ok = w.fieldAlts(fr, st.Val, idx, depth+1)
			} else {
				as, ok = w.constAlts(fr, st.Val, depth+1)
			}
			if !ok {
				return nil, false
			}
			var out []constAlt
			for _, base := range w.pathBases(fr, st) {
				for _, al := range as {
					if fs, feasible := mergeFacts(base, al.facts); feasible {
						out = append(out, constAlt{fs, al.val})
					}
				}
			}
			return out, true
		}}
	}
	for _, r := range *a.Referrers() {
		switch y := r.(type) {
		case *ssa.FieldAddr:
			if y.Referrers() == nil {
				continue
			}
			for _, r2 := range *y.Referrers() {
				switch z := r2.(type) {
				case *ssa.Store:
					if z.Addr == ssa.Value(y) && y.Field == idx {
						ws = append(ws, storeWriter(z, false))
					}
				case *ssa.UnOp, *ssa.FieldAddr:
				default:
					if y.Field == idx {
						return nil, false // the field's address escapes
					}
				}
			}
		case *ssa.Store:
			if y.Addr == ssa.Value(a) {
				ws = append(ws, storeWriter(y, true))
			} else {
				return nil, false // the address itself is stored somewhere
			}
		case *ssa.UnOp, *ssa.DebugRef:
		case *ssa.Call:
			// handed by address to an irismod callee: the stores it makes through the pointer
			if idx < 0 || y.Common().IsInvoke() {
				return nil, false
			}
			g := y.Common().StaticCallee()
			if g == nil || g.Blocks == nil || !isIrismodFunc(g) || onChain(fr, g) {
				return nil, false
			}
			call := y
			for i, arg := range y.Common().Args {
				if arg != ssa.Value(a) {
					continue
				}
				if i >= len(g.Params) || g.Params[i].Referrers() == nil {
					return nil, false
				}
				var inner []*ssa.Store
				for _, pr := range *g.Params[i].Referrers() {
					switch q := pr.(type) {
					case *ssa.FieldAddr:
						if q.Referrers() == nil {
							continue
						}
						for _, r2 := range *q.Referrers() {
							switch z := r2.(type) {
							case *ssa.Store:
								if z.Addr == ssa.Value(q) && q.Field == idx {
									inner = append(inner, z)
								}
							case *ssa.UnOp, *ssa.FieldAddr:
							default:
								if q.Field == idx {
									return nil, false
								}
							}
						}
					case *ssa.UnOp, *ssa.DebugRef:
					default:
						return nil, false // the pointer is handed on or overwritten as a whole
					}
				}
				if len(inner) == 0 {
					continue // this callee leaves the field alone
				}
				// the caller goes on only when the callee succeeded?
				succeeded := false
				for _, cf := range callFacts(at.Block()) {
					if cf.Call == call && cf.Outcome == "err==nil" {
						succeeded = true
					}
				}
				if !succeeded {
					// … or the error is tested right after the call on the way to the load
					for _, cf := range callFacts(at.Block()) {
						_ = cf
					}
				}
				// every successful run of the callee assigns the field (on each of its paths)
				innerSet := map[ssa.Instruction]bool{}
				for _, st := range inner {
					innerSet[st] = true
				}
				definite := (succeeded || errorPropagated(call)) && mustPass(g, func(x ssa.Instruction) bool { return innerSet[x] })
				nfr := &Frame{Fn: g, Parent: fr, Call: call, Depth: frameDepth(fr) + 1}
				ws = append(ws, writer{pos: call, definite: definite, alts: func() ([]constAlt, bool) {
					var out []constAlt
					callBases := w.pathBases(fr, call)
					for _, st := range inner {
						as, ok := w.constAlts(nfr, st.Val, depth+1)
						if !ok {
							return nil, false
						}
						// not overwritten by a later store of the callee
						var later [][]FactT
						for _, o := range inner {
							if o != st && instrReaches(st, o) && !instrReaches(o, st) {
								if fs, ok := w.avoidFacts(nfr, o); ok {
									later = append(later, fs)
								}
							}
						}
						for _, cb := range callBases {
							for _, base := range w.pathBases(nfr, st) {
								m, feasible := mergeFacts(cb, base)
								for _, l := range later {
									if feasible {
										m, feasible = mergeFacts(m, factMap(l))
									}
								}
								if !feasible {
									continue
								}
								for _, al := range as {
									if fs, ok := mergeFacts(m, al.facts); ok {
										out = append(out, constAlt{fs, al.val})
									}
								}
							}
						}
					}
					return out, true
				}})
			}
		case ssa.CallInstruction:
			return nil, false
		default:
			return nil, false
		}
	}
	// the writes the load can observe
	var live []writer
	for _, x := range ws {
		if x.pos.Parent() == at.Parent() && instrReaches(x.pos, at) {
			live = append(live, x)
		}
	}
	var ss []writer
	must := false
	for _, x := range live {
		killed := false
		for _, k := range live {
			if k.pos == x.pos || !k.definite || !instrDominates(k.pos, at) {
				continue
			}
			if instrReaches(x.pos, k.pos) && !instrReaches(k.pos, x.pos) {
				killed = true
			}
		}
		if !killed {
			ss = append(ss, x)
			must = must || (x.definite && instrDominates(x.pos, at))
		}
	}
	var out []constAlt
	add := func(self ssa.Instruction, as []constAlt) {
		// not passing through a later write on the way to the load
		extra := map[string]FactT{}
		for _, o := range ss {
			if o.pos == self || !o.definite {
				continue
			}
			if self != nil && !(instrReaches(self, o.pos) && !instrReaches(o.pos, self)) {
				continue
			}
			if fs, ok := w.avoidFacts(fr, o.pos); ok {
				if m, feasible := mergeFacts(extra, factMap(fs)); feasible {
					extra = m
				}
			}
		}
		for _, al := range as {
			if fs, feasible := mergeFacts(extra, al.facts); feasible {
				out = append(out, constAlt{fs, al.val})
			}
		}
	}
	for _, x := range ss {
		as, ok := x.alts()
		if !ok {
			return nil, false
		}
		add(x.pos, as)
		if len(out) > maxConstAlts {
			return nil, false
		}
	}
	if !must {
		// zero-initialised local
		hasWhole := false
		for _, x := range ws {
			hasWhole = hasWhole || x.whole
		}
		var t types.Type
		if pt, ok := a.Type().Underlying().(*types.Pointer); ok {
			t = pt.Elem()
		}
		if idx >= 0 && t != nil {
			st, ok := t.Underlying().(*types.Struct)
			if !ok || idx >= st.NumFields() {
				return nil, false
			}
			t = st.Field(idx).Type()
		}
		if t == nil || (!isSmallConstType(t) && !w.symOK) {
			return nil, false
		}
		// a non-definite writer (a callee that may leave the field alone) lets the previous
		// value through: that is covered by the other survivors; the zero value is seen only
		// when no whole-value store lies before
		zeroSeen := true
		for _, x := range ss {
			if x.whole && instrDominates(x.pos, at) {
				zeroSeen = false
			}
		}
		if zeroSeen {
			z := constant.MakeInt64(0)
			if isBoolType(t) {
				z = constant.MakeBool(false)
			}
			add(nil, []constAlt{{facts: map[string]FactT{}, val: z}})
		}
	}
	// the alternatives are seen on some path to the load each: the paths' own facts
	if bases := w.pathBases(fr, at); len(bases) > 1 && len(bases)*len(out) <= maxConstAlts {
		var next []constAlt
		for _, b := range bases {
			for _, al := range out {
				if fs, feasible := mergeFacts(b, al.facts); feasible {
					next = append(next, constAlt{fs, al.val})
				}
			}
		}
		if len(next) > 0 {
			out = next
		}
	}
	return out, len(out) > 0 && len(out) <= maxConstAlts
}

// avoidFacts: not passing through instruction x: the other arm of the test that leads to it.
func (w *Walker) avoidFacts(fr *Frame, x ssa.Instruction) ([]FactT, bool) {
	b := x.Block()
	if len(b.Preds) != 1 {
		return nil, false
	}
	p := b.Preds[0]
	ifi, ok := p.Instrs[len(p.Instrs)-1].(*ssa.If)
	if !ok || len(p.Succs) != 2 || p.Succs[0] == p.Succs[1] {
		return nil, false
	}
	holds := p.Succs[0] != b
	var fs []FactT
	for _, f := range expandCond(ifi.Cond, holds, ifi) {
		fs = append(fs, FactT{Text: w.ts.Of(f.Cond, fr).LooseString(), Holds: f.Holds})
	}
	return withEquivalents(fs), true
}

// condAltFactsJoint: what holds when all the given conditions have their stated values:
// the alternatives of the conditions are combined (contradictory combinations dropped) and
// what is common to the combinations that give every condition its value is returned.
func (w *Walker) condAltFactsJoint(fr *Frame, conds []Fact) []FactT {
	if len(conds) == 1 {
		return w.condAltFacts(fr, conds[0].Cond, conds[0].Holds)
	}
	if len(conds) > 6 {
		conds = conds[len(conds)-6:]
	}
	type key struct {
		fr *Frame
		k  string
	}
	ks := ""
	for _, c := range conds {
		ks += fmt.Sprintf("%p/%v;", c.Cond, c.Holds)
	}
	if w.altMemo == nil {
		w.altMemo = map[interface{}][]FactT{}
	}
	mk := key{fr, ks}
	if got, ok := w.altMemo[mk]; ok {
		return got
	}
	w.altMemo[mk] = nil
	combos := []map[string]FactT{{}}
	any := false
	for _, c := range conds {
		as, ok := w.constAlts(fr, c.Cond, 0)
		if !ok {
			continue
		}
		var keep []constAlt
		for _, a := range as {
			if a.val.Kind() == constant.Bool && constant.BoolVal(a.val) == c.Holds {
				keep = append(keep, a)
			}
		}
		if len(keep) == 0 {
			continue // the analysis sees no way to this value: say nothing
		}
		if len(combos)*len(keep) > 256 {
			continue
		}
		var next []map[string]FactT
		for _, m := range combos {
			for _, a := range keep {
				if fs, feasible := mergeFacts(m, a.facts); feasible {
					next = append(next, fs)
				}
			}
		}
		if len(next) == 0 {
			continue
		}
		combos = next
		any = true
	}
	if !any {
		return nil
	}
	common := map[string]FactT{}
	for k, f := range combos[0] {
		common[k] = f
	}
	for _, m := range combos[1:] {
		for k := range common {
			if _, ok := m[k]; !ok {
				delete(common, k)
			}
		}
	}
	var out []FactT
	for _, k := range sortedKeys(common) {
		out = append(out, common[k])
	}
	w.altMemo[mk] = out
	return out
}

// pathBases: the facts under which the instruction executes, one set per path from the
// function's entry when the paths differ in what they decide (a store under `a || b` is
// reached with a, or with ¬a ∧ b); the dominating facts otherwise.
func (w *Walker) pathBases(fr *Frame, at ssa.Instruction) []map[string]FactT {
	dom := factMap(w.blockFacts(fr, at.Block(), 4))
	envs, atomVal, complete := pathAssignmentsV(fr.Fn, at, func(v ssa.Value) string { return w.ts.Of(v, fr).LooseString() })
	if !complete || len(envs) < 2 || len(envs) > 8 {
		return []map[string]FactT{dom}
	}
	var out []map[string]FactT
	for _, e := range envs {
		var fs []FactT
		for k, v := range e {
			fs = append(fs, FactT{Text: k, Holds: v})
			// a test made by a boolean helper: what its outcome implies
			if av, ok := atomVal[k]; ok {
				if _, isCall := av.(*ssa.Call); isCall {
					fs = append(fs, w.boolValueFacts(fr, av, v, 2)...)
				}
			}
		}
		m, feasible := mergeFacts(dom, factMap(withEquivalents(fs)))
		if feasible {
			out = append(out, m)
		}
	}
	if len(out) == 0 {
		return []map[string]FactT{dom}
	}
	return out
}

// coExecutedByFacts: the two events run together on every successful path although they are
// guarded by different tests, because the tests agree under the facts of the other event:
//
//	switch h.Direction { case Outgoing: outgoing -= coin … }      // a
//	settle(newSettlement(h, sender))                               // b inside, under s.payout == release
//
// b's guards are computed values (a plan record); with the facts that hold where a executes
// every alternative of each guard has the value the path to b needs, and conversely. With the
// guards so decided, the sites must be mutually must in the common frame and must below it.
func coExecutedByFacts(w *Walker, a, b *Event) bool { return relatedByFacts(w, a, b, "both") }

// impliedByFacts: whenever a executes (on a successful path) b executes as well - b may also
// execute without a (a payout shared by several routes).
func impliedByFacts(w *Walker, a, b *Event) bool { return relatedByFacts(w, a, b, "a-implies-b") }

// excludedByFacts: where a executes b cannot: one of b's guards has, under a's facts, only
// alternatives with the value that leads away from b.
func excludedByFacts(w *Walker, a, b *Event) bool { return relatedByFacts(w, a, b, "a-excludes-b") }

func relatedByFacts(w *Walker, a, b *Event, mode string) bool {
	chain := func(e *Event) []*Frame {
		var c []*Frame
		for f := e.Fr; f != nil; f = f.Parent {
			c = append([]*Frame{f}, c...)
		}
		return c
	}
	ca, cb := chain(a), chain(b)
	i := 0
	for i < len(ca) && i < len(cb) && ca[i] == cb[i] {
		i++
	}
	if i == 0 {
		return false
	}
	sa, sb := siteOf(ca, i, a), siteOf(cb, i, b)
	if sa == nil || sb == nil || sa.Parent() != sb.Parent() {
		return false
	}
	fa, fb := factMap(w.FactsAt(a.Fr, a.Site)), factMap(w.FactsAt(b.Fr, b.Site))
	forced := map[ssa.Value]bool{}
	// the guards of e's sites, from the common frame down, decided by the other event's facts
	decide := func(c []*Frame, e *Event, other map[string]FactT) bool {
		for j := i - 1; j < len(c); j++ {
			var s ssa.Instruction
			if j+1 < len(c) {
				s = siteOf(c, j+1, e)
			} else {
				s = e.Site
			}
			if s == nil || s.Parent() != c[j].Fn {
				return false
			}
			for _, df := range dominatingFacts(s.Block()) {
				// a test whose other arm only fails: success paths all take this arm
				if df.If != nil && len(df.If.Block().Succs) == 2 {
					ib := df.If.Block()
					takes := 0
					for _, f0 := range expandCond(df.If.Cond, true, df.If) {
						if f0.Holds != df.Holds {
							takes = 1
						}
					}
					if onlyFailureExits(ib.Succs[1-takes], ib) {
						continue
					}
				}
				if old, dup := forced[df.Cond]; dup {
					if old != df.Holds {
						return false
					}
					continue
				}
				as, ok := w.constAlts(c[j], df.Cond, 0)
				if !ok {
					t := FactT{Text: w.ts.Of(df.Cond, c[j]).LooseString(), Holds: df.Holds}
					if _, has := other[t.String()]; !has {
						if os.Getenv("DEBUG_COEX") != "" {
							fmt.Fprintf(os.Stderr, "   guard %s in %s: no alternatives and fact %s not among the other's\n", df.Cond, c[j].Fn.Name(), trunc(t.String(), 300))
						}
						return false
					}
					forced[df.Cond] = df.Holds
					continue
				}
				good := 0
				for _, al := range as {
					if _, feasible := mergeFacts(other, al.facts); !feasible {
						continue
					}
					if al.val.Kind() != constant.Bool || constant.BoolVal(al.val) != df.Holds {
						if os.Getenv("DEBUG_COEX") != "" {
							fmt.Fprintf(os.Stderr, "   guard %s in %s needs %v but alt %s feasible: %s\n", df.Cond, c[j].Fn.Name(), df.Holds, al.val, trunc(fmt.Sprint(sortedKeys(al.facts)), 900))
						}
						return false
					}
					good++
				}
				if good == 0 {
					return false
				}
				forced[df.Cond] = df.Holds
			}
		}
		return true
	}
	if mode == "a-excludes-b" {
		// with a's own guards as they are, and the tests that a's facts decide, one of b's
		// sites is not reachable in its function
		own := map[ssa.Value]bool{}
		for j := i - 1; j < len(ca); j++ {
			var st ssa.Instruction
			if j+1 < len(ca) {
				st = siteOf(ca, j+1, a)
			} else {
				st = a.Site
			}
			if st == nil || st.Parent() != ca[j].Fn {
				break
			}
			for _, df := range dominatingFacts(st.Block()) {
				own[df.Cond] = df.Holds
			}
		}
		for j := i - 1; j < len(cb); j++ {
			var st ssa.Instruction
			if j+1 < len(cb) {
				st = siteOf(cb, j+1, b)
			} else {
				st = b.Site
			}
			if st == nil || st.Parent() != cb[j].Fn {
				break
			}
			dec := map[ssa.Value]bool{}
			for k, v := range own {
				dec[k] = v
			}
			for _, blk := range cb[j].Fn.Blocks {
				ifi, ok := blk.Instrs[len(blk.Instrs)-1].(*ssa.If)
				if !ok {
					continue
				}
				for _, f0 := range expandCond(ifi.Cond, true, ifi) {
					if _, dup := dec[f0.Cond]; dup || !involvesEnumHelper(f0.Cond, 0) {
						continue
					}
					as, ok := w.constAlts(cb[j], f0.Cond, 0)
					if !ok {
						continue
					}
					n, t := 0, 0
					for _, al := range as {
						if _, feasible := mergeFacts(fa, al.facts); !feasible || al.val.Kind() != constant.Bool {
							continue
						}
						n++
						if constant.BoolVal(al.val) {
							t++
						}
					}
					if n > 0 && (t == n || t == 0) {
						dec[f0.Cond] = t == n
					}
				}
			}
			// reachability of st's block under the decided tests
			seen := map[*ssa.BasicBlock]bool{}
			q := []*ssa.BasicBlock{cb[j].Fn.Blocks[0]}
			for len(q) > 0 {
				x := q[0]
				q = q[1:]
				if seen[x] {
					continue
				}
				seen[x] = true
				feas := []bool{true, true}
				if ifi, ok := x.Instrs[len(x.Instrs)-1].(*ssa.If); ok && len(x.Succs) == 2 {
					for _, f0 := range expandCond(ifi.Cond, true, ifi) {
						if v, has := dec[f0.Cond]; has {
							tv := v == f0.Holds // the value of the If condition itself
							feas[0], feas[1] = tv, !tv
						}
					}
				}
				for k, sc := range x.Succs {
					if k < 2 && !feas[k] {
						continue
					}
					q = append(q, sc)
				}
			}
			if !seen[st.Block()] {
				return true
			}
		}
		// some guard of b is decided the other way by a's facts
		for j := i - 1; j < len(cb); j++ {
			var st ssa.Instruction
			if j+1 < len(cb) {
				st = siteOf(cb, j+1, b)
			} else {
				st = b.Site
			}
			if st == nil || st.Parent() != cb[j].Fn {
				return false
			}
			for _, df := range dominatingFacts(st.Block()) {
				as, ok := w.constAlts(cb[j], df.Cond, 0)
				if !ok {
					t := FactT{Text: w.ts.Of(df.Cond, cb[j]).LooseString(), Holds: !df.Holds}
					if _, has := fa[t.String()]; has {
						return true
					}
					continue
				}
				n, against := 0, 0
				for _, al := range as {
					if _, feasible := mergeFacts(fa, al.facts); !feasible {
						continue
					}
					n++
					if al.val.Kind() == constant.Bool && constant.BoolVal(al.val) != df.Holds {
						against++
					}
				}
				if n > 0 && against == n {
					return true
				}
			}
		}
		return false
	}
	var da bool
	if mode == "a-implies-b" {
		// a executes: its own guards hold, whatever b's facts say
		da = true
		for j := i - 1; j < len(ca); j++ {
			var st ssa.Instruction
			if j+1 < len(ca) {
				st = siteOf(ca, j+1, a)
			} else {
				st = a.Site
			}
			if st == nil || st.Parent() != ca[j].Fn {
				return false
			}
			for _, df := range dominatingFacts(st.Block()) {
				if old, dup := forced[df.Cond]; dup && old != df.Holds {
					return false
				}
				forced[df.Cond] = df.Holds
			}
		}
	} else {
		da = decide(ca, a, fb)
	}
	// every other test in the functions below the common frame that the other event's facts
	// decide (a switch arm that falls through into the site's block does not dominate it)
	sweep := func(c []*Frame, other map[string]FactT) {
		for j := i; j < len(c); j++ {
			if len(c[j].Fn.Blocks) > 40 {
				continue
			}
			for _, blk := range c[j].Fn.Blocks {
				ifi, ok := blk.Instrs[len(blk.Instrs)-1].(*ssa.If)
				if !ok {
					continue
				}
				for _, f0 := range expandCond(ifi.Cond, true, ifi) {
					if _, dup := forced[f0.Cond]; dup || !involvesEnumHelper(f0.Cond, 0) {
						continue
					}
					as, ok := w.constAlts(c[j], f0.Cond, 0)
					if !ok {
						continue
					}
					n, t := 0, 0
					for _, al := range as {
						if _, feasible := mergeFacts(other, al.facts); !feasible || al.val.Kind() != constant.Bool {
							continue
						}
						n++
						if constant.BoolVal(al.val) {
							t++
						}
					}
					if n > 0 && (t == n || t == 0) {
						forced[f0.Cond] = t == n
					} else if os.Getenv("DEBUG_COEX") != "" {
						fmt.Fprintf(os.Stderr, "      sweep: %s in %s undecided (%d of %d true)\n", f0.Cond, c[j].Fn.Name(), t, n)
						for _, al := range as {
							_, feasible := mergeFacts(other, al.facts)
							var ks []string
							for _, k := range sortedKeys(al.facts) {
								if strings.Contains(k, "Direction") || strings.Contains(k, "Transfer") {
									ks = append(ks, k)
								}
							}
							fmt.Fprintf(os.Stderr, "         alt %s feasible=%v %v\n", al.val, feasible, ks)
						}
					}
				}
			}
		}
	}
	db := decide(cb, b, fa)
	if db {
		sweep(cb, fa)
	}
	if da && mode == "both" {
		sweep(ca, fb)
	}
	if os.Getenv("DEBUG_COEX") != "" {
		fmt.Fprintf(os.Stderr, "coExecutedByFacts %s@%s / %s@%s: decide a=%v b=%v forced=%d\n", a.Kind, a.Fr.Fn.Name(), b.Kind, b.Fr.Fn.Name(), da, db, len(forced))
	}
	if !da || !db {
		return false
	}
	old := edgeFeasible
	edgeFeasible = func(blk *ssa.BasicBlock, succ int) bool {
		if ifi, ok := blk.Instrs[len(blk.Instrs)-1].(*ssa.If); ok {
			for _, f := range expandCond(ifi.Cond, true, ifi) {
				if v, has := forced[f.Cond]; has {
					// f.Holds tells whether the true edge means Cond or ¬Cond
					trueEdgeMeans := f.Holds
					return (succ == 0) == (v == trueEdgeMeans)
				}
			}
		}
		if old != nil {
			return old(blk, succ)
		}
		return true
	}
	defer func() { edgeFeasible = old }()
	// (with the guards decided, both sites lie on every remaining path to a success exit)
	m1, m2, m3 := mustBelow(ca, i, a), mustBelow(cb, i, b), mutualMust(sa, sb) || (siteMust(sa) && siteMust(sb))
	if mode == "a-implies-b" {
		// only b has to be certain once a's guards hold
		m1, m3 = true, siteMust(sb)
	}
	if os.Getenv("DEBUG_COEX") != "" {
		fmt.Fprintf(os.Stderr, "   mustBelow a=%v b=%v mutual=%v\n", m1, m2, m3)
		for c, v := range forced {
			fn := ""
			if in, ok := c.(ssa.Instruction); ok {
				fn = in.Parent().Name()
			}
			fmt.Fprintf(os.Stderr, "      forced %s [%s] = %v\n", c, fn, v)
		}
		fmt.Fprintf(os.Stderr, "      siteMust(b.Site)=%v errProp=%v\n", siteMust(b.Site), errorPropagated(entrySite(cb[len(cb)-1])))
	}
	return m1 && m2 && m3
}

// mustPassPerKind: the function of frame fr tests one computed value X against constants
// (a switch over a kind worked out up the chain). For every value X can have on this chain
// the tests are decided accordingly and every path to a success exit must pass pred.
func (w *Walker) mustPassPerKind(fr *Frame, pred func(ssa.Instruction) bool) bool {
	type test struct {
		cond ssa.Value
		c    constant.Value
		neq  bool
	}
	var scrut ssa.Value
	var tests []test
	for _, blk := range fr.Fn.Blocks {
		ifi, ok := blk.Instrs[len(blk.Instrs)-1].(*ssa.If)
		if !ok {
			continue
		}
		for _, f0 := range expandCond(ifi.Cond, true, ifi) {
			bo, ok := f0.Cond.(*ssa.BinOp)
			if !ok || (bo.Op != token.EQL && bo.Op != token.NEQ) || !involvesEnumHelper(bo, 0) {
				continue
			}
			x, y := bo.X, bo.Y
			if _, isC := x.(*ssa.Const); isC {
				x, y = y, x
			}
			c, isC := y.(*ssa.Const)
			if !isC || c.Value == nil {
				continue
			}
			if scrut != nil && scrut != x {
				return false // more than one computed value is tested: not handled
			}
			scrut = x
			tests = append(tests, test{f0.Cond, c.Value, bo.Op == token.NEQ})
		}
	}
	if scrut == nil {
		return false
	}
	as, ok := w.constAlts(fr, scrut, 0)
	if !ok || len(as) == 0 {
		return false
	}
	vals := map[string]constant.Value{}
	for _, al := range as {
		vals[al.val.ExactString()] = al.val
	}
	old := edgeFeasible
	defer func() { edgeFeasible = old }()
	for _, v := range vals {
		forced := map[ssa.Value]bool{}
		for _, t := range tests {
			if v.Kind() != t.c.Kind() {
				return false
			}
			forced[t.cond] = constant.Compare(v, token.EQL, t.c) != t.neq
		}
		edgeFeasible = func(blk *ssa.BasicBlock, succ int) bool {
			if ifi, ok := blk.Instrs[len(blk.Instrs)-1].(*ssa.If); ok {
				for _, f := range expandCond(ifi.Cond, true, ifi) {
					if fv, has := forced[f.Cond]; has {
						return (succ == 0) == (fv == f.Holds)
					}
				}
			}
			if old != nil {
				return old(blk, succ)
			}
			return true
		}
		if !mustPass(fr.Fn, pred) {
			return false
		}
	}
	return true
}

func isAddrEmptyCall(c *ssa.Call) bool {
	if c.Common().IsInvoke() || len(c.Common().Args) != 1 {
		return false
	}
	pkg, name := calleeName(c.Common())
	return pkg == "github.com/cosmos/cosmos-sdk/types" && name == "AccAddress.Empty"
}

// mustPassPerAlternatives: the function of frame fr branches on several computed flags (the
// fields of a plan record). Every consistent combination of their alternatives on this chain
// decides the tests; for each, every path to a success exit must pass pred.
func (w *Walker) mustPassPerAlternatives(fr *Frame, pred func(ssa.Instruction) bool) bool {
	var conds []ssa.Value
	var alts [][]constAlt
	for _, blk := range fr.Fn.Blocks {
		ifi, ok := blk.Instrs[len(blk.Instrs)-1].(*ssa.If)
		if !ok {
			continue
		}
		for _, f0 := range expandCond(ifi.Cond, true, ifi) {
			if !involvesEnumHelper(f0.Cond, 0) {
				continue
			}
			as, ok := w.constAlts(fr, f0.Cond, 0)
			if !ok || len(as) == 0 {
				continue
			}
			conds = append(conds, f0.Cond)
			alts = append(alts, as)
		}
	}
	if len(conds) == 0 || len(conds) > 6 {
		return false
	}
	type combo struct {
		facts map[string]FactT
		vals  []bool
	}
	// what holds where this frame is entered: combinations that contradict it cannot occur
	base := map[string]FactT{}
	if fr.Parent != nil && fr.Call != nil {
		base = factMap(w.FactsAt(fr.Parent, fr.Call))
	}
	combos := []combo{{base, nil}}
	for i := range conds {
		var next []combo
		for _, c := range combos {
			for _, al := range alts[i] {
				if al.val.Kind() != constant.Bool {
					return false
				}
				m, feasible := mergeFacts(c.facts, al.facts)
				if !feasible {
					continue
				}
				if f, has := m["false"]; has && f.Holds {
					continue // a path the bound constants rule out
				}
				if f, has := m["¬true"]; has && !f.Holds {
					continue
				}
				next = append(next, combo{m, append(append([]bool{}, c.vals...), constant.BoolVal(al.val))})
			}
		}
		if len(next) == 0 || len(next) > 128 {
			return false
		}
		combos = next
	}
	old := edgeFeasible
	defer func() { edgeFeasible = old }()
	seen := map[string]bool{}
	for _, c := range combos {
		k := fmt.Sprint(c.vals)
		if seen[k] {
			continue
		}
		seen[k] = true
		forced := map[ssa.Value]bool{}
		for i, cv := range conds {
			forced[cv] = c.vals[i]
		}
		edgeFeasible = func(blk *ssa.BasicBlock, succ int) bool {
			if ifi, ok := blk.Instrs[len(blk.Instrs)-1].(*ssa.If); ok {
				for _, f := range expandCond(ifi.Cond, true, ifi) {
					if fv, has := forced[f.Cond]; has {
						return (succ == 0) == (fv == f.Holds)
					}
				}
			}
			if old != nil {
				return old(blk, succ)
			}
			return true
		}
		if !mustPass(fr.Fn, pred) {
			if os.Getenv("DEBUG_COEX") != "" {
				fmt.Fprintf(os.Stderr, "mustPassPerAlternatives: combination %v of %d flags avoids the sites; facts %s\n", c.vals, len(conds), trunc(fmt.Sprint(sortedKeys(c.facts)), 700))
			}
			return false
		}
	}
	return true
}
