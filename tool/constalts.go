package main

// Guarded constant alternatives: what a small computed value can be, and under which facts.
//
//	type standing uint8                       // bit set: isCreator | isHolder
//	func standingIn(d, who) standing { if who.String() == d.Creator { return isCreator }; return 0 }
//	func (k Keeper) standingOn(...) standing { s := standingIn(..); if who.Equals(owner) { s |= isHolder }; return s }
//	func (s standing) mayEdit() bool { return s&isHolder != 0 }
//	if !k.standingOn(ctx, denom, id, who).mayEdit() { return errNotOwner }
//
// The condition is a function of finitely many path choices inside loop-free helpers. The
// evaluator enumerates them: every alternative is a constant together with the facts of the
// path that produces it (edge conditions of φ-nodes, the dominating facts of the return that
// yields it, in the vocabulary of the calling chain). A boolean that is not computed from
// constants is a leaf with the two alternatives {itself: true} and {itself: false}.
// What holds when the condition is true is what is common to all alternatives evaluating to
// true whose facts are not contradictory.

import (
	"fmt"
	"go/constant"
	"go/token"
	"go/types"
	"os"

	"golang.org/x/tools/go/ssa"
)

type constAlt struct {
	facts map[string]FactT
	val   constant.Value
}

const maxConstAlts = 48

func mergeFacts(a, b map[string]FactT) (map[string]FactT, bool) {
	out := make(map[string]FactT, len(a)+len(b))
	for k, v := range a {
		out[k] = v
	}
	for k, v := range b {
		out[k] = v
	}
	// the same condition with both polarities: this combination cannot happen
	for _, v := range out {
		neg := FactT{Text: v.Text, Holds: !v.Holds}
		if _, clash := out[neg.String()]; clash {
			return nil, false
		}
	}
	return out, true
}

func factMap(fs []FactT) map[string]FactT {
	m := map[string]FactT{}
	for _, f := range fs {
		m[f.String()] = f
	}
	return m
}

func isSmallConstType(t types.Type) bool {
	b, ok := t.Underlying().(*types.Basic)
	return ok && b.Info()&(types.IsInteger|types.IsBoolean) != 0
}

// involvesEnumHelper: the expression computes over a named irismod integer type or calls an
// irismod helper with such a result - the gate that keeps the evaluator off ordinary code.
func involvesEnumHelper(v ssa.Value, d int) bool {
	if d > 4 || v == nil {
		return false
	}
	if n, ok := v.Type().(*types.Named); ok && n.Obj().Pkg() != nil && isIrismodPath(n.Obj().Pkg().Path()) {
		if b, ok := n.Underlying().(*types.Basic); ok && b.Info()&types.IsInteger != 0 {
			return true
		}
	}
	// a flag / verdict kept in a field of an unexported irismod record (a plan worked out by a helper)
	planField := func(st types.Type) bool {
		if p, ok := st.Underlying().(*types.Pointer); ok {
			st = p.Elem()
		}
		n, ok := st.(*types.Named)
		return ok && n.Obj().Pkg() != nil && isIrismodPath(n.Obj().Pkg().Path()) && !n.Obj().Exported() && isSmallConstType(v.Type())
	}
	switch x := v.(type) {
	case *ssa.Field:
		return planField(x.X.Type())
	case *ssa.BinOp:
		return involvesEnumHelper(x.X, d+1) || involvesEnumHelper(x.Y, d+1)
	case *ssa.UnOp:
		if x.Op == token.MUL {
			if fa, ok := x.X.(*ssa.FieldAddr); ok {
				return planField(fa.X.Type())
			}
		}
		if x.Op == token.NOT || x.Op == token.XOR || x.Op == token.SUB {
			return involvesEnumHelper(x.X, d+1)
		}
	case *ssa.Convert:
		return involvesEnumHelper(x.X, d+1)
	case *ssa.ChangeType:
		return involvesEnumHelper(x.X, d+1)
	case *ssa.Phi:
		for _, e := range x.Edges {
			if involvesEnumHelper(e, d+1) {
				return true
			}
		}
	case *ssa.Call:
		if x.Common().IsInvoke() {
			return false
		}
		g := x.Common().StaticCallee()
		if g == nil || g.Blocks == nil || !isIrismodFunc(g) {
			return false
		}
		for _, a := range x.Common().Args {
			if involvesEnumHelper(a, d+1) {
				return true
			}
		}
	}
	return false
}

func isIrismodPath(p string) bool {
	return len(p) >= len("mods.irisnet.org") && p[:len("mods.irisnet.org")] == "mods.irisnet.org"
}

// constAlts: the alternatives of v on this chain; ok=false when v is not a finite
// combination of constants and boolean leaves.
func (w *Walker) constAlts(fr *Frame, v ssa.Value, depth int) ([]constAlt, bool) {
	if depth > 12 || v == nil {
		return nil, false
	}
	leaf := func() ([]constAlt, bool) {
		if b, ok := v.Type().Underlying().(*types.Basic); ok && b.Info()&types.IsBoolean != 0 {
			t := w.ts.Of(v, fr).LooseString()
			return []constAlt{
				{facts: factMap(withEquivalents([]FactT{{Text: t, Holds: true}})), val: constant.MakeBool(true)},
				{facts: factMap(withEquivalents([]FactT{{Text: t, Holds: false}})), val: constant.MakeBool(false)},
			}, true
		}
		return nil, false
	}
	switch x := v.(type) {
	case *ssa.Const:
		if x.Value == nil {
			if isSmallConstType(x.Type()) {
				if b := x.Type().Underlying().(*types.Basic); b.Info()&types.IsBoolean != 0 {
					return []constAlt{{facts: map[string]FactT{}, val: constant.MakeBool(false)}}, true
				}
				return []constAlt{{facts: map[string]FactT{}, val: constant.MakeInt64(0)}}, true
			}
			return nil, false
		}
		if x.Value.Kind() != constant.Int && x.Value.Kind() != constant.Bool {
			return nil, false
		}
		return []constAlt{{facts: map[string]FactT{}, val: x.Value}}, true
	case *ssa.ChangeType:
		return w.constAlts(fr, x.X, depth+1)
	case *ssa.Convert:
		if !isSmallConstType(x.Type()) || !isSmallConstType(x.X.Type()) {
			return nil, false
		}
		return w.constAlts(fr, x.X, depth+1)
	case *ssa.Parameter:
		if fr == nil || fr.Call == nil || fr.Call.Common().IsInvoke() {
			return leaf()
		}
		for i, p := range x.Parent().Params {
			if p == x && i < len(fr.Call.Common().Args) {
				if a, ok := w.constAlts(argsFrame(fr), fr.Call.Common().Args[i], depth+1); ok {
					return a, true
				}
			}
		}
		return leaf()
	case *ssa.Field:
		if as, ok := w.fieldAlts(fr, x.X, x.Field, depth+1); ok {
			return as, true
		}
		return leaf()
	case *ssa.UnOp:
		if x.Op == token.MUL {
			if fa, ok := x.X.(*ssa.FieldAddr); ok {
				if a, isAlloc := fa.X.(*ssa.Alloc); isAlloc {
					if as, ok := w.allocFieldAlts(fr, a, fa.Field, x, depth+1); ok {
						return as, true
					}
				}
			}
			if a, ok := x.X.(*ssa.Alloc); ok {
				if as, ok := w.allocFieldAlts(fr, a, -1, x, depth+1); ok {
					return as, true
				}
			}
			return leaf()
		}
		if x.Op != token.NOT && x.Op != token.XOR && x.Op != token.SUB {
			return leaf()
		}
		as, ok := w.constAlts(fr, x.X, depth+1)
		if !ok {
			return leaf()
		}
		var out []constAlt
		for _, a := range as {
			out = append(out, constAlt{a.facts, constant.UnaryOp(x.Op, a.val, 0)})
		}
		return out, true
	case *ssa.BinOp:
		xs, ok1 := w.constAlts(fr, x.X, depth+1)
		ys, ok2 := w.constAlts(fr, x.Y, depth+1)
		if !ok1 || !ok2 || len(xs)*len(ys) > maxConstAlts {
			return leaf()
		}
		var out []constAlt
		for _, a := range xs {
			for _, b := range ys {
				if a.val.Kind() != b.val.Kind() {
					return leaf()
				}
				fs, feasible := mergeFacts(a.facts, b.facts)
				if !feasible {
					continue
				}
				var r constant.Value
				switch x.Op {
				case token.EQL, token.NEQ, token.LSS, token.LEQ, token.GTR, token.GEQ:
					if a.val.Kind() == constant.Bool && x.Op != token.EQL && x.Op != token.NEQ {
						return leaf()
					}
					r = constant.MakeBool(constant.Compare(a.val, x.Op, b.val))
				case token.AND, token.OR, token.XOR, token.AND_NOT, token.ADD, token.SUB, token.MUL:
					if a.val.Kind() != constant.Int {
						return leaf()
					}
					r = constant.BinaryOp(a.val, x.Op, b.val)
				case token.SHL, token.SHR:
					n, exact := constant.Uint64Val(b.val)
					if !exact || n > 62 || a.val.Kind() != constant.Int {
						return leaf()
					}
					r = constant.Shift(a.val, x.Op, uint(n))
				default:
					return leaf()
				}
				out = append(out, constAlt{fs, r})
			}
		}
		return out, true
	case *ssa.Phi:
		var out []constAlt
		for i, e := range x.Edges {
			if i >= len(x.Block().Preds) {
				return leaf()
			}
			pred := x.Block().Preds[i]
			ef := factMap(w.blockFacts(fr, pred, 4))
			if ifi, ok := pred.Instrs[len(pred.Instrs)-1].(*ssa.If); ok && len(pred.Succs) == 2 && pred.Succs[0] != pred.Succs[1] {
				holds := pred.Succs[0] == x.Block()
				var fs []FactT
				for _, f := range expandCond(ifi.Cond, holds, ifi) {
					fs = append(fs, FactT{Text: w.ts.Of(f.Cond, fr).LooseString(), Holds: f.Holds})
					// the edge condition may itself be a computed one
					for _, ft := range w.boolValueFacts(fr, f.Cond, f.Holds, 5) {
						fs = append(fs, ft)
					}
				}
				for k, f := range factMap(withEquivalents(fs)) {
					ef[k] = f
				}
			}
			as, ok := w.constAlts(fr, e, depth+1)
			if !ok {
				return leaf()
			}
			for _, a := range as {
				fs, feasible := mergeFacts(ef, a.facts)
				if feasible {
					out = append(out, constAlt{fs, a.val})
				}
			}
			if len(out) > maxConstAlts {
				return leaf()
			}
		}
		return out, true
	case *ssa.Call, *ssa.Extract:
		var call *ssa.Call
		idx := 0
		if c, ok := x.(*ssa.Call); ok {
			call = c
		} else {
			ex := x.(*ssa.Extract)
			call, _ = ex.Tuple.(*ssa.Call)
			idx = ex.Index
		}
		if call == nil || call.Common().IsInvoke() {
			return leaf()
		}
		g := call.Common().StaticCallee()
		if g == nil || g.Blocks == nil || !isIrismodFunc(g) || onChain(fr, g) || len(g.Blocks) > 24 {
			return leaf()
		}
		if idx >= g.Signature.Results().Len() || !isSmallConstType(g.Signature.Results().At(idx).Type()) {
			return leaf()
		}
		nfr := &Frame{Fn: g, Parent: fr, Call: call, Depth: frameDepth(fr) + 1}
		var out []constAlt
		for _, r := range returnsOf(g) {
			if idx >= len(r.Results) {
				return leaf()
			}
			rf := factMap(w.blockFacts(nfr, r.Block(), 4))
			as, ok := w.constAlts(nfr, r.Results[idx], depth+1)
			if !ok {
				return leaf()
			}
			for _, a := range as {
				fs, feasible := mergeFacts(rf, a.facts)
				if feasible {
					out = append(out, constAlt{fs, a.val})
				}
			}
			if len(out) > maxConstAlts {
				return leaf()
			}
		}
		if len(out) == 0 {
			return leaf()
		}
		return out, true
	}
	return leaf()
}

// condAltFacts: what holds when the boolean v equals want, by enumeration of alternatives.
func (w *Walker) condAltFacts(fr *Frame, v ssa.Value, want bool) []FactT {
	if !involvesEnumHelper(v, 0) {
		return nil
	}
	type key struct {
		fr   *Frame
		v    ssa.Value
		want bool
	}
	if w.altMemo == nil {
		w.altMemo = map[interface{}][]FactT{}
	}
	k := key{fr, v, want}
	if got, ok := w.altMemo[k]; ok {
		return got
	}
	w.altMemo[k] = nil // re-entrancy: nothing is known while it is being computed
	as, ok := w.constAlts(fr, v, 0)
	if os.Getenv("DEBUG_ALTS") != "" {
		fmt.Fprintf(os.Stderr, "condAltFacts %s in %s want=%v ok=%v alts=%d\n", v, fr.Fn.Name(), want, ok, len(as))
		for _, a := range as {
			fmt.Fprintf(os.Stderr, "    %s  %v\n", a.val, trunc(fmt.Sprint(sortedKeys(a.facts)), 600))
		}
	}
	if !ok {
		return nil
	}
	var common map[string]FactT
	n := 0
	for _, a := range as {
		if a.val.Kind() != constant.Bool || constant.BoolVal(a.val) != want {
			continue
		}
		n++
		if common == nil {
			common = map[string]FactT{}
			for k, f := range a.facts {
				common[k] = f
			}
			continue
		}
		for k := range common {
			if _, ok := a.facts[k]; !ok {
				delete(common, k)
			}
		}
	}
	if n == 0 {
		return nil
	}
	var out []FactT
	for _, k := range sortedKeys(common) {
		out = append(out, common[k])
	}
	w.altMemo[k] = out
	return out
}

func isBoolType(t types.Type) bool {
	b, ok := t.Underlying().(*types.Basic)
	return ok && b.Info()&types.IsBoolean != 0
}

// fieldAlts: the alternatives of field idx of the struct value sv.
func (w *Walker) fieldAlts(fr *Frame, sv ssa.Value, idx int, depth int) ([]constAlt, bool) {
	if depth > 12 || sv == nil {
		return nil, false
	}
	switch x := sv.(type) {
	case *ssa.Parameter:
		if fr == nil || fr.Call == nil || fr.Call.Common().IsInvoke() {
			return nil, false
		}
		for i, p := range x.Parent().Params {
			if p == x && i < len(fr.Call.Common().Args) {
				return w.fieldAlts(argsFrame(fr), fr.Call.Common().Args[i], idx, depth+1)
			}
		}
	case *ssa.UnOp:
		if x.Op == token.MUL {
			if a, ok := x.X.(*ssa.Alloc); ok {
				return w.allocFieldAlts(fr, a, idx, x, depth+1)
			}
		}
	case *ssa.Phi:
		var out []constAlt
		for i, e := range x.Edges {
			if i >= len(x.Block().Preds) {
				return nil, false
			}
			as, ok := w.fieldAlts(fr, e, idx, depth+1)
			if !ok {
				return nil, false
			}
			ef := factMap(w.blockFacts(fr, x.Block().Preds[i], 4))
			for _, a := range as {
				if fs, feasible := mergeFacts(ef, a.facts); feasible {
					out = append(out, constAlt{fs, a.val})
				}
			}
		}
		return out, len(out) > 0 && len(out) <= maxConstAlts
	case *ssa.Call, *ssa.Extract:
		var call *ssa.Call
		ri := 0
		if c, ok := x.(*ssa.Call); ok {
			call = c
		} else {
			ex := x.(*ssa.Extract)
			call, _ = ex.Tuple.(*ssa.Call)
			ri = ex.Index
		}
		if call == nil || call.Common().IsInvoke() {
			return nil, false
		}
		g := call.Common().StaticCallee()
		if g == nil || g.Blocks == nil || !isIrismodFunc(g) || onChain(fr, g) || len(g.Blocks) > 24 {
			return nil, false
		}
		nfr := &Frame{Fn: g, Parent: fr, Call: call, Depth: frameDepth(fr) + 1}
		var out []constAlt
		for _, r := range returnsOf(g) {
			if ri >= len(r.Results) {
				return nil, false
			}
			as, ok := w.fieldAlts(nfr, r.Results[ri], idx, depth+1)
			if !ok {
				return nil, false
			}
			rf := factMap(w.blockFacts(nfr, r.Block(), 4))
			for _, a := range as {
				if fs, feasible := mergeFacts(rf, a.facts); feasible {
					out = append(out, constAlt{fs, a.val})
				}
			}
		}
		return out, len(out) > 0 && len(out) <= maxConstAlts
	}
	return nil, false
}

// allocFieldAlts: what the load `at` of field idx (idx < 0: the whole value) of the local a
// can observe: one alternative per store that reaches the load, under the facts of the store
// and of not passing through a later one; the zero value when no store must have happened.
func (w *Walker) allocFieldAlts(fr *Frame, a *ssa.Alloc, idx int, at ssa.Instruction, depth int) ([]constAlt, bool) {
	if depth > 12 || a.Referrers() == nil {
		return nil, false
	}
	var fieldSt, wholeSt []*ssa.Store
	for _, r := range *a.Referrers() {
		switch y := r.(type) {
		case *ssa.FieldAddr:
			if y.Referrers() == nil {
				continue
			}
			for _, r2 := range *y.Referrers() {
				switch z := r2.(type) {
				case *ssa.Store:
					if z.Addr == ssa.Value(y) && y.Field == idx {
						fieldSt = append(fieldSt, z)
					}
				case *ssa.UnOp, *ssa.FieldAddr:
				default:
					if y.Field == idx {
						return nil, false // the field's address escapes
					}
				}
			}
		case *ssa.Store:
			if y.Addr == ssa.Value(a) {
				wholeSt = append(wholeSt, y)
			} else {
				return nil, false // the address itself is stored somewhere
			}
		case *ssa.UnOp, *ssa.DebugRef:
		case ssa.CallInstruction:
			// passed by address: the callee may write it
			return nil, false
		default:
			return nil, false
		}
	}
	wholeSt, fieldSt = reachingStores(wholeSt, fieldSt, at)
	type surv struct {
		st    *ssa.Store
		whole bool
	}
	var ss []surv
	must := false
	for _, s := range wholeSt {
		ss = append(ss, surv{s, true})
		must = must || instrDominates(s, at)
	}
	for _, s := range fieldSt {
		ss = append(ss, surv{s, false})
		must = must || instrDominates(s, at)
	}
	// not passing through the store s2: the other arm of the test that leads to it
	avoid := func(s2 *ssa.Store) ([]FactT, bool) {
		b := s2.Block()
		if len(b.Preds) != 1 {
			return nil, false
		}
		p := b.Preds[0]
		ifi, ok := p.Instrs[len(p.Instrs)-1].(*ssa.If)
		if !ok || len(p.Succs) != 2 || p.Succs[0] == p.Succs[1] {
			return nil, false
		}
		holds := p.Succs[0] != b
		var fs []FactT
		for _, f := range expandCond(ifi.Cond, holds, ifi) {
			fs = append(fs, FactT{Text: w.ts.Of(f.Cond, fr).LooseString(), Holds: f.Holds})
		}
		return withEquivalents(fs), true
	}
	var out []constAlt
	add := func(base map[string]FactT, self *ssa.Store, as []constAlt) {
		for _, o := range ss {
			if o.st == self {
				continue
			}
			// a later store on the way to the load
			if self != nil && !(instrReaches(self, o.st) && !instrReaches(o.st, self)) {
				continue
			}
			if fs, ok := avoid(o.st); ok {
				if m, feasible := mergeFacts(base, factMap(fs)); feasible {
					base = m
				}
			}
		}
		for _, al := range as {
			if fs, feasible := mergeFacts(base, al.facts); feasible {
				out = append(out, constAlt{fs, al.val})
			}
		}
	}
	for _, s := range ss {
		var as []constAlt
		var ok bool
		if s.whole && idx >= 0 {
			as, ok = w.fieldAlts(fr, s.st.Val, idx, depth+1)
		} else {
			as, ok = w.constAlts(fr, s.st.Val, depth+1)
		}
		if !ok {
			return nil, false
		}
		for _, base := range w.pathBases(fr, s.st) {
			add(base, s.st, as)
		}
	}
	if !must {
		// zero-initialised local
		var t types.Type
		if pt, ok := a.Type().Underlying().(*types.Pointer); ok {
			t = pt.Elem()
		}
		if idx >= 0 && t != nil {
			st, ok := t.Underlying().(*types.Struct)
			if !ok || idx >= st.NumFields() {
				return nil, false
			}
			t = st.Field(idx).Type()
		}
		if t == nil || !isSmallConstType(t) {
			return nil, false
		}
		z := constant.MakeInt64(0)
		if isBoolType(t) {
			z = constant.MakeBool(false)
		}
		add(map[string]FactT{}, nil, []constAlt{{facts: map[string]FactT{}, val: z}})
	}
	return out, len(out) > 0 && len(out) <= maxConstAlts
}

// condAltFactsJoint: what holds when all the given conditions have their stated values:
// the alternatives of the conditions are combined (contradictory combinations dropped) and
// what is common to the combinations that give every condition its value is returned.
func (w *Walker) condAltFactsJoint(fr *Frame, conds []Fact) []FactT {
	if len(conds) == 1 {
		return w.condAltFacts(fr, conds[0].Cond, conds[0].Holds)
	}
	if len(conds) > 6 {
		conds = conds[len(conds)-6:]
	}
	type key struct {
		fr *Frame
		k  string
	}
	ks := ""
	for _, c := range conds {
		ks += fmt.Sprintf("%p/%v;", c.Cond, c.Holds)
	}
	if w.altMemo == nil {
		w.altMemo = map[interface{}][]FactT{}
	}
	mk := key{fr, ks}
	if got, ok := w.altMemo[mk]; ok {
		return got
	}
	w.altMemo[mk] = nil
	combos := []map[string]FactT{{}}
	any := false
	for _, c := range conds {
		as, ok := w.constAlts(fr, c.Cond, 0)
		if !ok {
			continue
		}
		var keep []constAlt
		for _, a := range as {
			if a.val.Kind() == constant.Bool && constant.BoolVal(a.val) == c.Holds {
				keep = append(keep, a)
			}
		}
		if len(keep) == 0 {
			continue // the analysis sees no way to this value: say nothing
		}
		if len(combos)*len(keep) > 256 {
			continue
		}
		var next []map[string]FactT
		for _, m := range combos {
			for _, a := range keep {
				if fs, feasible := mergeFacts(m, a.facts); feasible {
					next = append(next, fs)
				}
			}
		}
		if len(next) == 0 {
			continue
		}
		combos = next
		any = true
	}
	if !any {
		return nil
	}
	common := map[string]FactT{}
	for k, f := range combos[0] {
		common[k] = f
	}
	for _, m := range combos[1:] {
		for k := range common {
			if _, ok := m[k]; !ok {
				delete(common, k)
			}
		}
	}
	var out []FactT
	for _, k := range sortedKeys(common) {
		out = append(out, common[k])
	}
	w.altMemo[mk] = out
	return out
}

// pathBases: the facts under which the instruction executes, one set per path from the
// function's entry when the paths differ in what they decide (a store under `a || b` is
// reached with a, or with ¬a ∧ b); the dominating facts otherwise.
func (w *Walker) pathBases(fr *Frame, at ssa.Instruction) []map[string]FactT {
	dom := factMap(w.blockFacts(fr, at.Block(), 4))
	envs, complete := pathAssignments(fr.Fn, at, func(v ssa.Value) string { return w.ts.Of(v, fr).LooseString() })
	if !complete || len(envs) < 2 || len(envs) > 8 {
		return []map[string]FactT{dom}
	}
	var out []map[string]FactT
	for _, e := range envs {
		var fs []FactT
		for k, v := range e {
			fs = append(fs, FactT{Text: k, Holds: v})
		}
		m, feasible := mergeFacts(dom, factMap(withEquivalents(fs)))
		if feasible {
			out = append(out, m)
		}
	}
	if len(out) == 0 {
		return []map[string]FactT{dom}
	}
	return out
}
